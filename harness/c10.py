"""C10 — Merkle nodes never report a stale hash, whatever the mutation history."""
from __future__ import annotations

import random

import merkle_common as mc
from common import hx

PROP = "C10"
REQUIRED = [
    "Swh.C10.inv_init",
    "Swh.C10.inv_step",
    "Swh.C10.inv_run",
    "Swh.C10.no_stale_hash",
    "Swh.C10.no_stale_hash_of_no_cycle",
    "Swh.C10.no_stale_hash_final",
    "Swh.C10.fresh_spec",
    "Swh.C10.delItem_keeps_other_links",
    "Swh.C10.delItem_keeps_other_links_nested",
    "Swh.C10.delAt_removes_exactly_one",
]
RULE = (
    "operation histories over {new, set, replace, delete, bulk update, read hash, force update, read entries/model, "
    "collect, reset, contains; nested path keys} on (A) generic MerkleNode/MerkleLeaf subclasses with an injective "
    "string hash and (B) from_disk.Directory/Content built in memory; node data drawn from a small range so that "
    "structurally equal nodes and nodes shared by several parents occur; reads interleaved everywhere and all nodes "
    "read at the end; non-trivial = history with >=1 structural change after the first read; distinct by canonical JSON"
)
ASSUMPTIONS = [
    "structures stay acyclic (cyclic structures make the Python recurse without bound; excluded by hypothesis, never generated)",
    "compute_hash never returns a falsy value",
    "Python dict keeps insertion order and list.append/iteration order (exercised by the correspondence)",
]
TRUSTED = ["Python dict/list/set semantics"]
MIX = mc.MIX_C10
QUICK, THOROUGH, LEN_Q, LEN_T = 300, 5000, 60, 120


def generate(ctx, mix=None, n_quick=QUICK, n_thorough=THOROUGH):
    rng = ctx.rng
    mix = mix or MIX
    cases = []
    maxlen = LEN_Q if ctx.tier == "quick" else LEN_T
    for i in range(ctx.budget(n_quick, n_thorough)):
        kind = "A" if i % 2 == 0 else "B"
        w = mc.World(kind)
        r = random.Random(rng.randrange(2**32))
        target = r.randrange(12, maxlen + 1)
        guard = 0
        while len(w.ops) < target and guard < 10 * target:
            guard += 1
            op = w.gen_op(r, mix)
            if op is None:
                continue
            try:
                w.run_op(op)
            except Exception:
                break  # the checker will re-run and report
        ops = list(w.ops)
        ops += [["hash", i] for i in range(len(w.nodes))]
        cases.append({"kind": kind, "ops": ops})
    if mix is MIX:
        cases = replacement_matrix() + shared_child_family() + cases
        ctx.exhaustive_parts.append("shared child: an inner node under two parents (equal or different data, either attachment order) is replaced / deleted / updated away in one of them, then changed below, with every read in between")
        ctx.exhaustive_parts.append("replacement matrix: (old, new) child pairs x pre-hashed x shared x {set, nested set, update}, both kinds")
    return cases


def replacement_matrix():
    """Systematic family, part of every run: a child is replaced by another node, for every pair of
    (old, new) among equal / same-hash-different-permissions / different leaves and equal / different
    inner nodes x the new node's hash already read or not x the new node also attached elsewhere or
    not x {plain assignment, nested assignment, bulk update}; every cache of both ancestors is read
    before and after."""
    cases = []
    nm = lambda b: b.hex()
    for kind in ("A", "B"):
        if kind == "A":
            pool = [("leaf", 1), ("leaf", 1), ("leaf", 2), ("node", 1), ("node", 1), ("node", 2)]
        else:
            pool = [("leaf", 3), ("leaf", 3), ("leaf", 5), ("leaf", 7), ("leaf", 9), ("node", 2), ("node", 2), ("node", 4)]
        mk = lambda t, d: ["new", d, kind == "B" and t == "node", t == "leaf"]
        all_reads = lambda: [[t, p] for p in (0, 1) for t in (("hash", "ent", "mod") if kind == "B" else ("hash",))]
        small = {0, 2, 3, 5, 7} if kind == "B" else {0, 2, 3, 5}
        for first_reads in (("all", "ent", "mod", "none") if kind == "B" else ("all", "none")):
          # what is read BEFORE the replacement: everything, only the entry lists, only the model
          # objects, or nothing (each derived cache can be filled while the others are not)
          reads = all_reads
          pre = {"all": all_reads, "ent": lambda: [["ent", 1], ["ent", 0]], "mod": lambda: [["mod", 1], ["mod", 0]], "none": lambda: []}[first_reads]
          for io, (to, do) in enumerate(pool):
            for jn, (tn, dn) in enumerate(pool):
                if io == jn or (first_reads != "all" and not (io in small and jn in small)):
                    continue
                for pre_hash in (False, True):
                    for shared in (False, True):
                        for how in ("set", "nested", "upd"):
                            if how == "nested" and kind == "A":
                                continue
                            ops = [["new", 2 if kind == "B" else 7, kind == "B", False], ["new", 4 if kind == "B" else 8, kind == "B", False],
                                   mk(to, do), mk(tn, dn), ["new", 6 if kind == "B" else 9, kind == "B", False]]
                            for t, idx in ((to, 2), (tn, 3)):
                                if t == "node":  # give inner nodes a child of their own
                                    ops += [mk("leaf", 3 if kind == "B" else 1)]
                                    ops += [["set", idx, len([o for o in ops if o[0] == "new"]) - 1, nm(b"k")]]
                            ops += [["set", 1, 2, nm(b"x")], ["set", 0, 1, nm(b"s")]]
                            if shared:
                                ops += [["set", 4, 3, nm(b"y")]]
                            ops += pre()
                            if pre_hash:
                                ops += [["hash", 4 if shared else 3]]
                            if how == "set":
                                ops += [["set", 1, 3, nm(b"x")]]
                            elif how == "nested":
                                ops += [["set", 0, 3, nm(b"s"), nm(b"x")]]
                            else:
                                ops += [["upd", 1, [[nm(b"x"), 3]]]]
                            if first_reads in ("ent", "mod") :
                                ops += pre()
                            ops += reads()
                            n = len([o for o in ops if o[0] == "new"])
                            ops += [["hash", i] for i in range(n)]
                            cases.append({"kind": kind, "ops": ops})
    return cases


def shared_child_family():
    """Systematic family: an inner node S is attached to two parents P1, P2 (structurally equal or
    not, in either order), removed from one of them by assignment / deletion / bulk update, and then
    changed below; every hash is read before, between and after.  The parent that still holds S must
    follow every change made inside S."""
    nm = lambda b: b.hex()
    out = []
    for kind in ("A", "B"):
        B = kind == "B"
        mk = lambda d, leaf: ["new", (2 * d + (1 if leaf else 0)) if B else d, B and not leaf, leaf]
        reads = lambda ids: [[t, p] for p in ids for t in (("hash", "ent", "mod") if B else ("hash",))]
        for equal_parents in (True, False):
            for first in (0, 1):
                for drop_from in (0, 1):
                    for how in ("set", "del", "upd") + (("nested",) if B else ()):
                        for change in ("add", "del", "replace"):
                            # 0 P1, 1 P2, 2 S, 3 leaf under S, 4 replacement, 5 new leaf, 6 top (holds P1 and P2)
                            ops = [mk(1, False), mk(1 if equal_parents else 2, False), mk(3, False), mk(1, True), mk(4, False), mk(2, True), mk(9, False)]
                            ops += [["set", 2, 3, nm(b"k")]]
                            order = [0, 1] if first == 0 else [1, 0]
                            for p in order:
                                ops += [["set", p, 2, nm(b"s")]]
                            ops += [["set", 6, 0, nm(b"p1")], ["set", 6, 1, nm(b"p2")]]
                            ops += reads([6, 0, 1])
                            p = drop_from
                            if how == "set":
                                ops += [["set", p, 4, nm(b"s")]]
                            elif how == "nested":
                                ops += [["set", 6, 4, nm(b"p1" if p == 0 else b"p2"), nm(b"s")]]
                            elif how == "del":
                                ops += [["del", p, nm(b"s")]]
                            else:
                                ops += [["upd", p, [[nm(b"s"), 4]]]]
                            ops += reads([6, 0, 1])
                            if change == "add":
                                ops += [["set", 2, 5, nm(b"m")]]
                            elif change == "del":
                                ops += [["del", 2, nm(b"k")]]
                            else:
                                ops += [["set", 2, 5, nm(b"k")]]
                            ops += reads([1 - p, 6, p])
                            ops += [["set", 2, 3, nm(b"z")]] + reads([6])
                            n = len([o for o in ops if o[0] == "new"])
                            out.append({"kind": kind, "ops": ops + [["hash", i] for i in range(n)]})
    return out


def run_history(ctx, case, prop):
    """returns (world, canonical implementation outputs) and records property failures"""
    w = mc.World(case["kind"])
    outs = []
    changed_after_read = False
    read_seen = False
    for k, op in enumerate(case["ops"]):
        tag = op[0]
        present = None
        if tag == "del":
            tgt = w.resolve(op[1], [bytes.fromhex(x) for x in op[2:]]) if op[1] < len(w.nodes) else None
            parent = w.resolve(op[1], [bytes.fromhex(x) for x in op[2:-1]]) if op[1] < len(w.nodes) else None
            present = tgt is not None and parent is not None and not isinstance(parent, w.MerkleLeaf)
        try:
            out = w.run_op(op)
        except Exception as e:
            ctx.fail(case, f"operation {k} {op} ends in {type(e).__name__}: {e}", "op-crash:" + type(e).__name__, {"op_index": k})
            return w, outs, False
        outs.append(mc.canon_out(w, out))
        if tag in ("set", "del", "upd") and out == ["unit"] and read_seen:
            changed_after_read = True
        if tag == "del" and present and out != ["unit"]:
            ctx.fail(case, f"deleting an existing child (op {k} {op}) raises {out[1]}: a back-link was lost earlier", "delete-existing-raises", {"op_index": k})
            return w, outs, changed_after_read
        if tag in ("hash", "force", "ent", "mod"):
            read_seen = True
            node = w.nodes[op[1]]
            try:
                want = w.scratch(node)
            except RecursionError:
                continue
            got = out[-1] if tag in ("hash", "force", "mod") else None
            if got is not None and got != want:
                ctx.fail(case, f"op {k} {op}: reported hash differs from the hash computed from scratch", "stale-hash", {"op_index": k, "got": got if isinstance(got, str) else hx(got), "want": want if isinstance(want, str) else hx(want)})
                return w, outs, changed_after_read
            if tag in ("ent", "mod"):
                ents = out[1]
                want_e = sorted(((n_, "dir" if not isinstance(c, w.Content) else "file", int(c.data["perms"]) if isinstance(c, w.Content) else 0o040000, w.scratch(c)) for n_, c in dict.items(node)), key=lambda e: e[0] + (b"/" if e[1] == "dir" else b""))
                if [(e[0], e[1], int(e[2]), e[3]) for e in ents] != want_e:
                    ctx.fail(case, f"op {k} {op}: reported entry list / model object differs from the from-scratch one", "stale-entries", {"op_index": k})
                    return w, outs, changed_after_read
        if tag == "coll" and prop == "C14":
            pass
    return w, outs, changed_after_read


def check_cases(ctx, cases, prop="C10"):
    reqs = []
    runs = []
    for case in cases:
        w, outs, nontrivial = run_history(ctx, case, prop)
        ctx.case(case, nontrivial=nontrivial)
        ctx.count("kind=" + case["kind"])
        for op in case["ops"]:
            ctx.count("op=" + op[0] + ("/nested" if op[0] in ("set", "del", "has") and len(op) > (4 if op[0] == "set" else 3) else ""))
        for o in outs:
            if o[0] == "err":
                ctx.count("err=" + o[1])
        runs.append((w, outs))
        reqs.append({"op": "merkle_run", "ops": case["ops"], "leaf_class": mc.LEAF_CLASS if case["kind"] == "B" else 0})
    res = ctx.model(reqs)
    for case, (w, outs), r in zip(cases, runs, res):
        if "error" in r:
            if ctx.model_available:
                ctx.disagree(case, "model driver error", model=r)
            continue
        mouts = r["r"]["outs"]
        for k, (mo, io) in enumerate(zip(mouts, outs)):
            if mo[0] == "err" and mo[1] == "outOfModel":
                break  # outside the modelled fragment from here on
            try:
                cm = mc.canon_model_out(w, mo)
            except Exception as e:
                ctx.disagree(case, f"op {k}: cannot evaluate the model's output: {type(e).__name__}", model=mo, impl=io)
                break
            if cm != io:
                ctx.disagree({"kind": case["kind"], "ops": case["ops"][: k + 1]}, f"op {k} {case['ops'][k]}: model and implementation outputs differ", model=cm, impl=io)
                break


def neighbours(ctx, case):
    ops = case["ops"]
    out = []
    # same structural history, all nodes read after every prefix
    nnew = 0
    for k, op in enumerate(ops):
        if op[0] == "new":
            nnew += 1
        if op[0] in ("set", "del", "upd"):
            out.append({"kind": case["kind"], "ops": ops[: k + 1] + [["hash", i] for i in range(nnew)]})
    return out[:40]


def shrink(ctx, failure):
    """drop operations (never `new`, to keep indices) while the same kind of failure persists"""
    from common import Ctx

    case = failure["case"]
    kind = failure["kind"]
    ops = list(case["ops"])
    idx = (failure.get("detail") or {}).get("op_index")
    if idx is not None:
        ops = ops[: idx + 1]
    changed = True
    while changed:
        changed = False
        for i in reversed(range(len(ops))):
            if ops[i][0] == "new":
                continue
            cand = {"kind": case["kind"], "ops": ops[:i] + ops[i + 1 :]}
            c2 = Ctx(ctx.prop, ctx.tier, ctx.seed)
            c2.model_available = False
            try:
                run_history(c2, cand, ctx.prop)
            except Exception:
                continue
            if any(f["kind"] == kind for f in c2.failures):
                ops = cand["ops"]
                changed = True
                break
    return {"kind": case["kind"], "ops": ops}
