"""C08 — SWHID text round trip: printing then parsing returns the same identifier."""
from __future__ import annotations

import itertools

import swhid_common as sc
from common import cps, hx, uncps, unhx

REQUIRED = [
    "Swh.C08.unquote_escapeOrigin",
    "Swh.C08.unquoteToBytes_quote",
    "Swh.C08.origin_text_safe",
    "Swh.C08.path_text_safe",
    "Swh.C08.lines_roundtrip",
    "Swh.C08.parse_print",
    "Swh.C08.print_in_grammar",
    "Swh.C08.print_shape",
    "Swh.C08.to_extended_text",
    "Swh.C08.to_qualified_text",
]
RULE = (
    "values of the three classes: all object types x random/extreme ids x all 32 qualifier subsets x origins drawn from "
    "code points that matter (; % = : #, %3B, %25, %zz, non-ASCII, astral, combining) x paths over all 256 byte values "
    "(every single byte, boundary palette) x lines 0, small, 10^18, 10^40, up to 4300 digits; non-trivial = qualified "
    "value with >=1 qualifier, or any extended/core value with a non-zero id; distinct by canonical JSON"
)
ASSUMPTIONS = [
    "re (fullmatch, \\S) and urllib.parse (quote_from_bytes, unquote, unquote_to_bytes) are modelled contracts, compared "
    "with the implementation on every run",
    "Python str without lone surrogates (List Char)",
    "line numbers have at most 4300 digits (CPython's int<->str limit; see known finding on C09)",
]
TRUSTED = ["re", "urllib.parse", "attrs converters/validators of the SWHID classes"]


def generate(ctx):
    rng = ctx.rng
    cases = []
    subsets = []
    for r in range(6):
        for sub in itertools.combinations(sc.KEYS, r):
            subsets.append(list(sub))
    # every single path byte, every qualifier subset
    for b in range(256):
        cases.append(sc.gen_value(rng, "qualified", subset=["path"] + ([rng.choice(["origin", "lines"])] if b % 3 == 0 else []), i=b))
    for sub in subsets:
        for _ in range(ctx.budget(3, 40)):
            cases.append(sc.gen_value(rng, "qualified", subset=sub))
    for _ in range(ctx.budget(150, 3000)):
        cases.append(sc.gen_value(rng))
    return cases


def independent_text_ok(cls, text):
    """documented grammar, lower-case hex id, qualifiers in the fixed order, ';' and '%' only as escapes"""
    if not sc.in_language(cls, text):
        return "printed text is outside the documented grammar"
    if cls == "qualified" and ";" in text:
        chunks = text.split(";")[1:]
        keys = [c.partition("=")[0] for c in chunks]
        if keys != [k for k in sc.KEYS if k in keys] or len(set(keys)) != len(keys):
            return "qualifiers are not printed once each in the order origin, visit, anchor, path, lines"
        for c in chunks:
            k, _, v = c.partition("=")
            if k in ("origin", "path"):
                i = 0
                while i < len(v):
                    if v[i] == "%":
                        if not (i + 2 < len(v) + 0 and all(x in "0123456789ABCDEFabcdef" for x in v[i + 1 : i + 3]) and len(v[i + 1 : i + 3]) == 2):
                            return f"raw '%' inside the {k} qualifier"
                        i += 3
                    else:
                        i += 1
    return None


def check_cases(ctx, cases):
    sc.check_space_table(ctx)
    reqs = []
    impls = []
    for case in cases:
        cls = case["cls"]
        nt = (cls == "qualified" and any(case.get(k) is not None for k in sc.KEYS)) or (cls != "qualified" and case["base"]["id"] != "00" * 20)
        ctx.case(case, nontrivial=nt)
        ctx.count("cls=" + cls)
        if cls == "qualified":
            ctx.count("nqual=%d" % sum(1 for k in sc.KEYS if case.get(k) is not None))
        try:
            v = sc.build_value(case)
        except Exception as e:
            ctx.fail(case, f"constructing a valid value raises {type(e).__name__}: {e}", "construct-raises")
            impls.append(None)
            reqs.append({"op": "ping"})
            continue
        try:
            text = str(v)
        except AssertionError as e:
            ctx.fail(case, f"printing raises AssertionError: {e}", "print-assertion")
            impls.append(None)
            reqs.append({"op": "ping"})
            continue
        impls.append((v, text))
        reqs.append(dict(case, op="swhid_print"))
        # ---------------- oracle on the implementation
        origin = uncps(case.get("origin")) if cls == "qualified" else None
        has_space = origin is not None and any(ord(c) in sc.PY_SPACE_SET for c in origin)
        if not has_space:
            why = independent_text_ok(cls, text)
            if why:
                ctx.fail(case, why, "text-not-in-grammar", {"text": text[:200]})
        st, back = sc.parse_impl(cls, text)
        if st != "ok":
            if not has_space:
                ctx.fail(case, f"parsing the printed text fails ({back})", "print-then-parse-fails", {"text": text[:200]})
        elif back != v or sc.value_json(cls, back) != sc.value_json(cls, v):
            ctx.fail(case, "parsing the printed text returns a different value", "print-then-parse-differs", {"text": text[:200]})
        if cls == "core":
            e, q = v.to_extended(), v.to_qualified()
            if str(e) != text or str(q) != text or e.object_id != v.object_id or q.object_id != v.object_id:
                ctx.fail(case, "to_extended()/to_qualified() change the text or the id", "conversion-changes-text")
    res = ctx.model(reqs)
    for case, r, im in zip(cases, res, impls):
        if im is None:
            continue
        if "error" in r:
            if ctx.model_available:
                ctx.disagree(case, "model driver error", model=r)
            continue
        v, text = im
        m = r["r"]
        if uncps(m["text"]) != text:
            ctx.disagree(case, "printed text: model vs implementation", model=uncps(m["text"]), impl=text)
            continue
        st, back = sc.parse_impl(case["cls"], text)
        mb = m["back"]
        if st == "ok":
            if not isinstance(mb, dict) or mb != sc.value_json(case["cls"], back):
                ctx.disagree(case, "parse(print(v)): model vs implementation", model=mb, impl=sc.value_json(case["cls"], back))
        elif isinstance(mb, dict) or mb != back:
            ctx.disagree(case, "parse(print(v)) outcome: model vs implementation", model=mb, impl=back)
        if case["cls"] == "core" and m["conv"] is not None:
            if uncps(m["conv"]["ext"]) != str(v.to_extended()) or uncps(m["conv"]["qual"]) != str(v.to_qualified()):
                ctx.disagree(case, "to_extended/to_qualified text: model vs implementation", model=m["conv"])


def neighbours(ctx, case):
    out = []
    if case["cls"] == "qualified":
        for k in sc.KEYS:
            if case.get(k) is not None:
                out.append(dict(case, **{k: None}))
    return out
