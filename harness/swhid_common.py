"""Shared pieces for C08 (print∘parse) and C09 (accepted language) — SWHIDs."""
from __future__ import annotations

from common import time_limit, cps, exc_kind, hx, uncps, unhx

CORE_TYPES = ["snp", "rel", "rev", "dir", "cnt"]
EXT_TYPES = CORE_TYPES + ["ori", "emd"]
KEYS = ["origin", "visit", "anchor", "path", "lines"]
ANCHOR_TYPES = ["dir", "rev", "rel", "snp"]
# Python `re` \s on str (checked against `re` over every code point on every run)
PY_SPACE = [9, 10, 11, 12, 13, 28, 29, 30, 31, 32, 133, 160, 5760] + list(range(8192, 8203)) + [8232, 8233, 8239, 8287, 12288]
PY_SPACE_SET = set(PY_SPACE)
HEX = "0123456789abcdef"


def classes():
    from swh.model import swhids

    return {"core": swhids.CoreSWHID, "extended": swhids.ExtendedSWHID, "qualified": swhids.QualifiedSWHID}


# ------------------------------------------------------------------ independent recogniser (no re, no int)


def is_core_text(s: str, types) -> bool:
    if not s.startswith("swh:1:"):
        return False
    rest = s[6:]
    if len(rest) != 3 + 1 + 40:
        return False
    if rest[:3] not in types or rest[3] != ":":
        return False
    return all(c in HEX for c in rest[4:])


def all_ascii_digits(s: str) -> bool:
    return len(s) > 0 and all(c in "0123456789" for c in s)


def in_language(cls: str, s: str) -> bool:
    if cls == "core":
        return is_core_text(s, CORE_TYPES)
    if cls == "extended":
        return is_core_text(s, EXT_TYPES)
    head, sep, rest = s.partition(";")
    if not is_core_text(head, CORE_TYPES):
        return False
    if not sep:
        return True
    if rest == "" or any(ord(c) in PY_SPACE_SET for c in rest):
        return False
    last = {}
    for chunk in rest.split(";"):
        if "=" not in chunk:
            return False
        k, _, v = chunk.partition("=")
        if k not in KEYS:
            return False
        last[k] = v
    if "visit" in last and not is_core_text(last["visit"], ["snp"]):
        return False
    if "anchor" in last and not is_core_text(last["anchor"], ANCHOR_TYPES):
        return False
    if "lines" in last:
        v = last["lines"]
        if "-" in v:
            a, _, b = v.partition("-")
            if not (all_ascii_digits(a) and all_ascii_digits(b)):
                return False
        elif not all_ascii_digits(v):
            return False
    return True


def max_digit_run(s: str) -> int:
    best = cur = 0
    for c in s:
        if c in "0123456789":
            cur += 1
            best = max(best, cur)
        else:
            cur = 0
    return best


# ------------------------------------------------------------------ value <-> JSON


def base_json(v):
    if v is None:
        return None
    return {"type": cps(v.object_type.value), "id": hx(v.object_id)}


def value_json(cls: str, v):
    d = {"cls": cls, "base": base_json(v)}
    if cls == "qualified":
        d["origin"] = cps(v.origin)
        d["visit"] = base_json(v.visit)
        d["anchor"] = base_json(v.anchor)
        d["path"] = hx(v.path)
        d["lines"] = None if v.lines is None else [v.lines[0], v.lines[1]]
    return d


def build_value(d):
    from swh.model import swhids

    def core(b):
        if b is None:
            return None
        return swhids.CoreSWHID(object_type=swhids.ObjectType(uncps(b["type"])), object_id=unhx(b["id"]))

    cls = d["cls"]
    b = d["base"]
    if cls == "core":
        return core(b)
    if cls == "extended":
        return swhids.ExtendedSWHID(object_type=swhids.ExtendedObjectType(uncps(b["type"])), object_id=unhx(b["id"]))
    kw = {}
    if d.get("origin") is not None:
        kw["origin"] = uncps(d["origin"])
    if d.get("visit") is not None:
        kw["visit"] = core(d["visit"])
    if d.get("anchor") is not None:
        kw["anchor"] = core(d["anchor"])
    if d.get("path") is not None:
        kw["path"] = unhx(d["path"])
    if d.get("lines") is not None:
        kw["lines"] = (d["lines"][0], d["lines"][1])
    return swhids.QualifiedSWHID(object_type=swhids.ObjectType(uncps(b["type"])), object_id=unhx(b["id"]), **kw)


def parse_impl(cls: str, s: str):
    """('ok', value) | ('err', kind)"""
    C = classes()[cls]
    try:
        with time_limit(10):
            return ("ok", C.from_string(s))
    except BaseException as e:  # noqa: B902
        return ("err", exc_kind(e))


def check_space_table(ctx):
    """the 29-code-point table == `re` \\s over every code point (also the driver's isPySpace)"""
    import re

    pat = re.compile(r"\s")
    got = [cp for cp in range(0x110000) if not (0xD800 <= cp <= 0xDFFF) and pat.fullmatch(chr(cp))]
    if got != PY_SPACE:
        ctx.disagree({"kind": "space-table"}, "Python re \\s differs from the modelled whitespace table", model=PY_SPACE, impl=got)
    r = ctx.model([{"op": "swhid_codec", "f": "space"}])[0]
    if "r" in r and r["r"]["cps"] != got:
        ctx.disagree({"kind": "space-table"}, "Lean isPySpace differs from re \\s", model=r["r"]["cps"], impl=got)
    ctx.exhaustive_parts.append("whitespace table over all 1 114 112 code points")


# ------------------------------------------------------------------ generators

ORIGIN_ALPHABET = [";", "%", "=", ":", "#", "/", "?", "&", "%3B", "%25", "%zz", "%2", "%", "a", "Z", "0", "é", "日", "𝄞", "é", "http://", "x.org", "~", "+", "-", "_", ".", "%41", "%c3%a9", "%ff", "%C3",
                   # control characters that are not whitespace (the grammar only excludes whitespace)
                   "\x00", "\x01", "\x1b", "\x7f", "\x08", "\x0e", "\u200b", "\ufeff", "\x9f"]
SPACE_SAMPLES = [chr(c) for c in PY_SPACE]


def gen_origin(rng, allow_space=False):
    n = rng.choice([0, 1, 2, 3, 5, 8])
    parts = [rng.choice(ORIGIN_ALPHABET) for _ in range(n)]
    if allow_space and rng.random() < 0.5:
        parts.insert(rng.randrange(len(parts) + 1), rng.choice(SPACE_SAMPLES))
    return "".join(parts)


def gen_path(rng, i=None):
    if i is not None and i < 256:
        return bytes([i])
    r = rng.random()
    pal = [0x00, 0x20, 0x25, 0x3B, 0x3D, 0x2F, 0x7E, 0x7F, 0x80, 0xFF, 0x41, 0x61, 0x30, 0x2E, 0x2D, 0x5F, 0x0A]
    if r < 0.4:
        return bytes(rng.choice(pal) for _ in range(rng.randrange(0, 5)))
    return bytes(rng.randrange(256) for _ in range(rng.randrange(0, 12)))


def gen_id(rng):
    r = rng.random()
    if r < 0.1:
        return bytes(20)
    if r < 0.2:
        return b"\xff" * 20
    return bytes(rng.randrange(256) for _ in range(20))


def gen_lines(rng):
    r = rng.random()
    big = rng.choice([0, 1, 5, 10, 99, 10**18, 10**40, 10**4299, 10**4300 - 1])
    if r < 0.5:
        return [big, None]
    return [rng.choice([0, 1, 7, big]), rng.choice([0, 2, 10, big])]


def gen_value(rng, cls=None, subset=None, allow_space=False, i=None):
    cls = cls or rng.choice(["core", "extended", "qualified", "qualified"])
    types = EXT_TYPES if cls == "extended" else CORE_TYPES
    d = {"cls": cls, "base": {"type": cps(rng.choice(types)), "id": hx(gen_id(rng))}}
    if cls == "qualified":
        if subset is None:
            subset = [k for k in KEYS if rng.random() < 0.5]
        d["origin"] = cps(gen_origin(rng, allow_space)) if "origin" in subset else None
        d["visit"] = {"type": cps("snp"), "id": hx(gen_id(rng))} if "visit" in subset else None
        d["anchor"] = {"type": cps(rng.choice(ANCHOR_TYPES)), "id": hx(gen_id(rng))} if "anchor" in subset else None
        d["path"] = hx(gen_path(rng, i)) if "path" in subset else None
        d["lines"] = gen_lines(rng) if "lines" in subset else None
    return d
