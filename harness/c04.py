"""C04 — release ids are git tag ids for every field combination."""
from __future__ import annotations

import hashlib

import gitfmt
from common import hx, unhx

REQUIRED = [
    "Swh.C04.parseTag_releaseManifest",
    "Swh.C04.releaseManifest_injective",
    "Swh.C04.targetTypeToGit_table",
    "Swh.C04.targetTypeToGit_injective",
    "Swh.C04.date_needs_tagger",
]
RULE = (
    "releases over 5 target types x tagger present/absent x date present/absent (incl. tagger without date) x message "
    "None/empty/arbitrary; names, taggers and messages over arbitrary bytes including newlines and NULs; dates as in C03; "
    "non-trivial = every case (each has a name and a target); distinct by canonical JSON"
)
ASSUMPTIONS = [
    "SHA-1 uninterpreted in theorems; manifests hashed by hashlib in the harness",
    "a release without a target has no tag manifest and is outside the statement ('any name and target')",
]
TRUSTED = ["attrs construction of Release/Person/TimestampWithTimezone", "git 2.39.5 and dulwich (oracle role only)"]

TTYPES = ["content", "directory", "revision", "release", "snapshot"]
GIT_TYPE = {"content": b"blob", "directory": b"tree", "revision": b"commit", "release": b"tag", "snapshot": b"refs"}
TAGNAMES = [b"v1.0", b"", b"a\nb", b" lead", b"\xc3\xa9", b"x\x00y", b"refs/tags/v1", b"tagger x", b"\n", b"v1\n"]


def gen_case(rng, gitlike=False):
    has_author = gitlike or rng.random() < 0.7
    author = gitfmt.gen_person(rng, canonical=gitlike) if has_author else None
    date = gitfmt.gen_date(rng, canonical=gitlike, integer=gitlike) if has_author and (gitlike or rng.random() < 0.7) else None
    name = rng.choice(TAGNAMES[:1] if gitlike else TAGNAMES) if rng.random() < 0.6 else gitfmt.gen_bytes(rng, 0, 20, alphabet=b"ab/.-v1 \n")
    if gitlike:
        name = name.replace(b"\n", b"").replace(b" ", b"") or b"v"
    return {
        # ("any name and target": the model does not fix the length of a release's target)
        "target": hx(bytes(rng.randrange(256) for _ in range(20 if gitlike or rng.random() < 0.85 else rng.choice([0, 0, 1, 19, 21, 32])))),
        "ttype": rng.choice(TTYPES[:4] if gitlike else TTYPES),
        "name": hx(name),
        "author": hx(author),
        "date": date,
        "message": hx(gitfmt.gen_message(rng)),
        "gitlike": gitlike,
    }


def generate(ctx):
    rng = ctx.rng
    return [gen_case(rng, gitlike=(i % 5 == 0)) for i in range(ctx.budget(350, 6000))]


def build(case, variant=0):
    from swh.model import model

    def person(b):
        if b is None:
            return None
        fn = unhx(b)
        if variant:
            return model.Person(fullname=fn, name=b"Other", email=b"o@o")
        return model.Person(fullname=fn, name=None, email=None)

    return model.Release(
        name=unhx(case["name"]),
        message=unhx(case["message"]),
        target=unhx(case["target"]),
        target_type=model.ReleaseTargetType(case["ttype"]),
        synthetic=bool(variant),
        author=person(case["author"]),
        date=gitfmt.py_date(case["date"]),
        metadata=METADATA_VARIANTS[variant],
    )


# metadata that must never reach the manifest — including keys that mean something elsewhere in the
# library (the legacy place of a revision's extra headers, field names of the tag itself)
METADATA_VARIANTS = [None, {"x": 1}, {"extra_headers": [[b"encoding", b"latin-1"], [b"gpgsig", b"a\nb"]]},
                     {"message": "m", "author": {"fullname": b"X"}, "date": 1, "target": b"t", "name": b"n", "id": b"i", "raw_manifest": b"r"},
                     {}]


def expected_headers(case):
    hs = [(b"object", case["target"].encode()), (b"type", GIT_TYPE[case["ttype"]]), (b"tag", unhx(case["name"]))]
    if case["author"] is not None:
        hs.append((b"tagger", gitfmt.indep_person_line(unhx(case["author"]), case["date"])))
    return hs


def check_cases(ctx, cases):
    from swh.model import git_objects
    import dulwich.objects

    reqs = []
    impls = []
    for ci, case in enumerate(cases):
        rel = build(case)
        man = git_objects.release_git_object(rel)
        impls.append((man, rel.id))
        ctx.case(case, nontrivial=True)
        ctx.count("ttype=" + case["ttype"])
        ctx.count("tagger=%s%s" % ("T" if case["author"] is not None else "-", "d" if case["date"] else "-"))
        ctx.count("message=" + ("none" if case["message"] is None else ("empty" if case["message"] == "" else "bytes")))
        reqs.append({"op": "rel_manifest", "target": case["target"], "ttype": hx(case["ttype"].encode()), "name": case["name"],
                     "author": case["author"], "date": case["date"], "message": case["message"]})
        reqs.append({"op": "tag_parse", "bytes": hx(man)})

        hs = expected_headers(case)
        want = gitfmt.indep_headers_object(b"tag", hs, unhx(case["message"]))
        if man != want:
            ctx.fail(case, "manifest is not the git tag object for these fields", "manifest-not-git-tag", {"impl": hx(man), "oracle": hx(want)})
        if rel.id != hashlib.sha1(man).digest():
            ctx.fail(case, "Release.id is not the SHA-1 of the tag object", "id-not-sha1-of-manifest")
        if str(rel.swhid()) != "swh:1:rel:" + rel.id.hex():
            ctx.fail(case, "swhid() does not carry the id", "swhid-mismatch")
        ctx.count("target-bytes=%d" % (len(case["target"]) // 2))
        if len(case["target"]) == 40:   # (a SWHID needs a 20-byte id)
            tsw = rel.target_swhid()
            tag = {"content": "cnt", "directory": "dir", "revision": "rev", "release": "rel", "snapshot": "snp"}[case["ttype"]]
            if str(tsw) != f"swh:1:{tag}:" + case["target"]:
                ctx.fail(case, "target_swhid() wrong", "target-swhid")
        try:
            phs, pmsg = gitfmt.indep_parse_headers(man, b"tag")
            if phs != hs or pmsg != unhx(case["message"]):
                ctx.fail(case, "independent tag parser does not recover the fields", "parse-mismatch")
        except Exception as e:
            ctx.fail(case, f"independent tag parser fails: {type(e).__name__}", "parse-error")
        for variant in range(1, len(METADATA_VARIANTS)):
            if build(case, variant=variant).id != rel.id:
                ctx.fail(case, "synthetic/metadata/name/email influence the id", "non-tag-attribute-influences-id", {"metadata": repr(METADATA_VARIANTS[variant])[:200]})
                break
        # a raw manifest taken on and dropped again through evolve(): the id follows each time
        try:
            raw_ = b"tag object kept verbatim\n" + man[:20]
            r1_ = rel.evolve(raw_manifest=raw_)
            r2_ = r1_.evolve(raw_manifest=None)
            if r1_.id != hashlib.sha1(raw_).digest() or r2_.id != rel.id or r2_.raw_manifest is not None or r2_ != rel:
                ctx.fail(case, "taking on a raw manifest and dropping it again through evolve() does not give back the release with the id of its own tag object", "evolve-raw-manifest-id-stale")
        except Exception as e:
            ctx.fail(case, f"evolve(raw_manifest=...) raises {type(e).__name__}", "evolve-raw-manifest-raises")
        # the (deprecated, still accepted) dictionary form of the argument gives the same manifest
        import warnings

        with warnings.catch_warnings():
            warnings.simplefilter("ignore")
            try:
                if git_objects.release_git_object(rel.to_dict()) != man:
                    ctx.fail(case, "release_git_object gives another manifest for the dictionary form of the same release", "dict-form-differs")
            except Exception as e:
                ctx.fail(case, f"release_git_object rejects the dictionary form: {type(e).__name__}", "dict-form-raises")
        if case.get("gitlike"):
            body = man[man.index(b"\x00") + 1 :]
            try:
                dt = dulwich.objects.Tag.from_string(body)
                ok = (dt.id == rel.id.hex().encode() and dt.object[1] == case["target"].encode() and dt.name == unhx(case["name"])
                      and dt.tagger == unhx(case["author"]) and dt.tag_time == case["date"]["s"]
                      and (dt.message == unhx(case["message"]) or (case["message"] is None and not dt.message)))
                ctx.count("dulwich-parse")
                if not ok:
                    ctx.fail(case, "dulwich parses the tag to different fields", "dulwich-mismatch")
            except Exception as e:
                ctx.fail(case, f"dulwich cannot parse the tag: {type(e).__name__}: {e}", "dulwich-error")
            if ctx.tier == "thorough" or ci % 10 == 0:
                gid = gitfmt.git_hash_object("tag", body)
                ctx.count("git-hash-object")
                if gid is not None and gid != rel.id.hex():
                    ctx.fail(case, "git hash-object -t tag computes another id", "git-mismatch")

    res = ctx.model(reqs)
    for ci, case in enumerate(cases):
        r1, r2 = res[2 * ci], res[2 * ci + 1]
        man, rid = impls[ci]
        if "error" in r1 or "error" in r2:
            if ctx.model_available:
                ctx.disagree(case, "model driver error", model=[r1, r2])
            continue
        mm = unhx(r1["r"]["manifest"])
        if mm != man:
            ctx.disagree(case, "release_git_object: model vs implementation", model=hx(mm), impl=hx(man))
        elif hashlib.sha1(mm).digest() != rid:
            ctx.disagree(case, "Release.id != sha1(model manifest)")
        p = r2["r"]["parsed"]
        want = {
            "object": hx(case["target"].encode()),
            "type": hx(GIT_TYPE[case["ttype"]]),
            "tag": case["name"],
            "tagger": None if case["author"] is None else hx(gitfmt.indep_person_line(unhx(case["author"]), case["date"])),
            "message": case["message"],
        }
        if p != want:
            ctx.disagree(case, "Lean parseTag on the implementation's manifest does not return the fields", model=p, impl=want)


def neighbours(ctx, case):
    out = []
    for t in TTYPES:
        out.append(dict(case, ttype=t))
    if case["author"] is not None:
        out.append(dict(case, author=None, date=None))
        out.append(dict(case, date=None))
    out.append(dict(case, message=None))
    out.append(dict(case, message=""))
    return out
