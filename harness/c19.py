"""C19 — repairing duplicated directory entries always succeeds and keeps the id."""
from __future__ import annotations

import hashlib

from common import ImplementationHang, hx, unhx, exc_kind

REQUIRED = [
    "Swh.C19.names_unique",
    "Swh.C19.repair_total",
    "Swh.C19.entries_preserved",
    "Swh.C19.flag_iff_dup",
    "Swh.C19.winner_keeps_name",
    "Swh.C19.id_of_original",
    "Swh.C19.no_dup_unchanged",
    "Swh.C19.repaired_manifest_ne",
    "Swh.C19.repaired_check_ok",
    "Swh.C19.repaired_check_ok_of_injective",
]
RULE = (
    "entry sequences with multiplicities 1-5 of equal names, equal (name,type,target) triples, all three types mixed, "
    "names equal to another entry's would-be replacement name (and its '_1' successor), targets sharing their first "
    "five bytes, names sorting between a repeated name and its directory form; non-trivial = at least one repeated name; distinct by canonical JSON"
)
ASSUMPTIONS = [
    "SHA-1 uninterpreted in theorems; 'check passes' is proved from 'the repaired manifest differs from the original' "
    "plus no collision on that pair",
]
TRUSTED = ["attrs construction/evolve of Directory and DirectoryEntry", "Python dict insertion order, stable sorted()"]

RANK = {"rev": 0, "dir": 1, "file": 2}
PERMS = {"file": [0o100644, 0o100755, 0o120000], "dir": [0o040000], "rev": [0o160000]}


def gen_case(rng):
    targets = [bytes([t]) * 20 for t in (1, 2)] + [bytes([1] * 5 + [7] * 15), bytes(rng.randrange(256) for _ in range(20))]
    base = [b"a", b"b", b"a.", b"\xff", b"x y", b"100%", b"%s", b"%(x)d", b"%%", b"{}", b"\\1"]
    names = list(base)
    for t in targets[:3]:
        for b in base[:2]:
            names.append(b + b"_" + t.hex().encode()[:10])
            names.append(b + b"_" + t.hex().encode()[:10] + b"_1")
    n = rng.choice([1, 2, 3, 3, 4, 5, 6, 8, 12])
    pool = rng.sample(names, rng.randrange(1, 5))
    if rng.random() < 0.35:
        # a name together with names that sort between it and its directory form "name/"
        # (next byte below 0x2f), so that equal names are not neighbours in git tree order
        stem = rng.choice([b"a", b"lib", b"\xff"])
        pool = [stem, stem] + rng.sample([stem + b".", stem + b"-x", stem + b" ", stem + b"+", stem + b".txt", stem + b"0", stem + b"/"[:0] + b"_"], rng.randrange(1, 4))
    es = []
    for _ in range(n):
        ty = rng.choice(["file", "file", "dir", "rev"])
        es.append({"name": hx(rng.choice(pool)), "type": ty, "perms": rng.choice(PERMS[ty]), "target": hx(rng.choice(targets))})
    if rng.random() < 0.2 and es:
        es.append(dict(rng.choice(es)))  # an exact duplicate triple
    return {"entries": es}


def generate(ctx):
    rng = ctx.rng
    cases = [
        {"entries": [{"name": "61", "type": "file", "perms": 0o100644, "target": "01" * 20}, {"name": "61", "type": "file", "perms": 0o100644, "target": "02" * 20}, {"name": "61", "type": "file", "perms": 0o100644, "target": "02" * 20}]},
        {"entries": [{"name": "61", "type": "file", "perms": 0o100644, "target": "01" * 20}, {"name": "61", "type": "dir", "perms": 0o040000, "target": "02" * 20}, {"name": hx(b"a_0101010101"), "type": "file", "perms": 0o100644, "target": "03" * 20}]},
    ]
    # every kind of awkward name pushed all the way to the numbered fallback: three or four entries of
    # one name whose renamed copies share the first five target bytes (and one taken numbered name)
    t0, t1, t2 = "01" * 20, "01" * 5 + "07" * 15, "01" * 5 + "09" * 15
    for nm in (b"a", b"100%", b"%s", b"%(x)d", b"%%", b"{}", b"{0}", b"\\1", b"\xff", b"a b", b"$x"):
        for kinds in (("file", "file", "file"), ("rev", "dir", "file", "file"), ("dir", "dir", "dir", "dir")):
            es = [{"name": hx(nm), "type": k, "perms": PERMS[k][0], "target": t} for k, t in zip(kinds, (t0, t1, t2, t1))]
            cases.append({"entries": es})
            cases.append({"entries": es + [{"name": hx(nm + b"_0101010101_1"), "type": "file", "perms": 0o100644, "target": "02" * 20}]})
    for _ in range(ctx.budget(400, 8000)):
        cases.append(gen_case(rng))
    return cases


def oracle_manifest_stable(es):
    """git tree object of the ORIGINAL list: stable sort by (name + '/' for directories)"""
    key = lambda e: e[0] + b"/" if e[1] == "dir" else e[0]
    body = b""
    for n, t, p, g in sorted(es, key=key):  # Python's sort is stable, as is the code's
        body += oct(p)[2:].encode() + b" " + n + b"\x00" + g
    return b"tree %d\x00" % len(body) + body


def check_cases(ctx, cases):
    from swh.model import model

    reqs = []
    impls = []
    for case in cases:
        es = [(unhx(e["name"]), e["type"], e["perms"], unhx(e["target"])) for e in case["entries"]]
        names = [e[0] for e in es]
        dup = len(set(names)) != len(names)
        ctx.case(case, nontrivial=dup)
        ctx.count("dup=%s" % dup)
        ctx.count("max_mult=%d" % max([names.count(x) for x in names] or [0]))
        entries = tuple(model.DirectoryEntry(name=n, type=t, perms=p, target=g) for n, t, p, g in es)
        reqs.append({"op": "dedup", "entries": case["entries"]})
        try:
            with ctx.time_limit(5):
                flag, d = model.Directory.from_possibly_duplicated_entries(entries=entries)
        except ImplementationHang as e:
            ctx.fail(case, f"the repair constructor does not return ({e})", "repair-does-not-terminate")
            impls.append(None)
            continue
        except Exception as e:
            ctx.fail(case, f"the repair constructor raises {type(e).__name__}: {e}", "repair-raises:" + exc_kind(e))
            impls.append(None)
            continue
        out = [(e.name, e.type, e.perms, e.target) for e in d.entries]
        impls.append((flag, out, d.raw_manifest, d.id))
        # ---------------- property oracle
        if flag != dup:
            ctx.fail(case, "flag is not 'some name was repeated'", "flag-wrong")
        onames = [e[0] for e in out]
        if len(set(onames)) != len(onames):
            ctx.fail(case, "entry names are not unique after the repair", "names-not-unique")
        if sorted((t, p, g) for _, t, p, g in out) != sorted((t, p, g) for _, t, p, g in es):
            ctx.fail(case, "an original entry (type, perms, target) is lost or changed", "entry-lost")
        # at most renamed: match each output entry to an input entry with the same triple and a prefix name
        pool = list(es)
        okmatch = True
        for n2, t2, p2, g2 in sorted(out, key=lambda e: -len(e[0])):
            cand = [e for e in pool if (e[1], e[2], e[3]) == (t2, p2, g2) and n2.startswith(e[0])]
            if not cand:
                okmatch = False
                break
            cand.sort(key=lambda e: -len(e[0]))
            pool.remove(cand[0])
        if not okmatch:
            ctx.fail(case, "an output entry is not an input entry with at most a suffix added to its name", "not-a-rename")
        for x in set(names):
            best = min(RANK[e[1]] for e in es if e[0] == x)
            keep = [e for e in out if e[0] == x]
            if len(keep) != 1 or RANK[keep[0][1]] != best or keep[0] not in es:
                ctx.fail(case, "no entry of the most important kind keeps the original name", "winner-lost", {"name": hx(x)})
                break
        want_man = oracle_manifest_stable(es)
        if d.id != hashlib.sha1(want_man).digest():
            ctx.fail(case, "id is not the hash of the original entry list's manifest", "id-not-original")
        if dup and d.raw_manifest != want_man:
            ctx.fail(case, "raw_manifest is not the original manifest verbatim", "raw-manifest-wrong")
        if not dup and (d.raw_manifest is not None or tuple(out) != tuple(es)):
            ctx.fail(case, "directory without repeated names is not returned unchanged", "nodup-changed")
        try:
            d.check()
        except Exception as e:
            ctx.fail(case, f"integrity check fails on the repaired directory: {e}", "check-fails")

    res = ctx.model(reqs)
    for case, r, im in zip(cases, res, impls):
        if "error" in r:
            if ctx.model_available:
                ctx.disagree(case, "model driver error", model=r)
            continue
        m = r["r"]
        if im is None:
            ctx.disagree(case, "implementation raises where the model returns", model={"flag": m["flag"], "n": len(m["entries"])})
            continue
        flag, out, raw, did = im
        mout = [(unhx(e["name"]), e["type"], e["perms"], unhx(e["target"])) for e in m["entries"]]
        if m["flag"] != flag or mout != out:
            ctx.disagree(case, "flag / repaired entry tuple: model vs implementation", model=[m["flag"], [(hx(a), b, c, hx(d)) for a, b, c, d in mout]], impl=[flag, [(hx(a), b, c, hx(d)) for a, b, c, d in out]])
        elif unhx(m["raw_manifest"]) != raw:
            ctx.disagree(case, "raw_manifest: model vs implementation", model=m["raw_manifest"], impl=hx(raw))
        elif hashlib.sha1(unhx(m["id_manifest"])).digest() != did:
            ctx.disagree(case, "id != sha1(model's id manifest)")


def neighbours(ctx, case):
    es = case["entries"]
    return [{"entries": es[:i] + es[i + 1 :]} for i in range(len(es))]


def shrink(ctx, failure):
    from common import Ctx

    es = list(failure["case"]["entries"])
    kind = failure["kind"]
    changed = True
    while changed and len(es) > 1:
        changed = False
        for i in range(len(es)):
            cand = {"entries": es[:i] + es[i + 1 :]}
            c2 = Ctx(ctx.prop, ctx.tier, ctx.seed)
            c2.model_available = False
            try:
                check_cases(c2, [cand])
            except Exception:
                continue
            if any(f["kind"] == kind for f in c2.failures):
                es = cand["entries"]
                changed = True
                break
    return {"entries": es}
