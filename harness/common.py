"""Shared machinery of the swh-model verification checks.

One check run (see DESIGN.md §2.1):
  1. regenerate Gen/Tables.lean from the live repository, `lake build` the property's
     theorems and the model driver            -> proof obligations
  2. `#print axioms` audit + forbidden-token grep
  3. correspondence: the model's executable definitions (compiled Lean driver) against the
     Python implementation on generated cases
  4. property oracle on the implementation (independent of the model)
  5. verdict / evidence / replay files
"""
from __future__ import annotations

import fcntl
import hashlib
import importlib
import json
import os
import random
import re
import shutil
import contextlib
import signal
import subprocess
import sys
import tempfile
import time
import traceback
from typing import Any, Callable, Dict, Iterable, List, Optional

VERIF = os.path.dirname(os.path.dirname(os.path.abspath(__file__)))
LEAN = os.path.join(VERIF, "lean")
REPO = os.environ.get("VERIF_REPO", "/repo")
GUARD = "SWH_MODEL_VERIF"
ALLOWED_AXIOMS = {"propext", "Quot.sound", "Classical.choice"}
FORBIDDEN = re.compile(
    r"\bsorry\b|\badmit\b|^\s*axiom\s|native_decide|bv_decide|implemented_by|\bunsafe\s|maxHeartbeats\s+0\b",
    re.M,
)

os.environ[GUARD] = "1"
if REPO not in sys.path:
    sys.path.insert(0, REPO)


def assert_repo_imported():
    import swh.model

    p = os.path.realpath(list(swh.model.__path__)[0])
    if not p.startswith(os.path.realpath(REPO)):
        raise RuntimeError(f"swh.model imported from {p}, expected under {REPO}")


# --------------------------------------------------------------------------- utilities


def hx(b: Optional[bytes]) -> Optional[str]:
    return None if b is None else bytes(b).hex()


def unhx(s: Optional[str]) -> Optional[bytes]:
    return None if s is None else bytes.fromhex(s)


def cps(s: Optional[str]) -> Optional[List[int]]:
    return None if s is None else [ord(c) for c in s]


def uncps(a: Optional[List[int]]) -> Optional[str]:
    return None if a is None else "".join(chr(c) for c in a)


def canon(obj: Any) -> str:
    return json.dumps(obj, sort_keys=True, separators=(",", ":"), default=_json_default)


def _json_default(o):
    if isinstance(o, (bytes, bytearray)):
        return {"__bytes__": bytes(o).hex()}
    if isinstance(o, (set, frozenset)):
        return sorted(canon(x) for x in o)
    if isinstance(o, tuple):
        return list(o)
    return repr(o)


def scratch_dir(tag: str = "") -> str:
    base = os.environ.get("VERIF_SCRATCH")
    if not base:
        base = "/dev/shm" if os.path.isdir("/dev/shm") and os.access("/dev/shm", os.W_OK) else "/var/tmp"
    return tempfile.mkdtemp(prefix=f"swhverif-{tag}-{os.getpid()}-", dir=base)


def exc_kind(e: BaseException) -> str:
    """Map an exception to a small enum; the library's validation error is kept apart."""
    from swh.model.exceptions import ValidationError

    if isinstance(e, ValidationError):
        return "validation"
    if isinstance(e, AssertionError):
        return "assertion"
    if isinstance(e, TypeError):
        return "typeError"
    if isinstance(e, ValueError):
        return "valueError"
    if isinstance(e, KeyError):
        return "keyError"
    return "other:" + type(e).__name__


# --------------------------------------------------------------------------- lean side


class LeanState:
    def __init__(self):
        self.tables_ok = False
        self.driver_ok = False
        self.props_ok = False
        self.log = ""
        self.theorems: Dict[str, Optional[List[str]]] = {}
        self.missing_required: List[str] = []
        self.bad_axioms: Dict[str, List[str]] = {}
        self.forbidden_hits: List[str] = []
        self.build_s = 0.0

    @property
    def obligations(self) -> int:
        return len(self.theorems) + len(self.missing_required)

    @property
    def discharged(self) -> int:
        if not self.props_ok:
            return 0
        return sum(
            1
            for t, ax in self.theorems.items()
            if ax is not None and set(ax) <= ALLOWED_AXIOMS
        )

    @property
    def ok(self) -> bool:
        return (
            self.tables_ok
            and self.props_ok
            and not self.missing_required
            and not self.forbidden_hits
            and self.discharged == self.obligations
            and self.obligations > 0
        )

    def broken_summary(self) -> str:
        out = []
        if not self.tables_ok:
            out.append("gen_tables failed")
        if not self.props_ok:
            out.append("lake build of the property theorems failed")
        if self.missing_required:
            out.append("missing theorems: " + ", ".join(self.missing_required))
        for t, ax in self.theorems.items():
            if ax is None:
                out.append(f"{t}: no axiom report")
            elif not set(ax) <= ALLOWED_AXIOMS:
                out.append(f"{t}: axioms {ax}")
        if self.forbidden_hits:
            out.append("forbidden tokens: " + "; ".join(self.forbidden_hits[:5]))
        return "; ".join(out)


def _run(cmd, cwd=None, timeout=1800, env=None):
    p = subprocess.run(
        cmd, cwd=cwd, stdout=subprocess.PIPE, stderr=subprocess.STDOUT, timeout=timeout,
        env=env, text=True,
    )
    out = "\n".join(
        l for l in p.stdout.splitlines() if "conda" not in l.lower() or "warn" not in l.lower()
    )
    return p.returncode, out


def strip_lean_comments(src: str) -> str:
    # remove /- ... -/ (nested not handled beyond one level; sufficient here) and -- comments
    out = []
    i = 0
    depth = 0
    n = len(src)
    while i < n:
        if src.startswith("/-", i):
            depth += 1
            i += 2
        elif depth and src.startswith("-/", i):
            depth -= 1
            i += 2
        elif depth:
            if src[i] == "\n":
                out.append("\n")
            i += 1
        elif src.startswith("--", i):
            while i < n and src[i] != "\n":
                i += 1
        else:
            out.append(src[i])
            i += 1
    return "".join(out)


def lean_sources() -> List[str]:
    res = []
    for root, _, files in os.walk(os.path.join(LEAN, "SwhVerif")):
        for f in files:
            if f.endswith(".lean"):
                res.append(os.path.join(root, f))
    res.append(os.path.join(LEAN, "Driver.lean"))
    return sorted(res)


def theorem_names(prop: str) -> List[str]:
    path = os.path.join(LEAN, "SwhVerif", "Props", f"{prop}.lean")
    src = strip_lean_comments(open(path).read())
    ns = None
    m = re.search(r"^namespace\s+(\S+)", src, re.M)
    if m:
        ns = m.group(1)
    names = re.findall(r"^theorem\s+([^\s:({\[]+)", src, re.M)
    return [f"{ns}.{n}" if ns else n for n in names]


def lean_prepare(prop: str, required: List[str], clean: bool = False, leanchecker: bool = False) -> LeanState:
    st = LeanState()
    t0 = time.time()
    lock_path = os.path.join(LEAN, ".build.lock")
    with open(lock_path, "w") as lock:
        fcntl.flock(lock, fcntl.LOCK_EX)
        try:
            # 1. tables
            env = dict(os.environ)
            env["VERIF_REPO"] = REPO
            rc, out = _run(
                ["/venv/bin/python", os.path.join(VERIF, "harness", "gen_tables.py")], env=env
            )
            st.tables_ok = rc == 0
            st.log += f"$ gen_tables.py -> {rc}\n{out}\n"
            if clean:
                shutil.rmtree(os.path.join(LEAN, ".lake"), ignore_errors=True)
            # 2. build driver (model only) and the property theorems
            rc, out = _run(["lake", "build", "driver"], cwd=LEAN)
            st.driver_ok = rc == 0 and os.path.exists(driver_path())
            if st.driver_ok:
                _private_driver()
            st.log += f"$ lake build driver -> {rc}\n{out[-4000:]}\n"
            rc, out = _run(["lake", "build", f"SwhVerif.Props.{prop}"], cwd=LEAN)
            st.props_ok = rc == 0
            st.log += f"$ lake build SwhVerif.Props.{prop} -> {rc}\n{out[-6000:]}\n"
            # 3. audit
            names = theorem_names(prop)
            st.missing_required = [r for r in required if r not in names]
            st.theorems = {n: None for n in names}
            if st.props_ok and names:
                audit = os.path.join(LEAN, "SwhVerif", "Audit", f"{prop}.lean")
                text = (
                    f"import SwhVerif.Props.{prop}\n"
                    + "".join(f"#print axioms {n}\n" for n in names)
                )
                old = open(audit).read() if os.path.exists(audit) else None
                if old != text:
                    with open(audit, "w") as f:
                        f.write(text)
                rc, out = _run(["lake", "env", "lean", audit], cwd=LEAN)
                st.log += f"$ lake env lean Audit/{prop}.lean -> {rc}\n{out[-6000:]}\n"
                flat = re.sub(r"\s+", " ", out)
                for n in names:
                    m = re.search(
                        r"'" + re.escape(n) + r"' depends on axioms: \[([^\]]*)\]", flat
                    )
                    if m:
                        st.theorems[n] = [a.strip() for a in m.group(1).split(",") if a.strip()]
                    elif re.search(
                        r"'" + re.escape(n) + r"' does not depend on any axioms", flat
                    ):
                        st.theorems[n] = []
            if leanchecker and st.props_ok:
                mods = [f"SwhVerif.Props.{prop}"]
                rc, out = _run(["lake", "env", "leanchecker"] + mods, cwd=LEAN, timeout=3000)
                st.log += f"$ leanchecker {mods} -> {rc}\n{out[-3000:]}\n"
                if rc != 0:
                    st.props_ok = False
        finally:
            fcntl.flock(lock, fcntl.LOCK_UN)
    # forbidden tokens
    for path in lean_sources():
        src = strip_lean_comments(open(path).read())
        for m in FORBIDDEN.finditer(src):
            line = src.count("\n", 0, m.start()) + 1
            st.forbidden_hits.append(f"{os.path.relpath(path, LEAN)}:{line}:{m.group(0).strip()}")
    st.build_s = time.time() - t0
    return st


def driver_path() -> str:
    return os.path.join(LEAN, ".lake", "build", "bin", "driver")


_PRIVATE = {"path": None, "dir": None}


def _private_driver():
    """Copy the freshly built driver out of .lake so that a concurrent clean rebuild by
    another check cannot pull it from under this run."""
    import atexit

    if _PRIVATE["path"]:
        return
    d = scratch_dir("drv")
    dst = os.path.join(d, "driver")
    shutil.copy2(driver_path(), dst)
    _PRIVATE["path"], _PRIVATE["dir"] = dst, d
    atexit.register(lambda: shutil.rmtree(d, ignore_errors=True))


class Driver:
    """Batch interface to the compiled Lean model driver."""

    def __init__(self):
        self.path = _PRIVATE["path"] or driver_path()
        self.calls = 0
        self.lines = 0

    def available(self) -> bool:
        return os.path.exists(self.path)

    def run(self, reqs: List[dict], timeout: int = 600) -> List[dict]:
        if not reqs:
            return []
        payload = "".join(
            json.dumps({**r, "id": i}, separators=(",", ":")) + "\n" for i, r in enumerate(reqs)
        )
        if self.available():
            cmd = [self.path]
        else:
            cmd = ["lake", "env", "lean", "--run", "Driver.lean"]
        p = subprocess.run(
            cmd, cwd=LEAN, input=payload.encode(), stdout=subprocess.PIPE,
            stderr=subprocess.PIPE, timeout=timeout,
        )
        if p.returncode != 0:
            raise InfraError(f"driver exited {p.returncode}: {p.stderr.decode()[-2000:]}")
        outs = [json.loads(l) for l in p.stdout.decode().splitlines() if l.strip()]
        if len(outs) != len(reqs):
            raise InfraError(f"driver answered {len(outs)} of {len(reqs)} lines")
        self.calls += 1
        self.lines += len(reqs)
        res: List[Optional[dict]] = [None] * len(reqs)
        for o in outs:
            res[o["id"]] = o
        return res  # type: ignore


class InfraError(Exception):
    pass


# --------------------------------------------------------------------------- context


LOCAL_ZONES = ["UTC0", "Europe/Paris", "IST-5:30", "EST5EDT", "Pacific/Chatham", "America/St_Johns"]


def local_timezone(i: int) -> str:
    """Set the process's local timezone (TZ + tzset) to the i-th of a few zones and return its name:
    nothing in the properties depends on where the process runs."""
    import time

    z = LOCAL_ZONES[i % len(LOCAL_ZONES)]
    os.environ["TZ"] = z
    time.tzset()
    return z


class ImplementationHang(Exception):
    pass


_HANGS = {"n": 0, "max_frac": 0.0, "max_secs": 0.0, "calls": 0}


@contextlib.contextmanager
def time_limit(seconds: float = 20.0):
    """Bound one call into the implementation: a call that does not come back within `seconds`
    raises ImplementationHang, to be reported by the caller as a failure of the property on that
    input (every property here is about calls that return).  After five such calls in one process,
    further calls are refused at once."""
    if _HANGS["n"] >= 5:
        raise ImplementationHang("not called again after five calls that did not return")

    def on_alarm(signum, frame):
        _HANGS["n"] += 1
        raise ImplementationHang(f"no result after {seconds:g} s")

    old = signal.signal(signal.SIGALRM, on_alarm)
    # (repeating: if the implementation swallows the exception in a broad `except`, it is raised again)
    signal.setitimer(signal.ITIMER_REAL, seconds, seconds)
    t0 = time.monotonic()
    try:
        yield
    finally:
        signal.setitimer(signal.ITIMER_REAL, 0)
        signal.signal(signal.SIGALRM, old)
        dt = time.monotonic() - t0
        _HANGS["calls"] += 1
        if dt / seconds > _HANGS["max_frac"]:
            _HANGS["max_frac"], _HANGS["max_secs"] = dt / seconds, dt


class Ctx:
    def __init__(self, prop: str, tier: str, seed: int, scale: int = 1):
        self.prop = prop
        self.tier = tier
        self.seed = seed
        self.scale = scale
        self.rng = random.Random(f"{prop}-{seed}-{scale}")
        self.driver = Driver()
        self.evaluations = 0
        self.nontrivial_hashes = set()
        self.samples: List[Any] = []
        self.disagreements: List[dict] = []
        self.failures: List[dict] = []
        self.dist: Dict[str, int] = {}
        self.traces = 0
        self.notes: List[str] = []
        self.exhaustive_parts: List[str] = []
        self.model_available = True

    # budgets: number of generated cases for the tier, scaled when a tie broke
    def budget(self, quick: int, thorough: int) -> int:
        n = quick if self.tier == "quick" else thorough
        return n * self.scale

    def count(self, key: str, n: int = 1):
        self.dist[key] = self.dist.get(key, 0) + n

    def case(self, case: Any, nontrivial: bool = True, sample: bool = False):
        self.evaluations += 1
        if nontrivial:
            self.nontrivial_hashes.add(hashlib.sha1(canon(case).encode()).digest()[:12])
        if sample or len(self.samples) < 3:
            if len(self.samples) < 8:
                self.samples.append(_shorten(case))

    def disagree(self, case: Any, what: str, model: Any = None, impl: Any = None):
        self.disagreements.append(
            {"case": case, "what": what, "model": model, "impl": impl}
        )

    def fail(self, case: Any, what: str, kind: str = "", detail: Any = None):
        """The *property* fails on the implementation for this concrete input."""
        self.failures.append({"case": case, "what": what, "kind": kind or what, "detail": detail})

    @contextlib.contextmanager
    def time_limit(self, seconds: float = 20.0):
        """Bound one call into the implementation (see `time_limit`); after three calls that did not
        return, further calls are refused at once so that a check on a looping implementation ends."""
        if getattr(self, "hangs", 0) >= 3:
            raise ImplementationHang("not called again after three calls that did not return")
        try:
            with time_limit(seconds):
                yield
        except ImplementationHang:
            self.hangs = getattr(self, "hangs", 0) + 1
            raise

    def absorb(self, other: "Ctx"):
        """merge the bookkeeping of a further pass over the same property"""
        self.evaluations += other.evaluations
        self.nontrivial_hashes |= other.nontrivial_hashes
        self.disagreements.extend(other.disagreements)
        self.failures.extend(other.failures)
        for k, v in other.dist.items():
            self.dist[k] = self.dist.get(k, 0) + v
        self.notes.extend(other.notes)
        if hasattr(self.driver, "lines") and hasattr(other.driver, "lines"):
            self.driver.lines += other.driver.lines

    def model(self, reqs: List[dict]) -> List[dict]:
        if not self.model_available:
            return [{"error": "model unavailable"} for _ in reqs]
        return self.driver.run(reqs)


def _shorten(obj: Any, limit: int = 600) -> Any:
    s = canon(obj)
    if len(s) <= limit:
        return json.loads(s)
    return {"truncated": s[:limit] + "…", "full_len": len(s)}


# --------------------------------------------------------------------------- known findings


def load_known() -> List[dict]:
    p = os.path.join(VERIF, "known_findings.json")
    if not os.path.exists(p):
        return []
    return json.load(open(p)).get("findings", [])


def match_known(prop: str, failure: dict, known: List[dict]) -> Optional[dict]:
    for k in known:
        if k.get("status") != "known" or k.get("property") != prop:
            continue
        if k.get("kind") == failure.get("kind"):
            return k
    return None


# --------------------------------------------------------------------------- runner


def corpus_cases(prop: str) -> List[Any]:
    d = os.path.join(VERIF, "corpus", prop)
    res = []
    if os.path.isdir(d):
        for f in sorted(os.listdir(d)):
            if f.endswith(".json"):
                j = json.load(open(os.path.join(d, f)))
                res.append(j.get("case", j))
    return res


def write_replay(prop: str, seed: int, n: int, payload: dict) -> str:
    d = os.path.join(VERIF, "replays")
    os.makedirs(d, exist_ok=True)
    path = os.path.join(d, f"{prop}-{seed}-{n}.json")
    with open(path, "w") as f:
        f.write(json.dumps(payload, indent=1, default=_json_default, sort_keys=True))
    return path


def write_evidence(prop: str, ev: dict):
    d = os.path.join(VERIF, "evidence")
    os.makedirs(d, exist_ok=True)
    path = os.path.join(d, f"{prop}.json")
    tmp = path + f".tmp{os.getpid()}"
    with open(tmp, "w") as f:
        f.write(json.dumps(ev, indent=1, default=_json_default, sort_keys=True))
    os.replace(tmp, path)


def run_module(mod, ctx: Ctx, cases: Optional[List[Any]] = None):
    if cases is None:
        cases = list(corpus_cases(ctx.prop)) + list(mod.generate(ctx))
    mod.check_cases(ctx, cases)


def main(argv: List[str]) -> int:
    t0 = time.time()
    if len(argv) < 2:
        print("usage: run.py <Cxx> [quick|thorough] [--replay file]")
        return 2
    prop = argv[1]
    tier = os.environ.get("VERIF_TIER") or "quick"
    replay = None
    rest = argv[2:]
    i = 0
    while i < len(rest):
        if rest[i] in ("quick", "thorough"):
            tier = rest[i]
        elif rest[i] == "--replay":
            replay = rest[i + 1]
            i += 1
        i += 1
    try:
        seed = int(os.environ.get("VERIF_SEED", "0") or "0")
    except ValueError:
        seed = 0
    try:
        return _main(prop, tier, seed, replay, t0)
    except InfraError as e:
        print(f"INFRA-ERROR property={prop}: {e}")
        return 2
    except subprocess.TimeoutExpired as e:
        print(f"INFRA-ERROR property={prop}: timeout {e}")
        return 2


def _main(prop: str, tier: str, seed: int, replay: Optional[str], t0: float) -> int:
    mod = importlib.import_module(f"c{prop[1:]}")
    assert_repo_imported()
    known = load_known()
    thorough = tier == "thorough"

    # ---- steps 1-2: proof obligations
    st = lean_prepare(
        prop, getattr(mod, "REQUIRED", []),
        clean=thorough and os.environ.get("VERIF_CLEAN", "1") == "1" and replay is None,
        leanchecker=thorough and replay is None,
    )
    ctx = Ctx(prop, tier, seed)
    ctx.model_available = st.driver_ok

    # ---- steps 3-4: correspondence and oracle
    crash = None
    try:
        if replay:
            payload = json.load(open(replay))
            cases = payload.get("cases") or [payload["case"]]
            run_module(mod, ctx, cases)
        else:
            run_module(mod, ctx)
    except InfraError:
        raise
    except Exception as e:  # the harness itself tripped on the implementation
        crash = traceback.format_exc()
        ctx.notes.append("harness exception: " + crash[-1500:])

    # ---- source-directed deepening: when a function the property is anchored in differs from the
    # tree on which everything was last established, the same check is repeated on a fresh, four
    # times larger stream (correspondence and oracle both on).  A changed unit is not an alarm.
    changed = []
    if not replay:
        try:
            import anchors

            changed = anchors.changed_units(prop, REPO)
        except Exception:
            changed = []
        if changed:
            ctx.notes.append("anchored source units that differ from the baseline tree: " + ", ".join(changed[:12]))
            if crash is None and not ctx.failures and not ctx.disagreements and st.driver_ok and os.environ.get("VERIF_DEEPEN", "1") == "1":
                ctx3 = Ctx(prop, tier, seed + 7919, scale=4 if tier == "quick" else 2)
                ctx3.model_available = True
                try:
                    run_module(mod, ctx3)
                except InfraError:
                    raise
                except Exception:
                    crash = traceback.format_exc()
                    ctx.notes.append("harness exception (deepening pass): " + crash[-1500:])
                ctx.absorb(ctx3)

    tie_broken = (not st.ok) or bool(ctx.disagreements) or (crash is not None) or (not st.driver_ok)
    searched_extra = 0
    if tie_broken and not ctx.failures and not replay:
        # enlarged failing-input search on the implementation (10x budget, fresh stream)
        ctx2 = Ctx(prop, tier, seed, scale=10)
        ctx2.model_available = False  # only the oracle matters now
        try:
            seeds = [d["case"] for d in ctx.disagreements[:50]]
            neigh = []
            if hasattr(mod, "neighbours"):
                for c in seeds:
                    neigh.extend(mod.neighbours(ctx2, c))
            run_module(mod, ctx2, seeds + neigh + list(mod.generate(ctx2)))
        except InfraError:
            raise
        except Exception:
            ctx.notes.append("enlarged search exception: " + traceback.format_exc()[-1500:])
        searched_extra = ctx2.evaluations
        ctx.failures.extend(ctx2.failures)

    # ---- verdict
    violations = 0
    lines = []
    seen_kinds = set()
    n = 0
    for f in ctx.failures:
        k = match_known(prop, f, known)
        if k is not None:
            if ("known", k["kind"]) not in seen_kinds:
                seen_kinds.add(("known", k["kind"]))
                lines.append(f"KNOWN-FINDING: property={prop} {k.get('what', k['kind'])}")
            continue
        if f["kind"] in seen_kinds:
            continue
        seen_kinds.add(f["kind"])
        case = f["case"]
        if hasattr(mod, "shrink"):
            try:
                case = mod.shrink(ctx, f)
            except Exception:
                pass
        path = write_replay(prop, seed, n, {
            "property": prop, "kind": f["kind"], "what": f["what"], "case": case,
            "detail": f.get("detail"),
            "replay_cmd": f"./check {prop} --replay replays/{prop}-{seed}-{n}.json",
        })
        n += 1
        violations += 1
        lines.append(f"VIOLATION property={prop} replay={os.path.relpath(path, VERIF)}")
    if violations == 0 and tie_broken:
        payload = {
            "property": prop,
            "kind": "tie-broken",
            "what": "a proof obligation or the model/implementation correspondence no longer checks; "
                    "no concrete failing input was found",
            "broken_obligations": st.broken_summary(),
            "correspondence_disagreements": [_shorten(d, 1500) for d in ctx.disagreements[:10]],
            "cases": [d["case"] for d in ctx.disagreements[:10]],
            "harness_exception": crash,
            "lean_log_tail": st.log[-3000:] if not st.ok else "",
            "extra_inputs_searched": searched_extra,
        }
        path = write_replay(prop, seed, n, payload)
        violations += 1
        lines.append(
            f"VIOLATION property={prop} replay={os.path.relpath(path, VERIF)} no-failing-input-found"
        )

    wall = time.time() - t0
    trusted = [
        "Lean 4.33.0 kernel",
        "axioms used by the theorems: " + ", ".join(sorted({a for ax in st.theorems.values() if ax for a in ax})) if any(st.theorems.values()) else "axioms: none",
        "harness/gen_tables.py (reads live Python objects, prints Lean literals)",
        "correspondence harness harness/c%s.py + Driver.lean (JSON line protocol)" % prop[1:],
    ] + list(getattr(mod, "TRUSTED", []))
    ev = {
        "property_id": prop,
        "tier": tier,
        "seed": seed,
        "level": "proof",
        "coverage": {
            "obligations": st.obligations,
            "discharged": st.discharged,
            "checker_cmd": f"cd lean && lake build SwhVerif.Props.{prop} && lake env lean SwhVerif/Audit/{prop}.lean"
            + (" && lake env leanchecker SwhVerif.Props.%s" % prop if thorough else ""),
            "trusted_base": trusted,
            "theorems": {k: v for k, v in st.theorems.items()},
            "evaluations": ctx.evaluations,
            "distinct_nontrivial": len(ctx.nontrivial_hashes),
            "rule": getattr(mod, "RULE", ""),
            "samples": ctx.samples or [{"note": "no case generated"}],
            "traces_validated_against_impl": ctx.traces or ctx.evaluations,
            "correspondence_disagreements": len(ctx.disagreements),
            "property_failures_on_impl": len(ctx.failures),
            "input_distribution": dict(sorted(ctx.dist.items())),
            "model_driver_lines": ctx.driver.lines,
            "exhaustive_parts": ctx.exhaustive_parts,
            "lean_build_s": round(st.build_s, 2),
            "notes": ctx.notes + ([
                "time-bounded calls into the implementation: %d; the slowest took %.3f s = %.1f%% of its limit"
                % (_HANGS["calls"], _HANGS["max_secs"], 100 * _HANGS["max_frac"])] if _HANGS["calls"] else []),
        },
        "assumptions": list(getattr(mod, "ASSUMPTIONS", [])),
        "wall_s": round(wall, 2),
        "violations": violations,
    }
    if not replay:
        write_evidence(prop, ev)
    for l in lines:
        print(l)
    print(
        f"{prop} {tier} seed={seed}: obligations {st.discharged}/{st.obligations}, "
        f"{ctx.evaluations} cases ({len(ctx.nontrivial_hashes)} distinct non-trivial), "
        f"{len(ctx.disagreements)} disagreements, {len(ctx.failures)} property failures, "
        f"{violations} violations, {wall:.1f}s"
    )
    if not st.ok:
        print("  proof side: " + st.broken_summary())
    return 1 if violations else 0
