"""C12 — dictionary serialisation round-trips every model object without loss."""
from __future__ import annotations

import copy
import datetime
import random

import objgen
from common import cps, hx, unhx

REQUIRED = [
    "Swh.C12.fields_Person",
    "Swh.C12.fields_Timestamp",
    "Swh.C12.fields_TimestampWithTimezone",
    "Swh.C12.fields_Origin",
    "Swh.C12.fields_OriginVisit",
    "Swh.C12.fields_OriginVisitStatus",
    "Swh.C12.fields_SnapshotBranch",
    "Swh.C12.fields_Snapshot",
    "Swh.C12.fields_Release",
    "Swh.C12.fields_Revision",
    "Swh.C12.fields_DirectoryEntry",
    "Swh.C12.fields_Directory",
    "Swh.C12.fields_Content",
    "Swh.C12.fields_SkippedContent",
    "Swh.C12.fields_MetadataAuthority",
    "Swh.C12.fields_MetadataFetcher",
    "Swh.C12.fields_RawExtrinsicMetadata",
    "Swh.C12.fields_ExtID",
    "Swh.C12.fromDict_toDict_Person",
    "Swh.C12.fromDict_toDict_Timestamp",
    "Swh.C12.fromDict_toDict_TimestampWithTimezone",
    "Swh.C12.fromDict_toDict_Origin",
    "Swh.C12.fromDict_toDict_OriginVisit",
    "Swh.C12.fromDict_toDict_OriginVisitStatus",
    "Swh.C12.fromDict_toDict_SnapshotBranch",
    "Swh.C12.fromDict_toDict_Snapshot",
    "Swh.C12.fromDict_toDict_Release",
    "Swh.C12.fromDict_toDict_Revision",
    "Swh.C12.fromDict_toDict_DirectoryEntry",
    "Swh.C12.fromDict_toDict_Directory",
    "Swh.C12.fromDict_toDict_Content",
    "Swh.C12.fromDict_toDict_SkippedContent",
    "Swh.C12.fromDict_toDict_MetadataAuthority",
    "Swh.C12.fromDict_toDict_MetadataFetcher",
    "Swh.C12.fromDict_toDict_RawExtrinsicMetadata",
    "Swh.C12.fromDict_toDict_ExtID",
    "Swh.C12.toDict_fromDict_toDict_Person",
    "Swh.C12.toDict_fromDict_toDict_Timestamp",
    "Swh.C12.toDict_fromDict_toDict_TimestampWithTimezone",
    "Swh.C12.toDict_fromDict_toDict_Origin",
    "Swh.C12.toDict_fromDict_toDict_OriginVisit",
    "Swh.C12.toDict_fromDict_toDict_OriginVisitStatus",
    "Swh.C12.toDict_fromDict_toDict_SnapshotBranch",
    "Swh.C12.toDict_fromDict_toDict_Snapshot",
    "Swh.C12.toDict_fromDict_toDict_Release",
    "Swh.C12.toDict_fromDict_toDict_Revision",
    "Swh.C12.toDict_fromDict_toDict_DirectoryEntry",
    "Swh.C12.toDict_fromDict_toDict_Directory",
    "Swh.C12.toDict_fromDict_toDict_Content",
    "Swh.C12.toDict_fromDict_toDict_SkippedContent",
    "Swh.C12.toDict_fromDict_toDict_MetadataAuthority",
    "Swh.C12.toDict_fromDict_toDict_MetadataFetcher",
    "Swh.C12.toDict_fromDict_toDict_RawExtrinsicMetadata",
    "Swh.C12.toDict_fromDict_toDict_ExtID",
    "Swh.C12.context_rules_table",
    "Swh.C12.tstz_legacy_offset",
    "Swh.C12.tstz_from_int",
    "Swh.C12.person_without_fullname",
    "Swh.C12.revision_legacy_headers",
    "Swh.C12.metadata_legacy_target",
    "Swh.C12.roundTrip_stable",
    "Swh.C12.enum_tables",
]
RULE = (
    "a type-directed generator over all 18 model classes (independent of the shipped strategies): every admissible "
    "context subset per metadata target kind, ExtID with/without version and payload, skipped contents with any subset "
    "of hashes missing and length -1, non-canonical offset bytes, releases with author but no date, every optional "
    "field present/absent, explicit (possibly wrong) ids, plus the legacy encodings (numeric offset + negative-UTC "
    "flag, extra headers inside metadata, old-style metadata target, person without fullname, timestamp as int); "
    "non-trivial = every case; distinct by (class, dictionary form)"
)
ASSUMPTIONS = [
    "attrs converters/validators are below the model; the model's value universe (Val) has no constructor for model "
    "objects, enums or SWHIDs, so 'plain values only' holds by typing on the model side and is checked by a type walk "
    "on the implementation side",
]
TRUSTED = ["attrs", "datetime / iso8601 / dateutil"]

EPOCH = datetime.datetime(1970, 1, 1, tzinfo=datetime.timezone.utc)
US = datetime.timedelta(microseconds=1)


class NotPlain(Exception):
    pass


def to_val(v):
    """plain Python value -> the JSON encoding of the model's `Val`"""
    if v is None:
        return None
    if isinstance(v, bool):
        return v
    if type(v) is int:
        return {"i": v}
    if type(v) is str:
        return {"s": cps(v)}
    if type(v) is bytes:
        return {"x": hx(v)}
    if type(v) is datetime.datetime:
        if v.tzinfo is None:
            raise NotPlain("naive datetime")
        return {"dt": [(v - EPOCH) // US, v.utcoffset() // datetime.timedelta(minutes=1)]}
    if type(v) in (tuple, list):
        return {"l": [to_val(x) for x in v]}
    if type(v) is dict:
        return {"d": [[to_val(k), to_val(x)] for k, x in v.items()]}
    raise NotPlain(type(v).__name__)


def from_val(j):
    if j is None or isinstance(j, bool):
        return j
    if "i" in j:
        return j["i"]
    if "s" in j:
        return "".join(chr(c) for c in j["s"])
    if "x" in j:
        return unhx(j["x"])
    if "dt" in j:
        u, off = j["dt"]
        return (EPOCH + u * US).astimezone(datetime.timezone(datetime.timedelta(minutes=off)))
    if "l" in j:
        return tuple(from_val(x) for x in j["l"])
    if "d" in j:
        return {from_val(k): from_val(v) for k, v in j["d"]}
    raise ValueError(j)


def canon_val(j):
    """comparison form: dictionaries as sorted item lists (dict equality is order-free), tuples == lists"""
    if j is None or isinstance(j, bool):
        return j
    if "l" in j:
        return {"l": [canon_val(x) for x in j["l"]]}
    if "d" in j:
        return {"d": sorted(([canon_val(k), canon_val(v)] for k, v in j["d"]), key=repr)}
    return j


def legacy_cases(rng):
    """dictionaries in the legacy encodings, with the current encoding they must be equivalent to"""
    out = []
    offs = [(0, False), (0, True), (120, False), (-330, False), (-120, True), (1439, False), (-32768, False), (32767, False), (59, False)]
    # every sign / sub-hour / hour-boundary shape, with and without the negative-UTC flag where it is meaningful
    offs += [(o, False) for o in (-1, 1, -30, 30, -59, -60, -61, 60, 61, -119, -121, -600, 600, -1439, -1440, 1440, 32700)]
    offs += [(o, True) for o in (-1, -30, -59, -60, -61, -600, -32768)]
    for off, neg in offs:
        ts = {"seconds": rng.choice([0, -1, 1234567890]), "microseconds": rng.choice([0, 5])}
        hh, mm = divmod(abs(off), 60)
        ob = ("%s%02d%02d" % ("-" if off < 0 or neg else "+", hh, mm)).encode()
        out.append(("TimestampWithTimezone", {"timestamp": ts, "offset": off, "negative_utc": neg}, {"timestamp": ts, "offset_bytes": ob}))
    out.append(("TimestampWithTimezone", {"timestamp": 12345, "offset": 60}, {"timestamp": {"seconds": 12345, "microseconds": 0}, "offset_bytes": b"+0100"}))
    out.append(("TimestampWithTimezone", {"timestamp": {"seconds": 7}, "offset_bytes": b"+0000"}, {"timestamp": {"seconds": 7, "microseconds": 0}, "offset_bytes": b"+0000"}))
    out.append(("Person", {"name": b"Jane", "email": b"j@x"}, {"fullname": b"Jane <j@x>", "name": b"Jane", "email": b"j@x"}))
    out.append(("Person", {"name": None, "email": b"j@x"}, {"fullname": b"<j@x>", "name": None, "email": b"j@x"}))
    out.append(("Person", {"name": b"Jane", "email": None}, {"fullname": b"Jane", "name": b"Jane", "email": None}))
    base_rev = {"message": b"m", "author": None, "committer": None, "date": None, "committer_date": None, "type": "git",
                "directory": bytes(20), "synthetic": False, "parents": []}
    hs = [[b"gpgsig", b"a\nb"], [b"x", b""]]
    out.append(("Revision", dict(base_rev, metadata={"extra_headers": hs, "other": 1}), dict(base_rev, metadata={"other": 1}, extra_headers=hs)))
    out.append(("Revision", dict(base_rev, metadata={"extra_headers": hs}), dict(base_rev, metadata={}, extra_headers=hs)))
    rem = {"discovery_date": datetime.datetime(2020, 1, 1, 12, 0, 0, tzinfo=datetime.timezone.utc),
           "authority": {"type": "forge", "url": "http://a/"}, "fetcher": {"name": "f", "version": "1"}, "format": "json", "metadata": b"{}"}
    import hashlib

    url = "https://example.org/é"
    out.append(("RawExtrinsicMetadata", dict(rem, type="origin", target=url), dict(rem, target="swh:1:ori:" + hashlib.sha1(url.encode()).hexdigest())))
    out.append(("RawExtrinsicMetadata", dict(rem, type="content", target="swh:1:cnt:" + "0" * 40), dict(rem, target="swh:1:cnt:" + "0" * 40)))
    return out


def generate(ctx):
    rng = ctx.rng
    cases = []
    n = ctx.budget(14, 200)
    for name in objgen.MODEL_CLASSES:
        for _ in range(n):
            cases.append({"cls": name, "seed": rng.randrange(2**31), "explicit_id": rng.random() < 0.15})
    for i in range(len(legacy_cases(random.Random(0)))):
        cases.append({"cls": "legacy", "index": i, "seed": rng.randrange(2**31)})
    return cases


def summary(case):
    """what decoding / a round trip of this case gives, as plain text (computed in this process and, for a
    sample, in a child interpreter started with -O: the two must agree)"""
    import attr

    try:
        if case["cls"] == "legacy":
            name, legacy, current = legacy_cases(random.Random(case["seed"]))[case["index"]]
            C = objgen.cls_of(name)
            a = C.from_dict(rekey(legacy))
            b = C.from_dict(copy.deepcopy(current))
            return {"equal": a == b, "dict": repr(a.to_dict()), "id": repr(getattr(a, "id", None))}
        name = case["cls"]
        rng = random.Random(case["seed"])
        o = objgen.build(name, objgen.gen_kwargs(rng, name))
        if case.get("explicit_id") and hasattr(o, "id"):
            o = attr.evolve(o, id=bytes(rng.randrange(256) for _ in range(20)))
        d = o.to_dict()
        o2 = type(o).from_dict(rekey(copy.deepcopy(d)))
        return {"equal": o2 == o, "dict": repr(o2.to_dict()), "id": repr(getattr(o2, "id", None))}
    except Exception as e:
        return {"raises": type(e).__name__}


def optimised_interpreter(ctx, cases):
    import json
    import os
    import shutil
    import subprocess
    import sys

    from common import scratch_dir

    if len(cases) <= 3 and not any(c.get("interpreter") for c in cases):
        return
    sample = [c for c in cases if c["cls"] == "legacy"] + [c for i, c in enumerate(cases) if c["cls"] != "legacy" and i % 7 == 0]
    sample = sample[: 150 if ctx.tier == "quick" else 1500]
    d_ = scratch_dir("c12o")
    try:
        with open(os.path.join(d_, "cases.jsonl"), "w") as fh:
            for c in sample:
                fh.write(json.dumps({k: v for k, v in c.items() if k != "interpreter"}) + "\n")
        p = subprocess.run([sys.executable, "-O", os.path.join(os.path.dirname(os.path.abspath(__file__)), "c12_child.py"), os.path.join(d_, "cases.jsonl")],
                           stdout=subprocess.PIPE, stderr=subprocess.PIPE, timeout=600)
        lines = p.stdout.decode().splitlines()
        if p.returncode != 0 or len(lines) != len(sample):
            ctx.notes.append("python -O child failed: " + p.stderr.decode("utf-8", "replace")[-300:])
            return
        for c, ln in zip(sample, lines):
            ctx.count("optimised-interpreter")
            here, there = summary(c), json.loads(ln)
            if here != there:
                ctx.fail(dict(c, interpreter="-O"), "in an interpreter started with -O, decoding / the round trip gives another result" + (" (raises %s)" % there["raises"] if "raises" in there else ""), "differs-under-python-O", {"here": str(here)[:300], "there": str(there)[:300]})
                return
    finally:
        shutil.rmtree(d_, ignore_errors=True)


def check_cases(ctx, cases):
    import attr

    optimised_interpreter(ctx, cases)
    reqs = []
    post = []
    for case in cases:
        ctx.case(case)
        if case["cls"] == "legacy":
            name, legacy, current = legacy_cases(random.Random(case["seed"]))[case["index"]]
            ctx.count("legacy=" + name)
            C = objgen.cls_of(name)
            legacy = rekey(legacy)   # keys as a decoder would produce them: equal, not identical, to the literals
            l0 = copy.deepcopy(legacy)
            try:
                a = C.from_dict(legacy)
                b = C.from_dict(copy.deepcopy(current))
            except Exception as e:
                ctx.fail(case, f"decoding a legacy/current {name} dictionary raises {type(e).__name__}: {e}", "legacy-decode-raises:" + name)
                continue
            if a != b or getattr(a, "id", None) != getattr(b, "id", None):
                ctx.fail(case, f"the legacy encoding of {name} does not decode to the same object as the current encoding", "legacy-not-equivalent:" + name, {"legacy": repr(a)[:300], "current": repr(b)[:300]})
            if legacy != l0:
                ctx.fail(case, f"{name}.from_dict modifies the dictionary it is given (legacy path)", "from_dict-mutates-argument:" + name, {"before": repr(l0)[:300], "after": repr(legacy)[:300]})
            try:
                reqs.append({"op": "serde_roundtrip", "cls": name, "dict": to_val(l0)})
                post.append((case, name, to_val(a.to_dict())))
            except NotPlain:
                pass
            continue
        name = case["cls"]
        ctx.count("cls=" + name)
        rng = random.Random(case["seed"])
        kwargs = objgen.gen_kwargs(rng, name)
        try:
            o = objgen.build(name, kwargs)
            if case.get("explicit_id") and hasattr(o, "id"):
                o = attr.evolve(o, id=bytes(rng.randrange(256) for _ in range(20)))
                ctx.count("explicit-id")
        except (ValueError, TypeError):
            ctx.count("generator-rejected")
            continue
        C = type(o)
        d = o.to_dict()
        # plain serialisable values only
        try:
            dv = to_val(d)
        except NotPlain as e:
            ctx.fail(case, f"to_dict() of {name} contains a non-plain value ({e})", "to_dict-not-plain:" + name)
            continue
        d_in = rekey(copy.deepcopy(d))
        d_keep = copy.deepcopy(d)
        try:
            o2 = C.from_dict(d_in)
        except Exception as e:
            ctx.fail(case, f"{name}.from_dict(to_dict()) raises {type(e).__name__}: {e}", "roundtrip-raises:" + name)
            continue
        if d_in != d_keep:
            ctx.fail(case, f"{name}.from_dict modifies the dictionary it is given", "from_dict-mutates-argument:" + name)
        if o2 != o:
            ctx.fail(case, f"{name}: from_dict(to_dict(o)) is not equal to o", "roundtrip-not-equal:" + name, {"o": repr(o)[:300], "o2": repr(o2)[:300]})
        elif hasattr(o, "id") and o2.id != o.id:
            ctx.fail(case, f"{name}: from_dict(to_dict(o)) has another id", "roundtrip-id-differs:" + name)
        d2 = o2.to_dict()
        if d2 != d:
            ctx.fail(case, f"{name}: to_dict(from_dict(to_dict(o))) differs from to_dict(o)", "dict-not-stable:" + name)
        # other accepted ways in: the base-class dispatcher for contents, a ctime given as text, a date
        # given as a plain integer number of seconds
        if name in ("Content", "SkippedContent"):
            from swh.model import model as _m

            dd = copy.deepcopy(d)
            try:
                ob = _m.BaseContent.from_dict(dd)
                if ob != o or type(ob) is not C or dd != d:
                    ctx.fail(case, f"BaseContent.from_dict does not give the same {name} (or modifies its argument)", "basecontent-dispatch-differs:" + name)
            except Exception as e:
                ctx.fail(case, f"BaseContent.from_dict raises {type(e).__name__} on a {name} dictionary", "basecontent-dispatch-raises:" + name)
            if name == "Content" and d.get("ctime") is not None:  # (only Content documents the text form)
                dt_ = copy.deepcopy(d)
                dt_["ctime"] = d["ctime"].isoformat()
                keep = copy.deepcopy(dt_)
                try:
                    oc = C.from_dict(dt_)
                    if oc != o or dt_ != keep:
                        ctx.fail(case, f"{name}.from_dict with ctime given as ISO text gives another object / modifies its argument", "ctime-text-differs:" + name)
                except Exception as e:
                    ctx.fail(case, f"{name}.from_dict with ctime given as ISO text raises {type(e).__name__}", "ctime-text-raises:" + name)
        if name == "TimestampWithTimezone" and o.timestamp.microseconds == 0 and o.offset_bytes == b"+0000":
            if C.from_dict(o.timestamp.seconds) != o:
                ctx.fail(case, "a date given as an integer number of seconds does not decode to that second at +0000", "date-from-int-differs")
        # sparse forms: the same dictionary with keys whose value is None left out, at every nesting
        # level, one at a time and all at once (what compact producers and older encodings send).
        # Whatever from_dict accepts must decode to the same object, and never touches its argument.
        for sp in sparse_variants(d):
            sp_keep = copy.deepcopy(sp)
            try:
                o3 = C.from_dict(sp)
            except (KeyError, TypeError, ValueError, AttributeError):
                ctx.count("sparse:rejected")
                continue
            ctx.count("sparse:accepted")
            if sp != sp_keep:
                ctx.fail(dict(case, sparse=repr(sp_keep)[:300]), f"{name}.from_dict modifies the (sparse) dictionary it is given", "from_dict-mutates-argument:sparse:" + name, {"before": repr(sp_keep)[:300], "after": repr(sp)[:300]})
            if o3 != o:
                ctx.fail(dict(case, sparse=repr(sp_keep)[:300]), f"{name}: a dictionary without its None-valued keys decodes to a different object", "sparse-dict-differs:" + name)
        reqs.append({"op": "serde_roundtrip", "cls": name, "dict": dv})
        try:
            post.append((case, name, to_val(d2)))
        except NotPlain:
            post.append((case, name, None))
    res = ctx.model(reqs)
    for (case, name, impl), r in zip(post, res):
        if "error" in r:
            if ctx.model_available and "unknown op" not in str(r.get("error")):
                ctx.disagree(case, "model driver error", model=r)
            continue
        m = r["r"]
        if "err" in m:
            ctx.disagree(case, f"{name}: model fromDict rejects a dictionary the implementation decodes", model=m["err"])
            continue
        if impl is None:
            continue
        if canon_val(m["first"]) != canon_val(impl):
            ctx.disagree(case, f"{name}: toDict(fromDict(d)): model vs implementation", model=canon_val(m["first"]), impl=canon_val(impl))
        elif canon_val(m["second"]) != canon_val(m["first"]):
            ctx.disagree(case, f"{name}: the model's dictionary form is not stable under a second round trip", model=canon_val(m["second"]))


# nested dictionaries that are the dictionary form of a model object (everything else — metadata,
# branches, headers — is user content, where a None value or a missing key means something)
SUBOBJECT_KEYS = {"author", "committer", "date", "committer_date", "timestamp", "authority", "fetcher"}


def rekey(v):
    """the same value with every str key (and str value) a fresh object, never the interned literal —
    what a JSON / msgpack / pickle decoder hands over"""
    fresh = lambda x: "".join([x[: len(x) // 2], x[len(x) // 2 :]]) if len(x) > 1 else x
    if isinstance(v, dict):
        return {(fresh(k) if isinstance(k, str) else k): rekey(x) for k, x in v.items()}
    if isinstance(v, list):
        return [rekey(x) for x in v]
    if isinstance(v, tuple):
        return tuple(rekey(x) for x in v)
    return v


def none_paths(d, path=()):
    """paths of the None-valued keys of the object's own dictionary and of its sub-objects'"""
    if isinstance(d, dict):
        for k, v in d.items():
            if v is None:
                yield path + (k,)
            elif k in SUBOBJECT_KEYS and isinstance(v, dict):
                yield from none_paths(v, path + (k,))


def without(d, paths):
    out = copy.deepcopy(d)
    for p in paths:
        x = out
        for k in p[:-1]:
            x = x[k]
        x.pop(p[-1], None)
    return out


def sparse_variants(d):
    ps = list(none_paths(d))
    if not ps:
        return []
    out = [without(d, [p]) for p in ps[:8]]
    if len(ps) > 1:
        out.append(without(d, ps))
    return out


def neighbours(ctx, case):
    if case["cls"] == "legacy":
        return []
    return [dict(case, seed=case["seed"] + i, explicit_id=(i % 2 == 0)) for i in range(1, 8)]
