#!/bin/sh
# every thorough check once (clean rebuild only for the first one); prints one line per property
cd "$(dirname "$0")/.." || exit 2
first=1; fail=0
for p in ${*:-C01 C02 C03 C04 C05 C06 C07 C08 C09 C10 C11 C12 C13 C14 C15 C16 C17 C18 C19 C20}; do
  t0=$(date +%s)
  out=$(VERIF_CLEAN=$first ./check $p thorough 2>&1); rc=$?
  first=0
  echo "$p rc=$rc $(( $(date +%s) - t0 ))s :: $(echo "$out" | tail -1)"
  if [ $rc -ne 0 ]; then fail=1; echo "$out" | grep -v KNOWN | head -8; for f in replays/$p-*.json; do [ -f "$f" ] && head -c 2000 "$f" && echo; done; fi
done
exit $fail
