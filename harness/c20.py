"""C20 — topological sort of a revision log puts every parent before its children."""
from __future__ import annotations

import itertools

REQUIRED = ["Swh.C20.toposort_perm", "Swh.C20.toposort_parents_first", "Swh.C20.run_perm", "Swh.C20.run_parents_first",
            "Swh.C20.run_never_stuck", "Swh.C20.run_extends", "Swh.C20.fifo_isRun", "Swh.C20.toposortBy_isRun", "Swh.C20.isRun_exact"]
RULE = (
    "random DAGs of 0-60 revisions (linear chains, forks, octopus merges, several roots, disconnected "
    "components, duplicated parent ids; plus main-line histories of 1100-3000 (thorough: up to 10000) revisions with merged side branches) given in random input permutations (thorough: all permutations up "
    "to 7 nodes); non-trivial = at least one revision with >=1 parent; distinct by canonical JSON of the log"
)
ASSUMPTIONS = ["dict/deque/defaultdict behave as total maps / FIFO queue (checked by the exact-sequence correspondence; "
               "a sequence that is not the FIFO one is accepted when the Lean run checker `isRun` validates it as a run of the "
               "work-list algorithm under another discipline, for which the same theorems are proved)"]
TRUSTED = ["collections.deque, collections.defaultdict"]


def gen_dag(rng, n):
    """returns list of (id, parents) in a topological creation order"""
    shape = rng.choice(["random", "linear", "fork", "octopus", "forest", "dense"])
    revs = []
    for i in range(n):
        if i == 0 or (shape == "forest" and rng.random() < 0.3) or (shape == "random" and rng.random() < 0.15):
            parents = []
        elif shape == "linear":
            parents = [i - 1]
        elif shape == "fork":
            parents = [rng.randrange(0, i)]
        elif shape == "octopus":
            k = rng.randrange(1, min(i, 8) + 1)
            parents = [rng.randrange(0, i) for _ in range(k)]  # may repeat an id
        elif shape == "dense":
            parents = [j for j in range(i) if rng.random() < 0.5]
            rng.shuffle(parents)
        else:
            k = rng.choice([1, 1, 1, 2, 2, 3])
            parents = [rng.randrange(0, i) for _ in range(k)]
        revs.append((i, parents))
    # rename ids so that numeric order carries no information
    perm = list(range(n))
    rng.shuffle(perm)
    return [(perm[i], [perm[p] for p in ps]) for i, ps in revs]


def long_history(rng, n, order):
    """a main line of n revisions with a short side branch merged every 97 revisions — the shape of
    a real repository's log; sizes well beyond any recursion limit"""
    revs = []
    nxt = n
    for i in range(n):
        parents = [i - 1] if i else []
        if i and i % 97 == 0:
            side = nxt
            nxt += 1
            revs.append((side, [max(0, i - 40)]))
            parents.append(side)
        revs.append((i, parents))
    if order == "git-log":
        revs.reverse()
    elif order == "shuffled":
        rng.shuffle(revs)
    return {"log": [{"id": a, "parents": b} for a, b in revs]}


def generate(ctx):
    rng = ctx.rng
    cases = []
    for n in ([1100, 3000] if ctx.tier == "quick" else [1100, 3000, 10000]):
        for order in ("chronological", "git-log", "shuffled"):
            cases.append(long_history(rng, n, order))
    for i in range(ctx.budget(400, 6000)):
        n = rng.choice([0, 1, 2, 3, 4, 5, 6, 7, 8, 10, 15, 25, 40, 60])
        dag = gen_dag(rng, n)
        if ctx.tier == "thorough" and n <= 7 and i % 6 == 0:
            for p in itertools.permutations(dag):
                cases.append({"log": [{"id": a, "parents": b} for a, b in p]})
        else:
            for _ in range(rng.randrange(1, 4)):
                log = list(dag)
                rng.shuffle(log)
                cases.append({"log": [{"id": a, "parents": b} for a, b in log]})
    return cases


def canon_small(log):
    return "".join("%d:%s;" % (r["id"], ",".join(map(str, r["parents"]))) for r in log[:50])


def idb(i):
    return b"rev-%d" % i


ID_FORMS = ("bytes", "int", "bytes-empty", "str-empty", "tuple-empty", "bool-int")


def id_form(case):
    """how revision identifiers are spelled for the implementation: any hashable value is an identifier,
    including the ones Python treats as false (0, b"", "", (), False)"""
    return case.get("ids") or ID_FORMS[(len(case["log"]) + sum(r["id"] for r in case["log"][:3])) % len(ID_FORMS)]


def id_encoder(form):
    return {
        "bytes": idb,
        "int": lambda i: i,
        "bytes-empty": lambda i: b"" if i == 0 else idb(i),
        "str-empty": lambda i: "" if i == 0 else "rev-%d" % i,
        "tuple-empty": lambda i: () if i == 0 else (i,),
        "bool-int": lambda i: False if i == 0 else (i + 1 if i >= 1 else i),
    }[form]


def check_cases(ctx, cases):
    from swh.model.toposort import toposort

    reqs = []
    impls = []
    for case in cases:
        log = case["log"]
        ctx.case(case, nontrivial=any(r["parents"] for r in log))
        ctx.count("n=%s" % (len(log) if len(log) < 10 else "10+"))
        ctx.count("max_parents=%d" % min(8, max([len(r["parents"]) for r in log] or [0])))
        form = id_form(case)
        ctx.count("ids-as=" + form)
        enc = id_encoder(form)
        back = {}
        for r in log:
            for x in [r["id"]] + list(r["parents"]):
                back[enc(x)] = x
        inp = [{"id": enc(r["id"]), "parents": [enc(p) for p in r["parents"]], "extra": i} for i, r in enumerate(log)]
        try:
            # the log is "an iterable": also handed over as a tuple and as one-shot iterators
            how = ("list", "tuple", "iter", "generator", "reversed")[len(canon_small(log)) % 5]
            ctx.count("log-as=" + how)
            arg = {"list": lambda: inp, "tuple": lambda: tuple(inp), "iter": lambda: iter(inp), "generator": lambda: (r for r in inp),
                   "reversed": lambda: reversed(list(reversed(inp)))}[how]()
            with ctx.time_limit(60):
                out = list(toposort(arg))
        except (Exception, RecursionError) as e:
            ctx.fail(case, f"toposort raises {type(e).__name__} on a valid log of {len(log)} revisions", "raises:" + type(e).__name__)
            impls.append(None)
            reqs.append({"op": "ping"})
            continue
        order = [back[r["id"]] for r in out]
        impls.append(order)
        reqs.append({"op": "toposort", "log": log})
        # ---- property oracle
        ids = [r["id"] for r in log]
        if sorted(order) != sorted(ids):
            ctx.fail(case, "output is not a permutation of the input revisions", "not-a-permutation", {"order": order})
            continue
        if any(o is not i for o, i in zip(sorted(out, key=lambda r: r["extra"]), inp)):
            ctx.fail(case, "output revisions are not the input objects", "objects-changed")
        pos = {rid: k for k, rid in enumerate(order)}
        for r in log:
            for p in r["parents"]:
                if pos[p] >= pos[r["id"]]:
                    ctx.fail(case, f"revision {r['id']} is yielded before its parent {p}", "child-before-parent", {"order": order})
                    break
    # two sorts consumed in lockstep must not disturb each other (each case paired with the next;
    # a replayed failure carries its partner as "other_log")
    small = [(c, o) for c, o in zip(cases, impls) if o is not None and 0 < len(c["log"]) <= 200]
    pairs = list(zip(small, small[1:]))[:150]
    for c, o in zip(cases, impls):
        if o is not None and c.get("other_log"):
            c2 = {"log": c["other_log"]}
            o2 = [int(r["id"].split(b"-")[1]) for r in toposort([{"id": idb(r["id"]), "parents": [idb(p) for p in r["parents"]]} for r in c2["log"]])]
            pairs.append(((c, o), (c2, o2)))
    for (c1, o1), (c2, o2) in pairs:
        mk = lambda c: [{"id": idb(r["id"]), "parents": [idb(p) for p in r["parents"]]} for r in c["log"]]
        try:
            with ctx.time_limit(30):
                g1, g2 = toposort(mk(c1)), toposort(mk(c2))
                a, b = [], []
                for x, y in itertools.zip_longest(g1, g2):
                    if x is not None:
                        a.append(int(x["id"].split(b"-")[1]))
                    if y is not None:
                        b.append(int(y["id"].split(b"-")[1]))
        except Exception as e:
            ctx.fail({"log": c1["log"], "other_log": c2["log"]}, f"two sorts consumed in lockstep: {type(e).__name__}", "interleaved-raises")
            continue
        ctx.count("interleaved-pairs")
        if a != o1 or b != o2:
            ctx.fail({"log": c1["log"], "other_log": c2["log"]}, "two sorts consumed in lockstep give other sequences than each of them alone", "interleaved-differs", {"alone": [o1[:20], o2[:20]], "lockstep": [a[:20], b[:20]]})
    # the same sort in an interpreter started with -O (assert statements stripped): same sequences
    if len(cases) > 3 or any(c.get("interpreter") for c in cases):
        import os
        import subprocess
        import sys
        import json as _json

        from common import scratch_dir

        sample = [(c, o) for c, o in zip(cases, impls) if o is not None and 0 < len(c["log"]) <= 60][:40]
        d_ = scratch_dir("c20o")
        try:
            with open(os.path.join(d_, "logs.jsonl"), "w") as fh:
                for c, _ in sample:
                    fh.write(_json.dumps(c["log"]) + "\n")
            p = subprocess.run([sys.executable, "-O", os.path.join(os.path.dirname(os.path.abspath(__file__)), "c20_child.py"), os.path.join(d_, "logs.jsonl")],
                               stdout=subprocess.PIPE, stderr=subprocess.PIPE, timeout=300)
            lines = p.stdout.decode().splitlines()
            if p.returncode == 0 and len(lines) == len(sample):
                for (c, o), ln in zip(sample, lines):
                    r_ = _json.loads(ln)
                    ctx.count("optimised-interpreter")
                    if r_.get("order") != o:
                        ctx.fail(dict(c, interpreter="-O"), "in an interpreter started with -O the sort gives another sequence / raises " + str(r_.get("error")), "differs-under-python-O", {"got": r_})
                        break
            else:
                ctx.notes.append("python -O child failed: " + p.stderr.decode("utf-8", "replace")[-300:])
        finally:
            import shutil

            shutil.rmtree(d_, ignore_errors=True)
    res = ctx.model(reqs)
    other = []
    for case, r, order in zip(cases, res, impls):
        if order is None:
            continue
        if "error" in r:
            if ctx.model_available:
                ctx.disagree(case, "model driver error", model=r)
            continue
        if r["r"]["order"] == order:
            ctx.count("tie=fifo-sequence-exact")
            continue
        other.append((case, r["r"]["order"], order))
    # not the FIFO sequence: is it the yield sequence of the abstract algorithm under some other
    # work-list discipline (theorems run_perm / run_parents_first hold for every such run)?
    res2 = ctx.model([{"op": "toposort_run", "log": case["log"], "order": order} for case, _, order in other]) if other else []
    for (case, fifo, order), rr in zip(other, res2):
        if "error" not in rr and rr["r"].get("is_run") is True:
            ctx.count("tie=run-of-abstract-algorithm")
        else:
            ctx.disagree(case, "the yielded sequence is neither the FIFO model's nor a run of the abstract work-list algorithm", model=fifo[:50], impl=order[:50])


def neighbours(ctx, case):
    log = case["log"]
    out = [{"log": list(reversed(log))}]
    for i in range(len(log)):
        rid = log[i]["id"]
        rest = [dict(r, parents=[p for p in r["parents"] if p != rid]) for j, r in enumerate(log) if j != i]
        out.append({"log": rest})
    return out
