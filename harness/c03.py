"""C03 — revision ids are git commit ids for every field combination."""
from __future__ import annotations

import hashlib

import gitfmt
from common import hx, unhx

REQUIRED = [
    "Swh.C03.parseCommit_revisionManifest",
    "Swh.C03.revisionManifest_injective",
    "Swh.C03.revision_legacy_headers",
    "Swh.C03.parents_in_order",
    "Swh.C03.date_needs_person",
    "Swh.C03.personLine_dated",
]
RULE = (
    "revisions over all 9 author/committer/date presence combinations x message None/empty/arbitrary x 0-5 parents x "
    "seconds at range ends/0/-1/random x microseconds {0,1,10,100000,999999,random} x canonical and odd recorded offset "
    "bytes x extra headers (git-valid keys; values empty/leading space/multi-line/gpgsig-like) given as attribute or "
    "inside legacy metadata; a second stream with ill-formed keys compares manifest bytes only; non-trivial = has a "
    "person, a parent or an extra header; distinct by canonical JSON"
)
ASSUMPTIONS = [
    "SHA-1 uninterpreted in theorems; manifests hashed by hashlib in the harness",
    "header keys are git-valid (non-empty, no space/newline, not parent/author/committer) for the parser theorem: "
    "outside that set git's commit format itself is ambiguous (Lean examples in Props/C03.lean)",
]
TRUSTED = ["attrs construction of Revision/Person/TimestampWithTimezone", "git 2.39.5 and dulwich (oracle role only)"]

KEYS_OK = [b"gpgsig", b"mergetag", b"encoding", b"HG:extra", b"x", b"svn_repo_uuid", b"\xc3\xa9", b"a-b", b"tree", b"k\x00"]
KEYS_BAD = [b"", b"a b", b"a\nb", b" lead", b"parent", b"author", b"committer"]
VALUES = [b"", b" ", b" lead", b"a\nb", b"a\n\nb", b"\n", b"a\n", b"\n b", b"-----BEGIN PGP SIGNATURE-----\n\niQ\n =AB\n-----END PGP SIGNATURE-----\n", b"iso-8859-1", b"x\x00y", b"a\n b"]


def gen_case(rng, wf=True, gitlike=False):
    combos = []
    a_present = rng.random() < 0.8
    c_present = rng.random() < 0.8
    author = gitfmt.gen_person(rng, canonical=gitlike) if a_present or gitlike else None
    committer = gitfmt.gen_person(rng, canonical=gitlike) if c_present or gitlike else None
    date = gitfmt.gen_date(rng, canonical=gitlike, integer=gitlike) if author is not None and (gitlike or rng.random() < 0.8) else None
    cdate = gitfmt.gen_date(rng, canonical=gitlike, integer=gitlike) if committer is not None and (gitlike or rng.random() < 0.8) else None
    nparents = rng.choice([0, 1, 1, 2, 3, 5])
    parents = [hx(bytes(rng.randrange(256) for _ in range(20))) for _ in range(nparents)]
    if parents and rng.random() < 0.2 and not gitlike:
        parents.insert(rng.randrange(len(parents) + 1), rng.choice(parents))  # the same parent listed twice
    if parents and rng.random() < 0.1 and not gitlike:
        parents.insert(rng.randrange(len(parents) + 1), "")  # an empty parent id is skipped by the formatter
    extra = []
    for _ in range(rng.choice([0, 0, 1, 2, 3])):
        k = rng.choice(KEYS_OK if wf else KEYS_OK + KEYS_BAD + KEYS_BAD)
        v = rng.choice(VALUES) if rng.random() < 0.7 else gitfmt.gen_bytes(rng, 0, 30, alphabet=b"ab \n\n x\x00")
        extra.append([hx(k), hx(v)])
    msg = gitfmt.gen_message(rng)
    return {
        "directory": hx(bytes(rng.randrange(256) for _ in range(20))),
        "parents": parents,
        "author": hx(author),
        "date": date,
        "committer": hx(committer),
        "committer_date": cdate,
        "extra": extra,
        "via_meta": bool(extra) and rng.random() < 0.4,
        "message": hx(msg),
        "wf": wf,
        "gitlike": gitlike,
    }


def generate(ctx):
    rng = ctx.rng
    cases = []
    for i in range(ctx.budget(350, 6000)):
        r = i % 10
        if r == 0:
            cases.append(gen_case(rng, wf=False))
        elif r in (1, 2):
            cases.append(gen_case(rng, wf=True, gitlike=True))
        else:
            cases.append(gen_case(rng, wf=True))
    return cases


def build(case, variant=0, frozen_metadata=None):
    from swh.model import model

    extra = tuple((unhx(k), unhx(v)) for k, v in case["extra"])
    metadata = None
    if case["via_meta"]:
        metadata = frozen_metadata if frozen_metadata is not None else {"extra_headers": [[k, v] for k, v in extra], "other": "x"}
        extra_attr = ()
    else:
        extra_attr = extra
        if variant:
            metadata = {"unrelated": [1, 2, 3]}

    def person(b):
        if b is None:
            return None
        fn = unhx(b)
        if variant:
            return model.Person(fullname=fn, name=b"Other", email=b"o@o")
        return model.Person(fullname=fn, name=None, email=None)

    return model.Revision(
        message=unhx(case["message"]),
        author=person(case["author"]),
        committer=person(case["committer"]),
        date=gitfmt.py_date(case["date"]),
        committer_date=gitfmt.py_date(case["committer_date"]),
        type=model.RevisionType.MERCURIAL if variant else model.RevisionType.GIT,
        directory=unhx(case["directory"]),
        synthetic=bool(variant),
        metadata=metadata,
        parents=tuple(unhx(p) for p in case["parents"]),
        extra_headers=extra_attr,
    )


def expected_headers(case):
    hs = [(b"tree", case["directory"].encode())]
    for p in case["parents"]:
        if p:
            hs.append((b"parent", p.encode()))
    if case["author"] is not None:
        hs.append((b"author", gitfmt.indep_person_line(unhx(case["author"]), case["date"])))
    if case["committer"] is not None:
        hs.append((b"committer", gitfmt.indep_person_line(unhx(case["committer"]), case["committer_date"])))
    for k, v in case["extra"]:
        hs.append((unhx(k), unhx(v)))
    return hs


def git_roundtrip(ctx, case):
    """commit produced by real git from the same fields must be reproduced byte for byte"""
    from swh.model import git_objects, model

    rc, out, _ = gitfmt.git(["hash-object", "-t", "tree", "-w", "--stdin"], inp=b"")
    tree = out.decode().strip()
    a, c = unhx(case["author"]), unhx(case["committer"])

    def split(fn):
        name, _, rest = fn.partition(b" <")
        return name, rest.rstrip(b">")

    an, ae = split(a)
    cn, ce = split(c)
    d, cd = case["date"], case["committer_date"]
    env = {
        "GIT_AUTHOR_NAME": an.decode("utf-8", "surrogateescape"), "GIT_AUTHOR_EMAIL": ae.decode("utf-8", "surrogateescape"),
        "GIT_COMMITTER_NAME": cn.decode("utf-8", "surrogateescape"), "GIT_COMMITTER_EMAIL": ce.decode("utf-8", "surrogateescape"),
        "GIT_AUTHOR_DATE": "@%d %s" % (d["s"], unhx(d["off"]).decode()), "GIT_COMMITTER_DATE": "@%d %s" % (cd["s"], unhx(cd["off"]).decode()),
    }
    # parents: a chain of throw-away commits
    parents = []
    for i in range(len([p for p in case["parents"] if p])):
        rc, out, err = gitfmt.git(["commit-tree", tree, "-m", "p%d" % i], env=env)
        if rc != 0:
            return
        parents.append(out.decode().strip())
    args = ["commit-tree", tree]
    for p in parents:
        args += ["-p", p]
    msg = unhx(case["message"]) or b""
    rc, out, err = gitfmt.git(args + ["-F", "-"], inp=msg, env=env)
    if rc != 0:
        ctx.count("git-commit-tree-refused")
        return
    cid = out.decode().strip()
    rc, raw, _ = gitfmt.git(["cat-file", "commit", cid])
    ctx.count("git-commit-tree")
    hs, message = gitfmt.indep_parse_headers(b"commit %d\x00" % len(raw) + raw, b"commit")

    def person_date(line):
        fn, s, off = line.rsplit(b" ", 2)
        return model.Person(fullname=fn, name=None, email=None), model.TimestampWithTimezone(
            timestamp=model.Timestamp(seconds=int(s), microseconds=0), offset_bytes=off)

    hd = dict((k, v) for k, v in hs if k in (b"tree", b"author", b"committer"))
    au, ad = person_date(hd[b"author"])
    co, cdt = person_date(hd[b"committer"])
    rev = model.Revision(
        message=message, author=au, committer=co, date=ad, committer_date=cdt, type=model.RevisionType.GIT,
        directory=bytes.fromhex(hd[b"tree"].decode()), synthetic=False,
        parents=tuple(bytes.fromhex(v.decode()) for k, v in hs if k == b"parent"),
        extra_headers=tuple((k, v) for k, v in hs if k not in (b"tree", b"parent", b"author", b"committer")),
    )
    if git_objects.revision_git_object(rev) != b"commit %d\x00" % len(raw) + raw or rev.id.hex() != cid:
        ctx.fail(case, "a commit written by git is not reproduced byte for byte from its fields", "git-commit-differs", {"git_raw": hx(raw), "impl": hx(git_objects.revision_git_object(rev))})


def check_cases(ctx, cases):
    from swh.model import git_objects
    import dulwich.objects

    reqs = []
    impls = []
    for ci, case in enumerate(cases):
        rev = build(case)
        man = git_objects.revision_git_object(rev)
        gitfmt.dict_form_agrees(ctx, case, git_objects.revision_git_object, rev, man)
        if case["via_meta"]:
            # the legacy metadata handed over as ONE already-frozen mapping to several revisions
            from swh.model.collections import ImmutableDict

            fm = ImmutableDict({"extra_headers": [[unhx(k), unhx(v)] for k, v in case["extra"]], "other": "x"})
            for nth in (1, 2, 3):
                rv = build(case, frozen_metadata=fm if nth != 3 else ImmutableDict(fm))
                if rv.id != rev.id or rv.extra_headers != rev.extra_headers:
                    ctx.fail(case, f"revision no. {nth} built from the same frozen legacy metadata has other extra headers / another id than the first", "legacy-headers-differ:shared-metadata", {"nth": nth})
                    break
        impls.append((man, rev.id))
        ctx.case(case, nontrivial=bool(case["author"] or case["committer"] or case["parents"] or case["extra"]))
        ctx.count("presence=%s%s%s%s" % ("A" if case["author"] is not None else "-", "d" if case["date"] else "-", "C" if case["committer"] is not None else "-", "d" if case["committer_date"] else "-"))
        ctx.count("message=" + ("none" if case["message"] is None else ("empty" if case["message"] == "" else "bytes")))
        ctx.count("extra=%d%s" % (len(case["extra"]), "meta" if case["via_meta"] else ""))
        ctx.count("wf=%s" % case["wf"])
        reqs.append({"op": "rev_manifest", "directory": case["directory"], "parents": case["parents"], "author": case["author"],
                     "date": case["date"], "committer": case["committer"], "committer_date": case["committer_date"],
                     "extra": [] if case["via_meta"] else case["extra"], "meta": case["extra"] if case["via_meta"] else None,
                     "message": case["message"]})
        reqs.append({"op": "commit_parse", "bytes": hx(man)})

        # ------------- oracle on the implementation
        hs = expected_headers(case)
        want = gitfmt.indep_headers_object(b"commit", hs, unhx(case["message"]))
        if man != want:
            ctx.fail(case, "manifest is not the git commit object for these fields", "manifest-not-git-commit", {"impl": hx(man), "oracle": hx(want)})
        if rev.id != hashlib.sha1(man).digest():
            ctx.fail(case, "Revision.id is not the SHA-1 of the commit object", "id-not-sha1-of-manifest")
        if str(rev.swhid()) != "swh:1:rev:" + rev.id.hex():
            ctx.fail(case, "swhid() does not carry the id", "swhid-mismatch")
        if case["wf"]:
            try:
                phs, pmsg = gitfmt.indep_parse_headers(man, b"commit")
                if phs != hs or pmsg != unhx(case["message"]):
                    ctx.fail(case, "independent commit parser does not recover the fields", "parse-mismatch", {"parsed": [(hx(k), hx(v)) for k, v in phs]})
            except Exception as e:
                ctx.fail(case, f"independent commit parser fails: {type(e).__name__}", "parse-error")
        # attributes that are not part of a commit must not influence the id
        rev2 = build(case, variant=1)
        if rev2.id != rev.id:
            ctx.fail(case, "type/synthetic/name/email/unrelated metadata influence the id", "non-commit-attribute-influences-id")
        # headers as attribute vs inside legacy metadata
        if case["extra"]:
            other = dict(case, via_meta=not case["via_meta"])
            if build(other).id != rev.id:
                ctx.fail(case, "extra headers as attribute and inside legacy metadata give different ids", "legacy-headers-differ")
        # dulwich and git on the subset they can express
        # (dulwich keeps the last `tree` header and insists on parsing a `mergetag` value as a tag:
        #  limits of that library, not of the format)
        if case.get("gitlike") and case["wf"] and not any(unhx(k) in (b"tree", b"mergetag") for k, _ in case["extra"]):
            body = man[man.index(b"\x00") + 1 :]
            try:
                dc = dulwich.objects.Commit.from_string(body)
                ok = (dc.id == rev.id.hex().encode() and dc.tree == case["directory"].encode()
                      and dc.parents == [p.encode() for p in case["parents"] if p]
                      and dc.author == unhx(case["author"]) and dc.committer == unhx(case["committer"])
                      and dc.author_time == case["date"]["s"] and dc.commit_time == case["committer_date"]["s"]
                      and (dc.message == unhx(case["message"]) or (case["message"] is None and not dc.message)))
                ctx.count("dulwich-parse")
                if not ok:
                    ctx.fail(case, "dulwich parses the manifest to different fields", "dulwich-mismatch")
            except Exception as e:
                ctx.fail(case, f"dulwich cannot parse the manifest: {type(e).__name__}: {e}", "dulwich-error")
            use_git = ctx.tier == "thorough" or ci % 8 == 1
            if use_git and not case["extra"] and b"\n" not in unhx(case["author"]) + unhx(case["committer"]) and b"\x00" not in (unhx(case["message"]) or b"") and case["date"]["s"] >= 0 and case["committer_date"]["s"] >= 0 and case["date"]["s"] < 2**40 and case["committer_date"]["s"] < 2**40:
                git_roundtrip(ctx, case)

    res = ctx.model(reqs)
    for ci, case in enumerate(cases):
        r1, r2 = res[2 * ci], res[2 * ci + 1]
        man, rid = impls[ci]
        if "error" in r1 or "error" in r2:
            if ctx.model_available:
                ctx.disagree(case, "model driver error", model=[r1, r2])
            continue
        mm = unhx(r1["r"]["manifest"])
        if mm != man:
            ctx.disagree(case, "revision_git_object: model vs implementation", model=hx(mm), impl=hx(man))
        elif hashlib.sha1(mm).digest() != rid:
            ctx.disagree(case, "Revision.id != sha1(model manifest)")
        if case["wf"]:
            p = r2["r"]["parsed"]
            want = {
                "tree": hx(case["directory"].encode()),
                "parents": [hx(x.encode()) for x in case["parents"] if x],
                "author": None if case["author"] is None else hx(gitfmt.indep_person_line(unhx(case["author"]), case["date"])),
                "committer": None if case["committer"] is None else hx(gitfmt.indep_person_line(unhx(case["committer"]), case["committer_date"])),
                "extra": case["extra"],
                "message": case["message"],
            }
            if p != want:
                ctx.disagree(case, "Lean parseCommit on the implementation's manifest does not return the fields", model=p, impl=want)


def neighbours(ctx, case):
    out = []
    for key in ("author", "committer", "date", "committer_date", "message"):
        if case.get(key) is not None:
            c = dict(case)
            c[key] = None
            if key == "author":
                c["date"] = None
            if key == "committer":
                c["committer_date"] = None
            out.append(c)
    if case["extra"]:
        out.append(dict(case, extra=[], via_meta=False))
        out.append(dict(case, via_meta=not case["via_meta"]))
    if case["parents"]:
        out.append(dict(case, parents=[]))
    for key in ("date", "committer_date"):
        if case.get(key):
            out.append(dict(case, **{key: dict(case[key], us=0)}))
            out.append(dict(case, **{key: dict(case[key], us=100000)}))
    return out
