"""Shared history generator / runner for C10 (no stale hash) and C14 (collection).

A *history* is a list of operations over node indices, run (a) on real swh.model objects —
generic MerkleNode/MerkleLeaf subclasses whose hash is an injective string description, or
from_disk.Directory/Content built in memory — and (b) on the Lean model (driver op
`merkle_run`, hashes as structure terms).  The history is generated against the live objects so
that names, nested paths and acyclicity are meaningful.
"""
from __future__ import annotations

import hashlib
import random

from common import time_limit, hx

NAMES = [b"a", b"b", b"a.b", b"a0", b"c", b"ab"]


def sha(d):
    return hashlib.sha1(b"content %d" % d).digest()


# A Content with data id d (odd) has the bytes of class d // LEAF_CLASS and the permissions
# PERMS[d % 3]: 3 and 5 are one blob under two modes, 7, 9 and 11 another under three — sha1_git
# does not cover the permissions, the parent Directory's hash does.
LEAF_CLASS = 6


def csha(d):
    return sha(d // LEAF_CLASS * LEAF_CLASS + 1)


def classes():
    from swh.model.from_disk import Content, DentryPerms, Directory
    from swh.model.merkle import MerkleLeaf, MerkleNode

    PERMS = [DentryPerms.content, DentryPerms.executable_content, DentryPerms.symlink]

    class G(MerkleNode):
        def compute_hash(self):
            return "N%d[%s]" % (self.data, ",".join("%s:%s" % (k.hex(), c.hash) for k, c in self.items()))

    class L(MerkleLeaf):
        def compute_hash(self):
            return "N%d[]" % self.data

    def mk_content(d):
        return Content({"sha1_git": csha(d), "perms": PERMS[d % 3], "length": 0, "status": "visible",
                        "sha1": csha(d), "sha256": b"0" * 32, "blake2s256": b"1" * 32, "did": d})

    def mk_dir(d):
        return Directory({"name": b"n%d" % d, "did": d})

    return G, L, mk_content, mk_dir, PERMS, MerkleLeaf, Directory, Content


class World:
    """runs a scripted or generated history on the implementation"""

    def __init__(self, kind):
        self.kind = kind
        (self.G, self.L, self.mk_content, self.mk_dir, self.PERMS, self.MerkleLeaf, self.Directory, self.Content) = classes()
        self.nodes = []
        self.did = []
        self.level = []
        self.ops = []      # JSON ops
        self.outs = []     # implementation outputs, canonical
        self.crash = None

    def idx(self, obj):
        for i, o in enumerate(self.nodes):
            if o is obj:
                return i
        raise KeyError("unknown node")

    # ---- evaluation of a model hash term into the value the implementation should report
    def ev(self, t):
        from swh.model import model
        from swh.model.from_disk import DentryPerms

        d, ks = t
        if self.kind == "A":
            return "N%d[%s]" % (d, ",".join("%s:%s" % (k, self.ev(v)) for k, _isdir, _cd, v in ks))
        if d % 2 == 1:
            return sha(d)  # d is already the class representative (the driver's q)
        ents = []
        for k, isdir, cd, v in ks:
            if not isdir:
                ents.append(model.DirectoryEntry(name=bytes.fromhex(k), type="file", perms=self.PERMS[cd % 3], target=self.ev(v)))
            else:
                ents.append(model.DirectoryEntry(name=bytes.fromhex(k), type="dir", perms=DentryPerms.directory, target=self.ev(v)))
        return model.Directory(entries=tuple(ents)).id

    # ---- from-scratch hash of a live node: fresh objects, no cache involved (the C10/C14 oracle)
    def scratch(self, node, depth=0):
        from swh.model import model
        from swh.model.from_disk import DentryPerms

        if depth > 60:
            raise RecursionError("cycle")
        if self.kind == "A":
            if isinstance(node, self.MerkleLeaf):
                return "N%d[]" % node.data
            return "N%d[%s]" % (node.data, ",".join("%s:%s" % (k.hex(), self.scratch(c, depth + 1)) for k, c in dict.items(node)))
        if isinstance(node, self.Content):
            return node.data["sha1_git"]
        ents = []
        for k, c in dict.items(node):
            if isinstance(c, self.Content):
                ents.append(model.DirectoryEntry(name=k, type="file", perms=c.data["perms"], target=self.scratch(c, depth + 1)))
            else:
                ents.append(model.DirectoryEntry(name=k, type="dir", perms=DentryPerms.directory, target=self.scratch(c, depth + 1)))
        return model.Directory(entries=tuple(ents)).id

    def reachable(self, root):
        seen, out, todo = set(), [], [root]
        while todo:
            x = todo.pop()
            if id(x) in seen:
                continue
            seen.add(id(x))
            out.append(x)
            if not isinstance(x, self.MerkleLeaf):
                todo.extend(dict.values(x))
        return out

    def resolve(self, p, path):
        x = self.nodes[p]
        for k in path:
            if isinstance(x, self.MerkleLeaf) or not dict.__contains__(x, k):
                return None
            x = dict.__getitem__(x, k)
        return x

    # ---- executing one JSON op on the implementation
    def apply(self, op):
        tag = op[0]
        n = self.nodes

        def guarded(f):
            try:
                f()
                return ["unit"]
            except KeyError:
                return ["err", "KeyError"]
            except ValueError:
                return ["err", "ValueError"]

        if tag == "new":
            _, d, is_dir, is_leaf = op
            if self.kind == "A":
                obj = self.L(d) if is_leaf else self.G(d)
            else:
                obj = self.mk_content(d) if is_leaf else self.mk_dir(d)
            n.append(obj)
            self.did.append(d)
            return ["id", len(n) - 1]
        if tag == "set":
            _, p, c, *names = op
            key = b"/".join(bytes.fromhex(x) for x in names)

            def f():
                n[p][key] = n[c]

            return guarded(f)
        if tag == "del":
            _, p, *names = op
            key = b"/".join(bytes.fromhex(x) for x in names)

            def f():
                del n[p][key]

            return guarded(f)
        if tag == "upd":
            _, p, kids = op

            def f():
                n[p].update({bytes.fromhex(nm): n[c] for nm, c in kids})

            return guarded(f)
        if tag == "hash":
            return ["hash", n[op[1]].hash]
        if tag == "force":
            return ["hash", n[op[1]].update_hash(force=True)]
        if tag == "ent":
            return ["ent", [(e["name"], e["type"], int(e["perms"]), e["target"]) for e in n[op[1]].entries]]
        if tag == "mod":
            m = n[op[1]].to_model()
            return ["mod", [(e.name, e.type, int(e.perms), e.target) for e in m.entries], m.id]
        if tag == "coll":
            s = n[op[1]].collect()
            return ["ids", sorted(((self.did[self.idx(x)], x.hash) for x in s), key=repr)]
        if tag == "reset":
            n[op[1]].reset_collect()
            return ["unit"]
        if tag == "has":
            _, p, *names = op
            key = b"/".join(bytes.fromhex(x) for x in names)
            return ["bool", key in n[p]]
        raise ValueError(tag)

    def run_op(self, op):
        self.ops.append(op)
        with time_limit(10):
            out = self.apply(op)
        self.outs.append(out)
        return out

    # ---- random generation against the live objects (keeps the structure acyclic through levels)
    def gen_op(self, r, mix):
        n = len(self.nodes)
        if n < 6 or r.random() < 0.05:
            d = r.randrange(1, 6 if r.random() < 0.8 else 3)
            leaf = r.random() < 0.3
            if self.kind == "B":
                d = 2 * d + (1 if leaf else 0)
            self.level.append(0 if leaf else r.randrange(1, 7))
            return ["new", d, (self.kind == "B" and not leaf), leaf]
        p = r.randrange(n)
        nonleaf = [i for i in range(n) if not isinstance(self.nodes[i], self.MerkleLeaf)]
        if nonleaf and r.random() < 0.85:
            p = r.choice(nonleaf)

        def rpath():
            ln = 1 if (self.kind == "A" or r.random() < 0.5) else r.randrange(2, 4)
            path = []
            x = self.nodes[p]
            for j in range(ln):
                keys = list(dict.keys(x)) if x is not None and not isinstance(x, self.MerkleLeaf) else []
                if j < ln - 1:
                    dk = [k for k in keys if not isinstance(dict.__getitem__(x, k), self.MerkleLeaf)]
                    if dk and r.random() < 0.9:
                        keys = dk
                if keys and r.random() < (0.9 if j < ln - 1 else 0.6):
                    k = r.choice(keys)
                else:
                    k = r.choice(NAMES)
                path.append(k)
                x = dict.get(x, k) if x is not None and not isinstance(x, self.MerkleLeaf) else None
            return path

        c = r.random()
        acc = 0.0
        for tag, w in mix:
            acc += w
            if c < acc:
                break
        if tag == "mirror":
            # copy an existing edge p0 -name-> c under another node with the same data, so that
            # structurally equal parents sharing children appear
            edges = [(i, k, self.idx(c)) for i in nonleaf for k, c in dict.items(self.nodes[i])]
            r.shuffle(edges)
            for (p0, k, ci) in edges[:8]:
                twins = [j for j in nonleaf if j != p0 and self.did[j] == self.did[p0] and self.level[j] > self.level[ci]
                         and type(self.nodes[j]) is type(self.nodes[p0])]
                if twins:
                    return ["set", r.choice(twins), ci, k.hex()]
            return None
        if tag == "twin":
            # replace a child by a distinct node that is structurally equal to it (== for Merkle nodes),
            # through bulk update or plain assignment
            edges = [(i, k, self.idx(c)) for i in nonleaf for k, c in dict.items(self.nodes[i])]
            r.shuffle(edges)
            for (p0, k, ci) in edges[:12]:
                c = self.nodes[ci]
                same = lambda a, b: a == b or (self.kind == "B" and isinstance(a, self.Content) and a.data["sha1_git"] == b.data["sha1_git"])
                twins = [j for j in range(n) if j != ci and type(self.nodes[j]) is type(c) and same(self.nodes[j], c) and self.level[p0] > self.level[j]]
                if twins:
                    j = r.choice(twins)
                    return ["upd", p0, [[k.hex(), j]]] if r.random() < 0.7 else ["set", p0, j, k.hex()]
            return None
        if tag == "set":
            path = rpath()
            ch = r.randrange(n)
            if nonleaf and r.random() < 0.5:
                ch = r.choice(nonleaf)
            tgt = self.resolve(p, path[:-1])
            if tgt is not None and not isinstance(tgt, self.MerkleLeaf):
                ti = self.idx(tgt)
                if not (self.level[ti] > self.level[ch]):
                    return None
            if self.kind == "B" and len(path) > 1 and tgt is None:
                pass
            return ["set", p, ch] + [k.hex() for k in path]
        if tag == "del":
            path = rpath()
            return ["del", p] + [k.hex() for k in path]
        if tag == "upd":
            names = r.sample(NAMES, r.randrange(0, 4))
            kids = []
            for nm in names:
                ch = r.randrange(n)
                if not (self.level[p] > self.level[ch]):
                    continue
                if self.kind == "B" and False:
                    continue
                kids.append([nm.hex(), ch])
            if isinstance(self.nodes[p], self.MerkleLeaf) and self.kind == "B":
                return None
            return ["upd", p, kids]
        if tag == "hash":
            return ["hash", p]
        if tag == "force":
            return ["force", p]
        if tag in ("ent", "mod"):
            if self.kind != "B" or not isinstance(self.nodes[p], self.Directory):
                return ["hash", p]
            return [tag, p]
        if tag == "coll":
            return ["coll", p]
        if tag == "reset":
            return ["reset", p]
        if tag == "has":
            path = rpath() if r.random() < 0.7 else [r.choice(NAMES) for _ in range(r.randrange(1, 4))]
            return ["has", p] + [k.hex() for k in path]
        return None


MIX_C10 = [("set", 0.17), ("mirror", 0.09), ("twin", 0.06), ("del", 0.12), ("upd", 0.07), ("hash", 0.22), ("force", 0.06), ("ent", 0.04), ("mod", 0.05), ("coll", 0.04), ("reset", 0.02), ("has", 0.06)]
MIX_C14 = [("set", 0.15), ("mirror", 0.07), ("twin", 0.05), ("del", 0.11), ("upd", 0.06), ("hash", 0.07), ("force", 0.06), ("ent", 0.02), ("mod", 0.02), ("coll", 0.26), ("reset", 0.09), ("has", 0.04)]


def canon_out(world, out):
    """implementation output -> JSON-able canonical form"""
    tag = out[0]
    if tag == "hash":
        return ["hash", out[1] if isinstance(out[1], str) else hx(out[1])]
    if tag == "ids":
        return ["ids", sorted([d, h if isinstance(h, str) else hx(h)] for d, h in out[1])]
    if tag == "ent":
        return ["ent", [[hx(n), t, p, hx(g)] for n, t, p, g in out[1]]]
    if tag == "mod":
        return ["mod", [[hx(n), t, p, hx(g)] for n, t, p, g in out[1]], hx(out[2])]
    return list(out)


def canon_model_out(world, o):
    """model output (terms) -> the same canonical form, evaluating terms with real hashing"""
    from swh.model.from_disk import DentryPerms

    tag = o[0]

    def hv(t):
        v = world.ev(t)
        return v if isinstance(v, str) else hx(v)

    if tag == "hash":
        return ["hash", hv(o[1])]
    if tag == "ids":
        # the implementation returns a Python set: nodes equal under == with equal hash merge
        vals = {(world.did[i], hv(t)) for i, t in o[1] if t is not None}
        return ["ids", sorted([d, h] for d, h in vals)]
    if tag == "ent" or tag == "mod":
        es = [[e[0], "dir" if e[1] else "file", int(DentryPerms.directory if e[1] else world.PERMS[e[2] % 3]), hv(e[3])] for e in o[1]]
        return [tag, es] + ([hv(o[2])] if tag == "mod" else [])
    if tag == "bool":
        return ["bool", bool(o[1])]
    return list(o)
