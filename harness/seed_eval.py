#!/usr/bin/env python3
"""Confirm a seeded change produced by an independent sub-agent and run the checks against it.

usage: seed_eval.py <Cxx> <dir with patch.diff demo.py meta.json> [--name <seed name>] [--checks C01,C02]

 1. scratch worktree of /repo (outside /repo and /verif), removed afterwards:
      demo passes on the unmodified tree, patch applies, suite still 923 passed, demo fails
 2. `git -C /repo apply patch` ; ./check <Cxx> quick (and any extra checks) ; `git -C /repo checkout -- .`
 3. record everything in /verif/seeded/<name>/meta.json next to patch.diff and the demonstration
"""
import json
import os
import shutil
import subprocess
import sys
import time

VERIF = os.path.dirname(os.path.dirname(os.path.abspath(__file__)))


def sh(cmd, cwd=None, timeout=1800, env=None):
    p = subprocess.run(cmd, shell=True, cwd=cwd, stdout=subprocess.PIPE, stderr=subprocess.STDOUT, text=True, timeout=timeout, env=env)
    return p.returncode, "\n".join(l for l in p.stdout.splitlines() if "conda" not in l.lower())


def main():
    pid = sys.argv[1]
    src = sys.argv[2]
    name = pid
    checks = [pid]
    a = sys.argv[3:]
    while a:
        if a[0] == "--name":
            name = a[1]
            a = a[2:]
        elif a[0] == "--checks":
            checks = a[1].split(",")
            a = a[2:]
        else:
            a = a[1:]
    meta = json.load(open(os.path.join(src, "meta.json")))
    patch = os.path.abspath(os.path.join(src, "patch.diff"))
    demo = os.path.abspath(os.path.join(src, "demo.py"))
    wt = "/tmp/seedeval-%s-%d" % (name, os.getpid())
    rec = {"confirmed": False, "ran": []}
    try:
        rc, out = sh(f"git -C /repo worktree add -q --detach {wt} HEAD")
        assert rc == 0, out
        os.makedirs(os.path.join(wt, "_seed"), exist_ok=True)
        shutil.copy(demo, os.path.join(wt, "_seed", "demo.py"))
        rc0, out0 = sh("/venv/bin/python _seed/demo.py", cwd=wt, timeout=600)
        rec["ran"].append({"cmd": "demo.py on the unmodified tree", "exit": rc0, "tail": out0[-300:]})
        rca, outa = sh(f"git apply {patch}", cwd=wt)
        rec["ran"].append({"cmd": "git apply patch.diff", "exit": rca, "tail": outa[-300:]})
        # the repository's own hypothesis tests are occasionally flaky on a cold checkout (seen at the
        # original commit too): up to three runs, one clean run is enough
        for attempt in range(3):
            rct, outt = sh("/venv/bin/python -m pytest -q -p no:cacheprovider -n 8 2>&1 | tail -1", cwd=wt)
            rec["ran"].append({"cmd": "pytest (existing suite, unedited) with the change, run %d" % (attempt + 1), "exit": rct, "tail": outt[-200:]})
            if "923 passed" in outt:
                break
        rc1, out1 = sh("/venv/bin/python _seed/demo.py", cwd=wt, timeout=600)
        rec["ran"].append({"cmd": "demo.py with the change", "exit": rc1, "tail": out1[-300:]})
        rec["confirmed"] = rc0 == 0 and rca == 0 and "923 passed" in outt and rc1 != 0
    finally:
        sh(f"git -C /repo worktree remove --force {wt}")
        shutil.rmtree(wt, ignore_errors=True)
    # checks against /repo itself with the change applied, undone straight afterwards
    results = {}
    rc, out = sh("git -C /repo status --porcelain")
    assert out.strip() == "", "/repo working tree is not clean: " + out
    rc, out = sh(f"git -C /repo apply {patch}")
    try:
        if rc == 0:
            for c in checks:
                t0 = time.time()
                rcc, outc = sh(f"./check {c} quick", cwd=VERIF, timeout=3600)
                viol = [l for l in outc.splitlines() if l.startswith("VIOLATION")]
                replays = {}
                for l in viol[:3]:
                    for tok in l.split():
                        if tok.startswith("replay="):
                            try:
                                rj = json.load(open(os.path.join(VERIF, tok[7:])))
                                replays[tok[7:]] = {"kind": rj.get("kind"), "what": rj.get("what")}
                            except Exception:
                                pass
                results[c] = {"exit": rcc, "violation_lines": viol[:6], "replays": replays, "summary": outc.splitlines()[-1] if outc else "", "wall_s": round(time.time() - t0, 1)}
    finally:
        sh("git -C /repo checkout -- .")
        shutil.rmtree(os.path.join(VERIF, "replays"), ignore_errors=True)
    # the evidence files were rewritten by runs against a modified tree: restore them from git
    sh("git checkout -- evidence", cwd=VERIF)
    dst = os.path.join(VERIF, "seeded", name)
    os.makedirs(dst, exist_ok=True)
    shutil.copy(patch, os.path.join(dst, "patch.diff"))
    shutil.copy(demo, os.path.join(dst, "demo.py"))
    meta_out = {
        "property": pid,
        "summary": meta.get("summary"),
        "needs": meta.get("needs"),
        "why_tests_pass": meta.get("why_tests_pass"),
        "origin": "independent sub-agent given only the property text and a scratch worktree",
        "confirmed": rec["confirmed"],
        "what_i_ran": rec["ran"],
        "checks": results,
        "caught": any(r["exit"] == 1 and r["violation_lines"] for r in results.values()),
        "caught_with_concrete_input": any(r["exit"] == 1 and any("no-failing-input-found" not in l for l in r["violation_lines"]) for r in results.values()),
    }
    json.dump(meta_out, open(os.path.join(dst, "meta.json"), "w"), indent=1)
    print(json.dumps({k: meta_out[k] for k in ("property", "confirmed", "caught", "caught_with_concrete_input")}), {c: (r["exit"], r["summary"][-120:]) for c, r in results.items()})


if __name__ == "__main__":
    main()
