"""Child of the C09 check: parses the given strings with the three SWHID classes in an interpreter whose
locale / filesystem encoding is not UTF-8 (the parent sets LC_ALL=C PYTHONUTF8=0 PYTHONCOERCECLOCALE=0) and
prints, per string, what each class answered — one JSON line per string."""
import json
import sys

import common  # noqa: F401  (puts the repository under test on sys.path)
import swhid_common as sc


def main():
    out = []
    for line in open(sys.argv[1], encoding="ascii"):
        s = sc.uncps(json.loads(line)["s"])
        row = {}
        for cls in ("core", "extended", "qualified"):
            st, val = sc.parse_impl(cls, s)
            if st == "ok":
                try:
                    row[cls] = ["ok", sc.value_json(cls, val), sc.cps(str(val))]
                except BaseException as e:  # noqa: B902
                    row[cls] = ["ok", "unprintable:" + type(e).__name__, None]
            else:
                row[cls] = ["err", val, None]
        out.append(json.dumps(row, sort_keys=True))
    sys.stdout.write("\n".join(out) + "\n")
    sys.stdout.write(json.dumps({"fsencoding": sys.getfilesystemencoding()}) + "\n")


if __name__ == "__main__":
    main()
