"""C01 — content hashes: every route gives the git blob id and the same digests."""
from __future__ import annotations

import hashlib
import io
import os
import shutil
import subprocess

from common import ImplementationHang, hx, unhx, scratch_dir

REQUIRED = [
    "Swh.C01.update_chunks",
    "Swh.C01.chunking_irrelevant",
    "Swh.C01.fromFile_reads",
    "Swh.C01.blocks_ok",
    "Swh.C01.blockSize_pos",
    "Swh.C01.routes_agree",
    "Swh.C01.git_stream_is_blob",
    "Swh.C01.default_names",
    "Swh.C01.new_error_iff",
    "Swh.C01.mk_error",
    "Swh.C01.copy_independent",
]
RULE = (
    "byte strings of lengths {0,1,2,55,56,63,64,65} U {k*BLOCK+d | k in 0..4, d in -2..2} U random; chunkings: random "
    "partitions with empty chunks, 1-byte chunks, block aligned, short-read file objects; name subsets: default + random "
    "subsets of the 7 names + 'length' (thorough: all 256 subsets), with/without length; routes: from_data, manual "
    "update stream, from_file(BytesIO / short-read object), from_path, hash_git_data, content_git_object, model and "
    "on-disk content constructors, swh identify (file and stdin), copy() mid-stream with diverging updates; "
    "non-trivial = data longer than 0 bytes; distinct by (len, sha1(data), chunking, names)"
)
ASSUMPTIONS = [
    "hashlib objects are concatenative (update(a);update(b) == update(a+b)) and copy() is independent: the model's "
    "contract; digests are uninterpreted in the theorems, the harness applies hashlib to the streams the model prints",
    "os.path.getsize/read see the same file (no concurrent modification)",
]
TRUSTED = ["hashlib", "io.BytesIO / file objects", "click CliRunner", "git hash-object (oracle role)"]

ALL_NAMES = ["sha1", "sha256", "sha1_git", "blake2s256", "blake2b512", "md5", "sha512"]
DEFAULT = ["sha1", "sha256", "sha1_git", "blake2s256"]


def must_fail_any_len(names):
    return False


def hashlib_new(base):
    if base.startswith("blake2s"):
        return hashlib.blake2s(digest_size=int(base[7:]) // 8)
    if base.startswith("blake2b"):
        return hashlib.blake2b(digest_size=int(base[7:]) // 8)
    return hashlib.new(base)


def gen_data(rng, n):
    # cheap but non-periodic content
    seed = rng.randrange(2**32)
    out = bytearray()
    x = seed
    block = hashlib.sha256(seed.to_bytes(4, "big")).digest()
    while len(out) < n:
        out += block
        block = hashlib.sha256(block).digest()
    return bytes(out[:n])


def gen_chunking(rng, n, block):
    kind = rng.choice(["random", "random", "one", "bytes", "aligned", "empties"])
    if kind == "bytes" and n > 3000:
        kind = "random"
    cuts = []
    if kind == "one":
        cuts = []
    elif kind == "bytes":
        cuts = list(range(1, n))
    elif kind == "aligned":
        cuts = list(range(block, n, block))
    else:
        k = rng.randrange(0, 8)
        cuts = sorted(rng.randrange(0, n + 1) for _ in range(k))
    sizes = []
    prev = 0
    for c in cuts + [n]:
        sizes.append(c - prev)
        prev = c
    if kind == "empties" or rng.random() < 0.3:
        for _ in range(rng.randrange(1, 4)):
            sizes.insert(rng.randrange(len(sizes) + 1), 0)
    return sizes


def generate(ctx):
    from swh.model import hashutil

    rng = ctx.rng
    B = hashutil.HASH_BLOCK_SIZE
    lengths = [0, 1, 2, 55, 56, 63, 64, 65]
    for k in range(0, 5):
        for d in range(-2, 3):
            if k * B + d >= 0:
                lengths.append(k * B + d)
    cases = []
    subsets = []
    if ctx.tier == "thorough":
        names8 = ALL_NAMES + ["length"]
        for mask in range(256):
            subsets.append([names8[i] for i in range(8) if mask >> i & 1])
    n_random = ctx.budget(60, 600)
    todo = [(n, "boundary") for n in lengths] + [(rng.choice([rng.randrange(0, 300), rng.randrange(0, 5000), rng.randrange(0, 3 * B), rng.randrange(B, 5 * B)]), "random") for _ in range(n_random)]
    for i, (n, why) in enumerate(todo):
        if subsets:
            names = subsets[i % len(subsets)]
        else:
            r = rng.random()
            if r < 0.4:
                names = list(DEFAULT)
            else:
                names = [x for x in ALL_NAMES + ["length"] if rng.random() < 0.5]
        rng.shuffle(names)
        seed = rng.randrange(2**32)
        cases.append({"n": n, "seed": seed, "names": names, "chunks": gen_chunking(rng, n, B), "reads": gen_chunking(rng, n, B),
                      "with_length": rng.random() < 0.8, "copy_at": rng.randrange(0, 4), "copy_ops": [[rng.random() < 0.5, rng.randrange(0, 40)] for _ in range(rng.randrange(0, 6))]})
    # error cases
    for names, wl in ([["sha1_git"], False], [["nope"], True], [["sha1", "SHA1"], True], [["sha1_git", "length"], False], [["blake2s128"], True]):
        cases.append({"n": 3, "seed": 1, "names": names, "chunks": [3], "reads": [3], "with_length": wl, "copy_at": 0, "copy_ops": []})
    return cases


class ShortReader:
    """file object whose read() returns at most the requested amount, often less"""

    def __init__(self, data, sizes):
        self.parts = []
        pos = 0
        for s in sizes:
            if s > 0:
                self.parts.append(data[pos : pos + s])
                pos += s
        self.buf = b""

    def read(self, n):
        while self.parts and not self.parts[0]:
            self.parts.pop(0)
        if not self.parts:
            return b""
        p = self.parts[0]
        if len(p) <= n:
            self.parts.pop(0)
            return p
        self.parts[0] = p[n:]
        return p[:n]


class NestedReader(io.BytesIO):
    """file object that hashes other bytes through the library while it is being read (a reader keeping
    its own checksums): one hashing call runs in the middle of another, on one thread"""

    def _nested(self):
        from swh.model import hashutil as hu

        hu.MultiHash.from_data(b"\xa5" * (hu.HASH_BLOCK_SIZE + 17)).digest()
        hu.MultiHash.from_file(io.BytesIO(b"\x5a" * 4099), length=4099).digest()

    def read(self, n=-1):
        r = super().read(n)
        self._nested()
        return r

    def readinto(self, b):
        k = super().readinto(b)
        self._nested()
        return k


def hashed_in_threads(datas, names):
    """hash several byte strings at the same time, one thread each, started together"""
    import threading

    from swh.model import hashutil as hu

    res = [None] * len(datas)
    gate = threading.Barrier(len(datas))

    def work(i):
        try:
            gate.wait(timeout=20)
            for _ in range(3):
                res[i] = mh_obs(hu.MultiHash.from_data(datas[i], hash_names=set(names)))
        except Exception as e:  # reported by the caller as a difference
            res[i] = {"error": type(e).__name__}

    ts = [threading.Thread(target=work, args=(i,), daemon=True) for i in range(len(datas))]
    for t in ts:
        t.start()
    for t in ts:
        t.join(60)
    return res


_TMP = {"dir": None}


def tmpdir():
    if _TMP["dir"] is None:
        import atexit

        d = scratch_dir("c01")
        _TMP["dir"] = d
        atexit.register(lambda: shutil.rmtree(d, ignore_errors=True))
    return _TMP["dir"]


def split(data, sizes):
    out = []
    pos = 0
    for s in sizes:
        out.append(data[pos : pos + s])
        pos += s
    assert pos == len(data)
    return out


def case_data(case):
    import random

    return gen_data(random.Random(case["seed"]), case["n"])


def mh_obs(mh):
    """digest dictionaries in their three forms, canonicalised"""
    d = mh.digest()
    hd = mh.hexdigest()
    bd = mh.bytehexdigest()
    out = {}
    for k, v in d.items():
        if k == "length":
            out[k] = v
            assert hd[k] == v and bd[k] == v
        else:
            out[k] = v.hex()
            if hd[k] != v.hex() or bd[k] != v.hex().encode():
                out[k] = "inconsistent-forms"
    return out


def expected_from_model(r):
    """apply hashlib to the streams the model says were fed"""
    m = r
    out = {}
    for name, fed in m["fed"].items():
        h = hashlib_new(m["base"][name])
        h.update(unhx(fed))
        out[name] = h.hexdigest()
    if m["length"] is not None:
        out["length"] = m["length"]
    return out


def oracle_expected(data, names):
    out = {}
    for n in names:
        if n == "length":
            out[n] = len(data)
        elif n == "sha1_git":
            out[n] = hashlib.sha1(b"blob %d\x00" % len(data) + data).hexdigest()
        else:
            h = hashlib_new(n)
            h.update(data)
            out[n] = h.hexdigest()
    return out


def check_cases(ctx, cases):
    from click.testing import CliRunner

    from swh.model import from_disk, git_objects, hashutil, model
    from swh.model.cli import identify

    reqs = []
    post = []
    for ci, case in enumerate(cases):
        data = case_data(case)
        names = case["names"]
        n = len(data)
        B = hashutil.HASH_BLOCK_SIZE
        ctx.case({k: case[k] for k in ("n", "seed", "names", "chunks", "with_length")}, nontrivial=n > 0)
        ctx.count("len=%s" % ("0" if n == 0 else "<block" if n < B else "%dblocks" % (n // B)))
        ctx.count("names=%d" % len(names))
        known = all(x in hashutil.ALGORITHMS or x == "length" for x in names)
        want = oracle_expected(data, names) if known else None
        length = n if case["with_length"] else None
        obs = {}

        def route(tag, fn):
            try:
                with ctx.time_limit(30):
                    obs[tag] = ("ok", fn())
            except ValueError:
                obs[tag] = ("err", "valueError")
            except ImplementationHang as e:
                obs[tag] = ("err", "hang")
                ctx.fail(case, f"route {tag} does not return ({e})", "route-does-not-terminate:" + tag)

        # every route of a case is handed the SAME set object (what a caller with a module-level
        # constant does): the library must not change it, and a later route must not be affected by
        # an earlier one
        shared_names = set(names)
        route("from_data", lambda: mh_obs(hashutil.MultiHash.from_data(data, hash_names=shared_names)))

        def manual():
            mh = hashutil.MultiHash(hash_names=shared_names, length=length)
            for c in split(data, case["chunks"]):
                mh.update(c)
            return mh_obs(mh)

        route("stream", manual)

        def manual_with_reads():
            # every kind of digest is read after every chunk (and on a copy, which is then fed on):
            # reading must not freeze anything
            mh = hashutil.MultiHash(hash_names=shared_names, length=length)
            side = None
            for i, c in enumerate(split(data, case["chunks"])):
                mh.update(c)
                (mh.digest, mh.hexdigest, mh.bytehexdigest)[i % 3]()
                if i == 0:
                    side = (mh.copy(), data[len(c):])
                    side[0].digest()
            if side is not None:
                side[0].update(side[1])
                if mh_obs(side[0]) != mh_obs(mh):
                    raise ValueError("copy-diverges")
            return mh_obs(mh)

        route("stream_with_reads", manual_with_reads)

        def manual_reused_buffer():
            # the download loop: one scratch buffer, refilled for every chunk and handed over as a
            # memoryview (or as the bytearray itself); whatever was given to update() has been hashed when
            # update() returns
            mh = hashutil.MultiHash(hash_names=shared_names, length=length)
            chunks = split(data, case["chunks"])
            buf = bytearray(max([len(c) for c in chunks] + [1]))
            view = memoryview(buf)
            for i, c in enumerate(chunks):
                buf[: len(c)] = c
                mh.update(view[: len(c)] if i % 2 == 0 else bytearray(buf[: len(c)]))
                if i % 2:
                    buf[: len(c)] = bytes(len(c))
            buf[:] = bytes(len(buf))
            return mh_obs(mh)

        route("stream_reused_buffer", manual_reused_buffer)
        route("from_file", lambda: mh_obs(hashutil.MultiHash.from_file(io.BytesIO(data), hash_names=shared_names, length=length)))
        route("short_reads", lambda: mh_obs(hashutil.MultiHash.from_file(ShortReader(data, case["reads"]), hash_names=shared_names, length=length)))
        route("nested_reads", lambda: mh_obs(hashutil.MultiHash.from_file(NestedReader(data), hash_names=shared_names, length=length)))
        if known and n >= 2048 and ci % 3 == 0 and not must_fail_any_len(names):
            # the same and other bytes hashed by four threads at once
            datas = [data, bytes(b ^ 0xFF for b in data), data[::-1], data + data[: n // 2]]
            for i_, got_ in enumerate(hashed_in_threads(datas, names)):
                if got_ != oracle_expected(datas[i_], names):
                    ctx.fail(case, "hashing in four threads at once: a digest differs from hashlib on the same bytes", "route-differs:threads", {"thread": i_, "got": got_})
                    break
        path = os.path.join(tmpdir(), "f%d" % (ci % 4))
        with open(path, "wb") as f:
            f.write(data)
        route("from_path", lambda: mh_obs(hashutil.MultiHash.from_path(path, hash_names=shared_names)))
        # the same file reached through symbolic links (absolute, relative, chained): a path is a path
        lnk_abs, lnk_rel, lnk_chain = path + ".abs", path + ".rel", path + ".chain"
        for l, t in ((lnk_abs, path), (lnk_rel, os.path.basename(path)), (lnk_chain, os.path.basename(lnk_rel))):
            if os.path.lexists(l):
                os.unlink(l)
            os.symlink(t, l)
        route("from_path_symlink", lambda: mh_obs(hashutil.MultiHash.from_path(lnk_abs, hash_names=shared_names)))
        route("from_path_symlink_rel", lambda: mh_obs(hashutil.MultiHash.from_path(os.fsencode(lnk_rel), hash_names=shared_names)))
        route("from_path_symlink_chain", lambda: mh_obs(hashutil.MultiHash.from_path(lnk_chain, hash_names=shared_names)))

        if shared_names != set(names):
            ctx.fail(case, "a hashing call changed the hash_names set it was given", "argument-mutated:hash_names", {"now": sorted(shared_names), "given": sorted(set(names))})
        # ---------------- oracle on the implementation: every route == hashlib, sha1_git == git blob id
        must_fail_nolen = any(x.endswith("_git") for x in names) and length is None
        for tag, (st, val) in obs.items():
            uses_len = tag in ("stream", "stream_with_reads", "stream_reused_buffer", "from_file", "short_reads", "nested_reads")
            if not known or (uses_len and must_fail_nolen):
                if st != "err":
                    ctx.fail(case, f"route {tag}: an unknown name / git name without length is not rejected", "bad-names-accepted")
                continue
            if st != "ok":
                ctx.fail(case, f"route {tag}: raises on valid names", "valid-names-rejected")
            elif val != want:
                ctx.fail(case, f"route {tag}: digests/length differ from hashlib on the same bytes", "route-differs:" + tag, {"got": val, "want": want})
        if known and sorted(names) == sorted(DEFAULT) or ci % 5 == 0:
            w4 = oracle_expected(data, DEFAULT + ["length"])
            # model / on-disk / CLI constructors (always the default algorithms)
            def as_dict(o):
                return {"sha1": o.sha1.hex(), "sha256": o.sha256.hex(), "sha1_git": o.sha1_git.hex(), "blake2s256": o.blake2s256.hex(), "length": o.length}

            c = model.Content.from_data(data)
            routes = {"model.Content.from_data": as_dict(c), "SkippedContent.from_data": as_dict(model.SkippedContent.from_data(data, reason="r"))}
            routes["hashes()"] = dict({k: v.hex() for k, v in c.hashes().items()}, length=n)
            if str(c.swhid()) != "swh:1:cnt:" + w4["sha1_git"] or c.unique_key() != bytes.fromhex(w4["sha1"]):
                ctx.fail(case, "model.Content.swhid() / unique_key() do not carry the git blob id / sha1", "route-differs:model.swhid")
            dc = from_disk.Content.from_bytes(mode=0o100644, data=data)
            routes["from_disk.from_bytes"] = {k: (dc.data[k].hex() if k != "length" else dc.data[k]) for k in w4}
            df = from_disk.Content.from_file(path=path.encode())
            routes["from_disk.from_file"] = {k: (df.data[k].hex() if k != "length" else df.data[k]) for k in w4}
            routes["from_disk.to_model"] = as_dict(df.to_model())
            if n > 0:
                # the same file rewritten in place (same length, same inode, modification time put back)
                # and hashed again in the same process
                st_ = os.lstat(path)
                flipped = bytes(b ^ 0xFF for b in data)
                with open(path, "r+b") as fh_:
                    fh_.write(flipped)
                os.utime(path, ns=(st_.st_atime_ns, st_.st_mtime_ns))
                try:
                    df2 = from_disk.Content.from_file(path=path.encode())
                    wf = oracle_expected(flipped, DEFAULT + ["length"])
                    got2 = {k: (df2.data[k].hex() if k != "length" else df2.data[k]) for k in wf}
                    if got2 != wf:
                        ctx.fail(case, "route from_disk.from_file: after the file was rewritten in place (same size and modification time) it is not hashed again", "route-differs:from_disk.from_file-rewritten")
                finally:
                    with open(path, "r+b") as fh_:
                        fh_.write(data)
                    os.utime(path, ns=(st_.st_atime_ns, st_.st_mtime_ns))
            for tag, val in routes.items():
                if val != w4:
                    ctx.fail(case, f"route {tag}: differs from hashlib on the same bytes", "route-differs:" + tag, {"got": val, "want": w4})
            if hashutil.hash_git_data(data, "blob").hex() != w4["sha1_git"]:
                ctx.fail(case, "hash_git_data(blob) is not the git blob id", "route-differs:hash_git_data")
            if hashlib.sha1(git_objects.content_git_object(c)).hexdigest() != w4["sha1_git"] or git_objects.content_git_object(c) != b"blob %d\x00" % n + data:
                ctx.fail(case, "content_git_object is not the git blob", "route-differs:content_git_object")
            if dc.hash.hex() != w4["sha1_git"] or str(df.swhid()) != "swh:1:cnt:" + w4["sha1_git"]:
                ctx.fail(case, "on-disk content hash/swhid is not the git blob id", "route-differs:from_disk.hash")
            if 0 < n < 200 and b"\x00" not in data:
                lp = os.path.join(tmpdir(), "l%d" % (ci % 4))
                if os.path.lexists(lp):
                    os.unlink(lp)
                os.symlink(data, lp.encode())
                dl = from_disk.Content.from_file(path=lp.encode())
                if dl.data["sha1_git"].hex() != w4["sha1_git"] or dl.data["length"] != n:
                    ctx.fail(case, "symlink content is not the blob of the link text", "route-differs:from_symlink")
            if ci % 3 == 0:
                runner = CliRunner()
                r1 = runner.invoke(identify, ["--no-filename", path])
                r2 = runner.invoke(identify, ["--no-filename", "-"], input=data)
                exp = "swh:1:cnt:" + w4["sha1_git"] + "\n"
                if r1.output != exp or r2.output != exp or r1.exit_code or r2.exit_code:
                    ctx.fail(case, "swh identify (file / stdin) does not print the git blob id", "route-differs:cli", {"file": r1.output, "stdin": r2.output})
                ctx.count("cli")
            if ctx.tier == "thorough" or ci % 8 == 0:
                p = subprocess.run(["git", "hash-object", "--stdin"], input=data, stdout=subprocess.PIPE, env={"GIT_CONFIG_GLOBAL": "/dev/null", "GIT_CONFIG_SYSTEM": "/dev/null", "PATH": os.environ["PATH"], "HOME": "/nonexistent"})
                ctx.count("git-hash-object")
                if p.returncode == 0 and p.stdout.decode().strip() != w4["sha1_git"]:
                    ctx.fail(case, "sha1_git is not the id git hash-object assigns", "not-git-blob-id")
        # ---------------- copy mid-stream
        copy_obs = None
        if known and not must_fail_nolen:
            chunks = split(data, case["chunks"])
            k = min(case["copy_at"], len(chunks))
            mh = hashutil.MultiHash(hash_names=set(names), length=length)
            for c in chunks[:k]:
                mh.update(c)
            cp = mh.copy()
            if cp is None or cp is mh:
                ctx.fail({"kind": "copy", "names": names}, "MultiHash.copy() does not return an independent hasher (returns %r)" % (None if cp is None else "itself"), "copy-returns-none" if cp is None else "copy-not-independent")
            else:
                ops = [(w, bytes([65 + i]) * ln) for i, (w, ln) in enumerate(case["copy_ops"])]
                for w, b in ops:
                    (mh if w else cp).update(b)
                copy_obs = (mh_obs(mh), mh_obs(cp))
                pre = b"".join(chunks[:k])
                wo = oracle_stream(pre + b"".join(b for w, b in ops if w), names, n)
                wc = oracle_stream(pre + b"".join(b for w, b in ops if not w), names, n)
                if copy_obs != (wo, wc):
                    ctx.fail(case, "after copy(), original and copy do not each continue from the common prefix with their own updates", "copy-not-independent", {"got": copy_obs, "want": [wo, wc]})
        # ---------------- model requests
        reqs.append({"op": "mh_from_data", "data": hx(data), "names": names})
        reqs.append({"op": "mh_stream", "names": names, "length": length, "chunks": [hx(c) for c in split(data, case["chunks"])]})
        reqs.append({"op": "mh_stream", "names": names, "length": length, "as_file": True, "chunks": [hx(c) for c in split(data, case["reads"]) if c] + [""]})
        if copy_obs is not None:
            chunks = split(data, case["chunks"])
            k = min(case["copy_at"], len(chunks))
            reqs.append({"op": "mh_copy", "names": names, "length": length, "before": [hx(c) for c in chunks[:k]],
                         "ops": [[w, hx(bytes([65 + i]) * ln)] for i, (w, ln) in enumerate(case["copy_ops"])]})
        else:
            reqs.append({"op": "ping"})
        post.append((case, obs, copy_obs))

    res = ctx.model(reqs)
    for i, (case, obs, copy_obs) in enumerate(post):
        r_fd, r_st, r_rd, r_cp = res[4 * i : 4 * i + 4]
        if any("error" in r for r in (r_fd, r_st, r_rd, r_cp)):
            if ctx.model_available:
                ctx.disagree(case, "model driver error", model=[r for r in (r_fd, r_st, r_rd, r_cp) if "error" in r])
            continue

        def cmp(tag, r, ob):
            st, val = ob
            m = r["r"]
            if "err" in m:
                if st != "err":
                    ctx.disagree(case, f"{tag}: model rejects, implementation accepts", model=m, impl=val)
            else:
                if st != "ok":
                    ctx.disagree(case, f"{tag}: implementation rejects, model accepts", model="ok", impl=val)
                else:
                    exp = expected_from_model(m["ok"])
                    if exp != val or sorted(m["ok"]["keys"]) != sorted(val):
                        ctx.disagree(case, f"{tag}: digests of the model's streams differ from the implementation's", model=exp, impl=val)

        cmp("from_data", r_fd, obs["from_data"])
        cmp("from_file(BytesIO)", r_fd if case["with_length"] else r_st if False else r_fd, obs["from_path"])
        cmp("stream", r_st, obs["stream"])
        cmp("from_file(short reads)", r_rd, obs["short_reads"])
        cmp("from_file(BytesIO)", r_rd, obs["from_file"])
        if copy_obs is not None:
            m = r_cp["r"]
            exp = (expected_from_model(m["orig"]), expected_from_model(m["copy"]))
            if exp != copy_obs:
                ctx.disagree(case, "copy(): model vs implementation", model=exp, impl=copy_obs)


def oracle_stream(stream, names, declared_len):
    """digests when `stream` was fed after a git header announcing `declared_len`"""
    out = {}
    for n in names:
        if n == "length":
            out[n] = len(stream)
        elif n == "sha1_git":
            out[n] = hashlib.sha1(b"blob %d\x00" % declared_len + stream).hexdigest()
        else:
            h = hashlib_new(n)
            h.update(stream)
            out[n] = h.hexdigest()
    return out


def neighbours(ctx, case):
    out = []
    for d in (-1, 1):
        if case["n"] + d >= 0:
            n = case["n"] + d
            out.append(dict(case, n=n, chunks=[n], reads=[n]))
    out.append(dict(case, chunks=[case["n"]], reads=[case["n"]]))
    out.append(dict(case, names=list(DEFAULT)))
    return out
