"""Which anchored source units differ from the tree the theorems and the correspondence were last
established on?  (Not an alarm: a changed unit only makes the check look harder — see common._main.)

`anchor_baseline.json` maps file -> {qualified name of a function/method -> hash of its AST without
docstrings} for the library files, taken by `python harness/anchors.py --update` on the tree that
passed every check.  `changed_units(prop)` compares the current tree's units, restricted to the
files the property is anchored in (properties.jsonl), with that baseline."""
from __future__ import annotations

import ast
import hashlib
import json
import os
import sys

HERE = os.path.dirname(os.path.abspath(__file__))
VERIF = os.path.dirname(HERE)
BASELINE = os.path.join(HERE, "anchor_baseline.json")


def units_of(path):
    out = {}
    try:
        tree = ast.parse(open(path).read())
    except (OSError, SyntaxError):
        return out

    def strip(node):
        for n in ast.walk(node):
            body = getattr(n, "body", None)
            if isinstance(body, list) and body and isinstance(body[0], ast.Expr) and isinstance(getattr(body[0], "value", None), ast.Constant) and isinstance(body[0].value.value, str):
                n.body = body[1:] or [ast.Pass()]
        return node

    def visit(node, prefix):
        for ch in ast.iter_child_nodes(node):
            if isinstance(ch, (ast.FunctionDef, ast.AsyncFunctionDef)):
                out[prefix + ch.name] = hashlib.sha1(ast.dump(strip(ch)).encode()).hexdigest()[:16]
            elif isinstance(ch, ast.ClassDef):
                # class-level statements other than methods (attribute definitions, constants)
                rest = [s for s in ch.body if not isinstance(s, (ast.FunctionDef, ast.AsyncFunctionDef, ast.ClassDef))]
                out[prefix + ch.name + ".<class body>"] = hashlib.sha1("".join(ast.dump(strip(s)) for s in rest).encode()).hexdigest()[:16]
                visit(ch, prefix + ch.name + ".")
        if prefix == "":
            rest = [s for s in tree.body if not isinstance(s, (ast.FunctionDef, ast.AsyncFunctionDef, ast.ClassDef, ast.Import, ast.ImportFrom))]
            out["<module body>"] = hashlib.sha1("".join(ast.dump(strip(s)) for s in rest).encode()).hexdigest()[:16]

    visit(tree, "")
    return out


def files_of(prop):
    for l in open(os.path.join(VERIF, "properties.jsonl")):
        d = json.loads(l)
        if d["id"] == prop:
            return [f for f in d["anchors"]["files"] if f.endswith(".py")]
    return []


def changed_units(prop, repo):
    try:
        base = json.load(open(BASELINE))
    except (OSError, ValueError):
        return []
    out = []
    for f in files_of(prop):
        cur = units_of(os.path.join(repo, f))
        old = base.get(f, {})
        for k in sorted(set(cur) | set(old)):
            if cur.get(k) != old.get(k):
                out.append(f + "::" + k)
    return out


if __name__ == "__main__":
    repo = os.environ.get("VERIF_REPO", "/repo")
    if "--update" in sys.argv:
        files = set()
        for l in open(os.path.join(VERIF, "properties.jsonl")):
            files.update(f for f in json.loads(l)["anchors"]["files"] if f.endswith(".py"))
        json.dump({f: units_of(os.path.join(repo, f)) for f in sorted(files)}, open(BASELINE, "w"), indent=0, sort_keys=True)
        print("baseline written for", len(files), "files")
    else:
        for p in sys.argv[1:]:
            print(p, changed_units(p, repo))
