"""C05 — snapshot ids come from a canonical, decodable manifest of the branch map."""
from __future__ import annotations

import hashlib
import itertools

from common import hx, unhx

REQUIRED = [
    "Swh.C05.snapshot_perm",
    "Swh.C05.snapshotId_perm",
    "Swh.C05.snapshotManifest_perm",
    "Swh.C05.decode_snapshotBody",
    "Swh.C05.snapshotManifest_injective",
    "Swh.C05.unresolved_spec",
    "Swh.C05.unresolved_sorted",
    "Swh.C05.format_raises_iff",
    "Swh.C05.format_error_carries_list",
    "Swh.C05.id_ignores_unresolved",
    "Swh.C05.strict_manifest_eq",
    "Swh.C05.kind_table",
]
RULE = (
    "branch maps of 0-12 branches over a prefix-closed name alphabet (bytes >=0x80, ' ', ':', digits, "
    "'1:'-looking names), all five object kinds, dangling, aliases resolved/unresolved/self/chains/cycles, "
    "alias targets of length 0-300 with NULs and digits; 1-3 insertion orders (thorough: all orders up to 5 "
    "branches); non-trivial = >=2 branches or an alias; distinct by canonical JSON"
)
ASSUMPTIONS = [
    "SHA-1 uninterpreted in theorems; manifests are hashed by hashlib on the harness side",
    "Python dict keeps distinct keys: a branch map is an association list with distinct names",
]
TRUSTED = ["attrs construction of Snapshot/SnapshotBranch", "hashlib.sha1"]

KINDS = ["content", "directory", "revision", "release", "snapshot"]
ALPHA = [b"a", b"a1", b"a1:", b"1:", b"20:", b" ", b":", b"\x80", b"\xff", b"refs/heads/", b"HEAD", b"b", b"\n", b"0", b"alias", b"\x01"]


def gen_name(rng):
    r = rng.random()
    if r < 0.6:
        return b"".join(rng.choice(ALPHA) for _ in range(rng.choice([1, 1, 2, 3])))
    return bytes(rng.randrange(1, 256) for _ in range(rng.randrange(0, 10)))


def gen_branches(rng, n):
    names = []
    seen = set()
    tries = 0
    while len(names) < n and tries < 500:
        tries += 1
        nm = gen_name(rng)
        if rng.random() < 0.3 and names:
            nm = rng.choice(names) + rng.choice(ALPHA + [b""])
        if nm not in seen and b"\x00" not in nm:
            seen.add(nm)
            names.append(nm)
    if n >= 2 and rng.random() < 0.4:
        # two names with a common prefix continued by '/' and by a byte below it: byte order and
        # component-wise order disagree on them
        stem = rng.choice([b"refs/heads/release", b"v1.0", b"a", b""])
        for nm in (stem + b"/" + rng.choice([b"1", b"x", b""]), stem + rng.choice([b"-", b".", b" ", b"+", b"\x01"]) + rng.choice([b"1", b"x", b""])):
            if nm not in seen:
                seen.add(nm)
                names.append(nm)
    out = []
    for nm in names:
        r = rng.random()
        if r < 0.15:
            out.append({"name": hx(nm), "kind": "dangling"})
        elif r < 0.55:
            rr = rng.random()
            if rr < 0.35 and names:
                tgt = rng.choice(names)  # resolved (or self)
            elif rr < 0.5:
                tgt = nm  # self reference
            elif rr < 0.6:
                used = [unhx(b["target"]) for b in out if b.get("target") and len(b["target"]) == 40]
                tgt = rng.choice(used) if used else gen_name(rng)  # an alias target spelled like an object id in use
            elif rr < 0.8:
                tgt = gen_name(rng)
            else:
                tgt = bytes(rng.choice([0, 0x30, 0x31, 0x3A, 0x20, rng.randrange(256)]) for _ in range(rng.randrange(0, 301)))
            out.append({"name": hx(nm), "kind": "alias", "target": hx(tgt)})
        else:
            # (one time in three an id already used by another branch, under whatever kind comes up)
            used = [b["target"] for b in out if b.get("target") and len(b["target"]) == 40]
            tg = rng.choice(used) if used and rng.random() < 0.33 else hx(bytes(rng.randrange(256) for _ in range(20)))
            out.append({"name": hx(nm), "kind": rng.choice(KINDS), "target": tg})
    return out


def generate(ctx):
    rng = ctx.rng
    cases = []
    for i in range(ctx.budget(300, 5000)):
        n = rng.choice([0, 1, 2, 2, 3, 3, 4, 5, 6, 8, 12])
        bs = gen_branches(rng, n)
        if ctx.tier == "thorough" and len(bs) <= 5 and i % 4 == 0:
            orders = [list(p) for p in itertools.permutations(range(len(bs)))]
        else:
            orders = []
            for _ in range(rng.randrange(1, 4)):
                p = list(range(len(bs)))
                rng.shuffle(p)
                orders.append(p)
        cases.append({"branches": bs, "orders": orders})
    return cases


# ------------------------------------------------------------- independent encoder/decoder (from the docstring)


def oracle_encode(branches):
    """branches: list of (name, kind, target-bytes-or-None); returns (manifest, unresolved)"""
    names = {n for n, _, _ in branches}
    body = b""
    unresolved = []
    for name, kind, tgt in sorted(branches, key=lambda b: b[0]):
        if kind == "dangling":
            ident = b""
        else:
            ident = tgt
        if kind == "alias" and (tgt not in names or tgt == name):
            unresolved.append((name, tgt))
        body += kind.encode() + b" " + name + b"\x00" + str(len(ident)).encode() + b":" + ident
    return b"snapshot " + str(len(body)).encode() + b"\x00" + body, unresolved


def oracle_decode(obj):
    nul = obj.index(b"\x00")
    ty, ln = obj[:nul].split(b" ")
    assert ty == b"snapshot" and int(ln) == len(obj) - nul - 1
    body = obj[nul + 1 :]
    out = []
    i = 0
    while i < len(body):
        sp = body.index(b" ", i)
        kind = body[i:sp]
        nul = body.index(b"\x00", sp)
        name = body[sp + 1 : nul]
        colon = body.index(b":", nul)
        ln = int(body[nul + 1 : colon])
        tgt = body[colon + 1 : colon + 1 + ln]
        assert len(tgt) == ln
        out.append((kind, name, tgt))
        i = colon + 1 + ln
    return out


def build(branches):
    from swh.model import model

    d = {}
    for name, kind, tgt in branches:
        if kind == "dangling":
            d[name] = None
        elif kind == "alias":
            d[name] = model.SnapshotBranch(target=tgt, target_type=model.SnapshotTargetType.ALIAS)
        else:
            d[name] = model.SnapshotBranch(target=tgt, target_type=model.SnapshotTargetType(kind))
    return model.Snapshot(branches=d)


def fmt(snp, ignore):
    from swh.model import git_objects

    try:
        return ("ok", git_objects.snapshot_git_object(snp, ignore_unresolved=ignore))
    except ValueError as e:
        unresolved = e.args[1] if len(e.args) > 1 else None
        return ("unresolved", unresolved)


def check_cases(ctx, cases):
    reqs = []
    impls = []
    for case in cases:
        bs = [(unhx(b["name"]), b["kind"], unhx(b.get("target"))) for b in case["branches"]]
        has_alias = any(k == "alias" for _, k, _ in bs)
        ctx.case(case, nontrivial=len(bs) >= 2 or has_alias)
        ctx.count(f"n_branches={min(len(bs), 9)}")
        for _, k, _ in bs:
            ctx.count("kind=" + k)
        try:
            snp = build(bs)
        except Exception as e:
            # (every branch map with NUL-free names is a snapshot, unresolved and self-referencing aliases included)
            ctx.fail(case, f"building the snapshot raises {type(e).__name__}: {str(e)[:100]}", "legal-branches-rejected:" + type(e).__name__)
            impls.append(None)
            reqs.extend([{"op": "ping"}] * 3)
            continue
        strict = fmt(snp, False)
        loose = fmt(snp, True)
        # the (deprecated, still accepted) dictionary form of the argument behaves like the object
        import warnings

        with warnings.catch_warnings():
            warnings.simplefilter("ignore")
            if fmt(snp.to_dict(), False) != strict or fmt(snp.to_dict(), True) != loose:
                ctx.fail(case, "snapshot_git_object gives another result for the dictionary form of the same snapshot", "dict-form-differs")
        impls.append({"strict": strict, "loose": loose, "id": snp.id})
        reqs.append({"op": "snp_manifest", "branches": case["branches"], "ignore": False})
        reqs.append({"op": "snp_manifest", "branches": case["branches"], "ignore": True})
        if loose[0] == "ok":
            reqs.append({"op": "snp_decode", "bytes": hx(loose[1])})
        else:
            reqs.append({"op": "ping"})

        # ---------------- oracle on the implementation
        want, unres = oracle_encode(bs)
        ctx.count("unresolved=%d" % min(len(unres), 3))
        if loose[0] != "ok":
            ctx.fail(case, "formatting with ignore_unresolved=True raised", "ignore-raises")
        else:
            if loose[1] != want:
                ctx.fail(case, "manifest differs from the documented format", "manifest-not-documented", {"impl": hx(loose[1]), "oracle": hx(want)})
            if snp.id != hashlib.sha1(loose[1]).digest():
                ctx.fail(case, "Snapshot.id is not the SHA-1 of the manifest", "id-not-sha1-of-manifest")
            try:
                dec = oracle_decode(loose[1])
                exp = sorted((k.encode(), n, (t if k != "dangling" else b"")) for n, k, t in bs)
                if sorted(dec) != exp:
                    ctx.fail(case, "independent decoder does not recover the branch map", "decode-mismatch")
            except Exception as e:
                ctx.fail(case, f"independent decoder fails: {type(e).__name__}", "decode-error")
        if str(snp.swhid()) != "swh:1:snp:" + snp.id.hex():
            ctx.fail(case, "swhid() does not carry the id", "swhid-mismatch")
        if unres:
            if strict[0] != "unresolved":
                ctx.fail(case, "unresolved aliases not reported", "unresolved-not-reported", {"expected": [(hx(a), hx(b)) for a, b in unres]})
            elif strict[1] is not None and list(strict[1]) != unres:
                ctx.fail(case, "reported unresolved aliases differ from the missing/self aliases", "unresolved-wrong", {"expected": [(hx(a), hx(b)) for a, b in unres], "got": [(hx(a), hx(b)) for a, b in strict[1]]})
        else:
            if strict[0] != "ok":
                ctx.fail(case, "formatting raised although every alias resolves", "spurious-unresolved")
            elif strict[1] != want:
                ctx.fail(case, "strict manifest differs from the documented format", "manifest-not-documented")
        for order in case["orders"]:
            s2 = build([bs[i] for i in order])
            if s2.id != snp.id or fmt(s2, True) != loose or fmt(s2, False) != strict:
                ctx.fail(case, "id or report depends on the insertion order", "order-dependent", {"order": order})
                break

    res = ctx.model(reqs)
    for ci, case in enumerate(cases):
        r_strict, r_loose, r_dec = res[3 * ci : 3 * ci + 3]
        im = impls[ci]
        if im is None:
            continue
        if any("error" in r for r in (r_strict, r_loose, r_dec)):
            if ctx.model_available:
                ctx.disagree(case, "model driver error", model=[r_strict, r_loose, r_dec])
            continue
        # strict
        ms = r_strict["r"]
        if im["strict"][0] == "ok":
            if "manifest" not in ms or unhx(ms["manifest"]) != im["strict"][1]:
                ctx.disagree(case, "strict formatting: model vs implementation", model=ms, impl=hx(im["strict"][1]))
        else:
            got = None if im["strict"][1] is None else [[hx(a), hx(b)] for a, b in im["strict"][1]]
            if "unresolved" not in ms or (got is not None and ms["unresolved"] != got):
                ctx.disagree(case, "unresolved report: model vs implementation", model=ms, impl=got)
        ml = r_loose["r"]
        if im["loose"][0] == "ok":
            if "manifest" not in ml or unhx(ml["manifest"]) != im["loose"][1]:
                ctx.disagree(case, "ignore_unresolved formatting: model vs implementation", model=ml, impl=hx(im["loose"][1]))
            elif hashlib.sha1(unhx(ml["idmanifest"])).digest() != im["id"]:
                ctx.disagree(case, "Snapshot.id != sha1(model id-manifest)")
            dec = r_dec["r"].get("decoded")
            want = sorted([hx(b["kind"].encode()), b["name"], b.get("target") or ""] for b in case["branches"])
            if dec is None or sorted(dec) != want:
                ctx.disagree(case, "Lean decodeSnapshot on the implementation's manifest does not return the branch map", model=dec, impl=want)
        else:
            ctx.disagree(case, "implementation raised with ignore_unresolved=True", model=ml)


def neighbours(ctx, case):
    bs = case["branches"]
    out = []
    for i in range(len(bs)):
        out.append({"branches": bs[:i] + bs[i + 1 :], "orders": [list(reversed(range(len(bs) - 1)))]})
    return out


def shrink(ctx, failure):
    from common import Ctx

    case = failure["case"]
    kind = failure["kind"]
    bs = list(case["branches"])
    changed = True
    while changed and len(bs) > 1:
        changed = False
        for i in range(len(bs)):
            cand = {"branches": bs[:i] + bs[i + 1 :], "orders": [list(reversed(range(len(bs) - 1)))]}
            c2 = Ctx(ctx.prop, ctx.tier, ctx.seed)
            c2.model_available = False
            try:
                check_cases(c2, [cand])
            except Exception:
                continue
            if any(f["kind"] == kind for f in c2.failures):
                bs = cand["branches"]
                changed = True
                break
    return {"branches": bs, "orders": [list(reversed(range(len(bs))))]}
