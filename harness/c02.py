"""C02 — directory ids are git tree ids, order-free and collision-free by construction."""
from __future__ import annotations

import functools
import hashlib
import itertools
import os
import subprocess

import gitfmt
from common import hx, unhx, scratch_dir

REQUIRED = [
    "Swh.C02.dirManifest_perm",
    "Swh.C02.dirId_perm",
    "Swh.C02.decode_dirBody",
    "Swh.C02.dirManifest_injective",
    "Swh.C02.sort_is_git_order",
    "Swh.C02.manifest_in_git_order",
    "Swh.C02.oct_git",
    "Swh.C02.oct_roundtrip",
    "Swh.C02.only_entries",
]
RULE = (
    "entry sets over a byte alphabet built to collide in git order (prefix-related names, bytes "
    "below/above '/', 0x01..0xff), all three entry types, canonical and arbitrary 16-bit modes, "
    "1-4 permutations each (thorough: all permutations up to 6 entries); a case is non-trivial when "
    "it has >=2 entries; distinct = distinct canonical JSON of (entries, permutations)"
)
ASSUMPTIONS = [
    "SHA-1 is uninterpreted in the theorems; the driver prints manifests, the harness hashes them with hashlib",
    "CPython bytes ordering == lexicographic order on List UInt8 (checked by the correspondence)",
    "git/dulwich are consulted only where entry type and mode agree (they decide 'directory' by mode)",
]
TRUSTED = ["attrs construction of Directory/DirectoryEntry", "hashlib.sha1", "git 2.39.5 / dulwich (oracle role only)"]

CANON = [0o100644, 0o100755, 0o120000, 0o040000, 0o160000]
ALPHA = [b"\x01", b" ", b"\n", b"-", b".", b"0", b"a", b"a.", b"a-", b"a0", b"\x7f", b"\x80", b"\xff", b"A", b"b", b"~", b"\t", b"a b", b"ab", b"a\x01"]


def gen_name(rng):
    r = rng.random()
    if r < 0.55:
        k = rng.choice([1, 1, 2, 2, 3, 4])
        return b"".join(rng.choice(ALPHA) for _ in range(k))
    if r < 0.8:
        return bytes(rng.choice([1, 0x2e, 0x2f - 1, 0x30, 0x61, 0x80, 0xff, rng.randrange(1, 256)]) for _ in range(rng.randrange(1, 5))).replace(b"/", b".")
    return bytes(rng.randrange(1, 256) for _ in range(rng.randrange(1, 12))).replace(b"/", b"_")


def gen_entries(rng, n, agree=False):
    names = set()
    # deliberately make prefix families: stem, stem+x ...
    stems = [gen_name(rng) for _ in range(max(1, n // 2))]
    tries = 0
    while len(names) < n and tries < 1000:
        tries += 1
        s = rng.choice(stems)
        nm = s if rng.random() < 0.4 else s + rng.choice(ALPHA + [b""])
        if rng.random() < 0.2:
            nm = gen_name(rng)
        if rng.random() < 0.04:
            nm = b""  # the empty name has no '/' and no NUL: inside the property; as a directory it sorts as "/"
        if b"/" not in nm and b"\x00" not in nm:
            names.add(nm)
    out = []
    for nm in names:
        ty = rng.choice(["file", "dir", "rev", "file", "dir"])
        r = 0.0 if agree else rng.random()
        if r < 0.5:
            perms = {"file": rng.choice([0o100644, 0o100755, 0o120000]), "dir": 0o040000, "rev": 0o160000}[ty]
        elif r < 0.7:
            perms = rng.choice(CANON)
        elif r < 0.85:
            perms = rng.choice([0, 1, 7, 8, 0o177777, 0o777, 0o100000, 0o40755])
        else:
            perms = rng.randrange(0, 1 << 16)
        out.append({"name": hx(nm), "type": ty, "perms": perms, "target": hx(bytes(rng.randrange(256) for _ in range(20)))})
    rng.shuffle(out)
    return out


def generate(ctx):
    rng = ctx.rng
    cases = []
    n_cases = ctx.budget(250, 4000)
    for i in range(n_cases):
        n = rng.choice([0, 1, 2, 2, 3, 3, 4, 5, 6, 8, 12, 20]) if i % 7 else rng.randrange(0, 7)
        es = gen_entries(rng, n, agree=(i % 3 == 0))
        perms = []
        if ctx.tier == "thorough" and len(es) <= 6 and i % 5 == 0:
            perms = [list(p) for p in itertools.permutations(range(len(es)))]
        else:
            for _ in range(rng.randrange(1, 5)):
                p = list(range(len(es)))
                rng.shuffle(p)
                perms.append(p)
        cases.append({"entries": es, "perms": perms})
        if es and rng.random() < 0.5:
            # a near-twin, hashed right after: same entries but for ONE field of one entry (the type with
            # the perms kept, the perms, a target byte, a name byte) — whatever an id cache could be
            # keyed on must include that field
            tw = [dict(e) for e in es]
            e = rng.choice(tw)
            fld = rng.choice(["type", "type", "perms", "target", "name"])
            if fld == "type":
                # the type decides the place of the entry only next to a sibling that continues its name
                # with a byte below '/': make sure there is one, in the pair hashed back to back
                sib = hx(unhx(e["name"]) + rng.choice([b".", b"-", b" ", b".x"]))
                if sib not in {x["name"] for x in tw}:
                    tw.append({"name": sib, "type": "file", "perms": 0o100644, "target": hx(bytes(rng.randrange(256) for _ in range(20)))})
                    cases.append({"entries": [dict(x) for x in tw], "perms": []})
                e["type"] = rng.choice(["dir"] if e["type"] != "dir" else ["file", "rev"])
            elif fld == "perms":
                e["perms"] = rng.choice([p for p in CANON + [0o100600] if p != e["perms"]])
            elif fld == "target":
                t = bytearray(unhx(e["target"])); t[rng.randrange(20)] ^= 1 << rng.randrange(8); e["target"] = hx(bytes(t))
            else:
                nm = unhx(e["name"]) + b"x"
                if hx(nm) not in {x["name"] for x in tw}:
                    e["name"] = hx(nm)
            p = list(range(len(tw)))
            rng.shuffle(p)
            cases.append({"entries": tw, "perms": [p]})
    return cases


# ------------------------------------------------------------------ independent oracle pieces


def git_base_name_compare(n1: bytes, d1: bool, n2: bytes, d2: bool) -> int:
    """git's base_name_compare, transcribed from tree.c (independent of the sort-key trick)."""
    ln = min(len(n1), len(n2))
    a, b = n1[:ln], n2[:ln]
    if a != b:
        return -1 if a < b else 1
    c1 = n1[ln] if ln < len(n1) else (0x2F if d1 else 0)
    c2 = n2[ln] if ln < len(n2) else (0x2F if d2 else 0)
    return -1 if c1 < c2 else (1 if c1 > c2 else 0)


def oracle_encode(entries) -> bytes:
    def cmp(x, y):
        return git_base_name_compare(x[0], x[1] == "dir", y[0], y[1] == "dir")

    es = sorted(entries, key=functools.cmp_to_key(cmp))
    body = b""
    for name, ty, perms, target in es:
        digits = ""
        p = perms
        while True:
            digits = "01234567"[p & 7] + digits
            p >>= 3
            if p == 0:
                break
        body += digits.encode() + b" " + name + b"\x00" + target
    return b"tree " + str(len(body)).encode() + b"\x00" + body


def oracle_decode(obj: bytes):
    nul = obj.index(b"\x00")
    ty, ln = obj[:nul].split(b" ")
    assert ty == b"tree" and int(ln) == len(obj) - nul - 1
    body = obj[nul + 1 :]
    out = []
    i = 0
    while i < len(body):
        sp = body.index(b" ", i)
        mode = int(body[i:sp], 8)
        nul = body.index(b"\x00", sp)
        name = body[sp + 1 : nul]
        tgt = body[nul + 1 : nul + 21]
        assert len(tgt) == 20
        out.append((mode, name, tgt))
        i = nul + 21
    return out


_GIT = {"dir": None}


def git_mktree(entries) -> bytes:
    """id computed by real git (`git mktree -z --missing`); git sorts the entries itself."""
    if _GIT["dir"] is None:
        import atexit, shutil

        d = scratch_dir("git")
        subprocess.run(["git", "init", "-q", "--bare", d], check=True, env=_git_env(), stdout=subprocess.DEVNULL)
        _GIT["dir"] = d
        atexit.register(lambda: shutil.rmtree(d, ignore_errors=True))
    inp = b""
    for name, ty, perms, target in entries:
        gty = {0o040000: b"tree", 0o160000: b"commit"}.get(perms, b"blob")
        inp += b"%o %s %s\t%s\x00" % (perms, gty, target.hex().encode(), name)
    p = subprocess.run(
        ["git", "--git-dir", _GIT["dir"], "mktree", "-z", "--missing"], input=inp,
        stdout=subprocess.PIPE, stderr=subprocess.PIPE, env=_git_env(),
    )
    if p.returncode != 0:
        return None
    return bytes.fromhex(p.stdout.decode().strip())


def _git_env():
    e = dict(os.environ)
    e.update(GIT_CONFIG_GLOBAL="/dev/null", GIT_CONFIG_SYSTEM="/dev/null", GIT_CONFIG_NOSYSTEM="1", HOME="/nonexistent", LC_ALL="C")
    return e


def type_mode_agree(ty, perms):
    if ty == "dir":
        return perms == 0o040000
    if ty == "rev":
        return perms == 0o160000
    return perms in (0o100644, 0o100755, 0o120000)


# ------------------------------------------------------------------ check


def impl_dir(entries):
    from swh.model import model

    return model.Directory(
        entries=tuple(
            model.DirectoryEntry(name=n, type=t, perms=p, target=g) for (n, t, p, g) in entries
        )
    )


def check_cases(ctx, cases):
    from swh.model import git_objects, model
    import dulwich.objects

    reqs = []
    impl = []
    for ci, case in enumerate(cases):
        es = [(unhx(e["name"]), e["type"], e["perms"], unhx(e["target"])) for e in case["entries"]]
        ctx.case(case, nontrivial=len(es) >= 2)
        ctx.count(f"n_entries={min(len(es), 9)}{'+' if len(es) > 9 else ''}")
        for _, t, p, _g in es:
            ctx.count("type=" + t)
            ctx.count("mode=canonical" if p in CANON else "mode=other")
        if ci % 4 == 1 or case.get("after_failed_call"):
            # "nothing but the entry set influences the id": not even a formatting call that failed half-way
            # just before (an entry set that is not legal: the second entry in sort order has no mode; once
            # through the formatter, once through the repair constructor)
            import types

            ok_e = model.DirectoryEntry(name=b"a", type="file", target=b"\x11" * 20, perms=0o100644)
            bad_e = types.SimpleNamespace(name=b"zz", type="file", target=b"\x22" * 20, perms=None)
            for attempt in (lambda: git_objects.directory_git_object(types.SimpleNamespace(entries=(ok_e, bad_e))),
                            lambda: model.Directory.from_possibly_duplicated_entries(entries=(ok_e, {"name": b"zz", "type": "file", "target": b"\x22" * 20, "perms": 0o100644}))):
                try:
                    attempt()
                except Exception:
                    pass
            ctx.count("after-failed-call")
            case = dict(case, after_failed_call=True)   # (so that a replay of this case repeats the failed call)
        try:
            d = impl_dir(es)
        except Exception as e:
            ctx.fail(case, f"a directory whose entries have distinct names without '/' or NUL and 20-byte targets is rejected: {type(e).__name__}: {str(e)[:100]}", "legal-entries-rejected:" + type(e).__name__)
            impl.append(None)
            reqs.append({"op": "ping"})
            reqs.append({"op": "ping"})
            continue
        man = git_objects.directory_git_object(d)
        gitfmt.dict_form_agrees(ctx, case, git_objects.directory_git_object, d, man)
        # copies of the object (pickle: what another process or a queue hands over; deepcopy) are the same
        # directory: same manifest, same recomputed id, still passing the integrity check
        import copy as _cp
        import pickle as _pk

        for how, mk in (("pickle", lambda x: _pk.loads(_pk.dumps(x))), ("deepcopy", _cp.deepcopy)):
            try:
                dc_ = mk(d)
                if git_objects.directory_git_object(dc_) != man or dc_.compute_hash() != d.id:
                    ctx.fail(case, f"a {how} copy of the directory gets another manifest or id", "copy-differs:" + how)
                dc_.check()
            except Exception as e:
                ctx.fail(case, f"a {how} copy of the directory cannot be formatted or checked: {type(e).__name__}", "copy-differs:" + how)
        rec = {"manifest": man, "id": d.id, "swhid": str(d.swhid())}
        impl.append(rec)
        reqs.append({"op": "dir_manifest", "entries": case["entries"]})
        reqs.append({"op": "tree_decode", "bytes": hx(man)})

        # ---------------- property oracle, directly on the implementation
        want = oracle_encode(es)
        if man != want:
            ctx.fail(case, "manifest differs from the git tree object built with git's base_name_compare", "manifest-not-git-tree", {"impl": hx(man), "oracle": hx(want)})
        if d.id != hashlib.sha1(man).digest():
            ctx.fail(case, "Directory.id is not the SHA-1 of directory_git_object", "id-not-sha1-of-manifest")
        if str(d.swhid()) != "swh:1:dir:" + d.id.hex():
            ctx.fail(case, "swhid() does not carry the id", "swhid-mismatch")
        try:
            dec = oracle_decode(man)
            if sorted(dec) != sorted((p, n, g) for (n, t, p, g) in es):
                ctx.fail(case, "independent decoder does not recover the entry set", "decode-mismatch", {"decoded": [(m, hx(n), hx(g)) for m, n, g in dec]})
        except Exception as e:
            ctx.fail(case, f"independent decoder fails on the manifest: {type(e).__name__}", "decode-error")
        for perm in case["perms"]:
            d2 = impl_dir([es[i] for i in perm])
            if d2.id != d.id or git_objects.directory_git_object(d2) != man:
                ctx.fail(case, "id depends on the order of the entry tuple", "order-dependent", {"perm": perm})
                break
        # via from_dict (another construction route; nothing but the entries may matter)
        d3 = model.Directory.from_dict({"entries": [dict(name=n, type=t, perms=p, target=g) for (n, t, p, g) in es]})
        if d3.id != d.id:
            ctx.fail(case, "from_dict route gives another id", "route-dependent")
        # git / dulwich on the subset where they decide 'directory' the same way
        if es and all(type_mode_agree(t, p) for (_, t, p, _) in es):
            ctx.count("git-expressible")
            tr = dulwich.objects.Tree()
            for (n, t, p, g) in es:
                tr.add(n, p, g.hex().encode())
            if tr.id != d.id.hex().encode():
                ctx.fail(case, "dulwich computes another tree id", "dulwich-mismatch", {"dulwich": tr.id.decode(), "impl": d.id.hex()})
            use_git = ctx.tier == "thorough" or (ci % 10 == 0)
            if use_git and all(b"\n" not in n for (n, _, _, _) in es):
                gid = git_mktree(es)
                ctx.count("git-mktree")
                if gid is not None and gid != d.id:
                    ctx.fail(case, "git mktree computes another tree id", "git-mismatch", {"git": gid.hex(), "impl": d.id.hex()})

    # ---------------- correspondence with the Lean model
    res = ctx.model(reqs)
    for ci, case in enumerate(cases):
        r1, r2 = res[2 * ci], res[2 * ci + 1]
        rec = impl[ci]
        if rec is None:
            continue
        if "error" in r1 or "error" in r2:
            if ctx.model_available:
                ctx.disagree(case, "model driver error", model=[r1, r2])
            continue
        mm = unhx(r1["r"]["manifest"])
        if mm != rec["manifest"]:
            ctx.disagree(case, "dir_manifest: model and implementation print different manifests", model=hx(mm), impl=hx(rec["manifest"]))
        elif hashlib.sha1(mm).digest() != rec["id"]:
            ctx.disagree(case, "Directory.id != sha1(model manifest)", model=hashlib.sha1(mm).hexdigest(), impl=hx(rec["id"]))
        dec = r2["r"]["decoded"]
        want = sorted([e["perms"], e["name"], e["target"]] for e in case["entries"])
        if dec is None or sorted(dec) != want:
            ctx.disagree(case, "Lean decodeTree on the implementation's manifest does not return the entry set", model=dec, impl=want)


def neighbours(ctx, case):
    """cases around a disagreeing one: sub-lists and single-entry edits"""
    es = case["entries"]
    out = []
    for i in range(len(es)):
        out.append({"entries": es[:i] + es[i + 1 :], "perms": [list(reversed(range(len(es) - 1)))]})
    for i in range(len(es)):
        for ty in ("file", "dir", "rev"):
            e = dict(es[i], type=ty)
            out.append({"entries": es[:i] + [e] + es[i + 1 :], "perms": [list(reversed(range(len(es))))]})
    return out


def shrink(ctx, failure):
    """greedy removal of entries while the same kind of failure persists"""
    from common import Ctx

    case = failure["case"]
    kind = failure["kind"]
    es = list(case["entries"])
    changed = True
    while changed and len(es) > 1:
        changed = False
        for i in range(len(es)):
            cand = {"entries": es[:i] + es[i + 1 :], "perms": [list(reversed(range(len(es) - 1)))]}
            if case.get("after_failed_call"):
                cand["after_failed_call"] = True
            c2 = Ctx(ctx.prop, ctx.tier, ctx.seed)
            c2.model_available = False
            try:
                check_cases(c2, [cand])
            except Exception:
                continue
            if any(f["kind"] == kind for f in c2.failures):
                es = cand["entries"]
                changed = True
                break
    out = {"entries": es, "perms": [list(reversed(range(len(es))))]}
    if case.get("after_failed_call"):
        out["after_failed_call"] = True
    return out
