"""C16 — timestamps and UTC offsets convert exactly in every direction."""
from __future__ import annotations

import datetime

from common import hx, unhx

REQUIRED = [
    "Swh.C16.offset_roundtrip",
    "Swh.C16.fromNumericOffset_ok",
    "Swh.C16.minus_zero_iff",
    "Swh.C16.offset_bytes_verbatim",
    "Swh.C16.formatDate_exact",
    "Swh.C16.seconds_floor",
    "Swh.C16.datetime_roundtrip",
    "Swh.C16.range_reject_iff",
    "Swh.C16.bounds_table",
]
RULE = (
    "all 65 536 offsets x negative-UTC flag (exhaustive, every run); seconds at both range ends +-2, around 0 and -1, "
    "random; microseconds {0,1,9,10,99999,100000,999999,random}; aware datetimes with fixed offsets (every minute "
    "0-59 in some hour), named zones via dateutil, ISO-8601 strings incl. '-00:00'; out-of-range and wrong-type "
    "values; non-trivial = every case except the all-zero one; distinct by canonical JSON"
)
ASSUMPTIONS = [
    "datetime arithmetic (civil date <-> epoch microseconds, astimezone, timestamp()) is CPython's; the harness "
    "converts datetimes to (utcMicros, offsetMinutes) with exact integer timedelta arithmetic",
    "iso8601.parse_date and dateutil zones are library contracts",
]
TRUSTED = ["datetime, iso8601, dateutil (contracts)", "attrs validators run order"]

EPOCH = datetime.datetime(1970, 1, 1, tzinfo=datetime.timezone.utc)
US = datetime.timedelta(microseconds=1)


def to_pair(dt):
    u = (dt - EPOCH) // US
    off = dt.utcoffset() // datetime.timedelta(minutes=1)
    return u, off


def generate(ctx):
    rng = ctx.rng
    from swh.model.model import Timestamp

    lo, hi = Timestamp.MIN_SECONDS, Timestamp.MAX_SECONDS
    cases = [{"kind": "offsets", "lo": -32768, "hi": 32767}, {"kind": "offsets", "lo": -33000, "hi": -32769}, {"kind": "offsets", "lo": 32768, "hi": 33000}]
    secs = [lo, lo + 1, lo + 2, hi, hi - 1, hi - 2, 0, -1, 1, -2, 59, 60, -60, 86399, 86400, -86400, 2**31 - 1, 2**31, -(2**31), 10**9, 1234567890]
    mics = [0, 1, 9, 10, 99, 100, 99999, 100000, 100001, 500000, 999990, 999999, 123456, 120000, 1000, 10000]
    n = ctx.budget(300, 6000)
    for i in range(n):
        s = rng.choice(secs) if rng.random() < 0.5 else rng.randrange(lo, hi + 1)
        us = rng.choice(mics) if rng.random() < 0.6 else rng.randrange(0, 10**6)
        cases.append({"kind": "date", "s": s, "us": us})
    # range checks
    for s in [lo - 1, lo - 2, hi + 1, hi + 2, lo, hi, 2**63, -(2**63), 0]:
        for us in [0, -1, 10**6, 10**6 - 1, 5]:
            cases.append({"kind": "range", "s": s, "us": us})
    # the same limits reached through the datetime entry points: instants a datetime can express (year 1 and
    # year 9999 in UTC) but whose seconds lie outside the accepted range
    for s in [hi + 1, hi + 2, hi + 1801, 253402300799, lo - 1, lo - 2, lo - 3600, -62135596800, hi, lo]:
        for us in [0, 1, 999999]:
            cases.append({"kind": "range_dt", "s": s, "us": us})
    # datetimes: fixed offsets with every minute value, both sides of the epoch
    for i in range(ctx.budget(250, 5000)):
        r = rng.random()
        if r < 0.5:
            h = rng.randrange(-23, 24)
            m = rng.randrange(0, 60) if i >= 60 else i
            off = h * 60 + (m if h >= 0 else -m)
            if not -1440 < off < 1440:
                off = m
        else:
            off = rng.choice([0, 1, -1, 59, -59, 60, 330, -330, 345, 765, 840, -720, 1439, -1439])
        s = rng.choice(secs[6:]) if rng.random() < 0.4 else rng.randrange(-(10**10), 10**11)
        s = max(lo + 90000, min(hi - 90000, s))
        us = rng.choice(mics) if rng.random() < 0.6 else rng.randrange(0, 10**6)
        cases.append({"kind": "dt", "u": s * 10**6 + us, "off": off})
    zones = ["Europe/Paris", "America/St_Johns", "Asia/Kathmandu", "Australia/Lord_Howe", "Pacific/Chatham", "UTC", "Asia/Kolkata", "America/New_York"]
    for i in range(ctx.budget(60, 600)):
        s = rng.randrange(-(10**9), 4 * 10**9)
        cases.append({"kind": "zone", "zone": rng.choice(zones), "u": s * 10**6 + rng.choice(mics)})
    # named zones, systematic: instants around every change of UTC offset of two years, in particular
    # inside the repeated wall-clock interval at the end of daylight saving time (PEP 495 fold=1)
    for z in zones:
        for u in zone_transitions(z):
            for d in (-1800, -1, 0, 1, 1800):
                for us in (0, 250000):
                    cases.append({"kind": "zone", "zone": z, "u": (u + d) * 10**6 + us})
    for i in range(ctx.budget(40, 400)):
        s = rng.randrange(-(10**9), 4 * 10**9)
        off = rng.choice([0, 0, 60, -60, 330, -570, 1, -1])
        cases.append({"kind": "iso", "u": s * 10**6 + rng.choice([0, 0, 500000, 1, 999999]), "off": off, "minus_zero": off == 0 and rng.random() < 0.5})
    # ISO-8601 texts, systematic: every offset spelling (incl. the negative-UTC one) x both sides of
    # the epoch x whole / fractional seconds
    for off, mz in [(0, False), (0, True), (60, False), (-60, False), (330, False), (-570, False), (1, False), (-1, False), (839, False), (-719, False)]:
        for sec in (-(10**10), -86401, -86400, -2, -1, 0, 1, 86399, 1582810759, 4 * 10**9):
            for us in (0, 1, 250000, 500000, 999999):
                cases.append({"kind": "iso", "u": sec * 10**6 + us, "off": off, "minus_zero": mz})
    # recorded offset bytes: canonical and odd, kept verbatim / parsed leniently
    for b in [b"+0000", b"-0000", b"+0200", b"-0200", b"+200", b"-200", b"+02", b"-02", b"+0010", b"+0160", b"+200000000000000000", b"+051800", b"-1200", b"+1400", b"+9999", b"-9999", b"+54607", b"-54608", b"+54608", b"+5", b"-5", b"+00059", b"+00060"]:
        cases.append({"kind": "offbytes", "bytes": hx(b)})
    for i in range(ctx.budget(60, 1000)):
        sign = rng.choice(b"+-")
        digits = "".join(rng.choice("0123456789") for _ in range(rng.choice([1, 2, 3, 4, 4, 4, 5, 6, 9])))
        cases.append({"kind": "offbytes", "bytes": hx(bytes([sign]) + digits.encode())})
    return cases


_TRANS = {}


def zone_transitions(zone, years=(2005, 2021)):
    """epoch seconds (UTC) at which the zone's UTC offset changes, found by scanning hour by hour"""
    if zone in _TRANS:
        return _TRANS[zone]
    import dateutil.tz

    tz = dateutil.tz.gettz(zone)
    out = []
    for y in years:
        t0 = int(datetime.datetime(y, 1, 1, tzinfo=datetime.timezone.utc).timestamp())
        prev = None
        for h in range(0, 366 * 24 * 2):
            t = t0 + h * 1800
            off = datetime.datetime.fromtimestamp(t, datetime.timezone.utc).astimezone(tz).utcoffset()
            if prev is not None and off != prev:
                out.append(t)
            prev = off
    _TRANS[zone] = out
    return out


def indep_parse_date(text: bytes):
    t = text.decode("ascii")
    neg = t.startswith("-")
    if neg:
        t = t[1:]
    if "." in t:
        a, f = t.split(".")
        assert 1 <= len(f) <= 6 and not f.endswith("0") and f.isdigit()
        us = int(f.ljust(6, "0"))
    else:
        a, us = t, 0
    assert a.isdigit() and (a == "0" or not a.startswith("0"))
    return (-int(a) if neg else int(a)), us


def check_cases(ctx, cases):
    from swh.model import git_objects
    from swh.model.model import Timestamp, TimestampWithTimezone

    ts0 = Timestamp(seconds=0, microseconds=0)
    reqs = []
    post = []
    from common import local_timezone

    for ci_, case in enumerate(cases):
        # the process's own timezone must not matter (recorded in the case so that a replay runs under the same one)
        case.setdefault("tz", (ci_ // 7) % 6)
        if ci_ % 7 == 0 or len(cases) < 7:
            ctx.count("local-tz=" + local_timezone(case["tz"]))
        k = case["kind"]
        ctx.count("kind=" + k)
        if k == "offsets":
            lo, hi = case["lo"], case["hi"]
            ctx.case(case, nontrivial=True, sample=True)
            rows = []
            for o in range(lo, hi + 1):
                for f in (False, True):
                    try:
                        t = TimestampWithTimezone.from_numeric_offset(ts0, o, f)
                        b, c = t.offset_bytes, True
                    except AssertionError:
                        b, c = None, "assertion"
                    # the bytes as formatted, even when the assertion fired
                    neg = o < 0 or f
                    hh, mm = divmod(abs(o), 60)
                    fb = ("%s%02d%02d" % ("-" if neg else "+", hh, mm)).encode()
                    try:
                        p = TimestampWithTimezone._parse_offset_bytes(fb)
                    except Exception as e:
                        p = "exc:" + type(e).__name__
                    rows.append([b, fb, p, c])
                    ctx.evaluations += 1
                    # the legacy dictionary form goes through the same numeric form: same bytes (sampled)
                    if c is True and (o % 97 == 0 or -70 <= o <= 70 or abs(o) > 32700):
                        try:
                            td = TimestampWithTimezone.from_dict({"timestamp": {"seconds": ts0.seconds, "microseconds": ts0.microseconds}, "offset": o, "negative_utc": f})
                            if td.offset_bytes != b or td != t:
                                ctx.fail({"kind": "offset1", "o": o, "f": f}, "the legacy dictionary form (offset, negative_utc) does not decode to the bytes of the numeric form", "legacy-dict-offset-differs", {"got": td.offset_bytes.decode("latin1"), "want": b.decode("latin1")})
                        except Exception as e:
                            ctx.fail({"kind": "offset1", "o": o, "f": f}, f"the legacy dictionary form raises {type(e).__name__}", "legacy-dict-offset-raises")
                    in16 = -32768 <= o <= 32767
                    # ---- oracle (property stated directly)
                    if in16 and (not f or o <= 0):
                        if c is not True:
                            ctx.fail({"kind": "offset1", "o": o, "f": f}, "from_numeric_offset rejects an in-range offset", "offset-rejected")
                        elif TimestampWithTimezone._parse_offset_bytes(b) != o or t.offset_minutes() != o:
                            ctx.fail({"kind": "offset1", "o": o, "f": f}, "offset does not round-trip through its bytes", "offset-roundtrip")
                        elif (b == b"-0000") != (o == 0 and f):
                            ctx.fail({"kind": "offset1", "o": o, "f": f}, "-0000 produced for something else than negative UTC (or not produced for it)", "minus-zero")
                        elif not (len(b) >= 5 and b[0:1] in (b"+", b"-") and b[1:].isdigit() and int(b[-2:]) < 60 and int(b[1:-2]) * 60 + int(b[-2:]) == abs(o) and (b[0:1] == b"-") == (o < 0 or f)):
                            ctx.fail({"kind": "offset1", "o": o, "f": f}, "offset bytes are not +HHMM/-HHMM of the offset", "offset-format")
            if (lo, hi) == (-32768, 32767):
                ctx.exhaustive_parts.append("all 65536 offsets x negative-UTC flag")
            reqs.append({"op": "offset_table", "lo": lo, "hi": hi})
            post.append(("offsets", case, rows))
        elif k == "offset1":
            o, f = case["o"], case["f"]
            ctx.case(case)
            try:
                t = TimestampWithTimezone.from_numeric_offset(ts0, o, f)
                if t.offset_minutes() != o:
                    ctx.fail(case, "offset does not round-trip through its bytes", "offset-roundtrip")
                if (t.offset_bytes == b"-0000") != (o == 0 and f):
                    ctx.fail(case, "-0000 produced for something else than negative UTC (or not produced for it)", "minus-zero")
            except AssertionError:
                if -32768 <= o <= 32767 and (not f or o <= 0):
                    ctx.fail(case, "from_numeric_offset rejects an in-range offset", "offset-rejected")
            reqs.append({"op": "ping"})
            post.append(("skip", case, None))
        elif k == "date":
            s, us = case["s"], case["us"]
            ctx.case(case, nontrivial=(s, us) != (0, 0))
            ctx.count("us_trailing_zeros=%d" % (6 if us == 0 else len(str(us).zfill(6)) - len(str(us).zfill(6).rstrip("0"))))
            text = git_objects.format_date(Timestamp(seconds=s, microseconds=us))
            try:
                back = indep_parse_date(text)
            except Exception:
                back = None
            if back != (s, us):
                ctx.fail(case, f"date text {text!r} is not the exact decimal of ({s}, {us})", "date-text-inexact", {"text": text.decode("latin1")})
            # the same text inside an author line, offset bytes verbatim
            from swh.model.model import Person

            line = git_objects.format_author_data(Person(fullname=b"A <a@b>", name=None, email=None), TimestampWithTimezone(timestamp=Timestamp(seconds=s, microseconds=us), offset_bytes=b"+051800"))
            if line != b"A <a@b> " + text + b" +051800":
                ctx.fail(case, "author line does not carry the date text and the recorded offset bytes verbatim", "author-line")
            reqs.append({"op": "fmt_date", "s": s, "us": us})
            post.append(("date", case, text))
        elif k == "range":
            s, us = case["s"], case["us"]
            ctx.case(case)
            try:
                Timestamp(seconds=s, microseconds=us)
                ok = True
            except ValueError:
                ok = False
            want = Timestamp.MIN_SECONDS <= s <= Timestamp.MAX_SECONDS and 0 <= us <= 999999
            if ok != want:
                ctx.fail(case, "Timestamp range check wrong", "range-check")
            if (Timestamp.MIN_SECONDS, Timestamp.MAX_SECONDS) != (-62135510961, 253402297199):
                ctx.fail(case, "accepted range is not [0001-01-02, 9999-12-31]", "range-bounds")
            reqs.append({"op": "mk_ts", "s": s, "us": us})
            post.append(("range", case, ok))
        elif k == "range_dt":
            from swh.model import git_objects as _go

            ctx.case(case)
            dt = EPOCH + datetime.timedelta(seconds=case["s"], microseconds=case["us"])
            inside = Timestamp.MIN_SECONDS <= case["s"] <= Timestamp.MAX_SECONDS
            for how, fn in (("from_datetime", lambda: TimestampWithTimezone.from_datetime(dt)),
                            ("from_dict", lambda: TimestampWithTimezone.from_dict(dt)),
                            ("from_iso8601", lambda: TimestampWithTimezone.from_iso8601(dt.isoformat())),
                            ("normalize_timestamp", lambda: _go.normalize_timestamp(dt))):
                try:
                    fn()
                    ok = True
                except (ValueError, OverflowError):
                    ok = False
                ctx.count("range-through-datetime=" + ("in" if inside else "out"))
                if ok != inside:
                    ctx.fail(case, f"{how}: a datetime whose seconds lie {'inside' if inside else 'outside'} the accepted range is {'rejected' if inside else 'accepted'}", "range-check:" + how)
                    break
            reqs.append({"op": "ping"})
            post.append(("skip", case, None))
        elif k in ("dt", "zone", "iso"):
            if k == "zone":
                import dateutil.tz

                tz = dateutil.tz.gettz(case["zone"])
                dt = (EPOCH + case["u"] * US).astimezone(tz)
                off_td = dt.utcoffset()
                if off_td % datetime.timedelta(minutes=1):
                    reqs.append({"op": "ping"})
                    post.append(("skip", case, None))
                    continue
                u, off = to_pair(dt)
            else:
                u, off = case["u"], case["off"]
                dt = (EPOCH + u * US).astimezone(datetime.timezone(datetime.timedelta(minutes=off)))
            ctx.case(case)
            ctx.count("epoch_side=" + ("before" if u < 0 else "after"))
            if k == "iso":
                txt = dt.isoformat()
                if case.get("minus_zero"):
                    txt = txt.replace("+00:00", "-00:00")
                t = TimestampWithTimezone.from_iso8601(txt)
                exp_bytes = b"-0000" if case.get("minus_zero") else None
            else:
                t = TimestampWithTimezone.from_datetime(dt)
                exp_bytes = None
            s_, us_ = t.timestamp.seconds, t.timestamp.microseconds
            # ---- oracle
            if s_ * 10**6 + us_ != u or not (0 <= us_ < 10**6):
                ctx.fail(case, "seconds are not the floor of the epoch time / microseconds not kept", "floor-micros", {"got": [s_, us_]})
            if exp_bytes is not None:
                if t.offset_bytes != exp_bytes:
                    ctx.fail(case, "ISO-8601 '-00:00' is not recorded as -0000", "iso-minus-zero")
            elif t.offset_minutes() != off:
                ctx.fail(case, "offset not preserved", "offset-lost", {"got": t.offset_bytes.decode("latin1")})
            back = t.to_datetime()
            # (compared as instant + offset: Python's == between aware datetimes of different zones is
            #  always False when one of them is an ambiguous wall-clock time, PEP 495)
            if to_pair(back) != (u, off) or back.utcoffset() != dt.utcoffset():
                ctx.fail(case, "datetime -> model -> datetime is not the identity", "dt-roundtrip", {"back": back.isoformat()})
            # the same conversion inside a revision, next to an author date that is the same instant
            # written in another zone: each date keeps its own offset
            if ci_ % 3 == 0:
                from swh.model.model import Revision

                other = dt.astimezone(datetime.timezone(datetime.timedelta(minutes=(off + 150) if off < 1200 else (off - 150))))
                try:
                    rv = Revision.from_dict({"message": b"m", "author": {"fullname": b"a"}, "committer": {"fullname": b"c"}, "date": other, "committer_date": dt,
                                             "type": "git", "directory": bytes(20), "synthetic": False, "parents": []})
                    if rv.committer_date != TimestampWithTimezone.from_datetime(dt) or rv.date == rv.committer_date:
                        ctx.fail(case, "Revision.from_dict: a committer date that is the same instant as the author date in another zone does not keep its own offset", "revision-dates-aliased", {"committer": rv.committer_date.offset_bytes.decode("latin1"), "want": TimestampWithTimezone.from_datetime(dt).offset_bytes.decode("latin1")})
                except Exception as e:
                    ctx.fail(case, f"Revision.from_dict with datetime dates raises {type(e).__name__}", "revision-datetime-dates-raise")
            reqs.append({"op": "from_dt", "u": u, "off": off})
            post.append(("dt", case, (s_, us_, t.offset_bytes, to_pair(back), exp_bytes)))
        elif k == "offbytes":
            b = unhx(case["bytes"])
            ctx.case(case)
            t = TimestampWithTimezone(timestamp=Timestamp(seconds=1, microseconds=0), offset_bytes=b)
            if t.offset_bytes != b or t.to_dict()["offset_bytes"] != b:
                ctx.fail(case, "recorded offset bytes are not kept verbatim", "offset-bytes-changed")
            try:
                m = t.offset_minutes()
            except Exception as e:
                m = "exc:" + type(e).__name__
            # the dictionary forms: recorded bytes alone, and next to the legacy numeric members (as
            # transitional producers wrote them) — the recorded bytes win, verbatim
            tsd = {"seconds": 1, "microseconds": 0}
            forms = [{"timestamp": dict(tsd), "offset_bytes": b}]
            if isinstance(m, int):
                forms.append({"timestamp": dict(tsd), "offset_bytes": b, "offset": m, "negative_utc": b.startswith(b"-") and m == 0})
                forms.append({"offset": m, "negative_utc": False, "offset_bytes": b, "timestamp": dict(tsd)})
            for fd in forms:
                try:
                    t2 = TimestampWithTimezone.from_dict(dict(fd))
                except Exception as e:
                    ctx.fail(dict(case, form=sorted(fd)), f"from_dict rejects a date dictionary that records offset bytes: {type(e).__name__}", "dict-with-offset-bytes-rejected")
                    continue
                if t2.offset_bytes != b or t2 != t:
                    ctx.fail(dict(case, form=sorted(fd)), "recorded offset bytes are not kept verbatim when decoding a dictionary", "offset-bytes-changed:from_dict", {"got": t2.offset_bytes.decode("latin1")})
            reqs.append({"op": "offset_parse", "bytes": case["bytes"]})
            post.append(("offbytes", case, m))
        else:
            raise ValueError(k)

    res = ctx.model(reqs)
    for (kind, case, data), r in zip(post, res):
        if kind == "skip":
            continue
        if "error" in r:
            if ctx.model_available:
                ctx.disagree(case, "model driver error", model=r)
            continue
        m = r["r"]
        if kind == "offsets":
            rows = m["rows"]
            lo = case["lo"]
            for i, (row, (b, fb, p, c)) in enumerate(zip(rows, data)):
                o, f = lo + i // 2, bool(i % 2)
                if unhx(row[0]) != fb or row[1] != p or row[2] != c or (b is not None and b != fb):
                    ctx.disagree({"kind": "offset1", "o": o, "f": f}, "offset formatting/parsing: model vs implementation", model=row, impl=[hx(b), hx(fb), p, c])
                    if len(ctx.disagreements) > 20:
                        break
        elif kind == "date":
            if unhx(m["text"]) != data:
                ctx.disagree(case, "format_date: model vs implementation", model=m["text"], impl=hx(data))
        elif kind == "range":
            if ("ok" in m) != data:
                ctx.disagree(case, "Timestamp range: model vs implementation", model=m, impl=data)
        elif kind == "dt":
            s_, us_, ob, back, exp_bytes = data
            if (m["s"], m["us"]) != (s_, us_):
                ctx.disagree(case, "from_datetime seconds/microseconds: model vs implementation", model=[m["s"], m["us"]], impl=[s_, us_])
            if exp_bytes is None and m["offset_bytes"] != hx(ob):
                ctx.disagree(case, "from_datetime offset bytes: model vs implementation", model=m["offset_bytes"], impl=hx(ob))
            if m["back"] != list(back):
                ctx.disagree(case, "to_datetime: model vs implementation", model=m["back"], impl=list(back))
        elif kind == "offbytes":
            mv = m.get("ok", None)
            b = unhx(case["bytes"])
            canonical = len(b) >= 5 and b[1:].isdigit() and int(b[-2:]) < 60
            if not canonical:
                continue  # leniency towards odd recorded bytes is outside the property
            if isinstance(data, int):
                if mv != data:
                    ctx.disagree(case, "_parse_offset_bytes: model vs implementation", model=m, impl=data)
            elif "err" not in m:
                ctx.disagree(case, "_parse_offset_bytes raises in the implementation only", model=m, impl=data)


def neighbours(ctx, case):
    out = []
    if case.get("kind") == "date":
        for ds in (-1, 0, 1):
            for du in (-1, 0, 1):
                us = case["us"] + du
                if 0 <= us < 10**6:
                    out.append({"kind": "date", "s": case["s"] + ds, "us": us})
    if case.get("kind") == "offset1":
        for d in (-60, -1, 1, 60):
            out.append({"kind": "offset1", "o": case["o"] + d, "f": case["f"]})
    return out
