"""Child of the C20 check: sorts the given logs in an interpreter started with -O (assert statements
are stripped) and prints the yielded ids, or the exception, one JSON line per log."""
import json
import sys

import common  # noqa: F401  (puts the repository under test on sys.path)


def main():
    from swh.model.toposort import toposort

    idb = lambda i: b"rev-%d" % i
    for line in open(sys.argv[1]):
        log = json.loads(line)
        try:
            out = [int(r["id"].split(b"-")[1]) for r in toposort([{"id": idb(r["id"]), "parents": [idb(p) for p in r["parents"]]} for r in log])]
            print(json.dumps({"order": out}))
        except BaseException as e:  # noqa: B902
            print(json.dumps({"error": type(e).__name__}))


if __name__ == "__main__":
    main()
