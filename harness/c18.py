"""C18 — the identify command prints what the library computes, for every option mix."""
from __future__ import annotations

import fnmatch
import hashlib
import itertools
import os
import random
import shutil
import subprocess

import fs_common as fs
from common import time_limit, hx, scratch_dir, unhx

REQUIRED = [
    "Swh.C18.identify_no_crash",
    "Swh.C18.identify_designated",
    "Swh.C18.usage_error_iff_documented",
    "Swh.C18.verify_exit_iff",
    "Swh.C18.flags_do_not_change_object",
    "Swh.C18.cli_params",
    "Swh.C18.many_single",
    "Swh.C18.many_verify_needs_one",
    "Swh.C18.many_prints_each",
]
RULE = (
    "the whole configuration space: argument kind (regular file, directory, symlink to either, stdin, URL, git "
    "repository) x --type (5) x --dereference/--no-dereference x --filename/--no-filename x --recursive x --verify "
    "(absent / matching / non-matching) x --exclude (absent / patterns), each in-scope configuration run through "
    "CliRunner on generated fixtures (file names incl. non-UTF-8, trees with nested/hidden directories, a real git "
    "repository); non-trivial = every in-scope configuration; distinct by canonical JSON of (configuration, fixture)"
)
ASSUMPTIONS = [
    "click's option parsing, os.path predicates and the library calls are below the model (the model is the decision "
    "logic on the finite configuration space); they are exercised by the exhaustive correspondence",
    "in recursive mode one line per node means per distinct id (the library's de-duplicating traversal); special files "
    "have no path of their own and are compared on the SWHID column only",
]
TRUSTED = ["click / CliRunner", "os.path", "dulwich (reading the git repository)", "git (building the fixture repository)"]

KINDS = ["file", "dir", "linkFile", "linkDir", "stdin", "url", "gitRepo"]
TYPES = ["auto", "content", "directory", "origin", "snapshot"]
VERIFY = ["absent", "matching", "nonMatching", "malformed"]


# URL spellings, several of which parsing and re-composing would not give back unchanged: the
# origin is the exact string given on the command line
URLS = ["https://example.org/repo.git", "http://é.example/x y", "git://host/p", "file:///x",
        "HTTPS://Example.ORG/Repo", "http://host/x?", "http://host/x#", "file:/x", "http://host/a/../b/",
        "svn+ssh://u@h:22/p;param?q=1#", "http://h/%7euser", "x-y.z+1:foo", "http:///x", "http://host:80"]


def all_configs():
    for k, t, d, f, r, v, x in itertools.product(KINDS, TYPES, [True, False], [True, False], [False, True], VERIFY, [False, True]):
        yield {"kind": k, "type": t, "deref": d, "filename": f, "recursive": r, "verify": v, "exclude": x}


def generate(ctx):
    rng = ctx.rng
    cfgs = list(all_configs())
    nfix = 2 if ctx.tier == "quick" else 7
    cases = []
    for fi in range(nfix * ctx.scale):
        # the exclusion patterns of a fixture are chosen by seed % 7; the first fixture of every run
        # uses '.*' (hidden directories), the pattern most sensitive to how paths reach the filter
        seed = rng.randrange(2**24) * 7 + (0 if fi == 0 else (rng.randrange(7) if ctx.tier == "quick" else fi % 7))
        for c in cfgs:
            cases.append(dict(c, fixture=seed))
        if fi == 0:
            # every URL spelling x every configuration that reaches the origin branch without
            # the tree options (which do not apply to a URL)
            for ui in range(len(URLS)):
                for c in cfgs:
                    if c["kind"] == "url" and not c["recursive"] and not c["exclude"] and c["deref"]:
                        cases.append(dict(c, fixture=seed, url=ui))
    ctx.exhaustive_parts.append("all 2240 configurations of the identify command")
    return cases


class Fixture:
    def __init__(self, seed):
        rng = random.Random(seed)
        self.base = scratch_dir("c18").encode()
        self.rng = rng
        fname = rng.choice([b"plain.txt", b"sp ace", b"non-utf8-\xff\xfe", b"\xc3\xa9t\xc3\xa9", b"-dash", b"notes:2020.txt", b"http:x"])
        if seed % 7 == 0:
            fname = b"notes:2020.txt"   # (the first fixture of every run: a name that looks like a URL scheme)
        self.file = os.path.join(self.base, fname)
        self.file_data = bytes(rng.randrange(256) for _ in range(rng.choice([0, 5, 100, 40000])))
        with open(self.file, "wb") as f:
            f.write(self.file_data)
        os.chmod(self.file, rng.choice([0o644, 0o755]))
        self.spec = fs.gen_tree(rng, max_depth=3, fanout=5, big=False)
        # make sure there are nested, hidden and pattern-named directories
        # (a special file, at depth: the library counts it as an empty file)
        self.spec["entries"].append([hx(b"pipes"), {"t": "dir", "entries": [[hx(b"fifo"), {"t": "special", "mode": 0o644}], [hx(b"reg"), {"t": "file", "mode": 0o600, "seed": 3, "size": 2}]]}])
        self.spec["entries"].append([hx(b".hid"), {"t": "dir", "entries": [[hx(b"inner"), {"t": "file", "mode": 0o644, "seed": 1, "size": 3}]]}])
        self.spec["entries"].append([hx(b"zsub"), {"t": "dir", "entries": [[hx(b"zsub"), {"t": "dir", "entries": [[hx(b"deep"), {"t": "file", "mode": 0o755, "seed": 2, "size": 9}]]}], [hx(b"dup"), {"t": "file", "mode": 0o644, "seed": 1, "size": 3}]]}])
        self.patterns = [[b".*"], [b"zsub"], [b"*sub"], [b".hid", b"zsub/zsub"], [b"nomatch*"], [b"z*"], [b".*", b"*sub"]][seed % 7]
        self._keep_files_clear_of_patterns(self.spec, b"")
        self.dir = os.path.join(self.base, rng.choice([b"tree", b"tr ee", b"tree-\xff", b"backup:old"]))
        if seed % 7 == 0:
            self.dir = os.path.join(self.base, b"backup:old")
        fs.materialise(self.spec, self.dir)
        # links, half of the time through a chain of links (relative and absolute hops mixed)
        self.link_file = os.path.join(self.base, b"lnk-file")
        self.link_dir = os.path.join(self.base, b"lnk-dir")
        for link, final_rel, final_abs, stem in ((self.link_file, fname, self.file, b"hopf"), (self.link_dir, os.path.basename(self.dir), self.dir, b"hopd")):
            target = final_rel if rng.random() < 0.5 else final_abs
            # (the first fixture of every run — seed % 7 == 0 — always has chains)
            for hop in range(2 if seed % 7 == 0 else rng.choice([0, 0, 1, 2])):
                mid = os.path.join(self.base, stem + b"%d" % hop)
                os.symlink(target, mid)
                target = os.path.basename(mid) if rng.random() < 0.5 else mid
            os.symlink(target, link)
        # a way of spelling every path of the fixture that only the operating system can resolve:
        # <base>/hop/via/../<name> with via -> ../sub1, i.e. <base>/<name>; read as text it would be
        # <base>/hop/<name>, where a decoy file of the same name sits
        os.mkdir(os.path.join(self.base, b"hop"))
        os.mkdir(os.path.join(self.base, b"sub1"))
        os.symlink(os.path.join(b"..", b"sub1"), os.path.join(self.base, b"hop", b"via"))
        with open(os.path.join(self.base, b"hop", fname), "wb") as f:
            f.write(b"decoy " + self.file_data[:10])
        self.stdin = bytes(rng.randrange(256) for _ in range(rng.choice([0, 7, 300])))
        self.url = self.default_url = rng.choice(URLS)
        self.repo = os.path.join(self.base, b"repo")
        self._make_repo()

    def _keep_files_clear_of_patterns(self, spec, rel):
        """the statement only speaks of excluding directories: rename any non-directory whose relative
        path a chosen pattern would match"""
        used = {unhx(n) for n, _ in spec["entries"]}
        for ent in spec["entries"]:
            name = unhx(ent[0])
            p = name if not rel else rel + b"/" + name
            if ent[1]["t"] == "dir":
                if not any(fnmatch.fnmatchcase(p, pat) for pat in self.patterns):
                    self._keep_files_clear_of_patterns(ent[1], p)  # (an excluded directory goes as a whole)
            else:
                k = 0
                while any(fnmatch.fnmatchcase(p, pat) for pat in self.patterns) and k < 20:
                    k += 1
                    name = (b"f%d_", b"%d-", b"q%d.", b"Z%d_")[k % 4] % k + unhx(ent[0]).lstrip(b".z") + (b"_x", b"~", b"-0", b".q")[(k // 4) % 4]
                    while name in used:
                        name += b"_"
                    p = name if not rel else rel + b"/" + name
                used.add(name)
                ent[0] = hx(name)

    def _make_repo(self):
        env = fs.git_env()
        r = os.fsdecode(self.repo)
        run = lambda *a, **k: subprocess.run(["git", "-C", r] + list(a), check=True, env=env, stdout=subprocess.PIPE, stderr=subprocess.PIPE, **k)
        os.mkdir(self.repo)
        run("init", "-q", "-b", "main")
        with open(os.path.join(self.repo, b"f"), "wb") as f:
            f.write(b"hello %d" % self.rng.randrange(1000))
        run("add", "f")
        run("commit", "-q", "-m", "c1")
        run("branch", "dev")
        run("tag", "light")
        run("tag", "-a", "annot", "-m", "msg")
        # symbolic references other than HEAD, as an ordinary clone leaves them
        run("update-ref", "refs/remotes/origin/main", "HEAD")
        run("symbolic-ref", "refs/remotes/origin/HEAD", "refs/remotes/origin/main")
        if self.rng.random() < 0.5:
            run("symbolic-ref", "refs/heads/stable", "refs/heads/dev")

    def path_of(self, kind):
        return {"file": self.file, "dir": self.dir, "linkFile": self.link_file, "linkDir": self.link_dir, "gitRepo": self.repo}.get(kind)

    def cleanup(self):
        fs.force_rmtree(self.base)

    # ---- independent expectations
    def pruned_spec(self, exclude):
        if not exclude:
            return self.spec

        def prune(spec, rel):
            out = []
            for name_hex, node in spec["entries"]:
                name = unhx(name_hex)
                p = name if not rel else rel + b"/" + name
                if node["t"] == "dir":
                    if any(fnmatch.fnmatchcase(p, pat) for pat in self.patterns):
                        continue
                    out.append([name_hex, prune(node, p)])
                else:
                    out.append([name_hex, node])
            return {"t": "dir", "entries": out}

        return prune(self.spec, b"")

    def dir_ids(self, kind, exclude):
        """path -> (kind, id, perms) of the designated directory"""
        if kind != "gitRepo":
            return fs.expected_ids(self.pruned_spec(exclude))
        # the repository's own directory: no spec, read it with the library (no pattern matches in it)
        from swh.model.from_disk import Directory

        src = self.repo
        if exclude:
            # a physically pruned copy of the repository directory
            src = os.path.join(self.base, b"repo-pruned")
            if os.path.exists(src):
                shutil.rmtree(src)
            shutil.copytree(self.repo, src, symlinks=True)
            for root, dirs, files in os.walk(src, topdown=True):
                for dn in list(dirs):
                    rel = os.path.relpath(os.path.join(root, dn), src)
                    if any(fnmatch.fnmatchcase(rel, pat) for pat in self.patterns):
                        shutil.rmtree(os.path.join(root, dn))
                        dirs.remove(dn)
        d = Directory.from_disk(path=src)
        out = {}
        for node in d.iter_tree(dedup=False):
            p = node.data.get("path", b"")
            rel = p[len(src) + 1 :] if p != src else b""
            out[rel] = ("directory" if node.object_type == "directory" else "content", node.hash, 0)
        return out

    def expected_swhid(self, designated, exclude, kind="dir"):
        blob = lambda data: "swh:1:cnt:" + hashlib.sha1(b"blob %d\x00" % len(data) + data).hexdigest()
        if designated == "contentOfFile":
            return blob(self.file_data)
        if designated == "contentOfLinkText":
            return None  # depends on which link: handled by caller
        if designated == "contentOfStdin":
            return blob(self.stdin)
        if designated == "directory":
            return "swh:1:dir:" + self.dir_ids(kind, exclude)[b""][1].hex()
        if designated == "origin":
            return "swh:1:ori:" + hashlib.sha1(self.url.encode("utf-8")).hexdigest()  # self.url: see use_url
        if designated == "snapshot":
            return self.snapshot_swhid()

    def snapshot_swhid(self):
        from swh.model import model

        env = fs.git_env()
        r = os.fsdecode(self.repo)
        out = subprocess.run(["git", "-C", r, "for-each-ref", "--format=%(refname) %(objectname) %(objecttype) %(symref)"], check=True, env=env, stdout=subprocess.PIPE).stdout.decode()
        tmap = {"commit": "revision", "tag": "release", "tree": "directory", "blob": "content"}
        branches = {}
        for line in out.splitlines():
            ref, sha, ty, *sym = line.split()
            if sym:  # a symbolic reference is an alias branch
                branches[ref.encode()] = model.SnapshotBranch(target=sym[0].encode(), target_type=model.SnapshotTargetType.ALIAS)
            else:
                branches[ref.encode()] = model.SnapshotBranch(target=bytes.fromhex(sha), target_type=model.SnapshotTargetType(tmap[ty]))
        head = subprocess.run(["git", "-C", r, "symbolic-ref", "HEAD"], check=True, env=env, stdout=subprocess.PIPE).stdout.decode().strip()
        branches[b"HEAD"] = model.SnapshotBranch(target=head.encode(), target_type=model.SnapshotTargetType.ALIAS)
        return str(model.Snapshot(branches=branches).swhid())


_FIX = {}


def fixture(seed):
    if seed not in _FIX:
        for f in _FIX.values():
            f.cleanup()
        _FIX.clear()
        import atexit

        fx = Fixture(seed)
        _FIX[seed] = fx
        atexit.register(lambda: os.path.exists(fx.base) and fs.force_rmtree(fx.base))
    return _FIX[seed]


def run_cli(fx, c):
    from click.testing import CliRunner

    from swh.model.cli import identify

    args = []
    args.append("--dereference" if c["deref"] else "--no-dereference")
    args.append("--filename" if c["filename"] else "--no-filename")
    if c["type"] != "auto":
        args += ["--type", c["type"]]
    if c["recursive"]:
        args.append("--recursive")
    if c["exclude"]:
        for p in fx.patterns:
            args += ["--exclude", os.fsdecode(p)]
    return args


def invoke(fx, c, args, obj, verify_swhid=None):
    from click.testing import CliRunner

    from swh.model.cli import identify

    a = list(args)
    if verify_swhid is not None:
        a += ["--verify", verify_swhid]
    a.append(obj)
    _tolerant_runner()
    runner = CliRunner()
    with time_limit(60):
        return runner.invoke(identify, a, input=fx.stdin if c["kind"] == "stdin" else None)


_PATCHED = {"done": False}


def _tolerant_runner():
    """CliRunner's captured stdout is a strict UTF-8 wrapper, unlike a real terminal stream handled by
    click.echo: let it carry file names that are not valid UTF-8 (surrogate escapes) as bytes."""
    if _PATCHED["done"]:
        return
    import click.testing as ct

    orig = ct._NamedTextIOWrapper.__init__

    def init(self, buffer, name, mode, **kw):
        kw.setdefault("errors", "surrogateescape")
        orig(self, buffer, name, mode, **kw)

    ct._NamedTextIOWrapper.__init__ = init
    _PATCHED["done"] = True


def real_command_line(fx, a, stdin=None, cwd=None):
    """the same invocation through `python -m swh.model.cli` (thorough tier sample)"""
    import subprocess
    from common import REPO

    env = dict(os.environ, PYTHONPATH=REPO, PYTHONWARNINGS="ignore")
    p = subprocess.run(["/venv/bin/python", "-m", "swh.model.cli"] + [os.fsencode(x) for x in a], input=stdin, stdout=subprocess.PIPE, stderr=subprocess.PIPE, env=env, cwd=cwd)
    return p.returncode, p.stdout, p.stderr


def classify(res):
    if res.exception is not None and not isinstance(res.exception, SystemExit):
        return "crash:" + type(res.exception).__name__
    if res.exit_code == 2:
        return "usageError"
    return "exit%d" % res.exit_code


def several_objects(ctx, fx, case):
    """the command takes several OBJECT arguments: one line each, in order; verification of more
    than one object is documented as unsupported"""
    from click.testing import CliRunner

    from swh.model.cli import identify

    _tolerant_runner()
    f_, d_ = os.fsdecode(fx.file), os.fsdecode(fx.dir)
    try:
        (f_ + d_).encode("utf-8")
    except UnicodeEncodeError:
        return
    want_f = fx.expected_swhid("contentOfFile", False, "file")
    want_d = fx.expected_swhid("directory", False, "dir")
    with time_limit(60):
        r = CliRunner().invoke(identify, ["--no-filename", f_, d_, f_])
    out = os.fsdecode(r.stdout_bytes)
    if classify(r) != "exit0" or out.splitlines() != [want_f, want_d, want_f]:
        ctx.fail(dict(case, objects=3), "several OBJECT arguments are not identified one line each, in order", "several-objects-wrong", {"output": out[:300], "want": [want_f, want_d, want_f]})
    with time_limit(60):
        r = CliRunner().invoke(identify, ["--verify", want_f, f_, f_])
    if classify(r) != "usageError":
        ctx.fail(dict(case, objects=2), "verification of several objects (documented as unsupported) is not a usage error", "missing-usage-error:several-objects", {"class": classify(r)})
    # an exclusion applies to every OBJECT of the command, not only to the first
    pats = [os.fsdecode(p) for p in fx.patterns]
    try:
        "".join(pats).encode("utf-8")
        want_dx = fx.expected_swhid("directory", True, "dir")
        args = ["--no-filename"] + [a for p in pats for a in ("--exclude", p)] + [d_, d_, f_, d_]
        with time_limit(120):
            r = CliRunner().invoke(identify, args)
        out = os.fsdecode(r.stdout_bytes)
        if classify(r) != "exit0" or out.splitlines() != [want_dx, want_dx, want_f, want_dx]:
            ctx.fail(dict(case, objects=4, exclude=True), "with --exclude, several OBJECT arguments are not all identified with the exclusion applied", "several-objects-exclude-wrong", {"output": out[:400], "want": [want_dx, want_dx, want_f, want_dx]})
    except UnicodeEncodeError:
        pass
    # correspondence with the model of the whole command line (`identifyMany`): OBJECT lists of
    # length 2-3 over {file, dir, linkFile, stdin-less kinds} x verify x recursive x filename
    kinds_pool = {"file": f_, "dir": d_, "linkFile": os.fsdecode(fx.link_file), "linkDir": os.fsdecode(fx.link_dir)}
    combos = [["file", "dir"], ["dir", "file"], ["dir", "dir", "file"], ["linkFile", "dir"], ["file", "linkDir", "file"], ["file"], ["dir"]]
    reqs, runs = [], []
    for ks in combos:
        for verify in ("absent", "matching"):
            for rec in (False, True):
                for fn in (False, True):
                    try:
                        "".join(kinds_pool[k] for k in ks).encode("utf-8")
                    except UnicodeEncodeError:
                        continue
                    args = ["--filename" if fn else "--no-filename"] + (["--recursive"] if rec else []) + (["--verify", want_f] if verify != "absent" else [])
                    with time_limit(120):
                        r = CliRunner().invoke(identify, args + [kinds_pool[k] for k in ks])
                    reqs.append({"op": "cli_identify_many", "kinds": ks, "type": "auto", "deref": True, "filename": fn, "recursive": rec,
                                 "verify": "absent" if verify == "absent" else ("matching" if ks[0] == "file" else "nonMatching"), "exclude": False})
                    runs.append((ks, args, r))
    for (ks, args, r), m in zip(runs, ctx.model(reqs)):
        if "error" in m:
            continue
        outs = m["r"]["outcomes"]
        cls = classify(r)
        lines = os.fsdecode(r.stdout_bytes).splitlines()
        if cls.startswith("crash"):
            ctx.fail(dict(case, objects=ks, args=args), f"the command ends in an unhandled {cls[6:]}", "unhandled-exception:" + cls[6:])
        elif outs == [["usageError"]]:
            if cls != "usageError":
                ctx.disagree(dict(case, objects=ks, args=args), "several objects: model says usage error", model=outs, impl=cls)
        elif all(o[0] == "print" and not o[2] for o in outs):
            if cls != "exit0" or len(lines) != len(outs):
                ctx.disagree(dict(case, objects=ks, args=args), "several objects: model says one line per object", model=outs, impl=[cls, lines[:5]])
        elif len(outs) == 1 and outs[0][0] in ("exit0", "exit1"):
            if cls != outs[0][0]:
                ctx.disagree(dict(case, objects=ks, args=args), "single object with --verify: exit code", model=outs, impl=cls)
        elif len(outs) == 1 and outs[0][0] == "print" and outs[0][2]:
            if cls != "exit0" or len(lines) < 1:
                ctx.disagree(dict(case, objects=ks, args=args), "recursive listing of the first object", model=outs, impl=[cls, len(lines)])
    ctx.count("several-objects")


def check_cases(ctx, cases):
    done_fixtures = set()
    reqs = [{"op": "cli_identify", **{k: c[k] for k in ("kind", "type", "deref", "filename", "recursive", "verify", "exclude")}} for c in cases]
    res = ctx.model(reqs)
    for case, r in zip(cases, res):
        if "error" in r:
            if ctx.model_available:
                ctx.disagree(case, "model driver error", model=r)
            m = None
        else:
            m = r["r"]
        # scope is decided by the specification in the model; fall back to a local copy of the rule
        in_scope = m["in_scope"] if m else local_in_scope(case)
        if not in_scope:
            ctx.count("out-of-scope")
            continue
        fx = fixture(case["fixture"])
        if case["fixture"] not in done_fixtures:
            done_fixtures.add(case["fixture"])
            several_objects(ctx, fx, case)
        fx.url = URLS[case["url"]] if "url" in case else fx.default_url
        ctx.case(case, nontrivial=True)
        ctx.count("kind=" + case["kind"])
        kind = case["kind"]
        obj = "-" if kind == "stdin" else (fx.url if kind == "url" else os.fsdecode(fx.path_of(kind)))
        rel_cwd = None
        if kind not in ("stdin", "url"):
            if "via" not in case:
                case["via"] = (case["fixture"] + len(canon_key(case))) % 3 == 0
            if case["via"]:
                obj = os.fsdecode(os.path.join(fx.base, b"hop", b"via", b"..", os.path.basename(fx.path_of(kind))))
                ctx.count("path-through-symlink-dotdot")
            # ... or by its bare name, from the directory that holds it (names may look like options or URLs: the
            # former are the caller's business — skipped —, the latter are still files)
            if "rel" not in case:
                case["rel"] = (not case["via"]) and (case["fixture"] + len(canon_key(case))) % 3 == 1
            if case["rel"] and not os.path.basename(fx.path_of(kind)).startswith(b"-"):
                obj = os.fsdecode(os.path.basename(fx.path_of(kind)))
                rel_cwd = fx.base
                ctx.count("path-relative")
        args = run_cli(fx, case)
        exp = local_expected(case)
        # the SWHID of the designated object, computed independently of the command
        want_swhid = None
        if exp[0] in ("print1", "exit0", "exit1"):
            d = exp[1]
            if d == "contentOfLinkText":
                link = fx.link_file if kind == "linkFile" else fx.link_dir
                t = os.readlink(link)
                want_swhid = "swh:1:cnt:" + hashlib.sha1(b"blob %d\x00" % len(t) + t).hexdigest()
            else:
                want_swhid = fx.expected_swhid(d, case["exclude"], kind)
        verify_arg = None
        if case["verify"] == "matching":
            verify_arg = want_swhid or "swh:1:cnt:" + "0" * 40
        elif case["verify"] == "nonMatching":
            verify_arg = "swh:1:cnt:" + "1" * 40 if (want_swhid or "").endswith("0") else "swh:1:cnt:" + "0" * 40
            if want_swhid and want_swhid.count(":") == 3 and want_swhid.split(":")[2] in ("cnt", "dir", "rev", "rel", "snp"):
                # identifiers that differ from the computed one in one place only: the type, the
                # first or the last digit
                pre, ver, typ, hexid = want_swhid.split(":")
                flip = lambda ch: "0" if ch != "0" else "f"
                near = [verify_arg,
                        ":".join([pre, ver, {"cnt": "dir", "dir": "cnt", "rev": "rel"}.get(typ, "rev"), hexid]),
                        ":".join([pre, ver, [t_ for t_ in ("rev", "rel", "snp") if t_ != typ][len(canon_key(case)) % 2], hexid]),
                        ":".join([pre, ver, typ, hexid[:-1] + flip(hexid[-1])]),
                        ":".join([pre, ver, typ, flip(hexid[0]) + hexid[1:]])]
                verify_arg = near[(case["fixture"] + len(canon_key(case))) % len(near)]
                ctx.count("verify-near-miss=%d" % near.index(verify_arg))
        elif case["verify"] == "malformed":
            # not a core SWHID: wrong scheme version, upper-case hex, an extended type, qualifiers, a short id
            bad = ["swh:2:cnt:" + "0" * 40, "swh:1:cnt:" + "A" * 40, "swh:1:ori:" + "0" * 40, "swh:1:cnt:" + "0" * 40 + ";lines=1", "swh:1:cnt:" + "0" * 39, "cnt", ""]
            verify_arg = bad[(case["fixture"] + len(canon_key(case))) % len(bad)]
        with fs.cwd_guard():
            if rel_cwd is not None:
                os.chdir(rel_cwd)
            res_cli = invoke(fx, case, args, obj, verify_arg)
        cls = classify(res_cli)
        out = os.fsdecode(res_cli.stdout_bytes)
        if ctx.tier == "thorough" and ctx.rng.random() < 0.05:
            rc, so, se = real_command_line(fx, args + (["--verify", verify_arg] if verify_arg is not None else []) + [obj], fx.stdin if kind == "stdin" else None, cwd=rel_cwd)
            ctx.count("real-command-line")
            if rc != res_cli.exit_code or so != res_cli.stdout_bytes:
                ctx.disagree(case, "in-process runner and the real command line differ", model=[res_cli.exit_code, hx(res_cli.stdout_bytes[:200])], impl=[rc, hx(so[:200])])
        ctx.count("outcome=" + cls.split(":")[0])
        # ---------------- property oracle (statement read directly)
        if cls.startswith("crash"):
            ctx.fail(case, f"the command ends in an unhandled {cls[6:]}: {res_cli.exception}", "unhandled-exception:" + cls[6:], {"args": args + [obj]})
            impl_out = "crash"
        elif exp[0] == "usageError":
            impl_out = cls
            if cls != "usageError":
                ctx.fail(case, "a combination documented as unsupported is not a usage error", "missing-usage-error", {"args": args + [obj], "output": out[:300]})
        elif exp[0] == "print1":
            impl_out = cls
            line = want_swhid + ("\t" + obj if case["filename"] else "") + "\n"
            if cls != "exit0" or out != line:
                kind_ = "usage-error-on-supported-combination" if cls == "usageError" else "wrong-swhid-printed"
                ctx.fail(case, "the command does not print the SWHID of the designated object", kind_, {"args": args + [obj], "output": out[:300], "want": line})
        elif exp[0] in ("exit0", "exit1"):
            impl_out = cls
            if cls != exp[0]:
                ctx.fail(case, f"verification exits {cls}, expected {exp[0]}", "verify-exit-code", {"args": args + [obj], "output": out[:300]})
            elif want_swhid not in out:
                ctx.fail(case, "verification compares against another SWHID than the designated object's", "verify-wrong-swhid", {"output": out[:300], "want": want_swhid})
        elif exp[0] == "printN":
            impl_out = cls
            if cls != "exit0":
                kind_ = "usage-error-on-supported-combination" if cls == "usageError" else "recursive-fails"
                ctx.fail(case, "recursive identification of a directory fails", kind_, {"args": args + [obj], "output": out[:300]})
            else:
                ids = fx.dir_ids(kind, case["exclude"])
                want_set = set()
                for p, (k, i, perms) in ids.items():
                    want_set.add("swh:1:%s:%s" % ("dir" if k == "directory" else "cnt", i.hex()))
                import re as _re

                # a record starts with a SWHID at the beginning of a line (names may contain newlines)
                lines = [(l[:-1] if l.endswith("\n") else l) for l in _re.split(r"(?m)^(?=swh:1:(?:cnt|dir):[0-9a-f]{40}(?:\t|$))", out) if l]
                got = [l.split("\t")[0] for l in lines]
                if set(got) != want_set or len(got) != len(set(got)):
                    ctx.fail(case, "recursive mode does not print one line per node of the tree", "recursive-wrong-nodes", {"missing": sorted(want_set - set(got))[:5], "extra": sorted(set(got) - want_set)[:5], "dups": len(got) - len(set(got))})
                elif case["filename"]:
                    root = fx.dir if kind in ("dir",) else (fx.link_dir if kind == "linkDir" else fx.repo)
                    if kind in ("dir", "linkDir"):
                        byid = {}
                        for p, (k, i, perms) in ids.items():
                            full = os.fsdecode(os.path.join(os.fsencode(obj), p)) if p else obj
                            byid.setdefault("swh:1:%s:%s" % ("dir" if k == "directory" else "cnt", i.hex()), set()).add(full)
                        for l in lines:
                            sw, _, nm = l.partition("\t")
                            if nm and nm not in byid[sw]:
                                ctx.fail(case, "recursive mode prints a name that is not a path of that node", "recursive-wrong-name", {"line": l[:200]})
                                break
                else:
                    if any("\t" in l for l in lines):
                        ctx.fail(case, "--no-filename still prints names", "filename-flag-ignored")
        # ---------------- correspondence with the model's decision table
        if m is not None:
            mo = m["outcome"]
            model_cls = {"print": "exit0", "usageError": "usageError", "exit0": "exit0", "exit1": "exit1", "crash": "crash"}.get(mo[0], mo[0])
            if (impl_out if not impl_out.startswith("crash") else "crash") != model_cls:
                ctx.disagree(case, "outcome class: model decision table vs command", model=mo, impl=impl_out)
            elif mo != model_expected_json(exp, case):
                ctx.disagree(case, "model outcome differs from the harness's reading of the specification", model=mo, impl=exp)


# ---- a local copy of the specification (statement + help text), independent of the Lean text


def local_designated(c):
    k, d, t = c["kind"], c["deref"], c["type"]
    return {
        "file": "contentOfFile", "dir": "directory", "linkFile": "contentOfFile" if d else "contentOfLinkText",
        "linkDir": "directory" if d else "contentOfLinkText", "stdin": "contentOfStdin", "url": "origin",
        "gitRepo": "snapshot" if t == "snapshot" else "directory",
    }[k]


def type_of(d):
    return {"contentOfFile": "content", "contentOfLinkText": "content", "contentOfStdin": "content", "directory": "directory", "origin": "origin", "snapshot": "snapshot"}[d]


def canon_key(c):
    return "".join(str(c[k]) for k in ("kind", "type", "deref", "filename", "recursive", "exclude"))


def local_in_scope(c):
    if c["kind"] == "url" and c["verify"] == "matching":
        return False  # --verify only takes core SWHIDs: an origin's can never be given
    return c["type"] == "auto" or c["type"] == type_of(local_designated(c))


def local_expected(c):
    d = local_designated(c)
    isdir = c["kind"] in ("dir", "linkDir", "gitRepo")
    if c["verify"] == "malformed":
        return ("usageError",)  # --verify takes a core SWHID
    if c["recursive"] and isdir:
        if c["verify"] != "absent":
            return ("usageError",)
        if c["type"] not in ("auto", "directory"):
            return ("usageError",)
        return ("printN", "directory")
    if c["verify"] == "absent":
        return ("print1", d)
    return ("exit0" if c["verify"] == "matching" else "exit1", d)


def model_expected_json(exp, c):
    if exp[0] == "usageError":
        return ["usageError"]
    if exp[0] == "printN":
        return ["print", "directory", True, c["filename"]]
    if exp[0] == "print1":
        return ["print", exp[1], False, c["filename"]]
    return [exp[0], exp[1]]


def neighbours(ctx, case):
    out = []
    for key, vals in (("deref", [True, False]), ("filename", [True, False]), ("recursive", [True, False]), ("exclude", [True, False])):
        for v in vals:
            if case[key] != v:
                out.append(dict(case, **{key: v}))
    return out
