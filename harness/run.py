#!/venv/bin/python
import os
import sys

sys.path.insert(0, os.path.dirname(os.path.abspath(__file__)))
import common  # noqa: E402

if __name__ == "__main__":
    sys.exit(common.main(sys.argv))
