#!/bin/sh
# seeds sweep of every quick check on the unchanged tree: any VIOLATION here is a false alarm or a defect
# usage: harness/sweep.sh <first seed> <last seed>   (run from /verif or a snapshot of it)
cd "$(dirname "$0")/.." || exit 2
(cd lean && lake build >/dev/null 2>&1)
fail=0
for s in $(seq "$1" "$2"); do
  for p in C01 C02 C03 C04 C05 C06 C07 C08 C09 C10 C11 C12 C13 C14 C15 C16 C17 C18 C19 C20; do
    out=$(VERIF_SEED=$s ./check $p quick 2>&1); rc=$?
    line=$(echo "$out" | tail -1)
    if [ $rc -ne 0 ] || echo "$out" | grep -q '^VIOLATION'; then
      fail=1; echo "ALARM seed=$s $p rc=$rc"; echo "$out" | grep -v KNOWN | head -5
      for f in replays/$p-$s-*.json; do [ -f "$f" ] && head -c 1500 "$f" && echo; done
    else
      echo "ok seed=$s $line"
    fi
  done
done
exit $fail
