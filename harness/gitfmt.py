"""Shared generators and independent git-format oracles for C03 (commits) and C04 (tags)."""
from __future__ import annotations

import os
import shutil
import subprocess

from common import hx, scratch_dir

MIN_S, MAX_S = -62135510961, 253402297199

OFFSETS_CANON = [b"+0000", b"-0000", b"+0100", b"-0330", b"+0530", b"+1400", b"-1200", b"+0545"]
OFFSETS_ODD = [b"+200", b"+051800", b"", b"\xc3\xa9", b"+0160", b"-02", b"0000", b"+00 00", b"UTC", b"+0000\n", b" ", b"--0100"]
NAMES = [b"A U Thor <a@example.org>", b"J\xc3\xa9r\xc3\xb4me <j@x>", b"", b"no-email", b"<only@mail>", b"x > y < z", b"a\nb <c>", b" lead <l@l>", b"trail <t@t> "]


def gen_bytes(rng, lo=0, hi=40, alphabet=None):
    n = rng.randrange(lo, hi + 1)
    if alphabet is None:
        return bytes(rng.randrange(256) for _ in range(n))
    return bytes(rng.choice(alphabet) for _ in range(n))


def gen_message(rng):
    r = rng.random()
    if r < 0.15:
        return None
    if r < 0.3:
        return b""
    if r < 0.5:
        return rng.choice([b"\n", b"\n\n", b"msg", b"msg\n", b"\nmsg", b"a\n b\n", b"tree x\nparent y\n", b"\x00", b"a\x00b\n"])
    return gen_bytes(rng, 1, 120, alphabet=b"ab \n\n\x00\xffxyz:-")


def gen_date(rng, canonical=False, integer=False):
    r = rng.random()
    if r < 0.3:
        s = rng.choice([0, -1, 1, MIN_S, MAX_S, MIN_S + 1, MAX_S - 1, 2**31 - 1, 2**31, 1234567890])
    else:
        s = rng.randrange(MIN_S, MAX_S + 1) if rng.random() < 0.3 else rng.randrange(-(10**9), 2 * 10**9)
    if integer:
        us = 0
    else:
        us = rng.choice([0, 0, 0, 1, 10, 100000, 999999, 500000, 120000, rng.randrange(10**6)])
    if canonical:
        off = rng.choice(OFFSETS_CANON)
    else:
        off = rng.choice(OFFSETS_CANON + OFFSETS_ODD)
    return {"s": s, "us": us, "off": hx(off)}


def gen_person(rng, canonical=False):
    if canonical:
        return rng.choice(NAMES[:2])
    if rng.random() < 0.7:
        return rng.choice(NAMES)
    return gen_bytes(rng, 0, 30, alphabet=b"ab <>@.\n\x00\xe9 ")


def py_date(d):
    from swh.model.model import Timestamp, TimestampWithTimezone

    if d is None:
        return None
    return TimestampWithTimezone(
        timestamp=Timestamp(seconds=d["s"], microseconds=d["us"]), offset_bytes=bytes.fromhex(d["off"])
    )


def py_person(fullname, rng=None):
    from swh.model.model import Person

    if fullname is None:
        return None
    return Person(fullname=fullname, name=None, email=None)


# ------------------------------------------------------------------ independent formatter


def indep_date_text(s: int, us: int) -> bytes:
    """decimal text of seconds(.fraction) written without using the implementation's trick"""
    if us == 0:
        return str(s).encode()
    frac = "%06d" % us
    while frac.endswith("0"):
        frac = frac[:-1]
    return (str(s) + "." + frac).encode()


def indep_person_line(fullname: bytes, d) -> bytes:
    if d is None:
        return fullname
    return fullname + b" " + indep_date_text(d["s"], d["us"]) + b" " + bytes.fromhex(d["off"])


def indep_headers_object(ty: bytes, headers, message) -> bytes:
    body = b""
    for k, v in headers:
        body += k + b" " + v.replace(b"\n", b"\n ") + b"\n"
    if message is not None:
        body += b"\n" + message
    return ty + b" " + str(len(body)).encode() + b"\x00" + body


def indep_parse_headers(obj: bytes, ty: bytes):
    """independent line-oriented parser: returns (headers list, message or None)"""
    nul = obj.index(b"\x00")
    t, ln = obj[:nul].split(b" ")
    assert t == ty and int(ln) == len(obj) - nul - 1
    body = obj[nul + 1 :]
    headers = []
    pos = 0
    message = None
    while pos < len(body):
        if body[pos : pos + 1] == b"\n":
            message = body[pos + 1 :]
            break
        eol = body.index(b"\n", pos)
        line = body[pos:eol]
        pos = eol + 1
        if line.startswith(b" "):
            k, v = headers[-1]
            headers[-1] = (k, v + b"\n" + line[1:])
        else:
            sp = line.index(b" ")
            headers.append((line[:sp], line[sp + 1 :]))
    return headers, message


# ------------------------------------------------------------------ real git


_GIT = {"dir": None}


def git_env(extra=None):
    e = dict(os.environ)
    e.update(GIT_CONFIG_GLOBAL="/dev/null", GIT_CONFIG_SYSTEM="/dev/null", GIT_CONFIG_NOSYSTEM="1", HOME="/nonexistent", LC_ALL="C", TZ="UTC")
    if extra:
        e.update(extra)
    return e


def git_dir():
    if _GIT["dir"] is None:
        import atexit

        d = scratch_dir("git")
        subprocess.run(["git", "init", "-q", "--bare", d], check=True, env=git_env(), stdout=subprocess.DEVNULL)
        _GIT["dir"] = d
        atexit.register(lambda: shutil.rmtree(d, ignore_errors=True))
    return _GIT["dir"]


def git(args, inp=None, env=None):
    p = subprocess.run(["git", "--git-dir", git_dir()] + args, input=inp, stdout=subprocess.PIPE, stderr=subprocess.PIPE, env=git_env(env))
    return p.returncode, p.stdout, p.stderr


def git_hash_object(ty: str, body: bytes):
    rc, out, err = git(["hash-object", "-t", ty, "-w", "--stdin", "--literally"], inp=body)
    if rc != 0:
        return None
    return out.decode().strip()


def dict_form_agrees(ctx, case, fn, obj, man):
    """the (deprecated, still accepted) dictionary form of the argument gives the same manifest"""
    import warnings

    with warnings.catch_warnings():
        warnings.simplefilter("ignore")
        try:
            got = fn(obj.to_dict())
        except Exception as e:
            ctx.fail(case, f"{fn.__name__} rejects the dictionary form of the object: {type(e).__name__}: {str(e)[:100]}", "dict-form-raises")
            return
    if got != man:
        ctx.fail(case, f"{fn.__name__} gives another manifest for the dictionary form of the same object", "dict-form-differs")
