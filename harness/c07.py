"""C07 — an object's id is the hash of its manifest, and integrity checking is exact."""
from __future__ import annotations

import hashlib

import c02
import c03
import c04
import c05
import c15
from common import hx, unhx

REQUIRED = [
    "Swh.C07.mk_id",
    "Swh.C07.compute_stable",
    "Swh.C07.mk_explicit",
    "Swh.C07.check_iff",
    "Swh.C07.check_rejects_other_id",
    "Swh.C07.check_rejects_unneeded_raw",
    "Swh.C07.check_accepts_needed_raw",
    "Swh.C07.evolve_id",
    "Swh.C07.checkLogic_eq",
    "Swh.C07.idLogic_eq",
    "Swh.C07.swhid_tags",
    "Swh.C07.seven_ids",
]
RULE = (
    "objects of the seven identified kinds from generators independent of the shipped strategies (metadata with every "
    "admissible context subset, ExtID with/without version and payload, origins, snapshots with unresolved aliases, "
    "raw manifests needed / not needed); evolve applied to every attrs field of every kind; wrong ids: single-bit "
    "flips (quick: 16 sampled; thorough: all 160), truncated, extended, random; non-trivial = every case; distinct by "
    "canonical JSON"
)
ASSUMPTIONS = [
    "SHA-1 uninterpreted in theorems; the driver decides on digests supplied by the harness (hashlib)",
    "attrs evolve plumbing (re-running converters/validators) is below the model",
]
TRUSTED = ["attrs (evolve, validate)", "hashlib.sha1"]

KINDS = ["origin", "snapshot", "release", "revision", "directory", "raw_extrinsic_metadata", "extid"]
TAG = {"origin": "ori", "snapshot": "snp", "release": "rel", "revision": "rev", "directory": "dir", "raw_extrinsic_metadata": "emd"}


def generate(ctx):
    rng = ctx.rng
    cases = []
    n = ctx.budget(140, 2500)
    for i in range(n):
        kind = KINDS[i % len(KINDS)]
        if kind == "origin":
            sub = {"url": rng.choice(["http://example.org/", "", "https://é/ü", "a\nb", "x" * 2047, "swh:1:x"])}
        elif kind == "snapshot":
            sub = {"branches": c05.gen_branches(rng, rng.choice([0, 1, 2, 4, 7]))}
        elif kind == "release":
            sub = c04.gen_case(rng)
        elif kind == "revision":
            sub = c03.gen_case(rng, wf=True)
        elif kind == "directory":
            sub = {"entries": c02.gen_entries(rng, rng.choice([0, 1, 2, 5, 9]))}
        elif kind == "raw_extrinsic_metadata":
            k = rng.choice(c15.KINDS)
            sub = c15.gen_rem(rng, k, rng.choice(c15.admissible_subsets(k)))
        else:
            sub = c15.gen_extid(rng)
        raw = None
        if kind in ("release", "revision", "directory"):
            r = rng.random()
            if r < 0.25:
                raw = "same"
            elif r < 0.32:
                raw = ""  # the empty raw manifest: a manifest like any other, not "no manifest"
            elif r < 0.55:
                raw = hx(bytes(rng.randrange(256) for _ in range(rng.randrange(0, 40))))
        cases.append({"kind": kind, "sub": sub, "raw": raw, "flipseed": rng.randrange(2**32), "other": None, "tz": rng.randrange(64)})
    # pair each case with another of the same kind, as a source of field values for evolve
    by_kind = {}
    for c in cases:
        by_kind.setdefault(c["kind"], []).append(c)
    for c in cases:
        c["other"] = rng.choice(by_kind[c["kind"]])["sub"]
    return cases


def build(kind, sub, raw=None, explicit_id=b""):
    from swh.model import model

    kw = {}
    if explicit_id:
        kw["id"] = explicit_id
    if kind == "origin":
        return model.Origin(url=sub["url"], **kw)
    if kind == "snapshot":
        o = c05.build([(unhx(b["name"]), b["kind"], unhx(b.get("target"))) for b in sub["branches"]])
    elif kind == "release":
        o = c04.build(sub)
    elif kind == "revision":
        o = c03.build(sub)
    elif kind == "directory":
        o = c02.impl_dir([(unhx(e["name"]), e["type"], e["perms"], unhx(e["target"])) for e in sub["entries"]])
    elif kind == "raw_extrinsic_metadata":
        o = c15.build_rem(sub)
    else:
        o = c15.build_extid(sub)
    if raw is not None or explicit_id:
        import attr

        changes = {}
        if raw is not None:
            changes["raw_manifest"] = raw
        o2 = attr.evolve(o, id=explicit_id, **changes)  # constructor path with id absent/explicit
        return o2
    return o


def formatter(kind):
    from swh.model import git_objects as g

    return {
        "origin": lambda o: o.url.encode("utf-8"),
        "snapshot": lambda o: g.snapshot_git_object(o, ignore_unresolved=True),
        "release": g.release_git_object,
        "revision": g.revision_git_object,
        "directory": g.directory_git_object,
        "raw_extrinsic_metadata": g.raw_extrinsic_metadata_git_object,
        "extid": g.extid_git_object,
    }[kind]


def manifest_req(kind, sub):
    if kind == "origin":
        return None
    if kind == "snapshot":
        return {"op": "snp_manifest", "branches": sub["branches"], "ignore": True}
    if kind == "release":
        return {"op": "rel_manifest", "target": sub["target"], "ttype": hx(sub["ttype"].encode()), "name": sub["name"], "author": sub["author"], "date": sub["date"], "message": sub["message"]}
    if kind == "revision":
        return {"op": "rev_manifest", "directory": sub["directory"], "parents": sub["parents"], "author": sub["author"], "date": sub["date"],
                "committer": sub["committer"], "committer_date": sub["committer_date"], "extra": [] if sub["via_meta"] else sub["extra"],
                "meta": sub["extra"] if sub["via_meta"] else None, "message": sub["message"]}
    if kind == "directory":
        return {"op": "dir_manifest", "entries": sub["entries"]}
    if kind == "raw_extrinsic_metadata":
        c = sub
        req = {"op": "rem_manifest", "target": hx(c15.swhid_text(c["kind"], c["target"]).encode()), "u": c["dt"]["u"], "off": c["dt"]["off"],
               "atype": hx(c["atype"].encode()), "aurl": hx(c["aurl"].encode()), "fname": hx(c["fname"].encode()),
               "fversion": hx(c["fversion"].encode()), "format": hx(c["format"].encode()), "metadata": c["metadata"]}
        tagof = {"snapshot": "snp", "release": "rel", "revision": "rev", "directory": "dir"}
        for k in c15.CTX_ORDER:
            v = c["ctx"].get(k)
            if v is None:
                req[k] = None
            elif k in tagof:
                req[k] = hx(c15.swhid_text(tagof[k], v).encode())
            elif k in ("path", "visit"):
                req[k] = v
            else:
                req[k] = hx(v.encode())
        return req
    c = sub
    return {"op": "extid_manifest", "extid_type": hx(c["extid_type"].encode()), "version": c["version"], "extid": c["extid"],
            "target": hx(c15.swhid_text(c["ttag"], c["target"]).encode()),
            "payload_type": None if c["payload_type"] is None else hx(c["payload_type"].encode()), "payload": c["payload"]}


def check_outcome(o):
    try:
        o.check()
        return "ok"
    except ValueError:
        return "valueError"


def wrong_ids(ctx, rid, seed):
    import random

    rng = random.Random(seed)
    bits = range(160) if ctx.tier == "thorough" else rng.sample(range(160), 16)
    out = []
    for b in bits:
        x = bytearray(rid)
        x[b // 8] ^= 1 << (b % 8)
        out.append(bytes(x))
    out += [rid[:19], rid + b"\x00", rid[1:] + rid[:1], bytes(rng.randrange(256) for _ in range(20)), b"\x00" * 20]
    return [w for w in out if w != rid]


def check_cases(ctx, cases):
    import attr

    reqs1 = []
    objs = []
    for case in cases:
        kind, sub = case["kind"], case["sub"]
        ctx.case({k: case[k] for k in ("kind", "sub", "raw")})
        ctx.count("kind=" + kind)
        ctx.count("raw=" + ("none" if case["raw"] is None else ("unneeded" if case["raw"] == "same" else "needed")))
        fm = formatter(kind)
        # nothing here depends on where the process runs: objects are built in one local timezone and
        # recomputed / checked in another
        from common import local_timezone

        ctx.count("local-tz=" + local_timezone(case.get("tz", 0)))
        base = build(kind, sub)
        attr_man = fm(base)
        raw = None
        if case["raw"] == "same":
            raw = attr_man
        elif case["raw"] is not None:
            raw = unhx(case["raw"])
        o = build(kind, sub, raw=raw) if raw is not None else base
        objs.append((o, attr_man, raw))
        reqs1.append(manifest_req(kind, sub) or {"op": "ping"})
        # ---------------- oracle on the implementation
        want = hashlib.sha1(raw if raw is not None else attr_man).digest()
        if o.id != want:
            ctx.fail(case, "id is not the SHA-1 of the object's own manifest (raw manifest when given)", "id-not-hash-of-manifest")
        local_timezone(case.get("tz", 0) + 1 + case.get("tz", 0) % 3)
        if fm(base) != attr_man:
            ctx.fail(case, "the manifest of an object depends on the local timezone of the process", "manifest-depends-on-process-timezone")
        if o.compute_hash() != o.id:
            ctx.fail(case, "compute_hash() differs from the id assigned at construction", "compute-hash-unstable")
        if kind in TAG:
            if str(o.swhid()) != f"swh:1:{TAG[kind]}:{o.id.hex()}":
                ctx.fail(case, "swhid() does not carry the id with the right object type", "swhid-wrong", {"got": str(o.swhid())})
        expected_check = "ok"
        if raw is not None and hashlib.sha1(attr_man).digest() == o.id:
            expected_check = "valueError"
        got = check_outcome(o)
        if got != expected_check:
            ctx.fail(case, f"check() gives {got}, expected {expected_check} (raw manifest {'not needed' if expected_check != 'ok' else 'absent/needed'})", "check-wrong:" + expected_check)
        # other ways of building the same object give the same id: from its dictionary without the id,
        # and (directories) through the repair constructor, with the entries as they are and with a
        # repeated name plus the raw manifest to preserve
        try:
            d_noid = {k: v for k, v in o.to_dict().items() if k != "id"}
            o_fd = type(o).from_dict(d_noid)
            if o_fd.id != want:
                ctx.fail(case, "from_dict of the dictionary without its id gives another id than the SHA-1 of the manifest", "id-not-hash-of-manifest:from_dict")
        except Exception as e:
            ctx.fail(case, f"from_dict of the dictionary without its id raises {type(e).__name__}", "from_dict-without-id-raises")
        import copy as _cp
        import pickle as _pk

        for how, mk in (("deepcopy", _cp.deepcopy), ("pickle", lambda x: _pk.loads(_pk.dumps(x)))):
            try:
                oc = mk(o)
                if oc.id != want or oc.compute_hash() != want or check_outcome(oc) != check_outcome(o):
                    ctx.fail(case, f"a {how} of the object does not carry / recompute the same id", "id-not-hash-of-manifest:" + how)
            except Exception as e:
                ctx.fail(case, f"{how} of the object raises {type(e).__name__}", "copy-raises:" + how)
        if kind == "directory":
            from swh.model import model as _m

            ctx.count("alt-constructor=directory")
            try:
                _, o_alt = _m.Directory.from_possibly_duplicated_entries(entries=o.entries, raw_manifest=raw)
                if o_alt.id != want or o_alt.compute_hash() != o_alt.id:
                    ctx.fail(case, "Directory.from_possibly_duplicated_entries (no repeated name) gives an id that is not the SHA-1 of the manifest", "id-not-hash-of-manifest:repair-constructor")
                if o.entries and raw is not None:
                    dup = o.entries + (attr.evolve(o.entries[0], target=bytes(20)),)
                    flag, o_dup = _m.Directory.from_possibly_duplicated_entries(entries=dup, raw_manifest=raw)
                    if o_dup.raw_manifest != raw or o_dup.id != hashlib.sha1(raw).digest() or o_dup.compute_hash() != o_dup.id or check_outcome(o_dup) != "ok":
                        ctx.fail(case, "Directory.from_possibly_duplicated_entries with a raw manifest to preserve: the id is not the SHA-1 of that manifest / check() rejects it", "id-not-hash-of-manifest:repair-constructor-raw")
            except Exception as e:
                ctx.fail(case, f"Directory.from_possibly_duplicated_entries raises {type(e).__name__}: {str(e)[:100]}", "repair-constructor-raises")
        # a wrong id given when the object is BUILT (from its dictionary; for revisions also with the
        # extra headers in their legacy place) is kept and rejected, like one set afterwards
        wl = list(wrong_ids(ctx, o.id, case["flipseed"]))[:3]
        for w in wl:
            forms = [dict(o.to_dict(), id=w)]
            if kind == "revision" and o.extra_headers:
                dl = dict(o.to_dict(), id=w)
                eh = dl.pop("extra_headers")
                dl["metadata"] = dict(dl.get("metadata") or {}, extra_headers=[list(h) for h in eh])
                forms.append(dl)
            for fd in forms:
                try:
                    ob = type(o).from_dict(fd)
                except (ValueError, TypeError):
                    continue
                ctx.count("wrong-ids-at-construction")
                if ob.id != w or check_outcome(ob) != "valueError":
                    ctx.fail(case, "an object built with a wrong id (from its dictionary) does not keep it / is accepted by check()", "wrong-id-accepted:at-construction", {"id": hx(w), "legacy": fd is not forms[0]})
                    break
        for w in wrong_ids(ctx, o.id, case["flipseed"]):
            ctx.count("wrong-ids")
            try:
                bad = attr.evolve(o, id=w)
            except ValueError:
                continue
            if check_outcome(bad) != "valueError":
                ctx.fail(case, "check() accepts an id that differs from the recomputed one", "wrong-id-accepted", {"id": hx(w)})
                break
        # evolve every attrs field with the value taken from another object of the same kind
        other = build(kind, case["other"])
        # an id that IS right — for another object that has just been checked and accepted — is as wrong as any
        # other on this one (the check depends on the object it is given, not on what was checked before)
        if other.id != o.id and check_outcome(other) == "ok" and check_outcome(o) in ("ok", "valueError"):
            for holder, borrowed in ((o, other.id), (other, o.id)):
                try:
                    bad = attr.evolve(holder, id=borrowed)
                except ValueError:
                    continue
                ctx.count("wrong-ids-borrowed")
                if check_outcome(bad) != "valueError":
                    ctx.fail(case, "check() accepts, on one object, the id of another object that was checked before", "wrong-id-accepted:borrowed", {"id": hx(borrowed)})
                    break
        for f in attr.fields(type(o)):
            if f.name == "id":
                continue
            ctx.count("evolve-fields")
            try:
                ev = o.evolve(**{f.name: getattr(other, f.name)})
            except (ValueError, TypeError):
                continue
            if ev.id != ev.compute_hash():
                ctx.fail(case, f"evolve({f.name}=…) yields an id that does not match the new content", "evolve-id-stale", {"field": f.name})
                break
            # the same new value handed over as a one-shot iterable / a list (accepted where a converter
            # takes any iterable): the copy is the same as with the tuple
            newv = getattr(other, f.name)
            if isinstance(newv, tuple):
                for wrap in (iter, lambda v: (x for x in v), list):
                    try:
                        ev2 = o.evolve(**{f.name: wrap(newv)})
                    except (ValueError, TypeError):
                        continue
                    ctx.count("evolve-iterable-accepted")
                    if ev2 != ev or ev2.id != ev.id or ev2.id != ev2.compute_hash():
                        ctx.fail(case, f"evolve({f.name}=<iterable>) yields another copy than with the same values as a tuple (id does not match the content)", "evolve-iterable-differs", {"field": f.name})
                        break
            try:
                kwargs = {a.name: getattr(ev, a.name) for a in attr.fields(type(ev)) if a.name != "id"}
                fresh = type(ev)(**kwargs)
                if fresh.id != ev.id:
                    ctx.fail(case, f"evolve({f.name}=…) id differs from a fresh construction with the same attributes", "evolve-id-differs", {"field": f.name})
                    break
            except (ValueError, TypeError):
                pass
        # deriving a copy from an object that carries a WRONG id: whatever field is changed (also one that
        # does not appear in the manifest), the copy gets the id of its own content
        if raw is None:
            for w in wl[:1]:
                try:
                    bad0 = attr.evolve(o, id=w)
                except ValueError:
                    continue
                for f in attr.fields(type(o)):
                    if f.name in ("id", "raw_manifest"):
                        continue
                    try:
                        ev3 = bad0.evolve(**{f.name: getattr(other, f.name)})
                    except (ValueError, TypeError):
                        continue
                    ctx.count("evolve-from-wrong-id")
                    if ev3.id != hashlib.sha1(fm(ev3)).digest() or check_outcome(ev3) != "ok":
                        ctx.fail(case, f"evolve({f.name}=…) on an object carrying a wrong id yields a copy whose id is not that of its own manifest", "evolve-id-stale:from-wrong-id", {"field": f.name})
                        break
        # revisions: extra headers handed over inside metadata (the legacy place) through evolve
        if kind == "revision" and raw is None and not o.extra_headers:
            try:
                ev4 = o.evolve(metadata={"extra_headers": [[b"evolved", b"header\nwith a second line"], [b"k", b""]], "other": 1})
                ctx.count("evolve-legacy-headers")
                if ev4.id != hashlib.sha1(fm(ev4)).digest() or check_outcome(ev4) != "ok" or not ev4.extra_headers or str(ev4.swhid()) != "swh:1:rev:" + ev4.id.hex():
                    ctx.fail(case, "evolve(metadata={'extra_headers': …}) on a revision yields a copy whose id is not that of its own manifest", "evolve-id-stale:legacy-headers")
            except (ValueError, TypeError) as e:
                ctx.fail(case, f"evolve(metadata={{'extra_headers': …}}) raises {type(e).__name__}", "evolve-raises:legacy-headers")
    res1 = ctx.model(reqs1)
    reqs2 = []
    for case, (o, attr_man, raw), r in zip(cases, objs, res1):
        kind = case["kind"]
        if kind == "origin":
            mman = attr_man
        elif "error" in r:
            if ctx.model_available:
                ctx.disagree(case, "model driver error (manifest)", model=r)
            mman = None
        else:
            mman = unhx(r["r"].get("manifest") or r["r"].get("idmanifest"))
        if mman is None:
            reqs2.append({"op": "ping"})
            continue
        reqs2.append({"op": "id_logic", "kind": kind, "h_attr": hashlib.sha1(mman).hexdigest(), "h_raw": None if raw is None else hashlib.sha1(raw).hexdigest(), "explicit_id": ""})
    res2 = ctx.model(reqs2)
    for case, (o, attr_man, raw), r in zip(cases, objs, res2):
        if "error" in r or "r" not in r or "id" not in r["r"]:
            continue
        m = r["r"]
        if unhx(m["id"]) != o.id:
            ctx.disagree(case, "id: model (hash of the model's manifest) vs implementation", model=m["id"], impl=hx(o.id))
        elif m["check"] != check_outcome(o):
            ctx.disagree(case, "check(): model vs implementation", model=m["check"], impl=check_outcome(o))
        elif case["kind"] in TAG and m["tag"] != TAG[case["kind"]]:
            ctx.disagree(case, "swhid type tag: regenerated table vs expectation", model=m["tag"], impl=TAG[case["kind"]])


def neighbours(ctx, case):
    return [dict(case, raw=None), dict(case, raw="same"), dict(case, raw="00")] if case["kind"] in ("release", "revision", "directory") else []
