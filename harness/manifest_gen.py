#!/usr/bin/env python3
"""Writes MANIFEST.json from the table below (kept in one place so it stays valid)."""
import json
import os

HERE = os.path.dirname(os.path.dirname(os.path.abspath(__file__)))

NOTE = "Trusted: Lean kernel (axioms propext, Quot.sound, Classical.choice only), gen_tables.py, the correspondence harness and Driver.lean, CPython semantics of the primitives named in the evidence file's assumptions. SHA-1 is uninterpreted in the theorems."

# property -> (design section, technique, level text, level note)
CLAIMED = {
    "C01": (
        "§6 C01",
        "Lean 4 theorems over a byte-stream model of hashlib objects in a heap (chunking irrelevance, read loop, block reassembly, every route feeds prefix++data, git blob header, construction errors, copy independence under any interleaving) + model/implementation correspondence over all entry points + hashlib/git oracle",
        "Machine-checked Lean 4 theorems over an executable model of MultiHash in which a hashlib object is the byte stream fed to it and hashers live in a heap: any chunking (empty chunks included) feeds the concatenation and tracks its length; the from_file loop feeds exactly the non-empty reads before the first empty one; block reads of a positive (regenerated) block size reassemble the data; from_data with any set of known names feeds hasher n exactly prefix(n,len)++data where the git-flavoured prefix is git's blob header, so sha1_git hashes git's blob object; construction fails exactly for an unknown name or a git name without length; after copy(), for any interleaving of updates on original and copy, each continues from the common prefix with its own updates only. The harness hashes the model's streams with hashlib and compares with every route of the implementation (library, model and on-disk constructors, CLI) and with git hash-object.",
        NOTE + " hashlib's concatenativity and copy() independence are the model's contract (trusted); digests are uninterpreted.",
    ),
    "C18": (
        "§6 C18",
        "Lean 4 exhaustive kernel case analysis of the identify decision table (2 240 configurations: no crash, designated object, usage errors iff documented, verify exit codes) + exhaustive correspondence through click's CliRunner against independently computed SWHIDs",
        "Machine-checked Lean 4 theorems over a total model of the decision logic of `swh identify` on the finite configuration space (argument kind x --type x dereference x filename x recursive x verify x exclude), closed by exhaustive case analysis (a proof for a finite table): on every in-scope configuration the command never crashes, designates the link's target iff dereferencing was requested, prints one line per node iff recursive on a directory, shows names iff requested, raises a usage error exactly for the documented unsupported combinations, and verification exits 0 iff the SWHIDs are equal. The CLI option table is regenerated from the live click command. Every in-scope configuration is run through CliRunner on generated fixtures (non-UTF-8 names, nested/hidden directories, a real git repository, exclusion patterns incl. '.*') and compared with SWHIDs computed independently (hashlib, git's tree rules, physically pruned copies).",
        NOTE + " click parsing, os.path and the library calls are below the model (partial in that sense).",
    ),
    "C19": (
        "§6 C19",
        "Lean 4 proof of the repair algorithm as coded (totality via a pigeonhole fresh-name argument, uniqueness, preservation, winner, id of the original manifest, check passes) + model/implementation correspondence + direct property oracle",
        "Machine-checked Lean 4 theorems over an executable model of Directory.from_possibly_duplicated_entries (stable sort of the original list, grouping in first-appearance order, rev>dir>file winner, replacement names made fresh by a counter loop whose termination is proved by pigeonhole): for every entry sequence the result has unique names, the flag is true iff a name repeats, every original entry is present with its type, target and permissions and at most a suffix added to its name, an entry of the most important kind keeps the name, the id is the hash of the original list's manifest kept verbatim as raw_manifest, that manifest differs from the repaired entries' manifest (so the integrity check passes), and without repeats the ordinary directory is returned unchanged. Differential check against the compiled model on every run.",
        NOTE,
    ),
    "C02": (
        "§6 C02",
        "Lean 4 theorems (permutation invariance via unique sorting, decoder round-trip, injectivity, git comparator equivalence) + model/implementation correspondence + git/dulwich oracle",
        "Machine-checked Lean 4 theorems over an executable model of directory_git_object: any permutation of an entry list with distinct '/'-free names gives the same manifest; an independent tree decoder recovers the (mode,name,target) triples for every mode value; equal manifests imply equal entry multisets; the sort key order is git's base_name_compare; the five DentryPerms (regenerated from the live code) print as git's canonical modes. The model is tied to the code on every run by a differential check against the compiled model and by dulwich/git mktree.",
        "Trusted: Lean kernel (axioms propext, Quot.sound, Classical.choice only), gen_tables.py, the correspondence harness, CPython bytes/sorted semantics, hashlib. SHA-1 is uninterpreted in the theorems.",
    ),
    "C05": (
        "§6 C05",
        "Lean 4 theorems (insertion-order invariance, decoder round-trip with length-prefixed targets, injectivity, exact characterisation of the unresolved-alias report) + model/implementation correspondence + independent encoder/decoder oracle",
        "Machine-checked Lean 4 theorems over an executable model of snapshot_git_object: any insertion order of a branch map with distinct names gives the same manifest, id and unresolved report; an independent decoder recovers every (kind, name, target) for NUL-free names and targets of any length; equal manifests imply equal branch maps; the report lists exactly the aliases pointing to a missing branch or to themselves, in name order; strict formatting fails iff the report is non-empty and ignore_unresolved never fails. Kind names are tied to the live SnapshotTargetType enum by a regenerated table. Differential check against the compiled model on every run.",
        "Trusted: Lean kernel (axioms propext, Quot.sound, Classical.choice only), gen_tables.py, the correspondence harness, CPython dict/sorted semantics, hashlib. SHA-1 is uninterpreted in the theorems.",
    ),
    "C03": (
        "§6 C03",
        "Lean 4 theorems (header-codec round trip for arbitrary values, independent commit parser recovers all fields, injectivity, legacy-header equivalence) + model/implementation correspondence + git commit-tree / dulwich oracles",
        "Machine-checked Lean 4 theorems over an executable model of revision_git_object: an independent four-state header parser inverts format_git_object_from_headers for git-valid keys and arbitrary (multi-line, empty, space-leading) values and any message; the commit parser built on it recovers tree, parents (empty ids skipped, order kept), author/committer lines (exact date text, verbatim offset bytes), extra headers and message for every presence combination; equal manifests imply equal fields; headers given as attribute or inside legacy metadata give the same manifest. Non-commit attributes are not inputs of the model; the harness varies them on the implementation. Differential check against the compiled model on every run; real git and dulwich on the subset they can express.",
        NOTE + " Header keys are assumed git-valid for the parser theorems (the commit format itself is ambiguous otherwise; Lean examples exhibit the collisions).",
    ),
    "C04": (
        "§6 C04",
        "Lean 4 theorems (independent tag parser recovers all fields with no hypothesis, injectivity, regenerated target-type table) + model/implementation correspondence + dulwich / git hash-object oracles",
        "Machine-checked Lean 4 theorems over an executable model of release_git_object: for all target types, tagger/date presence and message absent/empty/arbitrary (names and taggers with newlines), an independent tag parser recovers object, type, tag, tagger line and message; equal manifests imply equal fields; the target-type table is regenerated from the live code and proved equal to content->blob, directory->tree, revision->commit, release->tag, snapshot->refs and injective. Differential check against the compiled model on every run.",
        NOTE,
    ),
    "C06": (
        "§6 C06",
        "Lean 4 theorems over an executable model of Directory.from_disk (explicit-stack walk proved equal to the structural reader; listing-order independence at every depth; modes; symlinks; trailing slashes; nested lookup; ignore-empty = git write-tree spec) + correspondence on materialised trees with shuffled listings + git add -A/write-tree oracle",
        "Machine-checked Lean 4 theorems over an executable model of reading a tree from disk (FsNode data type; the stack-based two-pass walk transcribed statement by statement and proved equal to a structural reader for every filter and limit): any permutation of any directory's listing at any depth gives the same (kind, id, mode) at every path; regular files are blobs with 100755 iff an execute bit, symlinks are 120000 blobs of their text and never followed, special files are empty contents, every directory incl. empty ones is a 40000 tree entry; trailing slashes are normalised away; the node at a nested path is the reading of that sub-tree; for trees without special files whose executables are owner-executable, ignoring empty directories gives git's `add -A && write-tree` id written as a separate specification. The correspondence materialises generated trees (non-UTF-8 names, names colliding in git order, sizes around the read block, fifos, dangling links) in a scratch area with PRNG-shuffled os.scandir and compares every node with the model, with ids computed independently from git's rules, with the command line, and with real git.",
        NOTE + " OS semantics (lstat/readlink/scandir) are trusted; the model receives the tree as data.",
    ),
    "C11": (
        "§6 C11",
        "Lean 4 theorems (frozen-mapping eq/hash order-free, eq implies hash-eq from the regenerated attrs eq flags, copying constructors isolate the object under any later mutation sequence, aliasing ones do not; invariant proof over operation histories on a heap model of ImmutableDict: no interleaving of caller mutations, the three constructor routes, copy_pop and lookups changes any frozen mapping) + exhaustive run-time tie class x field x channel + history correspondence",
        "Machine-checked Lean 4 theorems over a model of value semantics: frozen mappings with the same items are equal and hash equally whatever the insertion order; attrs-generated equality implies equal hashes because both range over the same eq fields (flags regenerated from the live classes); in a store model of object identity, an object built by a COPYING constructor observes the same items after any sequence of mutations of containers the caller can reach, whereas an aliasing constructor does not; on a heap model of ImmutableDict (dictionaries and mutable lists at locations, private allocations of the library, the three constructor routes incl. sharing of the private dictionary between mappings, copy_pop, lookups, seven kinds of caller mutation) an invariant proved by induction gives, for every history in any interleaving and every mapping built so far, that its resolved content never changes (frozen_never_changes), with the constructors and copy_pop characterised exactly and the shallow/aliasing/shared-pop variants proved NOT frozen by explicit witness histories; generated histories are run on the real class and compared step by step with the model. PARTIAL: 'assigning or deleting an attribute or item raises' is a fact about CPython/attrs that no model of ours can exhibit; it is carried by the run-time tie, which is exhaustive in the finite dimensions: every class (18 model classes, 3 SWHID classes, ImmutableDict) x every attrs field x setattr/delattr/mutating methods, and later mutation of every container passed to a constructor or inside a from_dict argument (top level and nested), observing dictionary form, id, recomputed hash, equality and hash before and after.",
        NOTE + " CPython object protocol and attrs are trusted; hash coherence is claimed where hash() is defined.",
    ),
    "C12": (
        "§6 C12",
        "Lean 4 round-trip theorems for all 18 classes over a fixed plain value universe (fromDict(toDict o) = o incl. id; decoded objects are valid; dictionary form stable), legacy-encoding equivalences, field lists tied to the regenerated attrs tables + model/implementation correspondence with a type-directed generator + direct oracle",
        "Machine-checked Lean 4 theorems over an executable model of to_dict/from_dict of the 18 model classes on a value universe with no constructor for model objects, enums or SWHIDs (so 'plain values only' holds by typing): for every valid object of every class fromDict(toDict o) = ok o (structural equality on every field, id included) and the dictionary form is stable; every decoded object satisfies the constructor's validity predicate; the legacy encodings (numeric offset with negative-UTC flag — via C16's offset round trip —, timestamp as int, person without fullname, extra headers inside metadata, old-style metadata target) decode to the same object as the current encoding; each Lean structure's field list equals the regenerated attrs field table (adding/removing a field breaks an obligation) and the metadata context rules equal the table probed from the live validators. The correspondence feeds generated dictionaries of all classes (every optional field present/absent, explicit ids, context subsets, legacy forms) to model and implementation and compares the dictionary after one and two round trips, with real ids; the oracle checks equality, ids, plainness (type walk) and that from_dict leaves its argument untouched (deep copy).",
        NOTE + " attrs converters/validators are below the model; id functions are uninterpreted in the theorems.",
    ),
    "C13": (
        "§6 C13",
        "Lean 4 theorems: two-pass filtering = reading the physically pruned tree (named, empty, composed; any emptiness-only filter); export closed/unique/checked without assuming an injective hash; size limit changes status only + correspondence and pruned-copy oracle on materialised trees (glob patterns by oracle only)",
        "Machine-checked Lean 4 theorems over the same model: for every filter that only looks at a directory's name and emptiness (all shipped filters and their conjunctions) reading with the filter equals reading the physically pruned tree, as whole outcomes (same error or same tree at every path), the top never being filtered; the exported objects are closed under reference, have pairwise distinct ids and pass their integrity checks, without assuming the hash injective; exported data is the file's bytes with sha1_git = H(blob); a file above the limit is exported as skipped with the same id and length and every directory id is unchanged; an over-long symlink raises. The correspondence runs the real reader with each filter and limit on generated trees and on physically pruned copies, compares per-node ids and the three exported lists with the model, and checks closure/uniqueness/check()/lazy data directly. Glob patterns (os.path/fnmatch) are outside the Lean model and decided by the pruned-copy oracle.",
        NOTE + " No generated file matches a generated pattern (the statement only speaks of directories).",
    ),
    "C07": (
        "§6 C07",
        "Lean 4 theorems stating the decision logic outright (id assignment, check iff, evolve, raw manifests) for a generic manifest function, instantiated with the seven model manifest functions + correspondence on digests + direct oracle (every field evolved, bit flips)",
        "Machine-checked Lean 4 theorems over a generic model of BaseHashableModel/HashableObjectWithManifest (parameters: hash H, manifest function): an object built without explicit id carries H of its manifest (of the raw manifest when given) and recomputation gives the same value; check accepts iff the id equals the recomputed one and a raw manifest, if present, is needed; any other id is rejected; evolve yields an id matching the new content; the SWHID type tags are the regenerated table. Instantiated with the models of the seven manifests (C02-C05, C15). The harness supplies SHA-1 digests of the model's manifests to the model's decision logic and compares id, compute_hash(), check() and swhid() with the implementation for all seven kinds, every attrs field evolved, and wrong ids (bit flips, truncations, random).",
        NOTE + " attrs evolve/validate plumbing is below the model.",
    ),
    "C08": (
        "§6 C08",
        "Lean 4 round-trip theorems over an executable model of SWHID printing/parsing incl. urllib quote/unquote and UTF-8 with replacement (parse(print v) = v for every well-formed value, codec inverses for all strings/bytes, printed text in grammar) + model/implementation correspondence + independent grammar recogniser",
        "Machine-checked Lean 4 theorems over an executable model of the three SWHID classes: pyUnquote(escapeOrigin s) = s for every string, unquoteToBytes(quoteFromBytes b) = b for all byte strings, line ranges round-trip, the printed text of every well-formed value (any origin, any path bytes, every qualifier subset) belongs to the documented grammar with qualifiers in the fixed order and only escaped ';' '%', and parsing it returns the value; to_extended/to_qualified keep text and id. Type tables are regenerated from the live enums/regex. The model is compared with the implementation on every run (all 256 path bytes, all 32 qualifier subsets, the whitespace table over every code point).",
        NOTE + " re and urllib.parse are modelled contracts; line numbers up to 4300 digits (CPython limit).",
    ),
    "C09": (
        "§6 C09",
        "Lean 4 theorems: parser returns a value or the validation error only; accepted language = independent recogniser (exact with the CPython digit limit made explicit); reprint; class agreement + model/implementation correspondence over generated sentences and single-character edits + independent Python recogniser",
        "Machine-checked Lean 4 theorems over the same executable model: for every string and class the parse result is a value or ErrKind.validation (never another kind); acceptance is equivalent to the documented language written as an independent recogniser (accept_iff_limit exact for every digit limit, accept_iff_partial for strings whose digit runs are within CPython's 4300-digit limit, accept_sound unconditional); an accepted string re-prints to a string that parses to the same value; the three classes agree on qualifier-free strings. Correspondence on BNF sentences, every single-character edit of seed identifiers, malformed qualifiers and random strings, for all three classes.",
        NOTE + " Known finding: numbers longer than 4300 digits are in the grammar but rejected cleanly (CPython limit).",
    ),
    "C10": (
        "§6 C10",
        "Lean 4 invariant proof by induction over operation histories on a heap model of Merkle nodes (no stale cached hash/entries/model object after any acyclic history; back-link preservation) + history correspondence + from-scratch oracle",
        "Machine-checked Lean 4 theorems over an executable heap model of merkle.py and from_disk.Directory's derived caches (identity-indexed nodes, insertion-ordered children, parent lists with multiplicity, early-exit invalidation, forced/unforced update, nested path keys): the invariant (cached hash = hash of data and children's cached hashes; cached nodes have cached children; back-links cover edges; derived caches consistent) holds initially and is preserved by every operation on acyclic heaps, hence after every operation of every finite history every reported hash, entry list and model object equals the from-scratch value, and deleting a child from one parent changes no other parent's back-link count. The correspondence runs random histories (equal-looking and shared nodes, reads interleaved) on real MerkleNode subclasses and on from_disk.Directory/Content and on the model, comparing every output; an independent from-scratch recomputation is the oracle.",
        NOTE + " Acyclic structures only; non-falsy hashes; Python dict/list semantics are contracts.",
    ),
    "C14": (
        "§6 C14",
        "Lean 4 invariant proof extending C10's with the collected flag and a ghost log of reported (node, hash) pairs (completeness, idempotence, reset) + history correspondence + shadow-table oracle",
        "Machine-checked Lean 4 theorems over the same heap model with collect/reset: after collect(root) at any point of any acyclic history every node reachable from root has been reported with its current from-scratch hash; every unmarked reachable node is in the output; a change of a cached hash unmarks the node; a second collect immediately after reports nothing; after reset every reachable node is reported again. The correspondence compares each collect's output (as a set of values, as Python's set does) on random histories with frequent collects/resets; the oracle keeps a shadow table of reported values against from-scratch hashes.",
        NOTE + " 'Reported' is by value (data, hash) because collect() returns a Python set.",
    ),
    "C15": (
        "§6 C15",
        "Lean 4 theorems (ExtID and metadata manifest parsers recover every field, optional lines iff set, date only through the UTC second, different seconds give different manifests) + model/implementation correspondence over every admissible context subset",
        "Machine-checked Lean 4 theorems over executable models of extid_git_object and raw_extrinsic_metadata_git_object: independent parsers recover every field (version line iff non-zero, payload lines iff set, the seven context lines iff set and in the fixed order) for arbitrary bytes with newlines; ExtID attributes are determined by the manifest; the metadata manifest depends on the discovery date only through floor(utcMicros/10^6) and different seconds give different manifests (before and after the epoch). Differential check on every admissible context subset of every target kind on every run.",
        NOTE + " Authority type and fetcher version are space-free as the format requires.",
    ),
    "C16": (
        "§6 C16",
        "Lean 4 arithmetic theorems (offset round trip over the whole 16-bit range, -0000 iff negative UTC, exact date text, floor/remainder, datetime round trip, range check against regenerated bounds) + exhaustive offset correspondence",
        "Machine-checked Lean 4 theorems over executable models of from_numeric_offset/_parse_offset_bytes/format_date/from_datetime/to_datetime/Timestamp validators: every offset in [-32768,32767] with an admissible flag round-trips through its +-HHMM bytes (a general proof, not an enumeration); -0000 is produced iff offset 0 with the negative-UTC flag; the manifest date text parses back to exactly (seconds, microseconds); seconds are the floor and microseconds the remainder; datetime->model->datetime is the identity for |offset|<24h; the accepted ranges are the regenerated class constants and equal the documented bounds. All 65 536 offsets x flag are also compared with the implementation on every run.",
        NOTE + " datetime/iso8601/dateutil arithmetic is a contract exercised by the correspondence, not proved.",
    ),
    "C17": (
        "§6 C17",
        "Lean 4 invariant + termination proof over every pop order and every sampling sequence (nondeterminism universally quantified) + replay of recorded schedules against the implementation + brute-force oracle",
        "Machine-checked Lean 4 theorems over an executable model of discovery.py in which set.pop and random.sample are arbitrary oracles: for every object graph, every closed known set, every sample size and every schedule, the run terminates within |objects| queries, the invariant known subset of K / unknown disjoint from K / partition holds after every pop and query, the three returned lists are exactly the inputs filtered by not-known in input order, and the callback log contains every object once with the right flag. The correspondence records the implementation's actual pops and samples and replays them on the model.",
        NOTE,
    ),
    "C20": (
        "§6 C20",
        "Lean 4 proof of Kahn's algorithm as coded (permutation + parents-first for every well-formed log, fuel never exhausted) + exact-sequence correspondence",
        "Machine-checked Lean 4 theorems over an executable model of toposort.py (FIFO queue, in-degree dict, children multimap, repeated parent ids): for every log with distinct ids, closed under parents and acyclic, the output is a permutation of the input and every revision is yielded strictly after all its parents. The model reproduces the implementation's exact yield order, compared on every run over random DAGs and input permutations.",
        NOTE,
    ),
}

PENDING_REASON = "check not built yet in this revision of /verif (planned in DESIGN.md §6; Lean model and correspondence harness under construction)"

ALL = [f"C{i:02d}" for i in range(1, 21)]


NOTE = "Trusted: Lean kernel (axioms propext, Quot.sound, Classical.choice only), gen_tables.py, the correspondence harness and Driver.lean, CPython semantics of the primitives named in the evidence file's assumptions. SHA-1 is uninterpreted in the theorems."


def main():
    checks = []
    for pid in ALL:
        if pid not in CLAIMED:
            continue
        ref, tech, text, note = CLAIMED[pid]
        checks.append(
            {
                "property_id": pid,
                "quick_cmd": f"./check {pid} quick",
                "thorough_cmd": f"./check {pid} thorough",
                "evidence_file": f"evidence/{pid}.json",
                "replay_cmd_template": f"./check {pid} --replay {{path}}",
                "engine": "lean4-proof+correspondence",
                "level_claimed": {"category": "proof", "text": text, "design_ref": ref},
                "level_note": note,
                "technique": tech,
            }
        )
    m = {
        "version": 1,
        "setup_cmd": "cd lean && lake build",
        "hooks": {
            "guard": "SWH_MODEL_VERIF",
            "enable": "every check exports SWH_MODEL_VERIF=1 and imports swh.model from /repo's working tree (no rebuild needed: pure Python); no source hook is currently needed, all observation points are public API",
            "baseline_off_cmd": "cd /repo && /venv/bin/python -m pytest -ra -q -p no:cacheprovider --timeout=900 --continue-on-collection-errors",
            "source_commits": [],
            "add_only": True,
        },
        "engines": [
            {
                "name": "lean4-proof+correspondence",
                "path": "lean/",
                "serves_properties": sorted(CLAIMED),
                "kind_free_text": "Lean 4.33 theorems about hand-written executable models (lean/SwhVerif), constants regenerated from the live code (harness/gen_tables.py), and a JSON-lines differential check between the compiled model driver (lean/Driver.lean) and the Python implementation (harness/cXX.py), plus independent oracles (git, dulwich, hashlib) for failing-input search",
            }
        ],
        "checks": checks,
        "not_applicable": [
            {"property_id": pid, "reason": PENDING_REASON} for pid in ALL if pid not in CLAIMED
        ],
        "notes": "Entry point ./check <Cxx> [quick|thorough] [--replay file]; VERIF_SEED and VERIF_TIER honoured; VERIF_REPO may point the harness at another checkout (self-tests). Exit 2 = infrastructure problem (never a VIOLATION).",
    }
    with open(os.path.join(HERE, "MANIFEST.json"), "w") as f:
        json.dump(m, f, indent=1)
        f.write("\n")


if __name__ == "__main__":
    main()
