#!/usr/bin/env python3
"""Writes MANIFEST.json from the table below (kept in one place so it stays valid)."""
import json
import os

HERE = os.path.dirname(os.path.dirname(os.path.abspath(__file__)))

# property -> (design section, technique, level text, level note)
CLAIMED = {
    "C02": (
        "§6 C02",
        "Lean 4 theorems (permutation invariance via unique sorting, decoder round-trip, injectivity, git comparator equivalence) + model/implementation correspondence + git/dulwich oracle",
        "Machine-checked Lean 4 theorems over an executable model of directory_git_object: any permutation of an entry list with distinct '/'-free names gives the same manifest; an independent tree decoder recovers the (mode,name,target) triples for every mode value; equal manifests imply equal entry multisets; the sort key order is git's base_name_compare; the five DentryPerms (regenerated from the live code) print as git's canonical modes. The model is tied to the code on every run by a differential check against the compiled model and by dulwich/git mktree.",
        "Trusted: Lean kernel (axioms propext, Quot.sound, Classical.choice only), gen_tables.py, the correspondence harness, CPython bytes/sorted semantics, hashlib. SHA-1 is uninterpreted in the theorems.",
    ),
    "C05": (
        "§6 C05",
        "Lean 4 theorems (insertion-order invariance, decoder round-trip with length-prefixed targets, injectivity, exact characterisation of the unresolved-alias report) + model/implementation correspondence + independent encoder/decoder oracle",
        "Machine-checked Lean 4 theorems over an executable model of snapshot_git_object: any insertion order of a branch map with distinct names gives the same manifest, id and unresolved report; an independent decoder recovers every (kind, name, target) for NUL-free names and targets of any length; equal manifests imply equal branch maps; the report lists exactly the aliases pointing to a missing branch or to themselves, in name order; strict formatting fails iff the report is non-empty and ignore_unresolved never fails. Kind names are tied to the live SnapshotTargetType enum by a regenerated table. Differential check against the compiled model on every run.",
        "Trusted: Lean kernel (axioms propext, Quot.sound, Classical.choice only), gen_tables.py, the correspondence harness, CPython dict/sorted semantics, hashlib. SHA-1 is uninterpreted in the theorems.",
    ),
}

PENDING_REASON = "check not built yet in this revision of /verif (planned in DESIGN.md §6; Lean model and correspondence harness under construction)"

ALL = [f"C{i:02d}" for i in range(1, 21)]


def main():
    checks = []
    for pid in ALL:
        if pid not in CLAIMED:
            continue
        ref, tech, text, note = CLAIMED[pid]
        checks.append(
            {
                "property_id": pid,
                "quick_cmd": f"./check {pid} quick",
                "thorough_cmd": f"./check {pid} thorough",
                "evidence_file": f"evidence/{pid}.json",
                "replay_cmd_template": f"./check {pid} --replay {{path}}",
                "engine": "lean4-proof+correspondence",
                "level_claimed": {"category": "proof", "text": text, "design_ref": ref},
                "level_note": note,
                "technique": tech,
            }
        )
    m = {
        "version": 1,
        "setup_cmd": "cd lean && lake build",
        "hooks": {
            "guard": "SWH_MODEL_VERIF",
            "enable": "every check exports SWH_MODEL_VERIF=1 and imports swh.model from /repo's working tree (no rebuild needed: pure Python); no source hook is currently needed, all observation points are public API",
            "baseline_off_cmd": "cd /repo && /venv/bin/python -m pytest -ra -q -p no:cacheprovider --timeout=900 --continue-on-collection-errors",
            "source_commits": [],
            "add_only": True,
        },
        "engines": [
            {
                "name": "lean4-proof+correspondence",
                "path": "lean/",
                "serves_properties": sorted(CLAIMED),
                "kind_free_text": "Lean 4.33 theorems about hand-written executable models (lean/SwhVerif), constants regenerated from the live code (harness/gen_tables.py), and a JSON-lines differential check between the compiled model driver (lean/Driver.lean) and the Python implementation (harness/cXX.py), plus independent oracles (git, dulwich, hashlib) for failing-input search",
            }
        ],
        "checks": checks,
        "not_applicable": [
            {"property_id": pid, "reason": PENDING_REASON} for pid in ALL if pid not in CLAIMED
        ],
        "notes": "Entry point ./check <Cxx> [quick|thorough] [--replay file]; VERIF_SEED and VERIF_TIER honoured; VERIF_REPO may point the harness at another checkout (self-tests). Exit 2 = infrastructure problem (never a VIOLATION).",
    }
    with open(os.path.join(HERE, "MANIFEST.json"), "w") as f:
        json.dump(m, f, indent=1)
        f.write("\n")


if __name__ == "__main__":
    main()
