"""C15 — external-id and extrinsic-metadata ids come from unambiguous manifests."""
from __future__ import annotations

import datetime
import hashlib
import itertools

import gitfmt
from common import hx, unhx

REQUIRED = [
    "Swh.C15.parseExtid_manifest",
    "Swh.C15.extidManifest_injective",
    "Swh.C15.extid_attrs_injective",
    "Swh.C15.version_line_iff",
    "Swh.C15.parseRem_manifest",
    "Swh.C15.remManifest_injective",
    "Swh.C15.date_only_through_second",
    "Swh.C15.different_second_different_manifest",
    "Swh.C15.timezone_irrelevant",
]
RULE = (
    "ExtIDs over all type/version/payload combinations with id bytes incl. newlines; metadata objects over all seven "
    "target kinds x every admissible context subset (enumerated from the validators' rules) x dates over fixed offsets "
    "and named zones, both sides of the epoch, microseconds {0,1,999999,random} x URLs/names with newlines and non-ASCII "
    "x arbitrary metadata bytes; non-trivial = every case; distinct by canonical JSON"
)
ASSUMPTIONS = [
    "SHA-1 uninterpreted in theorems",
    "str.encode('utf-8') and datetime arithmetic are CPython contracts; the harness gives the model UTF-8 bytes and exact "
    "integer UTC microseconds",
    "format and fetcher version are space-free as the manifest format requires (statement's own restriction)",
]
TRUSTED = ["attrs validators/converters of RawExtrinsicMetadata and ExtID", "datetime, dateutil (contracts)"]

EPOCH = datetime.datetime(1970, 1, 1, tzinfo=datetime.timezone.utc)
US = datetime.timedelta(microseconds=1)
KINDS = ["snp", "rel", "rev", "dir", "cnt", "ori", "emd"]
CTX_ORDER = ["origin", "visit", "snapshot", "release", "revision", "path", "directory"]
ALLOWED = {
    "snp": ["origin", "visit"],
    "rel": ["origin", "visit", "snapshot"],
    "rev": ["origin", "visit", "snapshot", "release"],
    "dir": ["origin", "visit", "snapshot", "release", "revision", "path"],
    "cnt": ["origin", "visit", "snapshot", "release", "revision", "path", "directory"],
    "ori": [],
    "emd": [],
}
STRS = ["http://example.org/", "https://é.example/päth", "a\nb", "x y", "", "\n", " lead", "trail ", "日本", "a\n b\n"]
NOSPACE = ["json", "sword-v2-atom-codemeta", "1.0.0", "v", "é", "a\nb", "0"]


def swhid_text(tag, h):
    return f"swh:1:{tag}:{h}"


def admissible_subsets(kind):
    keys = ALLOWED[kind]
    out = []
    for r in range(len(keys) + 1):
        for sub in itertools.combinations(keys, r):
            if "visit" in sub and "origin" not in sub:
                continue
            out.append(list(sub))
    return out


def gen_dt(rng):
    s = rng.choice([0, -1, 1, -86400, 1600000000, 2**31, -(2**31)]) if rng.random() < 0.3 else rng.randrange(-(10**10), 10**11)
    us = rng.choice([0, 1, 999999, 500000, rng.randrange(10**6)])
    off = rng.choice([0, 60, -60, 330, -570, 765, -1439, 1439, rng.randrange(-1439, 1440)])
    return {"u": s * 10**6 + us, "off": off}


def gen_rem(rng, kind, sub):
    rh = lambda: hx(bytes(rng.randrange(256) for _ in range(20)))
    c = {
        "obj": "rem",
        "kind": kind,
        "target": rh(),
        "dt": gen_dt(rng),
        "atype": rng.choice(["deposit_client", "forge", "registry"]),
        "aurl": rng.choice(STRS),
        "fname": rng.choice(STRS + ["swh-deposit", "my fetcher"]),
        "fversion": rng.choice(NOSPACE),
        "format": rng.choice(NOSPACE[:4]),
        "metadata": hx(gitfmt.gen_bytes(rng, 0, 60, alphabet=b"{}\n \x00\xffab:")),
        "ctx": {},
    }
    for k in sub:
        if k == "origin":
            c["ctx"][k] = rng.choice([s for s in STRS if not s.startswith("swh:")])
        elif k == "visit":
            c["ctx"][k] = rng.choice([1, 2, 10, 10**6, 10**20])
        elif k == "path":
            # (the empty path — the root — is a value, not an absence: one time in four)
            c["ctx"][k] = "" if rng.random() < 0.25 else hx(gitfmt.gen_bytes(rng, 0, 20, alphabet=b"/ab \n\xff."))
        else:
            c["ctx"][k] = rh()
    return c


def gen_extid(rng):
    has_payload = rng.random() < 0.5
    return {
        "obj": "extid",
        "extid_type": rng.choice(["hg-nodeid", "git-sha256", "x", "a_b", "checksums-manifest-sha256", "a\nb", ""]),
        "version": rng.choice([0, 0, 1, 2, 7, -1, 10**20]),
        "extid": hx(rng.choice([b"", b"\n", b"a\nb", b" ", b"\x00"]) if rng.random() < 0.3 else gitfmt.gen_bytes(rng, 0, 40)),
        "ttag": rng.choice(KINDS[:5]),
        "target": hx(bytes(rng.randrange(256) for _ in range(20))),
        "payload_type": rng.choice(["disk-mapping", "x", "a\nb"]) if has_payload else None,
        "payload": hx(bytes(rng.randrange(256) for _ in range(20))) if has_payload else None,
    }


def generate(ctx):
    rng = ctx.rng
    cases = []
    # every admissible context subset of every target kind, every run
    for kind in KINDS:
        for sub in admissible_subsets(kind):
            cases.append(gen_rem(rng, kind, sub))
    ctx.exhaustive_parts.append("every admissible context subset for each of the 7 target kinds")
    for _ in range(ctx.budget(150, 4000)):
        kind = rng.choice(KINDS)
        cases.append(gen_rem(rng, kind, rng.choice(admissible_subsets(kind))))
    # discovery dates inside the hour that a named timezone repeats when summer time ends (second pass:
    # PEP 495 fold=1), half an hour and one second into it
    for kind, inst in zip(KINDS + KINDS, (1635643800, 1636266600, 1617463800, 1635642001, 1667710800, 1572139800, 1603589400, 1636263001,
                                          1635640200, 1636263000, 1617460200, 1667716199, 1667712599, 1603593000)):
        c = gen_rem(rng, kind, rng.choice(admissible_subsets(kind)))
        c["dt"] = {"u": inst * 10**6 + rng.choice([0, 1, 999999]), "off": rng.choice([0, 60, -300])}
        cases.append(c)
    for _ in range(ctx.budget(200, 4000)):
        cases.append(gen_extid(rng))
    return cases


def build_rem(c, dt_override=None):
    from swh.model import model, swhids

    ext = swhids.ExtendedSWHID.from_string(swhid_text(c["kind"], c["target"]))
    d = dt_override or c["dt"]
    if d.get("zone"):
        import zoneinfo

        # (astimezone sets `fold` on the second pass through a repeated hour)
        dt = (EPOCH + d["u"] * US).astimezone(zoneinfo.ZoneInfo(d["zone"]))
    else:
        dt = (EPOCH + d["u"] * US).astimezone(datetime.timezone(datetime.timedelta(minutes=d["off"])))
    kw = {}
    tagof = {"snapshot": "snp", "release": "rel", "revision": "rev", "directory": "dir"}
    for k, v in c["ctx"].items():
        if k in tagof:
            kw[k] = swhids.CoreSWHID.from_string(swhid_text(tagof[k], v))
        elif k == "path":
            kw[k] = unhx(v)
        else:
            kw[k] = v
    return model.RawExtrinsicMetadata(
        target=ext, discovery_date=dt,
        authority=model.MetadataAuthority(type=model.MetadataAuthorityType(c["atype"]), url=c["aurl"]),
        fetcher=model.MetadataFetcher(name=c["fname"], version=c["fversion"]),
        format=c["format"], metadata=unhx(c["metadata"]), **kw,
    )


def rem_headers(c):
    tagof = {"snapshot": "snp", "release": "rel", "revision": "rev", "directory": "dir"}
    hs = [
        (b"target", swhid_text(c["kind"], c["target"]).encode()),
        (b"discovery_date", str(c["dt"]["u"] // 10**6).encode()),
        (b"authority", (c["atype"] + " " + c["aurl"]).encode()),
        (b"fetcher", (c["fname"] + " " + c["fversion"]).encode()),
        (b"format", c["format"].encode()),
    ]
    for k in CTX_ORDER:
        if k in c["ctx"]:
            v = c["ctx"][k]
            if k in tagof:
                hs.append((k.encode(), swhid_text(tagof[k], v).encode()))
            elif k == "path":
                hs.append((k.encode(), unhx(v)))
            elif k == "visit":
                hs.append((k.encode(), str(v).encode()))
            else:
                hs.append((k.encode(), v.encode()))
    return hs


def build_extid(c):
    from swh.model import model, swhids

    return model.ExtID(
        extid_type=c["extid_type"], extid=unhx(c["extid"]),
        target=swhids.CoreSWHID.from_string(swhid_text(c["ttag"], c["target"])),
        extid_version=c["version"], payload_type=c["payload_type"], payload=unhx(c["payload"]),
    )


def extid_headers(c):
    hs = [(b"extid_type", c["extid_type"].encode())]
    if c["version"] != 0:
        hs.append((b"extid_version", str(c["version"]).encode()))
    hs += [(b"extid", unhx(c["extid"])), (b"target", swhid_text(c["ttag"], c["target"]).encode())]
    if c["payload_type"] is not None:
        hs.append((b"payload_type", c["payload_type"].encode()))
    if c["payload"] is not None:
        hs.append((b"payload", unhx(c["payload"])))
    return hs


def check_cases(ctx, cases):
    from swh.model import git_objects

    reqs = []
    impls = []
    from common import local_timezone

    for ci_, case in enumerate(cases):
        # the process's own timezone must not matter (recorded in the case so that a replay runs under the same one)
        case.setdefault("tz", ci_ % 6)
        ctx.count("local-tz=" + local_timezone(case["tz"]))
        ctx.case(case)
        if case["obj"] == "rem":
            ctx.count("rem-target=" + case["kind"])
            ctx.count("rem-ctx=%d" % len(case["ctx"]))
            ctx.count("epoch_side=" + ("before" if case["dt"]["u"] < 0 else "after"))
            try:
                m = build_rem(case)
            except Exception as e:
                ctx.fail(case, f"an admissible (target kind, context) combination is refused at construction: {type(e).__name__}: {str(e)[:100]}", "admissible-combination-rejected:" + case["kind"])
                impls.append(None)
                reqs.append({"op": "ping"})
                reqs.append({"op": "ping"})
                continue
            man = git_objects.raw_extrinsic_metadata_git_object(m)
            gitfmt.dict_form_agrees(ctx, case, git_objects.raw_extrinsic_metadata_git_object, m, man)
            impls.append((man, m.id))
            req = {"op": "rem_manifest", "target": hx(swhid_text(case["kind"], case["target"]).encode()),
                   "u": case["dt"]["u"], "off": case["dt"]["off"], "atype": hx(case["atype"].encode()),
                   "aurl": hx(case["aurl"].encode()), "fname": hx(case["fname"].encode()),
                   "fversion": hx(case["fversion"].encode()), "format": hx(case["format"].encode()),
                   "metadata": case["metadata"]}
            tagof = {"snapshot": "snp", "release": "rel", "revision": "rev", "directory": "dir"}
            for k in CTX_ORDER:
                v = case["ctx"].get(k)
                if v is None:
                    req[k] = None
                elif k in tagof:
                    req[k] = hx(swhid_text(tagof[k], v).encode())
                elif k == "path":
                    req[k] = v
                elif k == "visit":
                    req[k] = v
                else:
                    req[k] = hx(v.encode())
            reqs.append(req)
            reqs.append({"op": "rem_parse", "bytes": hx(man)})
            # ---- oracle
            hs = rem_headers(case)
            want = gitfmt.indep_headers_object(b"raw_extrinsic_metadata", hs, unhx(case["metadata"]))
            if man != want:
                ctx.fail(case, "manifest is not the documented header list", "rem-manifest-not-documented", {"impl": hx(man), "oracle": hx(want)})
            if m.id != hashlib.sha1(man).digest():
                ctx.fail(case, "RawExtrinsicMetadata.id is not the SHA-1 of its manifest", "id-not-sha1-of-manifest")
            if str(m.swhid()) != "swh:1:emd:" + m.id.hex():
                ctx.fail(case, "swhid() does not carry the id", "swhid-mismatch")
            try:
                phs, pmsg = gitfmt.indep_parse_headers(man, b"raw_extrinsic_metadata")
                if phs != hs or pmsg != unhx(case["metadata"]):
                    ctx.fail(case, "independent parser does not recover the fields", "rem-parse-mismatch")
            except Exception as e:
                ctx.fail(case, f"independent parser fails: {type(e).__name__}", "rem-parse-error")
            # same instant in another zone / another sub-second part: equal object and id
            u = case["dt"]["u"]
            sec = u // 10**6
            zones = ("Europe/Paris", "America/New_York", "Australia/Lord_Howe", "Asia/Kolkata", "America/St_Johns", "Pacific/Chatham")
            for alt in ({"u": u, "off": -case["dt"]["off"]}, {"u": sec * 10**6, "off": 0}, {"u": sec * 10**6 + 999999, "off": 345},
                        {"u": u, "zone": zones[sec % 6]}, {"u": u, "zone": zones[(sec + 1) % 6]}, {"u": sec * 10**6 + 5, "zone": zones[(sec + 2) % 6]}):
                m2 = build_rem(case, alt)
                if m2 != m or m2.id != m.id:
                    ctx.fail(case, "same UTC second written differently gives a different object/id", "date-not-through-second", {"alt": alt})
                    break
            for alt in ({"u": (sec + 1) * 10**6, "off": case["dt"]["off"]}, {"u": (sec - 1) * 10**6 + 999999, "off": 0}):
                m3 = build_rem(case, alt)
                if git_objects.raw_extrinsic_metadata_git_object(m3) == man or m3.id == m.id:
                    ctx.fail(case, "a different UTC second gives the same manifest", "second-collision", {"alt": alt})
                    break
        else:
            ctx.count("extid-version=" + ("0" if case["version"] == 0 else "nonzero"))
            ctx.count("extid-payload=" + ("yes" if case["payload"] else "no"))
            e = build_extid(case)
            man = git_objects.extid_git_object(e)
            impls.append((man, e.id))
            reqs.append({"op": "extid_manifest", "extid_type": hx(case["extid_type"].encode()), "version": case["version"],
                         "extid": case["extid"], "target": hx(swhid_text(case["ttag"], case["target"]).encode()),
                         "payload_type": None if case["payload_type"] is None else hx(case["payload_type"].encode()),
                         "payload": case["payload"]})
            reqs.append({"op": "extid_parse", "bytes": hx(man)})
            hs = extid_headers(case)
            want = gitfmt.indep_headers_object(b"extid", hs, None)
            if man != want:
                ctx.fail(case, "manifest is not the documented header list", "extid-manifest-not-documented", {"impl": hx(man), "oracle": hx(want)})
            if e.id != hashlib.sha1(man).digest():
                ctx.fail(case, "ExtID.id is not the SHA-1 of its manifest", "id-not-sha1-of-manifest")
            try:
                phs, pmsg = gitfmt.indep_parse_headers(man, b"extid")
                if phs != hs or pmsg is not None:
                    ctx.fail(case, "independent parser does not recover the fields", "extid-parse-mismatch")
            except Exception as ex:
                ctx.fail(case, f"independent parser fails: {type(ex).__name__}", "extid-parse-error")

    res = ctx.model(reqs)
    for ci, case in enumerate(cases):
        r1, r2 = res[2 * ci], res[2 * ci + 1]
        if impls[ci] is None:
            continue
        man, oid = impls[ci]
        if "error" in r1 or "error" in r2:
            if ctx.model_available:
                ctx.disagree(case, "model driver error", model=[r1, r2])
            continue
        mm = unhx(r1["r"]["manifest"])
        if mm != man:
            ctx.disagree(case, "manifest: model vs implementation", model=hx(mm), impl=hx(man))
        elif hashlib.sha1(mm).digest() != oid:
            ctx.disagree(case, "id != sha1(model manifest)")
        p = r2["r"]["parsed"]
        if case["obj"] == "rem":
            hs = dict(rem_headers(case))
            want = {"target": hx(hs[b"target"]), "discovery": hx(hs[b"discovery_date"]), "atype": hx(case["atype"].encode()),
                    "aurl": hx(case["aurl"].encode()), "fname": hx(case["fname"].encode()), "fversion": hx(case["fversion"].encode()),
                    "format": hx(case["format"].encode()), "metadata": case["metadata"]}
            for k in CTX_ORDER:
                want[k] = hx(hs[k.encode()]) if k.encode() in hs else None
        else:
            hs = dict(extid_headers(case))
            want = {"extid_type": hx(hs[b"extid_type"]), "version": hx(hs[b"extid_version"]) if b"extid_version" in hs else None,
                    "extid": case["extid"], "target": hx(hs[b"target"]),
                    "payload_type": hx(hs[b"payload_type"]) if b"payload_type" in hs else None, "payload": case["payload"]}
        if p != want:
            ctx.disagree(case, "Lean parser on the implementation's manifest does not return the fields", model=p, impl=want)


def neighbours(ctx, case):
    out = []
    if case["obj"] == "rem":
        for du in (-1, 1, -10**6, 10**6):
            out.append(dict(case, dt=dict(case["dt"], u=case["dt"]["u"] + du)))
        for k in list(case["ctx"]):
            c2 = dict(case, ctx={a: b for a, b in case["ctx"].items() if a != k and not (k == "origin" and a == "visit")})
            out.append(c2)
    else:
        out.append(dict(case, version=0))
        out.append(dict(case, version=1))
        out.append(dict(case, payload=None, payload_type=None))
    return out
