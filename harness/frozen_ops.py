"""Operation histories over frozen mappings (C11): the caller creates and mutates dictionaries and
lists, the library builds `ImmutableDict`s from them through its three constructor routes, derives
others with `copy_pop`, looks keys up.  The same history is run by the Lean model (`Swh.Frozen`, driver op
`frozen_run`) and compared after every step; independently of the model, the oracle here demands what
the property says: what a frozen mapping contains never changes once it is built.

A history is a list of JSON ops (see `lean/Driver.lean`, `frozen_run`); caller containers are named by
creation index, frozen mappings by construction index; values are {"a": n} (an int) or {"l": c} (the
caller's list number c)."""
import random


def gen_history(rng: random.Random, length: int):
    ops = []
    kinds = []   # kind of each caller container: "d" or "l"
    frozen = 0

    def val():
        ls = [i for i, k in enumerate(kinds) if k == "l"]
        if ls and rng.random() < 0.45:
            return {"l": rng.choice(ls)}
        return {"a": rng.randrange(6)}

    def key():
        return rng.randrange(5)

    for _ in range(length):
        ds = [i for i, k in enumerate(kinds) if k == "d"]
        ls = [i for i, k in enumerate(kinds) if k == "l"]
        r = rng.random()
        if not kinds or r < 0.10:
            ops.append({"o": "new_list", "xs": [rng.randrange(9) for _ in range(rng.randrange(3))]})
            kinds.append("l")
        elif not ds or r < 0.20:
            ks = rng.sample(range(5), rng.randrange(4))
            ops.append({"o": "new_dict", "items": [[k, val()] for k in ks]})
            kinds.append("d")
        elif r < 0.30:
            ops.append({"o": "dict_set", "d": rng.choice(ds), "k": key(), "v": val()})
        elif r < 0.36:
            ops.append({"o": "dict_del", "d": rng.choice(ds), "k": key()})
        elif r < 0.39:
            ops.append({"o": "dict_clear", "d": rng.choice(ds)})
        elif r < 0.50 and ls:
            ops.append({"o": "list_append", "l": rng.choice(ls), "n": rng.randrange(9)})
        elif r < 0.54 and ls:
            ops.append({"o": "list_set_all", "l": rng.choice(ls), "xs": [rng.randrange(9) for _ in range(rng.randrange(3))]})
        elif r < 0.66:
            ops.append({"o": "from_dict", "src": rng.choice(ds)})
            frozen += 1
        elif r < 0.76:
            ops.append({"o": "from_pairs", "ps": [[key(), val()] for _ in range(rng.randrange(5))]})
            frozen += 1
        elif r < 0.82 and frozen:
            ops.append({"o": "from_frozen", "i": rng.randrange(frozen)})
            frozen += 1
        elif r < 0.92 and frozen:
            ops.append({"o": "copy_pop", "i": rng.randrange(frozen), "k": key()})
            frozen += 1
        elif frozen:
            ops.append({"o": "lookup", "i": rng.randrange(frozen), "k": key()})
        else:
            ops.append({"o": "from_dict", "src": rng.choice(ds)})
            frozen += 1
    return ops


def _res(v):
    """resolved form of a stored value"""
    if isinstance(v, list):
        return {"l": list(v)}
    return {"a": v}


def view_of(m):
    return [[k, _res(v)] for k, v in m.items()]


def run_impl(ops, pairs_as="list"):
    """run a history on the real class; returns (outs, trace) in the driver's format"""
    from swh.model.collections import ImmutableDict

    cont = []      # caller containers by creation index
    frozen = []
    outs = []
    trace = []

    def V(j):
        if "l" in j:
            c = cont[j["l"]] if 0 <= j["l"] < len(cont) else None
            if not isinstance(c, list):
                raise LookupError
            return c
        return j["a"]

    def get(i, typ):
        c = cont[i] if 0 <= i < len(cont) else None
        if not isinstance(c, typ):
            raise LookupError
        return c

    for op in ops:
        o = op["o"]
        try:
            if o == "new_list":
                cont.append(list(op["xs"]))
                out = {"c": len(cont) - 1}
            elif o == "new_dict":
                cont.append({k: V(v) for k, v in op["items"]})
                out = {"c": len(cont) - 1}
            elif o == "dict_set":
                get(op["d"], dict)[op["k"]] = V(op["v"])
                out = {}
            elif o == "dict_del":
                get(op["d"], dict).pop(op["k"], None)
                out = {}
            elif o == "dict_clear":
                get(op["d"], dict).clear()
                out = {}
            elif o == "list_append":
                get(op["l"], list).append(op["n"])
                out = {}
            elif o == "list_set_all":
                get(op["l"], list)[:] = op["xs"]
                out = {}
            elif o == "from_dict":
                frozen.append(ImmutableDict(get(op["src"], dict)))
                out = {"obj": len(frozen) - 1}
            elif o == "from_pairs":
                ps = [(k, V(v)) for k, v in op["ps"]]
                arg = {"list": ps, "iter": iter(ps), "tuple": tuple(ps), "gen": (p for p in ps)}[pairs_as]
                frozen.append(ImmutableDict(arg))
                out = {"obj": len(frozen) - 1}
            elif o == "from_frozen":
                if not 0 <= op["i"] < len(frozen):
                    raise LookupError
                frozen.append(ImmutableDict(frozen[op["i"]]))
                out = {"obj": len(frozen) - 1}
            elif o == "copy_pop":
                if not 0 <= op["i"] < len(frozen):
                    raise LookupError
                popped, m = frozen[op["i"]].copy_pop(op["k"])
                frozen.append(m)
                out = {"obj": len(frozen) - 1, "popped": None if popped is None else _res(popped)}
            elif o == "lookup":
                if not 0 <= op["i"] < len(frozen):
                    raise LookupError
                m = frozen[op["i"]]
                if op["k"] in m:
                    out = {"value": _res(m[op["k"]]), "found": True}
                else:
                    try:
                        m[op["k"]]
                        out = {"value": None, "found": True}
                    except KeyError:
                        out = {"value": None, "found": False}
                m.get(op["k"])
                len(m)
                list(m)
            else:
                raise ValueError(o)
        except LookupError:
            out = {"invalid": True}
        outs.append(out)
        trace.append([view_of(m) for m in frozen])
    return outs, trace


def oracle(ops, outs, trace):
    """what the property demands, stated without the model: returns a description of the first
    failure, or None"""
    # resolved state of the caller's containers, tracked independently
    cont = []
    built = []   # expected view of each frozen mapping, fixed at construction

    def R(j):
        if "l" in j:
            return {"l": list(cont[j["l"]])}
        return {"a": j["a"]}

    for n, (op, out) in enumerate(zip(ops, outs)):
        o = op["o"]
        if out.get("invalid"):
            pass
        elif o == "new_list":
            cont.append(list(op["xs"]))
        elif o == "new_dict":
            cont.append({k: v for k, v in op["items"]})
        elif o == "dict_set":
            cont[op["d"]][op["k"]] = op["v"]
        elif o == "dict_del":
            cont[op["d"]].pop(op["k"], None)
        elif o == "dict_clear":
            cont[op["d"]].clear()
        elif o == "list_append":
            cont[op["l"]].append(op["n"])
        elif o == "list_set_all":
            cont[op["l"]][:] = op["xs"]
        elif o == "from_dict":
            built.append([[k, R(v)] for k, v in cont[op["src"]].items()])
        elif o == "from_pairs":
            d = {}
            for k, v in op["ps"]:
                d[k] = v
            built.append([[k, R(v)] for k, v in d.items()])
        elif o == "from_frozen":
            built.append(built[op["i"]])
        elif o == "copy_pop":
            old = built[op["i"]]
            want = next((v for k, v in old if k == op["k"]), None)
            if out.get("popped") != want:
                return "step %d: copy_pop returned %r for key %r of a mapping holding %r" % (n, out.get("popped"), op["k"], old)
            built.append([[k, v] for k, v in old if k != op["k"]])
        elif o == "lookup":
            old = built[op["i"]]
            want = next((v for k, v in old if k == op["k"]), None)
            if out.get("value") != want or out.get("found") != (want is not None):
                return "step %d: lookup of key %r gave %r in a mapping holding %r" % (n, op["k"], out, old)
        views = trace[n]
        if len(views) != len(built):
            return "step %d: %d frozen mappings exist, expected %d" % (n, len(views), len(built))
        for i, (got, want) in enumerate(zip(views, built)):
            if got != want:
                return "step %d (%s): frozen mapping #%d now holds %r; it was built holding %r" % (n, o, i, got, want)
    return None
