#!/usr/bin/env python3
"""Mutation self-test of the checks (not part of any registered command).

Generates single-point syntactic mutants of the library's source files (comparison, boolean and
arithmetic operators, small constants, negations, dropped statements), keeps those that still
import and still pass the repository's own unedited test suite — the brief's definition of a
change the tests cannot settle — and runs the quick checks of the properties anchored in the
mutated file against each of them.  Survivors are either equivalent mutants, changes outside every
listed property, or blind spots of the checks; they are listed for inspection.

Everything happens in scratch copies of /repo and /verif under $VERIF_SCRATCH (default /dev/shm),
one pair per worker, removed at the end.  /repo itself is never touched.

usage: mutate.py [--files a.py,b.py] [--per-file N] [--workers K] [--seed S] [--out results.jsonl]
       mutate.py --list            (count mutation points per file)
"""
from __future__ import annotations

import ast
import copy
import json
import multiprocessing
import os
import random
import shutil
import subprocess
import sys
import time

VERIF = os.path.dirname(os.path.dirname(os.path.dirname(os.path.abspath(__file__))))
REPO = os.environ.get("VERIF_REPO", "/repo")
SCRATCH = os.environ.get("VERIF_SCRATCH", "/dev/shm")

FILE_PROPS = {
    "hashutil.py": ["C01"],
    "git_objects.py": ["C02", "C03", "C04", "C05", "C15", "C07", "C12", "C19"],
    "model.py": ["C03", "C04", "C05", "C07", "C11", "C12", "C15", "C16", "C19", "C02"],
    "from_disk.py": ["C06", "C13", "C10", "C14", "C18"],
    "merkle.py": ["C10", "C14", "C13", "C06"],
    "swhids.py": ["C08", "C09", "C11", "C07"],
    "collections.py": ["C11", "C12"],
    "toposort.py": ["C20"],
    "discovery.py": ["C17"],
    "cli.py": ["C18"],
}

CMP = {ast.Lt: ast.LtE, ast.LtE: ast.Lt, ast.Gt: ast.GtE, ast.GtE: ast.Gt, ast.Eq: ast.NotEq, ast.NotEq: ast.Eq,
       ast.Is: ast.IsNot, ast.IsNot: ast.Is, ast.In: ast.NotIn, ast.NotIn: ast.In}
BIN = {ast.Add: ast.Sub, ast.Sub: ast.Add, ast.Mult: ast.FloorDiv, ast.FloorDiv: ast.Mult, ast.Mod: ast.FloorDiv,
       ast.BitAnd: ast.BitOr, ast.BitOr: ast.BitAnd, ast.LShift: ast.RShift, ast.RShift: ast.LShift}
SKIP_FUNCS = {"__repr__", "__str__", "_repr_pretty_", "anonymize"}


class Points(ast.NodeVisitor):
    """enumerates mutation points as (node index in ast.walk order, operator name)"""

    def __init__(self, tree):
        self.points = []
        self.skip = set()
        for node in ast.walk(tree):
            # never mutate inside annotations, decorators' arguments, raise statements (messages), asserts
            if isinstance(node, (ast.Raise, ast.Assert)):
                for sub in ast.walk(node):
                    self.skip.add(id(sub))
            if isinstance(node, (ast.FunctionDef, ast.AsyncFunctionDef)):
                if node.name in SKIP_FUNCS:
                    for sub in ast.walk(node):
                        self.skip.add(id(sub))
                for a in ast.walk(node.args):
                    self.skip.add(id(a))
                if node.returns is not None:
                    for sub in ast.walk(node.returns):
                        self.skip.add(id(sub))
                for d in node.decorator_list:
                    for sub in ast.walk(d):
                        self.skip.add(id(sub))
            if isinstance(node, ast.AnnAssign):
                for sub in ast.walk(node.annotation):
                    self.skip.add(id(sub))
            if isinstance(node, ast.Expr) and isinstance(node.value, ast.Constant) and isinstance(node.value.value, str):
                self.skip.add(id(node.value))  # docstring
            if isinstance(node, ast.If) and isinstance(node.test, ast.Name) and node.test.id == "TYPE_CHECKING":
                for sub in ast.walk(node):
                    self.skip.add(id(sub))
        for i, node in enumerate(ast.walk(tree)):
            if id(node) in self.skip:
                continue
            if isinstance(node, ast.Compare):
                for k, op in enumerate(node.ops):
                    if type(op) in CMP:
                        self.points.append((i, "cmp%d" % k))
            elif isinstance(node, ast.BoolOp):
                self.points.append((i, "boolop"))
            elif isinstance(node, ast.UnaryOp) and isinstance(node.op, ast.Not):
                self.points.append((i, "dropnot"))
            elif isinstance(node, ast.BinOp) and type(node.op) in BIN:
                if isinstance(node.op, ast.Mod) and isinstance(node.left, ast.Constant) and isinstance(node.left.value, (str, bytes)):
                    continue  # string formatting
                self.points.append((i, "binop"))
            elif isinstance(node, ast.Constant):
                v = node.value
                if isinstance(v, bool):
                    self.points.append((i, "flipbool"))
                elif isinstance(v, int) and not isinstance(v, bool) and abs(v) < 10**7:
                    self.points.append((i, "int+1"))
                    if v != 0:
                        self.points.append((i, "int-1"))
                elif isinstance(v, bytes) and 0 < len(v) <= 2:
                    self.points.append((i, "bytes"))
            elif isinstance(node, (ast.If, ast.While)):
                self.points.append((i, "negcond"))
            elif isinstance(node, ast.IfExp):
                self.points.append((i, "negcond"))
            elif isinstance(node, ast.Expr) and isinstance(node.value, ast.Call):
                self.points.append((i, "dropstmt"))
            elif isinstance(node, ast.AugAssign):
                self.points.append((i, "dropstmt"))
            elif isinstance(node, (ast.Break,)):
                self.points.append((i, "dropstmt"))
            elif isinstance(node, ast.Return) and node.value is not None and not isinstance(node.value, ast.Constant):
                pass
            elif isinstance(node, ast.Slice):
                if node.lower is not None or node.upper is not None:
                    self.points.append((i, "slice"))


def apply(tree, idx, opname):
    """returns (mutated tree, lineno, description) — works on a deep copy"""
    t = copy.deepcopy(tree)
    node = list(ast.walk(t))[idx]
    before = ast.unparse(node)[:100]
    line = getattr(node, "lineno", 0)
    if opname.startswith("cmp"):
        k = int(opname[3:])
        node.ops[k] = CMP[type(node.ops[k])]()
    elif opname == "boolop":
        node.op = ast.Or() if isinstance(node.op, ast.And) else ast.And()
    elif opname == "dropnot":
        # replace `not x` by `x` in the parent: emulate with double negation removal
        node.op = ast.UAdd()  # placeholder, fixed below
    elif opname == "binop":
        node.op = BIN[type(node.op)]()
    elif opname == "flipbool":
        node.value = not node.value
    elif opname == "int+1":
        node.value = node.value + 1
    elif opname == "int-1":
        node.value = node.value - 1
    elif opname == "bytes":
        node.value = bytes([(node.value[0] + 1) % 256]) + node.value[1:]
    elif opname == "negcond":
        node.test = ast.UnaryOp(op=ast.Not(), operand=node.test)
    elif opname == "slice":
        if node.lower is not None:
            node.lower = ast.BinOp(left=node.lower, op=ast.Add(), right=ast.Constant(value=1))
        else:
            node.upper = ast.BinOp(left=node.upper, op=ast.Sub(), right=ast.Constant(value=1))
    elif opname == "dropstmt":
        # find the parent body containing the node and replace by `pass`
        for parent in ast.walk(t):
            for field in ("body", "orelse", "finalbody"):
                body = getattr(parent, field, None)
                if isinstance(body, list):
                    for j, s in enumerate(body):
                        if s is node:
                            body[j] = ast.copy_location(ast.Pass(), node)
    if opname == "dropnot":
        class R(ast.NodeTransformer):
            def visit_UnaryOp(self, n):
                self.generic_visit(n)
                if n is node:
                    return n.operand
                return n

        t = R().visit(t)
        after = ast.unparse(node.operand)[:100]
    else:
        after = "pass" if opname == "dropstmt" else ast.unparse(node)[:100]
    ast.fix_missing_locations(t)
    return t, line, "%s  ==>  %s" % (before, after)


def sh(cmd, cwd=None, timeout=1800, env=None):
    # own process group, killed as a whole on timeout: a mutant that loops forever inside a pytest-xdist
    # worker must not survive the run (such orphans once kept the machine at load 100 for hours)
    import signal

    p = subprocess.Popen(cmd, shell=True, cwd=cwd, stdout=subprocess.PIPE, stderr=subprocess.STDOUT, text=True, env=env, start_new_session=True)
    try:
        out, _ = p.communicate(timeout=timeout)
        return p.returncode, out
    except subprocess.TimeoutExpired:
        try:
            os.killpg(p.pid, signal.SIGKILL)
        except OSError:
            pass
        out, _ = p.communicate()
        return 124, out or ""
    finally:
        try:
            os.killpg(p.pid, signal.SIGKILL)  # stragglers of a finished command (xdist workers of a killed pytest)
        except OSError:
            pass


_W = {}


def worker_init(base):
    pid = os.getpid()
    w = os.path.join(base, "w%d" % pid)
    os.makedirs(w, exist_ok=True)
    shutil.copytree(REPO, os.path.join(w, "repo"), symlinks=True)
    sh("git checkout -q -- . && git clean -fdq", cwd=os.path.join(w, "repo"))
    shutil.copytree(VERIF, os.path.join(w, "verif"), symlinks=True, ignore=shutil.ignore_patterns("replays", "seeded", ".git"))
    _W["repo"] = os.path.join(w, "repo")
    _W["verif"] = os.path.join(w, "verif")
    # warm the hypothesis example database so that the suite's own slow-generation health check does not flake
    sh("/venv/bin/python -m pytest -q -p no:cacheprovider -n 3 swh/model/tests/test_model.py", cwd=_W["repo"], timeout=900)


def run_one(job):
    fname, idx, opname, line, desc, src = job
    repo, verif = _W["repo"], _W["verif"]
    path = os.path.join(repo, "swh", "model", fname)
    orig = open(path).read()
    rec = {"file": fname, "line": line, "op": opname, "desc": desc}
    t0 = time.time()
    try:
        open(path, "w").write(src)
        rc, out = sh("/venv/bin/python -c 'import swh.model.model, swh.model.cli, swh.model.from_disk, swh.model.discovery, swh.model.toposort'", cwd=repo, timeout=120)
        if rc != 0:
            rec["status"] = "import-fails"
            return rec
        rc, out = sh("/venv/bin/python -m pytest -q -x -p no:cacheprovider -n 3 2>&1 | tail -3", cwd=repo, timeout=900)
        if "923 passed" not in out:
            # one retry when exactly the known flaky hypothesis tests are involved
            if "test_todict_inverse_fromdict" in out or "FailedHealthCheck" in out:
                rc, out = sh("/venv/bin/python -m pytest -q -x -p no:cacheprovider -n 3 2>&1 | tail -3", cwd=repo, timeout=900)
        if "923 passed" not in out:
            rec["status"] = "killed-by-suite"
            rec["suite_s"] = round(time.time() - t0, 1)
            return rec
        rec["suite_s"] = round(time.time() - t0, 1)
        env = dict(os.environ, VERIF_REPO=repo, VERIF_SCRATCH=os.path.dirname(repo))
        caught = []
        res = {}
        for prop in FILE_PROPS[fname]:
            rc, out = sh("./check %s quick" % prop, cwd=verif, timeout=1500, env=env)
            viol = [l for l in out.splitlines() if l.startswith("VIOLATION")]
            kinds = []
            for l in viol[:3]:
                for tok in l.split():
                    if tok.startswith("replay="):
                        try:
                            kinds.append(json.load(open(os.path.join(verif, tok[7:]))).get("kind"))
                        except Exception:
                            pass
            res[prop] = {"exit": rc, "violations": len(viol), "nofail": sum("no-failing-input-found" in l for l in viol), "kinds": kinds}
            if rc == 1 and viol:
                caught.append(prop)
                break  # one alarm is enough
            if rc not in (0, 1):
                res[prop]["tail"] = out[-300:]
        rec["checks"] = res
        rec["status"] = "caught" if caught else "survived"
        rec["caught_by"] = caught
        return rec
    finally:
        open(path, "w").write(orig)
        shutil.rmtree(os.path.join(verif, "replays"), ignore_errors=True)
        rec["wall_s"] = round(time.time() - t0, 1)


def main():
    args = sys.argv[1:]
    opt = {"--files": ",".join(FILE_PROPS), "--per-file": "40", "--workers": "4", "--seed": "1", "--out": os.path.join(SCRATCH, "mutation-results.jsonl")}
    only_list = "--list" in args
    args = [a for a in args if a != "--list"]
    for k, v in zip(args[::2], args[1::2]):
        opt[k] = v
    rng = random.Random(int(opt["--seed"]))
    jobs = []
    for fname in opt["--files"].split(","):
        src = open(os.path.join(REPO, "swh", "model", fname)).read()
        tree = ast.parse(src)
        pts = Points(tree).points
        if only_list:
            print(fname, len(pts))
            continue
        rng.shuffle(pts)
        n = 0
        seen = set()
        for idx, opname in pts:
            if n >= int(opt["--per-file"]):
                break
            try:
                t, line, desc = apply(tree, idx, opname)
                msrc = ast.unparse(t)
                compile(msrc, fname, "exec")
            except Exception:
                continue
            if msrc in seen or msrc == ast.unparse(tree):
                continue
            seen.add(msrc)
            jobs.append((fname, idx, opname, line, desc, msrc + "\n"))
            n += 1
    if only_list:
        return
    base = os.path.join(SCRATCH, "swhverif-mut-%d" % os.getpid())
    os.makedirs(base, exist_ok=True)
    print("%d mutants, %s workers, scratch %s" % (len(jobs), opt["--workers"], base), flush=True)
    out = open(opt["--out"], "a")
    tally = {}
    try:
        with multiprocessing.Pool(int(opt["--workers"]), initializer=worker_init, initargs=(base,)) as pool:
            for rec in pool.imap_unordered(run_one, jobs):
                out.write(json.dumps(rec) + "\n")
                out.flush()
                tally[rec["status"]] = tally.get(rec["status"], 0) + 1
                print("%-16s %s:%s %s | %s %s" % (rec["status"], rec["file"], rec["line"], rec["op"], rec["desc"][:90], rec.get("caught_by", "")), flush=True)
    finally:
        shutil.rmtree(base, ignore_errors=True)
    print("TALLY", json.dumps(tally))


if __name__ == "__main__":
    main()
