#!/usr/bin/env python3
"""Run the quick checks against behaviour-preserving patches (must stay quiet).

usage: eval_refactor.py <patch.diff> [...]      -- each patch is applied to a scratch copy of /repo
(outside /repo and /verif, removed afterwards), the checks of the properties anchored in the touched
files are run with VERIF_REPO pointing at the copy, and every VIOLATION line is reported.
exit 0: all quiet; 1: some check raised an alarm (to be analysed: is the patch really equivalent?)."""
import json
import os
import re
import shutil
import subprocess
import sys

HERE = os.path.dirname(os.path.abspath(__file__))
VERIF = os.path.dirname(os.path.dirname(HERE))
sys.path.insert(0, HERE)
from mutate import FILE_PROPS  # noqa: E402

SCRATCH = os.environ.get("VERIF_SCRATCH", "/dev/shm")


def sh(cmd, cwd=None, env=None, timeout=3000):
    p = subprocess.run(cmd, shell=True, cwd=cwd, env=env, stdout=subprocess.PIPE, stderr=subprocess.STDOUT, text=True, timeout=timeout)
    return p.returncode, p.stdout


def main():
    rc_all = 0
    for patch in sys.argv[1:]:
        patch = os.path.abspath(patch)
        files = re.findall(r"^\+\+\+ b/swh/model/(\S+)", open(patch).read(), re.M)
        props = []
        for f in files:
            for p in FILE_PROPS.get(f, []):
                if p not in props:
                    props.append(p)
        base = os.path.join(SCRATCH, "swhverif-refac-%d" % os.getpid())
        shutil.rmtree(base, ignore_errors=True)
        os.makedirs(base)
        repo = os.path.join(base, "repo")
        shutil.copytree("/repo", repo, symlinks=True)
        try:
            rc, out = sh("git checkout -q -- . && git apply " + patch, cwd=repo)
            if rc != 0:
                print("SKIP %s: does not apply: %s" % (patch, out[-200:]))
                continue
            env = dict(os.environ, VERIF_REPO=repo)
            alarms = []
            for p in props:
                rc, out = sh("./check %s quick" % p, cwd=VERIF, env=env)
                viol = [l for l in out.splitlines() if l.startswith("VIOLATION")]
                if rc != 0 or viol:
                    kinds = []
                    for l in viol[:3]:
                        for tok in l.split():
                            if tok.startswith("replay="):
                                try:
                                    rj = json.load(open(os.path.join(VERIF, tok[7:])))
                                    kinds.append((rj.get("kind"), (rj.get("what") or "")[:160]))
                                except Exception:
                                    pass
                    alarms.append((p, rc, kinds, out.splitlines()[-1][-160:] if out else ""))
            if alarms:
                rc_all = 1
                print("ALARM %s files=%s" % (patch, files))
                for a in alarms:
                    print("   ", a)
            else:
                print("quiet %s files=%s checks=%s" % (os.path.basename(os.path.dirname(os.path.dirname(patch))) + "/" + os.path.basename(patch), files, ",".join(props)))
        finally:
            shutil.rmtree(base, ignore_errors=True)
    sh("git checkout -- evidence", cwd=VERIF)
    return rc_all


if __name__ == "__main__":
    sys.exit(main())
