#!/bin/sh
# must-catch: every seeded change under seeded/*/ must make its property's quick check exit 1 with a
# VIOLATION line (on a scratch copy of /repo, outside /repo and /verif, removed afterwards)
here=$(cd "$(dirname "$0")" && pwd); verif=$(cd "$here/../.." && pwd)
scratch=${VERIF_SCRATCH:-/dev/shm}/swhverif-seeded-$$
rc=0
# VERIF_SHARD=i/n: only every n-th seeded change, starting with the i-th (several shards can run side by side)
shard_i=${VERIF_SHARD%/*}; shard_n=${VERIF_SHARD#*/}; k=0
for d in "$verif"/seeded/*/; do
  name=$(basename "$d")
  k=$((k+1)); if [ -n "$VERIF_SHARD" ] && [ $((k % shard_n)) -ne $((shard_i % shard_n)) ]; then continue; fi
  prop=$(python3 -c "import json,sys; print(json.load(open(sys.argv[1]))['property'])" "$d/meta.json")
  if python3 -c "import json,sys; sys.exit(0 if json.load(open(sys.argv[1])).get('obsolete') else 1)" "$d/meta.json"; then echo "skip $name (obsolete: no longer breaks the property on the current tree)"; continue; fi
  rm -rf "$scratch"; mkdir -p "$scratch"; cp -r /repo "$scratch/repo"
  if ! (cd "$scratch/repo" && git apply "$d/patch.diff" 2>/dev/null); then echo "SKIP $name (patch no longer applies)"; continue; fi
  out=$(cd "$verif" && VERIF_REPO="$scratch/repo" ./check $prop quick 2>&1); r=$?
  v=$(echo "$out" | grep -c '^VIOLATION')
  nf=$(echo "$out" | grep '^VIOLATION' | grep -vc 'no-failing-input-found')
  if [ $r -eq 1 ] && [ "$v" -gt 0 ]; then echo "caught $name by $prop (violations=$v, with concrete input=$nf)"; else echo "MISSED $name by $prop rc=$r"; rc=1; fi
done
rm -rf "$scratch"
[ -n "$VERIF_SHARD" ] || (cd "$verif" && git checkout -- evidence 2>/dev/null; rm -rf replays)
exit $rc
