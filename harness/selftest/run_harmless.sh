#!/bin/sh
# must-pass rewrites: each patch keeps every property; the named checks must exit 0 without VIOLATION
# usage: harness/selftest/run_harmless.sh            (scratch copy of /repo outside /repo and /verif, removed afterwards)
here=$(cd "$(dirname "$0")" && pwd); verif=$(cd "$here/../.." && pwd)
scratch=${VERIF_SCRATCH:-/dev/shm}/swhverif-harmless-$$
rc=0
run() { # patch checks...
  patch=$1; shift
  rm -rf "$scratch"; mkdir -p "$scratch"; cp -r /repo "$scratch/repo"
  (cd "$scratch/repo" && git apply "$here/harmless/$patch.patch") || { echo "cannot apply $patch"; rc=2; return; }
  for c in "$@"; do
    out=$(cd "$verif" && VERIF_REPO="$scratch/repo" ./check $c quick 2>&1); r=$?
    if [ $r -ne 0 ] || echo "$out" | grep -q '^VIOLATION'; then echo "FALSE-ALARM $patch $c rc=$r"; echo "$out" | tail -4; rc=1; else echo "ok $patch $c"; fi
  done
  rm -rf "$scratch"
}
run h02_list_sort C02 C06 C13 C19
run h03_escape_replace C03 C04 C15 C07
run h04_rstrip_zero_dot C16 C03 C04
run h05_invalidate_iterative C10 C14 C06 C13
run h06_toposort_list_queue C20
run h07_hex_method C08 C09 C07
run h08_discovery_sorted_pop C17
run h09_from_disk_bfs C06 C13 C18
run h10_dup_check_counter C19 C02 C12
run h11_snapshot_sort_key C05 C07
run h12_fstrings C01 C02 C05
run h13_toposort_lifo C20
run h01_block_size_4096 C01 C06
# regenerate the tables from the real repository again
(cd "$verif" && /venv/bin/python harness/gen_tables.py >/dev/null && cd lean && lake build >/dev/null 2>&1)
(cd "$verif" && git checkout -- evidence 2>/dev/null; rm -rf replays)
exit $rc
