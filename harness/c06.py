"""C06 — a directory read from disk gets the id git gives the same tree."""
from __future__ import annotations

import os
import random
import stat

import fs_common as fs
from common import ImplementationHang, hx, unhx

REQUIRED = [
    "Swh.C06.readNode_order_indep",
    "Swh.C06.readTree_order_indep",
    "Swh.C06.rootId_order_indep",
    "Swh.C06.readNode_modes",
    "Swh.C06.symlink_not_followed",
    "Swh.C06.readNode_dir_entries",
    "Swh.C06.normalizeTop_slashes",
    "Swh.C06.nested_lookup",
    "Swh.C06.pruneEmpty_git",
    "Swh.C06.walk_eq_recursive",
]
RULE = (
    "generated trees (depth <=4, fan-out <=6; names: non-UTF-8, spaces, newlines, names colliding with directory order; "
    "file sizes around the 32768-byte read block; many permission patterns; dangling/absolute/relative symlinks, "
    "symlinks to directories, fifos, empty directories) materialised in a scratch area; os.scandir returns a "
    "PRNG-shuffled listing; path given with 0-3 trailing slashes, absolute and relative; library and `swh identify` "
    "(plain and --recursive); non-trivial = tree with >=1 sub-directory and >=2 entries; distinct by canonical JSON"
)
ASSUMPTIONS = [
    "OS semantics of lstat/readlink/scandir (what is followed) are trusted; unreadable files, races and crashes are "
    "outside the property",
    "the model receives the tree as data (FsNode): what the harness wrote to disk, in the shuffled listing order",
]
TRUSTED = ["the operating system's file API", "git 2.39.5 (oracle: add -A && write-tree)", "click CliRunner"]


def generate(ctx):
    rng = ctx.rng
    cases = []
    for i in range(ctx.budget(70, 1200)):
        spec = fs.gen_tree(rng, max_depth=rng.choice([1, 2, 3, 4]), fanout=rng.choice([2, 4, 6]), specials=(i % 3 != 0), big=(i % 4 == 0))
        # directories that are empty only recursively (several chains of nested empty directories)
        for k in range(rng.choice([0, 0, 1, 2, 3])):
            node = {"t": "dir", "entries": []}
            for lvl in range(rng.choice([1, 2, 3])):
                node = {"t": "dir", "entries": [[hx(b"l%d" % lvl), node]]}
            spec["entries"].append([hx(b"chain%d" % k), node])
        cases.append({"tree": spec, "slashes": rng.choice([0, 0, 1, 2, 3]), "relative": rng.random() < 0.3, "listing_seed": rng.randrange(2**31), "git": i % 3 == 0,
                      # the name of the tree itself means nothing to the library or the command line
                      "top": rng.choice(["top"] * 6 + ["~", "~root", "$HOME", "top dir", "*", "#x", "a;b", "%s", "{0}"])})
    # fixed shapes, in every run: a directory named like the root nested below it, holding an empty
    # directory, next to a non-empty directory of the same relative name one level up; read through
    # every spelling of the root
    F = lambda seed, size=3: {"t": "file", "mode": 0o644, "seed": seed, "size": size}
    D = lambda *ents: {"t": "dir", "entries": [[hx(n), c] for n, c in ents]}
    selfname = D((b"pkg", D((b"top", D((b"data", D()), (b"keep", F(1)))), (b"data", D((b"f", F(2)))))), (b"top", D((b"top", D((b"e", D()))), (b"x", F(3)))), (b"README", F(4, 10)))
    for rel in (True, False):
        for sl in (0, 1, 2):
            cases.append({"tree": selfname, "slashes": sl, "relative": rel, "listing_seed": rng.randrange(2**31), "git": sl == 0})
    # empty and non-empty directories next to names that extend theirs with a byte below '/' (git sorts a
    # directory as if its name ended in '/', whether it is empty or not), at the top and one level down
    twins = D((b"logs", D()), (b"logs.txt", F(5)), (b"logs-old", D()), (b"logs 1", F(6)), (b"logs+", D((b"k", F(7)))),
              (b"sub", D((b"x", D()), (b"x.c", F(8)), (b"x-", D()))), (b"sub.d", F(9)))
    for rel, sl in ((True, 0), (False, 1)):
        cases.append({"tree": twins, "slashes": sl, "relative": rel, "listing_seed": rng.randrange(2**31), "git": False})
    # depth: a chain of 300 nested one-letter directories with a file at the bottom (a path of 600 bytes)
    cases.append({"deep_chain": 300, "tree": {"t": "dir", "entries": []}, "slashes": 0, "relative": False, "listing_seed": 1, "git": False})
    # ... and under names a shell (not the library, not the command) would expand
    for top, sl in (("~", 0), ("~", 1), ("~root", 0), ("$HOME", 0), ("*", 2)):
        cases.append({"tree": selfname, "slashes": sl, "relative": True, "listing_seed": rng.randrange(2**31), "git": False, "top": top})
    return cases


def model_tree(spec, order_rng=None):
    """FsNode JSON with full st_mode, children in (optionally shuffled) listing order"""
    t = spec["t"]
    if t == "file":
        return {"t": "file", "mode": stat.S_IFREG | spec["mode"], "data": hx(fs.file_bytes(spec))}
    if t == "link":
        return {"t": "link", "target": spec["target"]}
    if t == "special":
        return {"t": "special", "mode": stat.S_IFIFO | spec["mode"]}
    ents = [[n, model_tree(c, order_rng)] for n, c in spec["entries"]]
    if order_rng is not None:
        order_rng.shuffle(ents)
    return {"t": "dir", "entries": ents}


def observe(d, spec):
    """path -> (kind, id hex, perms) through the public lookup d[b'a/b']"""
    out = {}
    for p, node in fs.walk(spec):
        n = d[p]
        if (n.object_type == "directory") != (node["t"] == "dir"):
            raise KeyError("node %r has the wrong kind" % p)
        if n.object_type == "directory":
            out[hx(p)] = ["directory", n.hash.hex(), 0o040000]
        else:
            out[hx(p)] = ["content", n.hash.hex(), int(n.data["perms"])]
    return out


def check_cases(ctx, cases):
    from click.testing import CliRunner

    from swh.model import from_disk
    from swh.model.cli import identify
    from swh.model.from_disk import Directory

    reqs = []
    impls = []
    # (a small home directory for the duration of the check: should anything expand "~", it lands there and not
    # in the real one, which may be large)
    import shutil

    from common import scratch_dir

    _home = scratch_dir("c06home")
    with open(os.path.join(_home, "in-home"), "w") as _fh:
        _fh.write("home\n")
    _old_home = os.environ.get("HOME")
    os.environ["HOME"] = _home
    try:
        return _check_cases(ctx, cases, reqs, impls, CliRunner, from_disk, identify, Directory)
    finally:
        if _old_home is None:
            os.environ.pop("HOME", None)
        else:
            os.environ["HOME"] = _old_home
        shutil.rmtree(_home, ignore_errors=True)


def _check_cases(ctx, cases, reqs, impls, CliRunner, from_disk, identify, Directory):
    for ci, case in enumerate(cases):
        if case.get("deep_chain"):
            deep_chain(ctx, case, Directory, CliRunner, identify)
            impls.append(None)
            reqs.extend([{"op": "ping"}] * 2)
            continue
        spec = case["tree"]
        nsub = sum(1 for p, n in fs.walk(spec) if n["t"] == "dir") - 1
        ctx.case(case, nontrivial=nsub >= 1 and len(spec["entries"]) >= 2)
        ctx.count("subdirs=%d" % min(nsub, 9))
        for p, n in fs.walk(spec):
            ctx.count("node=" + n["t"])
        lrng = random.Random(case["listing_seed"])
        with fs.scratch_tree(spec, "c06", top=case.get("top", "top").encode()) as root:
            spelled = root + b"/" * case["slashes"]
            cwd = os.getcwd()
            try:
                if case["relative"]:
                    os.chdir(os.path.dirname(root))
                    spelled = os.path.basename(root) + b"/" * case["slashes"]
                try:
                    with fs.shuffled_scandir(lrng), ctx.time_limit(60):
                        d = Directory.from_disk(path=spelled)
                    obs = observe(d, spec)
                except (KeyError, ValueError, AttributeError, OSError, TypeError, RecursionError, ImplementationHang) as e:
                    ctx.fail(case, f"reading the tree, or looking a node up by its path in the result, fails: {type(e).__name__}: {str(e)[:200]}", "read-or-lookup-fails:" + type(e).__name__)
                    impls.append(None)
                    reqs.append({"op": "ping"})
                    reqs.append({"op": "ping"})
                    os.chdir(cwd)
                    continue
                top_path = d.data["path"]
                # ---------------- oracle: git's rules, independent of swh.model
                want = {hx(p): [k, i.hex(), perms] for p, (k, i, perms) in fs.expected_ids(spec).items()}
                if obs != want:
                    bad = [p for p in want if obs.get(p) != want[p]]
                    ctx.fail(case, "a node's id/mode is not git's (blob of bytes / link text / empty for special; 100755 iff an execute bit; trees incl. empty ones)", "node-id-not-git", {"paths": bad[:5], "got": [obs.get(p) for p in bad[:3]], "want": [want[p] for p in bad[:3]]})
                if str(d.swhid()) != "swh:1:dir:" + want[""][1]:
                    ctx.fail(case, "root swhid() does not carry the git tree id", "root-swhid")
                # a spelling of the same directory that goes through a symbolic link and back up with "..":
                # the operating system resolves the link first, so textual normalisation is not enough
                if ci % 3 == 0:
                    base_ = os.path.dirname(root)
                    os.makedirs(os.path.join(base_, b"d1", b"d2"), exist_ok=True)
                    ln = os.path.join(base_, b"ln")
                    if not os.path.lexists(ln):
                        os.symlink(os.path.join(b"d1", b"d2"), ln)
                    via = os.path.join(base_, b"ln", b"..", b"..", os.path.basename(root)) + b"/" * case["slashes"]
                    try:
                        with ctx.time_limit(60):
                            dv = Directory.from_disk(path=via)
                        ctx.count("via-symlink-dotdot")
                        if dv.hash != d.hash:
                            ctx.fail(case, "the same directory reached through `link/../..` gets another id", "order-or-spelling-dependent:symlink-dotdot", {"impl": dv.hash.hex(), "want": d.hash.hex()})
                    except (OSError, KeyError, ValueError, ImplementationHang) as e:
                        ctx.fail(case, f"the same directory reached through `link/../..` cannot be read: {type(e).__name__}", "read-or-lookup-fails:symlink-dotdot")
                # listing order and spelling must not matter (nor being watched through a progress callback)
                seen_entries = []
                with fs.shuffled_scandir(random.Random(case["listing_seed"] + 1)):
                    d2 = Directory.from_disk(path=root, progress_callback=seen_entries.append)
                if d2.hash != d.hash:
                    ctx.fail(case, "root id depends on the listing order or on trailing slashes / relative spelling", "order-or-spelling-dependent")
                # the tree changes and is read again by the same process: a regular file is rewritten in
                # place (same length, same inode, modification time put back) — the second read gives
                # the id of what is on disk now, not of what was there before
                regs = [(p, n) for p, n in fs.walk(spec) if n["t"] == "file" and n["size"] > 0]
                if regs and ci % 2 == 0:
                    p_, n_ = regs[case["listing_seed"] % len(regs)]
                    fp = os.path.join(root, p_)
                    st = os.lstat(fp)
                    n_["flip"] = True
                    try:
                        os.chmod(fp, st.st_mode | 0o200)
                        with open(fp, "r+b") as fh:
                            fh.write(fs.file_bytes(n_))
                        os.chmod(fp, stat.S_IMODE(st.st_mode))
                        os.utime(fp, ns=(st.st_atime_ns, st.st_mtime_ns))
                        with ctx.time_limit(60):
                            d5 = Directory.from_disk(path=spelled)
                        want5 = fs.expected_ids(spec)[b""][1]
                        ctx.count("rescan-after-rewrite")
                        if d5.hash != want5:
                            ctx.fail(case, "after a file was rewritten in place (same size, same modification time) a second read in the same process does not give the id of the tree now on disk", "rescan-stale", {"path": hx(p_), "impl": d5.hash.hex(), "want": want5.hex(), "first_read": d.hash.hex()})
                    finally:
                        n_.pop("flip", None)
                        with open(fp, "r+b") as fh:
                            fh.write(fs.file_bytes(n_))
                        os.utime(fp, ns=(st.st_atime_ns, st.st_mtime_ns))
                # command line
                runner = CliRunner()
                arg = os.fsdecode(spelled)
                try:
                    arg.encode("utf-8")
                    with ctx.time_limit(60):   # (the repeating alarm gets through click's own exception handling)
                        r = runner.invoke(identify, ["--no-filename", arg])
                    if r.exit_code != 0 or r.stdout.strip() != "swh:1:dir:" + want[""][1]:
                        ctx.fail(case, "swh identify prints another id than the library", "cli-differs", {"output": r.output[:200]})
                    ctx.count("cli")
                except UnicodeEncodeError:
                    pass
                # ignoring empty directories == the tree without (recursively) empty directories, by git's rules
                # (through the same spelling of the path: relative or absolute, with its trailing slashes)
                try:
                    with ctx.time_limit(60):
                        d4 = Directory.from_disk(path=spelled, path_filter=from_disk.ignore_empty_directories)
                except (KeyError, ValueError, OSError, TypeError, ImplementationHang) as e:
                    ctx.fail(case, f"reading with empty directories ignored raises {type(e).__name__}: {str(e)[:200]}", "ignore-empty-raises:" + type(e).__name__)
                    d4 = None
                want4 = fs.expected_ids(fs.prune_empty(spec))[b""][1]
                if d4 is not None and d4.hash != want4:
                    ctx.fail(case, "ignoring empty directories does not give the id of the tree without its (recursively) empty directories", "ignore-empty-differs", {"impl": d4.hash.hex(), "want": want4.hex()})
                # git itself, on the subset it can express
                if case["git"] or ctx.tier == "thorough":
                    if fs.git_expressible(spec) and not any(p.split(b"/")[-1].lower().startswith(b".git") for p, _ in fs.walk(spec)):
                        gid = fs.git_write_tree(root)
                        d3 = Directory.from_disk(path=root, path_filter=from_disk.ignore_empty_directories)
                        ctx.count("git-write-tree")
                        if gid is not None and gid != d3.hash:
                            ctx.fail(case, "ignoring empty directories does not give the id of `git add -A && git write-tree`", "git-write-tree-differs", {"git": gid.hex(), "impl": d3.hash.hex()})
            finally:
                os.chdir(cwd)
        impls.append((obs, top_path, spelled))
        reqs.append({"op": "fs_read", "tree": model_tree(spec, random.Random(case["listing_seed"])), "filter": {"kind": "acceptAll"}, "max_len": None, "as_coded": ci % 2 == 0})
        reqs.append({"op": "fs_normalize", "path": hx(spelled)})
    res = ctx.model(reqs)
    for ci, case in enumerate(cases):
        r, rn = res[2 * ci], res[2 * ci + 1]
        if impls[ci] is None:
            continue
        obs, top_path, spelled = impls[ci]
        if "error" in r or "error" in rn:
            if ctx.model_available:
                ctx.disagree(case, "model driver error", model=[r, rn])
            continue
        m = r["r"]
        if "err" in m:
            ctx.disagree(case, "model reader fails where the implementation succeeds", model=m["err"])
            continue
        mobs = {hx(b"/".join(unhx(c) for c in p)): [k, i, perms] for p, k, i, perms in m["nodes"]}
        if mobs != obs:
            bad = [p for p in set(mobs) | set(obs) if mobs.get(p) != obs.get(p)]
            ctx.disagree(case, "per-node (kind, id, mode): model vs implementation", model=[mobs.get(p) for p in bad[:3]], impl=[obs.get(p) for p in bad[:3]])
        if unhx(rn["r"]["path"]) != top_path:
            ctx.disagree(case, "normalised top path: model vs implementation", model=rn["r"]["path"], impl=hx(top_path))


def deep_chain(ctx, case, Directory, CliRunner, identify):
    """a tree much deeper than it is wide: ids computed bottom-up with hashlib, without recursion"""
    import hashlib
    import shutil

    from common import scratch_dir

    depth = case["deep_chain"]
    ctx.case(case)
    ctx.count("deep-chain")
    base = scratch_dir("c06deep").encode()
    try:
        top = os.path.join(base, b"top")
        path = top
        for k in range(depth):
            path = os.path.join(path, b"abcdefg"[k % 7 : k % 7 + 1])
        os.makedirs(path)
        data = b"at the bottom\n"
        with open(os.path.join(path, b"f"), "wb") as fh:
            fh.write(data)
        tree = lambda body: hashlib.sha1(b"tree %d\x00" % len(body) + body).digest()
        cur = tree(b"100644 f\x00" + hashlib.sha1(b"blob %d\x00" % len(data) + data).digest())
        for k in reversed(range(depth)):
            cur = tree(b"40000 " + b"abcdefg"[k % 7 : k % 7 + 1] + b"\x00" + cur)
        try:
            with ctx.time_limit(120):
                d = Directory.from_disk(path=top)
                got = d.hash
        except (RecursionError, OSError, ValueError, KeyError, ImplementationHang) as e:
            ctx.fail(case, f"a tree {depth} directories deep cannot be read: {type(e).__name__}", "read-or-lookup-fails:deep-chain")
            return
        if got != cur:
            ctx.fail(case, f"the root id of a tree {depth} directories deep is not git's tree id", "root-id-not-git:deep-chain", {"impl": got.hex(), "want": cur.hex()})
        with ctx.time_limit(120):
            r = CliRunner().invoke(identify, ["--no-filename", os.fsdecode(top)])
        if r.exit_code != 0 or r.stdout.strip() != "swh:1:dir:" + cur.hex():
            ctx.fail(case, f"swh identify on a tree {depth} directories deep prints another id than git's (or fails)", "cli-differs:deep-chain", {"output": r.output[:200]})
    finally:
        shutil.rmtree(base, ignore_errors=True)


def neighbours(ctx, case):
    spec = case["tree"]
    out = []
    for i in range(len(spec["entries"])):
        t2 = {"t": "dir", "entries": spec["entries"][:i] + spec["entries"][i + 1 :]}
        out.append(dict(case, tree=t2))
    for s in (0, 1, 3):
        out.append(dict(case, slashes=s))
    return out


def shrink(ctx, failure):
    from common import Ctx

    case = failure["case"]
    kind = failure["kind"]

    def fails(c):
        c2 = Ctx(ctx.prop, ctx.tier, ctx.seed)
        c2.model_available = False
        try:
            check_cases(c2, [c])
        except Exception:
            return False
        return any(f["kind"] == kind for f in c2.failures)

    def shrink_dir(path):
        nonlocal case
        changed = True
        while changed:
            changed = False
            node = case["tree"]
            for k in path:
                node = node["entries"][k][1]
            for i in range(len(node["entries"])):
                import copy

                cand = copy.deepcopy(case)
                n2 = cand["tree"]
                for k in path:
                    n2 = n2["entries"][k][1]
                del n2["entries"][i]
                if fails(cand):
                    case = cand
                    changed = True
                    break
        node = case["tree"]
        for k in path:
            node = node["entries"][k][1]
        for i, (_, c) in enumerate(node["entries"]):
            if c["t"] == "dir":
                shrink_dir(path + [i])

    shrink_dir([])
    return case
