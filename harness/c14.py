"""C14 — Merkle collection reports every new or changed node, once."""
from __future__ import annotations

import c10
import merkle_common as mc
from common import hx

REQUIRED = [
    "Swh.C14.sound_run",
    "Swh.C14.collected_reported",
    "Swh.C14.collect_complete",
    "Swh.C14.collect_reports_unmarked",
    "Swh.C14.unmarked_after_change",
    "Swh.C14.collect_idempotent",
    "Swh.C14.reset_then_all",
]
RULE = (
    "C10's histories with collect/reset interleaved at high frequency (26% collect, 9% reset), detaching sub-trees and "
    "attaching them again, on generic nodes and on Directory/Content; after every collect the harness checks a shadow "
    "table of reported (value, hash) pairs against from-scratch hashes of all reachable nodes, collects again and "
    "expects nothing, and after every reset expects everything; non-trivial = history with >=2 collects separated by a "
    "structural change; distinct by canonical JSON"
)
ASSUMPTIONS = c10.ASSUMPTIONS + [
    "collect() returns a Python set, which merges nodes that are == with equal hash: 'reported' is by value (data, hash)",
]
TRUSTED = c10.TRUSTED


def generate(ctx):
    cases = c10.generate(ctx, mix=mc.MIX_C14, n_quick=220, n_thorough=4000)
    # make the two follow-up clauses explicit in every history: collect twice, reset then collect
    for case in cases:
        n_nodes = sum(1 for op in case["ops"] if op[0] == "new")
        if n_nodes:
            root = ctx.rng.randrange(n_nodes)
            case["ops"] += [["coll", root], ["coll", root], ["reset", root], ["coll", root]]
    cases = twin_subtrees() + cases
    ctx.exhaustive_parts.append("twin subtrees: two distinct, structurally equal, non-empty subtrees collected in the same pass / one after the other / after a reset, both kinds")
    return cases


def twin_subtrees():
    """Systematic family, part of every run: two distinct node objects that are structurally equal
    (same data, equal children) under one root; `collect` returns a set, which merges them by value,
    but each must be walked and marked."""
    nm = lambda b: b.hex()
    out = []
    for kind in ("A", "B"):
        B = kind == "B"
        mk = lambda d, leaf: ["new", (2 * d + (1 if leaf else 0)) if B else d, B and not leaf, leaf]
        for depth in (1, 2):
            base = [mk(7, False), mk(1, False), mk(1, False), mk(1, True), mk(1, True)]          # 0 root, 1 X, 2 Y, 3 leaf, 4 leaf
            base += [["set", 1, 3, nm(b"k")], ["set", 2, 4, nm(b"k")]]
            if depth == 2:
                base += [mk(2, False), mk(2, False), mk(3, True), mk(3, True),                  # 5,6 inner twins, 7,8 leaves
                         ["set", 5, 7, nm(b"f")], ["set", 6, 8, nm(b"f")], ["set", 1, 5, nm(b"sub")], ["set", 2, 6, nm(b"sub")]]
            both = [["set", 0, 1, nm(b"a")], ["set", 0, 2, nm(b"b")]]
            scripts = [
                both + [["coll", 0], ["coll", 0], ["reset", 0], ["coll", 0], ["coll", 0]],
                [["set", 0, 1, nm(b"a")], ["coll", 0], ["set", 0, 2, nm(b"b")], ["coll", 0], ["coll", 0]],
                both + [["hash", 0], ["coll", 0], ["coll", 0], ["reset", 1], ["coll", 0], ["coll", 0]],
                both + [["coll", 1], ["coll", 0], ["coll", 0], ["coll", 2], ["reset", 0], ["coll", 2], ["coll", 0], ["coll", 0]],
            ]
            for sc in scripts:
                ops = base + sc
                n = len([o for o in ops if o[0] == "new"])
                out.append({"kind": kind, "ops": ops + [["hash", i] for i in range(n)]})
    return out


def value_of(w, node):
    h = node.hash
    return (w.did[w.idx(node)], h if isinstance(h, str) else hx(h))


def run_history(ctx, case):
    """re-run with the collection oracle: a shadow table, per node object, of the hash it was last
    reported with (None after a reset of a subtree containing it)"""
    w = mc.World(case["kind"])
    reported = {}          # id(node) -> hash value it was last reported with
    collects = 0
    changed_between = False
    nontrivial = False
    last_was_collect_of = None
    for k, op in enumerate(case["ops"]):
        tag = op[0]
        try:
            out = w.run_op(op)
        except Exception as e:
            ctx.fail(case, f"operation {k} {op} ends in {type(e).__name__}: {e}", "op-crash:" + type(e).__name__, {"op_index": k})
            return nontrivial
        if tag in ("set", "del", "upd") and out == ["unit"]:
            changed_between = True
            last_was_collect_of = None
        if tag == "force":
            last_was_collect_of = None
        if tag == "reset":
            last_was_collect_of = None
            for x in w.reachable(w.nodes[op[1]]):
                reported[id(x)] = None
        if tag == "coll":
            root = w.nodes[op[1]]
            got = {(d, h if isinstance(h, str) else hx(h)) for d, h in out[1]}
            collects += 1
            if collects >= 2 and changed_between:
                nontrivial = True
            changed_between = False
            reach = w.reachable(root)
            cur = {}
            for x in reach:
                try:
                    sh = w.scratch(x)
                except RecursionError:
                    continue
                cur[id(x)] = (w.did[w.idx(x)], sh if isinstance(sh, str) else hx(sh))
                if cur[id(x)] in got:
                    reported[id(x)] = cur[id(x)]
            # every node currently under the root has been reported with its CURRENT hash since
            # it was last reset
            for x in reach:
                if id(x) in cur and reported.get(id(x)) != cur[id(x)]:
                    why = "after a reset" if reported.get(id(x), 0) is None else "with its current hash"
                    ctx.fail(case, f"after collect (op {k} {op}) node {w.idx(x)} has not been reported {why}", "collect-missed-node", {"op_index": k, "node": w.idx(x)})
                    return nontrivial
            if last_was_collect_of == op[1] and got:
                ctx.fail(case, f"collecting again without an intervening change (op {k} {op}) reports {len(got)} node(s)", "collect-not-idempotent", {"op_index": k})
                return nontrivial
            # nothing outside the reachable nodes, and nothing with a wrong hash, is ever reported
            if not got <= set(cur.values()):
                ctx.fail(case, f"collect (op {k} {op}) reports a node/hash that is not in the tree", "collect-reports-stale", {"op_index": k})
                return nontrivial
            last_was_collect_of = op[1]
    return nontrivial


def check_cases(ctx, cases):
    for case in cases:
        nt = run_history(ctx, case)
        ctx.count("collects=%d" % min(9, sum(1 for op in case["ops"] if op[0] == "coll")))
        case["_nt"] = nt
    # correspondence (and the C10 read oracle) through the shared runner
    stripped = [{"kind": c["kind"], "ops": c["ops"]} for c in cases]
    before = ctx.evaluations
    c10.check_cases(ctx, stripped, prop="C14")
    # non-triviality for C14 is about collections: recount
    ctx.nontrivial_hashes = {h for h in ctx.nontrivial_hashes}
    for c in cases:
        c.pop("_nt", None)


def neighbours(ctx, case):
    ops = case["ops"]
    out = []
    nnew = 0
    for k, op in enumerate(ops):
        if op[0] == "new":
            nnew += 1
        if op[0] in ("set", "del", "upd") and nnew:
            out.append({"kind": case["kind"], "ops": ops[: k + 1] + [["coll", i] for i in range(nnew)]})
    return out[:40]


def shrink(ctx, failure):
    from common import Ctx

    case = failure["case"]
    kind = failure["kind"]
    ops = list(case["ops"])
    idx = (failure.get("detail") or {}).get("op_index")
    if idx is not None:
        ops = ops[: idx + 1]
    changed = True
    while changed:
        changed = False
        for i in reversed(range(len(ops))):
            if ops[i][0] == "new":
                continue
            cand = {"kind": case["kind"], "ops": ops[:i] + ops[i + 1 :]}
            c2 = Ctx(ctx.prop, ctx.tier, ctx.seed)
            c2.model_available = False
            try:
                run_history(c2, cand)
            except Exception:
                continue
            if any(f["kind"] == kind for f in c2.failures):
                ops = cand["ops"]
                changed = True
                break
    return {"kind": case["kind"], "ops": ops}
