"""C13 — filtering and exporting an on-disk tree is consistent and closed."""
from __future__ import annotations

import fnmatch
import hashlib
import os
import random

import c06
import fs_common as fs
from common import hx, unhx, time_limit

REQUIRED = [
    "Swh.C13.filter_eq_prune",
    "Swh.C13.filter_named_eq_prune",
    "Swh.C13.filter_empty_eq_prune",
    "Swh.C13.filter_both_eq_prune",
    "Swh.C13.filter_eq_prune_lookup",
    "Swh.C13.top_never_filtered",
    "Swh.C13.export_closed",
    "Swh.C13.export_unique_ids",
    "Swh.C13.export_check",
    "Swh.C13.content_data",
    "Swh.C13.skipped_content",
    "Swh.C13.skipped_keeps_dir_ids",
]
RULE = (
    "C06's trees x {no filter, ignore-empty, ignore-named (case-sensitive or not) with name lists drawn from the names "
    "present and their case variants, named-then-empty, glob exclusion patterns of the forms name, *.ext, pre*, .*, a/b} "
    "x max_content_length in {None, 0, each file size +-1, below the longest link text}; each read is compared with the "
    "same reader run on a physically pruned copy; non-trivial = the filter removes at least one directory or the limit "
    "skips at least one file; distinct by canonical JSON"
)
ASSUMPTIONS = [
    "glob patterns are outside the Lean model (os.path/fnmatch/glob): that stream is decided by the pruned-copy oracle only",
    "generated file names are chosen so that no FILE matches a generated pattern (the statement only speaks of directories)",
    "a symbolic link whose text is longer than the size limit makes the reader raise, deliberately (comment in the code); "
    "the model returns the corresponding error",
]
TRUSTED = ["the operating system's file API", "fnmatch/glob (pattern stream)"]


def gen_filter(rng, spec):
    dnames = fs.dir_names(spec)
    r = rng.random()
    if r < 0.12:
        return {"kind": "acceptAll"}
    if r < 0.32:
        return {"kind": "ignoreEmpty"}
    if r < 0.75 and True:
        k = rng.randrange(0, 4)
        names = [rng.choice(dnames) for _ in range(k)] if dnames else []
        cs = rng.random() < 0.5
        out = []
        for n in names:
            rr = rng.random()
            out.append(n.upper() if rr < 0.25 else n.lower() if rr < 0.5 else n)
        out += [rng.choice([b"nomatch", b"build", b"BUILD", b"Sub"])] if rng.random() < 0.4 else []
        # names that only a text-based comparison would identify with a directory of the tree: one
        # byte >= 0x80 changed (undecodable bytes all look alike once decoded with errors replaced), or
        # the other case of a non-ASCII letter (bytes.lower() folds ASCII only)
        for n in names[:2]:
            hi = [i for i, c in enumerate(n) if c >= 0x80]
            if hi and rng.random() < 0.7:
                i = rng.choice(hi)
                out.append(n[:i] + bytes([n[i] ^ 0x01]) + n[i + 1 :])
        if dnames and rng.random() < 0.5:
            for n in dnames:
                if b"\xc3\xa9" in n:
                    out.append(n.replace(b"\xc3\xa9", b"\xc3\x89"))  # é -> É
                    break
        return {"kind": "ignoreNamed" if rng.random() < 0.6 else "namedThenEmpty", "names": [hx(n) for n in out], "cs": cs}
    # glob patterns
    pats = []
    for _ in range(rng.randrange(1, 3)):
        d = rng.choice(dnames) if dnames else b"x"
        ascii_ok = all(32 < c < 127 and c not in b"[]*?\\" for c in d)
        form = rng.choice(["name", "pre*", ".*", "*suf", "a/b", "*.ext"])
        if not ascii_ok:
            form = ".*" if form in ("name", "pre*", "*suf", "a/b") else form
        if form == "name":
            pats.append(d)
        elif form == "pre*":
            pats.append(d[:1] + b"*")
        elif form == "*suf":
            pats.append(b"*" + d[-1:])
        elif form == ".*":
            pats.append(b".*")
        elif form == "*.ext":
            pats.append(b"*.d")
        else:
            pats.append(b"sub/" + d)
    return {"kind": "patterns", "patterns": [hx(p) for p in pats]}


def keep_files_clear(spec, pats, rel=b""):
    """rename non-directories that a pattern would match (the statement speaks of directories only)"""
    used = {unhx(n) for n, _ in spec["entries"]}
    for ent in spec["entries"]:
        name = unhx(ent[0])
        p = name if not rel else rel + b"/" + name
        if ent[1]["t"] == "dir":
            if not any(fnmatch.fnmatchcase(p, pat) for pat in pats):
                keep_files_clear(ent[1], pats, p)
        else:
            k = 0
            while any(fnmatch.fnmatchcase(p, pat) for pat in pats) and k < 20:
                k += 1
                # (prefix and suffix vary with k: a pattern such as `*x` or `f*` must not match every attempt)
                name = (b"f%d_", b"%d-", b"q%d.", b"Z%d_")[k % 4] % k + unhx(ent[0]).lstrip(b".") + (b"_x", b"~", b"-0", b".q")[(k // 4) % 4]
                while name in used:
                    name += b"_"
                p = name if not rel else rel + b"/" + name
            used.add(name)
            ent[0] = hx(name)


def generate(ctx):
    rng = ctx.rng
    cases = []
    for i in range(ctx.budget(90, 1500)):
        spec = fs.gen_tree(rng, max_depth=rng.choice([1, 2, 3, 4]), fanout=rng.choice([2, 4, 5]), specials=(i % 3 != 0), big=(i % 5 == 0))
        # make sure emptiness matters: nest some empty / only-empty directories
        def chain(leaf, depth):
            node = leaf
            for k in range(depth):
                node = {"t": "dir", "entries": [[hx(b"lvl%d" % k), node]]}
            return node

        if rng.random() < 0.6:
            # directories that are empty only recursively (chains of 1-4 nested directories)
            spec["entries"].append([hx(b"e%d" % i), chain({"t": "dir", "entries": []}, rng.choice([0, 1, 2, 3]))])
        if rng.random() < 0.5:
            # a directory that becomes empty only once a named child is ignored, possibly deep
            named = {"t": "dir", "entries": [[hx(rng.choice([b"build", b"BUILD", b".hid"])), {"t": "dir", "entries": [[hx(b"m"), {"t": "file", "mode": 0o644, "seed": i, "size": 4}]]}]]}
            spec["entries"].append([hx(b"only"), chain(named, rng.choice([0, 1, 2]))])
        flt = gen_filter(rng, spec)
        if flt["kind"] == "patterns":
            keep_files_clear(spec, [unhx(p) for p in flt["patterns"]])
        sizes = sorted({n["size"] for p, n in fs.walk(spec) if n["t"] == "file"})
        links = [len(unhx(n["target"])) for p, n in fs.walk(spec) if n["t"] == "link"]
        r = rng.random()
        if r < 0.35 or not sizes:
            ml = None
        elif r < 0.45:
            ml = 0 if not links else max(links)
        elif r < 0.93:
            ml = max(0, rng.choice(sizes) + rng.choice([-1, 0, 1]))
            if links and ml < max(links):
                ml = max(links)
        else:
            ml = max(0, max(links) - 1) if links else 0  # below the longest link text: the reader raises
        cases.append({"tree": spec, "filter": flt, "max_len": ml, "listing_seed": rng.randrange(2**31)})
    return cases


def py_filter(flt, root):
    from swh.model import from_disk

    k = flt["kind"]
    if k == "acceptAll":
        return from_disk.accept_all_paths
    if k == "ignoreEmpty":
        return from_disk.ignore_empty_directories
    if k == "ignoreNamed":
        return from_disk.ignore_named_directories([unhx(n) for n in flt["names"]], case_sensitive=flt["cs"])
    if k == "namedThenEmpty":
        named = from_disk.ignore_named_directories([unhx(n) for n in flt["names"]], case_sensitive=flt["cs"])
        return lambda p, n, e: named(p, n, e) and from_disk.ignore_empty_directories(p, n, e)
    pats = [unhx(p) for p in flt["patterns"]]
    # every other pattern is given as an absolute path below the root (accepted, and made relative)
    pats = [os.path.join(os.path.abspath(root), p) if i % 2 else p for i, p in enumerate(pats)]
    return from_disk.ignore_directories_patterns(root, pats)


def pruned(spec, flt):
    k = flt["kind"]
    if k == "acceptAll":
        return spec
    if k == "ignoreEmpty":
        return fs.prune_empty(spec)
    if k in ("ignoreNamed", "namedThenEmpty"):
        names = [unhx(n) for n in flt["names"]]
        if flt["cs"]:
            drop = lambda n, node: n in names
        else:
            low = [x.lower() for x in names]
            drop = lambda n, node: n.lower() in low
        out = fs.prune_spec(spec, drop)
        return fs.prune_empty(out) if k == "namedThenEmpty" else out
    pats = [unhx(p) for p in flt["patterns"]]

    def prune(s, rel):
        out = []
        for name_hex, node in s["entries"]:
            name = unhx(name_hex)
            p = name if not rel else rel + b"/" + name
            if node["t"] == "dir":
                if any(fnmatch.fnmatchcase(p, pat) for pat in pats):
                    continue
                out.append([name_hex, prune(node, p)])
            else:
                out.append([name_hex, node])
        return {"t": "dir", "entries": out}

    return prune(spec, b"")


def export_obs(d):
    """the three exported lists, canonicalised, plus the per-object checks"""
    from swh.model import from_disk, model

    contents, skipped, directories = from_disk.iter_directory(d)
    problems = []
    out = {"contents": [], "skipped": [], "directories": []}
    for c in contents:
        try:
            c.check()
        except Exception as e:
            problems.append(("check-fails", "content %s: %s" % (c.sha1_git.hex(), e)))
        data = c.data
        if data is None:
            problems.append(("content-without-data", c.sha1_git.hex()))
            continue
        if hashlib.sha1(b"blob %d\x00" % len(data) + data).digest() != c.sha1_git or hashlib.sha1(data).digest() != c.sha1 or hashlib.sha256(data).digest() != c.sha256 or c.length != len(data):
            problems.append(("content-hash-wrong", c.sha1_git.hex()))
        out["contents"].append([c.sha1_git.hex(), c.length, hashlib.sha1(data).hexdigest()])
    for s in skipped:
        try:
            s.check()
        except Exception as e:
            problems.append(("check-fails", "skipped %s: %s" % (s.sha1_git.hex(), e)))
        out["skipped"].append([s.sha1_git.hex(), s.length])
    for x in directories:
        try:
            x.check()
        except Exception as e:
            problems.append(("check-fails", "directory %s: %s" % (x.id.hex(), e)))
        out["directories"].append([x.id.hex(), [[hx(e.name), e.type, int(e.perms), e.target.hex()] for e in x.entries]])
    # content data loaded lazily: whenever a content model object carries a loader, calling it gives
    # bytes that hash to the content's ids (also when the data is present already)
    for node in d.iter_tree(dedup=False):
        if node.object_type != "content":
            continue
        try:
            m = node.to_model()
        except Exception as e:
            problems.append(("to-model-fails", str(e)[:100]))
            continue
        loader = getattr(m, "get_data", None)
        if loader is None or not isinstance(m, model.Content):
            continue
        try:
            with time_limit(5):  # (a loader that follows a link to a named pipe blocks in open())
                lazy = loader()
        except Exception as e:
            problems.append(("lazy-data-raises", "%s: %s: %s" % (m.sha1_git.hex(), type(e).__name__, str(e)[:80])))
            continue
        if hashlib.sha1(b"blob %d\x00" % len(lazy) + lazy).digest() != m.sha1_git or (m.data is not None and m.data != lazy):
            problems.append(("lazy-data-wrong", m.sha1_git.hex()))
    ids = [c[0] for c in out["contents"]] + [s[0] for s in out["skipped"]] + [x[0] for x in out["directories"]]
    if len(ids) != len(set(ids)):
        problems.append(("export-duplicate-id", ""))
    have = set(ids)
    for x in out["directories"]:
        for e in x[1]:
            if e[3] not in have:
                problems.append(("export-not-closed", "entry %s of %s" % (e[0], x[0])))
                break
    return out, problems


def check_cases(ctx, cases):
    from swh.model.from_disk import Directory

    reqs = []
    impls = []
    for ci, case in enumerate(cases):
        spec, flt, ml = case["tree"], case["filter"], case["max_len"]
        want_spec = pruned(spec, flt)
        removed = sum(1 for _ in fs.walk(spec)) - sum(1 for _ in fs.walk(want_spec))
        skips = ml is not None and any(n["t"] == "file" and n["size"] > ml for p, n in fs.walk(want_spec))
        ctx.case(case, nontrivial=removed > 0 or skips)
        ctx.count("filter=" + flt["kind"])
        ctx.count("removed=%d" % min(removed, 5))
        ctx.count("max_len=" + ("none" if ml is None else "set"))
        link_too_long = ml is not None and any(n["t"] == "link" and len(unhx(n["target"])) > ml for p, n in fs.walk(spec))
        lrng = random.Random(case["listing_seed"])
        rec = {"error": None}
        with fs.scratch_tree(spec, "c13") as root, fs.cwd_guard():
            # one case in three goes through a relative spelling of the root (the working directory stays
            # there until the case is over: lazily loaded content data is read through that spelling)
            spelled = root
            if ci % 3 == 1:
                os.chdir(os.path.dirname(root))
                spelled = os.path.basename(root) + b"/" * (ci % 2)
                ctx.count("relative-root")
            elif ci % 3 == 2 and flt["kind"] != "patterns":
                # ... and one in three through a symbolic link and back up with "..": the operating system
                # resolves the link first, so the text of the path cannot be normalised without changing
                # what it names
                base_ = os.path.dirname(root)
                os.makedirs(os.path.join(base_, b"d1", b"d2"), exist_ok=True)
                os.symlink(os.path.join(b"d1", b"d2"), os.path.join(base_, b"ln"))
                spelled = os.path.join(base_, b"ln", b"..", b"..", os.path.basename(root)) + b"/" * (ci % 2)
                ctx.count("root-via-symlink-dotdot")
            try:
                with fs.shuffled_scandir(lrng), ctx.time_limit(60):
                    d = Directory.from_disk(path=spelled, path_filter=py_filter(flt, spelled), max_content_length=ml)
            except Exception as e:
                rec["error"] = str(e)
                d = None
            if d is None:
                if not (link_too_long and "Symlink too large" in rec["error"]):
                    ctx.fail(case, f"reading raises: {rec['error']}", "read-raises")
            else:
                if link_too_long and not any(n["t"] == "link" and len(unhx(n["target"])) > ml for p, n in fs.walk(want_spec)):
                    pass  # the long link sat in a removed directory
                try:
                    obs = c06.observe(d, want_spec)
                except (KeyError, ValueError, AttributeError) as e:
                    ctx.fail(case, f"a path that must survive the filter cannot be looked up in the result: {type(e).__name__}: {e}", "filter-removes-kept")
                    impls.append({"error": "lookup"})
                    reqs.append({"op": "ping"})
                    continue
                # paths that must be gone
                gone = [p for p, n in fs.walk(spec) if p and p not in {q for q, _ in fs.walk(want_spec)}]
                for p in gone[:50]:
                    try:
                        d[p]
                        ctx.fail(case, "a directory that the filter removes is still in the result", "filter-keeps-removed", {"path": hx(p)})
                        break
                    except (KeyError, ValueError):
                        pass
                try:
                    exp, problems = export_obs(d)
                except (OSError, ValueError, KeyError, TypeError, AttributeError) as e:
                    ctx.fail(case, f"exporting the tree that was read (contents with their data) raises {type(e).__name__}: {str(e)[:120]}", "export-raises:" + type(e).__name__)
                    exp, problems = None, []
                rec.update(obs=obs, export=exp)
                for k, what in problems:
                    ctx.fail(case, f"exported objects: {k} {what}", k)
                    break
                # ---------------- oracle: the same reader on a physically pruned copy
                with fs.scratch_tree(want_spec, "c13p") as root2:
                    d2 = Directory.from_disk(path=root2, max_content_length=ml)
                    obs2 = c06.observe(d2, want_spec)
                    d3 = Directory.from_disk(path=root2)
                    obs3 = c06.observe(d3, want_spec)
                if obs != obs2:
                    bad = [p for p in obs2 if obs.get(p) != obs2[p]]
                    ctx.fail(case, "reading with the filter differs from reading a physically pruned copy", "filter-differs-from-pruned-copy", {"paths": bad[:5]})
                if obs != obs3:
                    ctx.fail(case, "the size limit changes an id", "size-limit-changes-id")
                # independent ids too
                want = {hx(p): [k, i.hex(), perms] for p, (k, i, perms) in fs.expected_ids(want_spec).items()}
                if obs != want:
                    ctx.fail(case, "ids of the filtered tree are not git's ids of the pruned tree", "filtered-ids-not-git")
                # skipped contents: exactly the regular files above the limit, with their right length
                if ml is not None:
                    want_sk = sorted({(fs.expected_ids({"t": "dir", "entries": [[hx(b"x"), n]]})[b"x"][1].hex(), n["size"]) for p, n in fs.walk(want_spec) if n["t"] == "file" and n["size"] > ml})
                    got_sk = sorted((a, b) for a, b in exp["skipped"])
                    # a skipped file whose bytes are also the text of a symbolic link (never subject to the
                    # limit) has the id of that exported content and is de-duplicated away
                    link_ids = {hashlib.sha1(b"blob %d\x00" % len(unhx(n["target"])) + unhx(n["target"])).hexdigest() for p, n in fs.walk(want_spec) if n["t"] == "link"}
                    if not set(got_sk) <= set(want_sk) or {a for a, _ in want_sk} - {a for a, _ in got_sk} - link_ids:
                        ctx.fail(case, "files above the size limit are not exported as skipped contents with the right hashes/length", "skipped-wrong", {"got": got_sk[:4], "want": want_sk[:4]})
        if d is not None and "obs" not in rec:
            rec["error"] = "observation failed"
        impls.append(rec)
        if flt["kind"] == "patterns":
            reqs.append({"op": "ping"})
        else:
            reqs.append({"op": "fs_read", "tree": c06.model_tree(spec, random.Random(case["listing_seed"])), "filter": flt, "max_len": ml, "as_coded": ci % 2 == 0})
    res = ctx.model(reqs)
    for case, rec, r in zip(cases, impls, res):
        if case["filter"]["kind"] == "patterns" or rec.get("error") in ("lookup", "observation failed"):
            continue
        if "error" in r:
            if ctx.model_available:
                ctx.disagree(case, "model driver error", model=r)
            continue
        m = r["r"]
        if "err" in m:
            if rec["error"] is None:
                ctx.disagree(case, "model reader fails where the implementation succeeds", model=m["err"])
            elif m["err"] == "symlinkTooLarge" and "Symlink too large" not in rec["error"]:
                ctx.disagree(case, "different failure", model=m["err"], impl=rec["error"])
            continue
        if rec["error"] is not None:
            ctx.disagree(case, "implementation raises where the model succeeds", model="ok", impl=rec["error"])
            continue
        mobs = {hx(b"/".join(unhx(c) for c in p)): [("content" if k == "skipped" else k), i, perms] for p, k, i, perms in m["nodes"]}
        if mobs != rec["obs"]:
            bad = [p for p in set(mobs) | set(rec["obs"]) if mobs.get(p) != rec["obs"].get(p)]
            ctx.disagree(case, "per-node (kind, id, mode) after filtering: model vs implementation", model=[[p, mobs.get(p)] for p in bad[:3]], impl=[[p, rec["obs"].get(p)] for p in bad[:3]])
            continue
        me = {
            "contents": sorted([c[0], c[1], c[2]] for c in m["contents"]),
            "skipped": sorted([s[0], s[1]] for s in m["skipped"]),
            "directories": sorted([x[0], x[1]] for x in m["directories"]),
        }
        if rec["export"] is None:
            continue  # (the export raised: reported above)
        ie = {k: sorted(v) for k, v in rec["export"].items()}
        if me != ie:
            which = [k for k in me if me[k] != ie[k]]
            ctx.disagree(case, "exported object lists: model vs implementation (%s)" % ",".join(which), model={k: me[k][:3] for k in which}, impl={k: ie[k][:3] for k in which})
        elif not all(c[3] for c in m["contents"]) or not all(x[2] for x in m["directories"]):
            ctx.disagree(case, "model-level integrity check fails on an exported object")


def neighbours(ctx, case):
    out = []
    spec = case["tree"]
    for i in range(len(spec["entries"])):
        out.append(dict(case, tree={"t": "dir", "entries": spec["entries"][:i] + spec["entries"][i + 1 :]}))
    out.append(dict(case, max_len=None))
    return out


def shrink(ctx, failure):
    import c06 as _c06

    saved = _c06.check_cases
    _c06.check_cases = check_cases
    try:
        return _c06.shrink(ctx, failure)
    finally:
        _c06.check_cases = saved
