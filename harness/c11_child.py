"""Child of the C11 check: builds the objects of the given cases in ANOTHER interpreter process
(other string-hash seed), uses them as set members (so that anything memoised on first hash is
filled), and pickles them for the parent to compare with its own equal objects."""
import json
import pickle
import random
import sys

import common  # noqa: F401  (puts the repository under test on sys.path)
import objgen


def main():
    cases = json.load(open(sys.argv[1]))
    from swh.model.collections import ImmutableDict

    out = []
    bag = set()
    for i, case in enumerate(cases):
        try:
            if case["cls"] == "ImmutableDictRaw":
                continue
            if case["cls"] == "ImmutableDict":
                o = ImmutableDict({bytes.fromhex(k): bytes.fromhex(v) for k, v in case["items"]})
            else:
                o = objgen.build(case["cls"], objgen.gen_kwargs(random.Random(case["seed"]), case["cls"], lazy=True))
            try:
                bag.add(o)
                hash(o)
            except TypeError:
                pass
            out.append((i, pickle.dumps(o)))
        except Exception:
            continue
    pickle.dump(out, open(sys.argv[2], "wb"))


if __name__ == "__main__":
    main()
