"""C17 — archive discovery returns exactly the objects the archive lacks."""
from __future__ import annotations

import random as _random

from common import ImplementationHang

REQUIRED = [
    "Swh.C17.inv_step",
    "Swh.C17.inv_query",
    "Swh.C17.sound",
    "Swh.C17.terminates",
    "Swh.C17.filter_exact",
    "Swh.C17.callback_once",
    "Swh.C17.callback_once_perm",
    "Swh.C17.correct_runScriptIds",
]
RULE = (
    "random Merkle DAGs of 0-40 real model objects (shared sub-trees, several roots, entries pointing outside the set, "
    "duplicate targets, the empty directory) x downward-closed known sets (empty, all, random closure) x SAMPLE_SIZE in {1,2,3,1000} x "
    "PRNG-scripted random.sample and set.pop; the recorded schedule is replayed on the Lean model; non-trivial = at "
    "least one directory with an entry inside the set; distinct by canonical JSON of (graph, known, schedule)"
)
ASSUMPTIONS = [
    "the archive's known set is closed under 'a known directory implies its entries are known' (the property's hypothesis)",
    "random.sample returns a duplicate-free subset of its population; set.pop returns some element (every choice is "
    "universally quantified in the theorems, recorded and replayed in the correspondence)",
]
TRUSTED = ["Python set/dict semantics", "model.Content/SkippedContent/Directory construction"]


def gen_graph(rng, n):
    """returns list of nodes bottom-up: ('c'|'s'|'d', index, [child indices or 'out<k>'])"""
    nodes = []
    empty_at = rng.randrange(n) if n and rng.random() < 0.4 else -1
    for i in range(n):
        if i == empty_at:
            nodes.append(("e", i, []))  # the empty directory (at most one: equal objects are one object)
        elif i == 0 or rng.random() < 0.45:
            nodes.append((rng.choice("ccs"), i, []))
        else:
            k = rng.choice([0, 1, 2, 2, 3, 4])
            kids = [rng.randrange(0, i) for _ in range(k)]
            if rng.random() < 0.2:
                kids.append("out%d" % rng.randrange(3))
            nodes.append(("d", i, kids))
    return nodes


def deep_chain(n, known, ss, seed, pick=None):
    """n directories nested in one another, a content at the bottom (depths beyond the recursion limit);
    `pick`: the sampler returns the lowest ("min") or highest ("max") directories of the chain, so that one
    answer of the archive decides the whole chain in a single marking"""
    nodes = [["c", 0, []]] + [["d", i, [i - 1]] for i in range(1, n)]
    case = {"nodes": nodes, "known": known, "order": list(range(n)), "sample_size": ss, "sched_seed": seed}
    if pick:
        case["pick"] = pick
    return case


def generate(ctx):
    rng = ctx.rng
    cases = []
    n_deep = 1300
    cases.append(deep_chain(n_deep, [], 1000, 4))          # nothing known: "unknown" climbs from wherever sampling starts
    cases.append(deep_chain(n_deep, list(range(n_deep)), 1000, 8))  # everything known: "known" descends from the top
    cases.append(deep_chain(n_deep, list(range(n_deep // 2)), 3, 12))
    # sample sizes above the library's default (1000), with fewer directories than the sample size:
    # 1 250 directories each holding its own content, under one root
    wide = [["c", i, []] for i in range(1250)] + [["d", 1250 + i, [i]] for i in range(1250)] + [["d", 2500, list(range(1250, 2500))]]
    for ss, known, seed in ((3000, [], 5), (5000, list(range(0, 2500, 2)) + list(range(1250, 1250 + 1250, 2)), 6), (1100, [], 7)):
        kn = set(known)
        kn |= {i - 1250 for i in kn if 1250 <= i < 2500}   # closed: a known directory's content is known
        cases.append({"nodes": wide, "known": sorted(kn), "order": list(range(2501)), "sample_size": ss, "sched_seed": seed})
    cases.append(deep_chain(n_deep, [], 1, 4, "min"))                    # one climb through 1 298 ancestors
    cases.append(deep_chain(n_deep, list(range(n_deep)), 1, 8, "max"))   # one descent through 1 299 descendants
    for _ in range(ctx.budget(250, 4000)):
        n = rng.choice([0, 1, 2, 3, 5, 8, 12, 20, 30, 40])
        nodes = gen_graph(rng, n)
        mode = rng.choice(["empty", "all", "closed", "closed", "closed"])
        known = set()
        if mode == "all":
            known = set(range(n))
        elif mode == "closed":
            known = {i for i in range(n) if rng.random() < 0.35}
            changed = True
            while changed:
                changed = False
                for (k, i, kids) in nodes:
                    if k == "d" and i in known:
                        for c in kids:
                            if isinstance(c, int) and c not in known:
                                known.add(c)
                                changed = True
        order = list(range(n))
        rng.shuffle(order)
        if n and rng.random() < 0.25:
            # the same object listed more than once (the repository's own test does that)
            for _ in range(rng.randrange(1, 4)):
                order.insert(rng.randrange(len(order) + 1), rng.choice(order))
        cases.append({"nodes": [[k, i, kids] for k, i, kids in nodes], "known": sorted(known), "order": order,
                      "sample_size": rng.choice([1, 2, 3, 1000]), "sched_seed": rng.randrange(2**32)})
    return cases


def materialise(case):
    """build real model objects; node index -> object. Equal objects (same hash) are merged, as in a Merkle DAG."""
    from swh.model import model

    objs = {}
    for k, i, kids in case["nodes"]:
        if k == "c":
            # (one content in four is hidden: a status, not another kind of object)
            objs[i] = model.Content.from_data(b"content-%d" % i, status="hidden" if i % 4 == 1 else "visible")
        elif k == "s":
            objs[i] = model.SkippedContent.from_data(b"skipped-%d" % i, reason="too large")
        elif k == "e":
            objs[i] = model.Directory(entries=())
        else:
            entries = []
            for j, c in enumerate(kids):
                if isinstance(c, int):
                    o = objs[c]
                    tgt = o.id if isinstance(o, model.Directory) else o.sha1_git
                    ty = "dir" if isinstance(o, model.Directory) else "file"
                else:
                    tgt = (c.encode() * 20)[:20]
                    ty = "file"
                entries.append(model.DirectoryEntry(name=b"e%d" % j, type=ty, target=tgt, perms=0o040000 if ty == "dir" else 0o100644))
            entries.append(model.DirectoryEntry(name=b"uniq", type="file", target=(b"u%03d" % i * 5)[:20], perms=0o100644))
            objs[i] = model.Directory(entries=tuple(entries))
    return objs


def oid(o):
    from swh.model import model

    return o.id if isinstance(o, model.Directory) else o.sha1_git


def check_cases(ctx, cases):
    from swh.model import discovery, model

    reqs = []
    impls = []
    for case in cases:
        objs = materialise(case)
        n = len(case["nodes"])
        inside_edge = any(k == "d" and any(isinstance(c, int) for c in kids) for k, _, kids in case["nodes"])
        ctx.case(case, nontrivial=inside_edge)
        ctx.count("n=%s" % (n if n < 10 else "10+"))
        ctx.count("sample_size=%d" % case["sample_size"])
        ctx.count("known=%s" % ("none" if not case["known"] else ("all" if len(case["known"]) == n else "some")))
        order = case["order"]
        contents = [objs[i] for i in order if case["nodes"][i][0] == "c"]
        skipped = [objs[i] for i in order if case["nodes"][i][0] == "s"]
        dirs = [objs[i] for i in order if case["nodes"][i][0] in ("d", "e")]
        known_ids = {oid(objs[i]) for i in case["known"]}
        ids_of = {"c": {oid(o) for o in contents}, "s": {oid(o) for o in skipped}, "d": {oid(o) for o in dirs}}
        num = {}
        for i in range(n):
            num.setdefault(oid(objs[i]), len(num) + 1)
        outside = {}

        def nid(b):
            if b in num:
                return num[b]
            return outside.setdefault(b, 10**6 + len(outside))

        srng = _random.Random(case["sched_seed"])
        pops, samples, queries = [], [], [0]

        class Recorder(list):
            """the callback is any callable: here one that is also an (at first empty, hence false) list"""

            def __call__(self, o, k):
                self.append((nid(oid(o)), bool(k)))

        log = Recorder()

        class RecSet(set):
            def pop(self):
                x = srng.choice(sorted(self))
                self.remove(x)
                pops.append(nid(x))
                return x

        class Rnd:
            @staticmethod
            def sample(pop, k):
                # any k distinct elements are a legal outcome: also always the first / last / smallest k
                mode = case["sched_seed"] % 4
                lst = list(pop)
                if k > len(lst) or k < 0:
                    raise ValueError("Sample larger than population or is negative")
                if case.get("pick"):
                    r = sorted(lst, key=nid, reverse=case["pick"] == "max")[:k]
                elif mode == 1:
                    r = lst[:k]
                elif mode == 2:
                    r = lst[-k:] if k else []
                elif mode == 3:
                    r = sorted(lst)[:k]
                else:
                    r = srng.sample(lst, k)
                samples.append([nid(x) for x in r])
                return r

        class Archive:
            def __init__(self):
                self.contents, self.skipped_contents, self.directories = contents, skipped, dirs

            def _missing(self, ids, table):
                queries[0] += 1
                if queries[0] > 10 * n + 10:
                    raise RuntimeError("query budget exceeded: discovery does not terminate")
                # (one table per kind of object, as in a real archive: an id asked of the wrong table is missing)
                ans = [x for x in ids if x not in known_ids or x not in table]
                # (the interface says Iterable: lists, sets, tuples and one-shot iterators in turn)
                how = (case["sched_seed"] + queries[0]) % 5
                return [ans, set(ans), tuple(ans), iter(ans), (x for x in ans)][how]

            def content_missing(self, ids):
                return self._missing(ids, ids_of["c"])

            def skipped_content_missing(self, ids):
                return self._missing(ids, ids_of["s"])

            def directory_missing(self, ids):
                return self._missing(ids, ids_of["d"])

        saved = (discovery.__dict__.get("set"), discovery.random, discovery.SAMPLE_SIZE)
        discovery.set = RecSet
        discovery.random = Rnd
        discovery.SAMPLE_SIZE = case["sample_size"]
        nq = [0]
        orig = discovery.BaseDiscoveryGraph.do_query

        def dq(self, a, s):
            nq[0] += 1
            return orig(self, a, s)

        discovery.BaseDiscoveryGraph.do_query = dq
        err = None
        try:
            with ctx.time_limit(10):
                rc, rs, rd = discovery.filter_known_objects(Archive(), log if case["sched_seed"] % 3 else (lambda o, k: log.append((nid(oid(o)), bool(k)))))
        except (RuntimeError, ImplementationHang) as e:
            err = "discovery does not terminate: " + str(e)
        except Exception as e:
            err = f"discovery raises {type(e).__name__}: {str(e)[:80]}"
        finally:
            discovery.BaseDiscoveryGraph.do_query = orig
            if saved[0] is None:
                del discovery.set
            else:
                discovery.set = saved[0]
            discovery.random, discovery.SAMPLE_SIZE = saved[1], saved[2]
        if err:
            ctx.fail(case, err, "no-termination" if "terminate" in err else "discovery-raises")
            impls.append(None)
            reqs.append({"op": "ping"})
            continue

        # ---------------- brute-force oracle
        want = lambda lst: [o for o in lst if oid(o) not in known_ids]
        if rc != want(contents) or rs != want(skipped) or rd != want(dirs):
            ctx.fail(case, "filtered lists differ from [o for o in objs if o is missing] (dropped/kept/reordered)", "filter-not-exact",
                     {"got": [[nid(oid(o)) for o in l] for l in (rc, rs, rd)], "want": [[nid(oid(o)) for o in want(l)] for l in (contents, skipped, dirs)]})
        distinct = {oid(objs[i]) for i in range(n)}
        flags = {}
        for i, k in log:
            flags.setdefault(i, []).append(k)
        if sorted(flags) != sorted(num[b] for b in distinct) or any(len(v) != 1 for v in flags.values()):
            ctx.fail(case, "callback did not fire exactly once per object", "callback-not-once", {"log": log})
        elif any(flags[num[b]][0] != (b in known_ids) for b in distinct):
            ctx.fail(case, "callback fired with the wrong known/unknown flag", "callback-wrong-flag", {"log": log})

        def enc(lst, with_entries=False):
            out = []
            for o in lst:
                d = {"id": nid(oid(o))}
                if with_entries:
                    d["entries"] = [nid(e.target) for e in o.entries]
                out.append(d)
            return out

        reqs.append({"op": "discovery", "contents": enc(contents), "skipped": enc(skipped), "dirs": enc(dirs, True),
                     "known": sorted(num[b] for b in known_ids if b in num), "sample_size": case["sample_size"],
                     "samples": samples, "pops": pops})
        impls.append(([nid(oid(o)) for o in rc], [nid(oid(o)) for o in rs], [nid(oid(o)) for o in rd], log, nq[0]))

    res = ctx.model(reqs)
    for case, r, im in zip(cases, res, impls):
        if im is None:
            continue
        if "error" in r:
            if ctx.model_available:
                ctx.disagree(case, "model driver error", model=r)
            continue
        m = r["r"]
        got = (m["contents"], m["skipped"], m["dirs"])
        # (callback order and the number of queries depend on how the implementation pops and samples:
        #  they are not part of the property and are not compared, so that a rewrite of the work-list
        #  handling does not break the tie)
        if [tuple(x) for x in m["log"]] == im[3]:
            ctx.count("schedule-replayed-exactly")
        if got != im[:3]:
            ctx.disagree(case, "filtered lists: model vs implementation", model=got, impl=im[:3])
        elif sorted(map(tuple, m["log"])) != sorted(im[3]):
            ctx.disagree(case, "callback multiset: model vs implementation", model=m["log"], impl=im[3])
        elif not m["ok"]:
            ctx.disagree(case, "model ran out of fuel", model=m)


def neighbours(ctx, case):
    out = []
    for ss in (1, 2, 3, 1000):
        for seed in range(3):
            out.append(dict(case, sample_size=ss, sched_seed=case["sched_seed"] + seed))
    return out
