"""C09 — SWHID parsing accepts exactly the documented language and fails only cleanly."""
from __future__ import annotations

import swhid_common as sc
from common import cps, hx, uncps

REQUIRED = [
    "Swh.C09.parse_clean",
    "Swh.C09.accept_iff_limit",
    "Swh.C09.accept_iff_cpython",
    "Swh.C09.accept_iff_unlimited",
    "Swh.C09.accept_sound",
    "Swh.C09.accept_iff_partial",
    "Swh.C09.recogniser_correct",
    "Swh.C09.accept_eq_recogniser",
    "Swh.C09.reprint",
    "Swh.C09.classes_agree",
]
RULE = (
    "(1) sentences generated from the BNF for the three classes; (2) every single-character substitution / insertion / "
    "deletion / case flip at every position of valid identifiers with a palette of separators, all 29 whitespace code "
    "points, + - _, Arabic-Indic / full-width / superscript digits, % ; = :; (3) duplicated and unknown qualifiers, empty "
    "values, lines forms a, a-b, a-, -b, a-b-c, 4300/4301-digit numbers; (4) random strings; each string is parsed by "
    "all three classes; non-trivial = string starting with 'swh:'; distinct by (class, string)"
)
ASSUMPTIONS = [
    "re / urllib.parse / int() are modelled contracts, compared with the implementation on every run",
    "Python str without lone surrogates",
    "for a repeated qualifier key the grammar allows the repetition and the last occurrence is the effective one",
]
TRUSTED = ["re", "urllib.parse", "attrs converters/validators of the SWHID classes"]

PALETTE = [":", ";", "=", "%", "+", "-", "_", " ", "\t", "\n", "\xa0", " ", "　", "٣", "５", "²", "A", "F", "g", "0", "a", "/", "\x00", "é", "S", "1", "2"]


def h40(rng):
    return "".join(rng.choice(sc.HEX) for _ in range(40))


def core_text(rng, types=None):
    return "swh:1:%s:%s" % (rng.choice(types or sc.CORE_TYPES), h40(rng))


def gen_qual_value(rng, key, good=True):
    if key == "origin":
        return sc.gen_origin(rng).replace(";", "%3B").replace(" ", "") if good else sc.gen_origin(rng, allow_space=True)
    if key == "visit":
        return core_text(rng, ["snp"]) if good else rng.choice([core_text(rng, ["rev"]), "", "swh:1:snp:" + "0" * 39, core_text(rng, ["snp"]) + "x", "snp"])
    if key == "anchor":
        return core_text(rng, sc.ANCHOR_TYPES) if good else rng.choice([core_text(rng, ["cnt"]), "", core_text(rng, ["ori"]), core_text(rng).upper()])
    if key == "path":
        import urllib.parse

        return urllib.parse.quote_from_bytes(sc.gen_path(rng)) if good else rng.choice(["%", "%zz", "%2", "a b", "é", "%FF%"])
    digits = lambda: rng.choice(["0", "5", "10", "007", "123456789012345678901234567890", "9" * 4300])
    if good:
        return digits() if rng.random() < 0.5 else digits() + "-" + digits()
    return rng.choice(["", "-", "5-", "-5", "1-2-3", "+5", "1_0", "٣", "5-+6", " 5", "5 ", "0x10", "1e3", "१", "5-６", "9" * 4301, "1-" + "9" * 4301, "²"])


# unknown qualifier keys: near-misses of the five keys, and every name that means something to the
# implementation's own classes (attribute, parameter and dictionary-key names of swhids.py), which
# are the ones a lookup-based "is this key known?" test could let through
UNKNOWN_KEYS = ["Origin", "foo", "", "lines ", "path%", "ORIGIN", "vis", "anchors", "line", "object_type", "object_id",
                "namespace", "scheme_version", "qualifiers", "metadata", "type", "id", "self", "cls", "s", "swhid", "__class__"]


def sentence(rng, cls):
    if cls != "qualified":
        return core_text(rng, sc.EXT_TYPES if cls == "extended" else sc.CORE_TYPES)
    s = core_text(rng)
    keys = [k for k in sc.KEYS if rng.random() < 0.45]
    if rng.random() < 0.3:
        rng.shuffle(keys)
    if rng.random() < 0.15 and keys:
        keys.append(rng.choice(keys))  # duplicate key
    for k in keys:
        s += ";%s=%s" % (k, gen_qual_value(rng, k))
    return s


def edits(rng, s, budget):
    out = []
    n = len(s)
    positions = list(range(n + 1))
    rng.shuffle(positions)
    for pos in positions:
        if len(out) >= budget:
            break
        kind = rng.choice(["sub", "ins", "del", "flip"])
        if kind == "sub" and pos < n:
            out.append(s[:pos] + rng.choice(PALETTE) + s[pos + 1 :])
        elif kind == "ins":
            out.append(s[:pos] + rng.choice(PALETTE) + s[pos:])
        elif kind == "del" and pos < n:
            out.append(s[:pos] + s[pos + 1 :])
        elif pos < n:
            out.append(s[:pos] + s[pos].swapcase() + s[pos + 1 :])
    return out


def generate(ctx):
    rng = ctx.rng
    strings = []
    nb = ctx.budget(60, 800)
    for _ in range(nb):
        for cls in ("core", "extended", "qualified", "qualified"):
            strings.append(sentence(rng, cls))
    # all single-character edits at every position of a few seeds (systematic, every run)
    q = sentence(rng, "qualified")
    while len(q) > 220:
        q = sentence(rng, "qualified")
    seeds = [core_text(rng), core_text(rng, ["ori"]), core_text(rng) + ";lines=5-10", q]
    for s in seeds:
        for pos in range(len(s) + 1):
            for ch in (":", ";", " ", " ", "A", "g", "+", "٣", "\u0661", "\uff11", "\U0001d7cf", "\u00b2", "\u06f1"):
                strings.append(s[:pos] + ch + s[pos:])
                if pos < len(s):
                    strings.append(s[:pos] + ch + s[pos + 1 :])
            if pos < len(s):
                strings.append(s[:pos] + s[pos + 1 :])
                strings.append(s[:pos] + s[pos].swapcase() + s[pos + 1 :])
    for _ in range(nb):
        q = sentence(rng, "qualified")
        strings += edits(rng, q if len(q) < 400 or rng.random() < 0.1 else q[:120], 6)
    # malformed qualifiers
    for _ in range(ctx.budget(150, 2500)):
        s = core_text(rng)
        k = rng.choice(sc.KEYS + UNKNOWN_KEYS)
        bad = rng.random() < 0.7
        v = gen_qual_value(rng, k, good=not bad) if k in sc.KEYS else rng.choice(["x", ""])
        form = rng.choice(["{s};{k}={v}", "{s};{k}={v};", "{s};;{k}={v}", "{s};{k}", "{s};{k}={v};{k}={v2}", "{s};{k}=={v}", "{s};", "{s};=", "{s};{k}={v};lines=1"])
        v2 = gen_qual_value(rng, k, good=True) if k in sc.KEYS else "y"
        strings.append(form.format(s=s, k=k, v=v, v2=v2))
    for _ in range(ctx.budget(60, 600)):
        strings.append("".join(rng.choice(PALETTE + list("swh:1cntdirev")) for _ in range(rng.randrange(0, 60))))
    # every key x {no '=', empty value, empty value among good qualifiers}, systematically
    base = "swh:1:cnt:" + "0" * 40
    for k in sc.KEYS + ["foo", ""]:
        for form in ("{b};{k}", "{b};{k}=", "{b};{k}=;lines=3", "{b};lines=3;{k}=", "{b};origin=x;{k}", "{b};{k};lines=3", "{b};{k}==", "{b};{k}=;{k}="):
            strings.append(form.format(b=base, k=k))
    # a well-formed core SWHID of every type as visit and as anchor (only snp / dir, rev, rel, snp are allowed),
    # and extended-only types
    for t in ("cnt", "dir", "rev", "rel", "snp", "ori", "emd"):
        for k in ("visit", "anchor"):
            strings.append(f"{base};{k}=swh:1:{t}:" + "1" * 40)
            strings.append(f"{base};origin=o;{k}=swh:1:{t}:" + "1" * 40 + ";lines=1")
    # characters outside ASCII written literally (not percent-encoded) in every free-text position
    for lit in ("/caf\u00e9", "/\u65e5\u672c\u8a9e/readme", "\u00e9", "\U0001d11e", "a\u00ffb", "\u0080", "%C3%A9\u00e9"):
        for t in ("cnt", "dir", "rev"):
            b_ = f"swh:1:{t}:" + "2" * 40
            strings += [f"{b_};path={lit}", f"{b_};origin={lit}", f"{b_};origin=http://x/{lit};path={lit};lines=1", f"{b_};visit={lit}", f"{b_};lines={lit}", f"{b_}{lit}"]
    strings += ["", "swh", "swh:1:cnt:", "swh:2:cnt:" + "0" * 40, "SWH:1:cnt:" + "0" * 40, "swh:1:cnt:" + "0" * 40 + "\n", " swh:1:cnt:" + "0" * 40,
                "swh:1:cnt:" + "0" * 40 + ";origin=a%20b", "swh:1:cnt:" + "0" * 40 + ";origin=a%E2%80%A8b", "swh:1:cnt:" + "0" * 40 + ";lines=+5",
                "swh:1:cnt:" + "0" * 40 + ";lines=" + "1" * 4301, "swh:1:cnt:" + "0" * 40 + ";lines=" + "0" * 4301]
    return [{"s": cps(s)} for s in strings]


def check_cases(ctx, cases):
    sc.check_space_table(ctx)
    reqs = []
    impls = []
    for case in cases:
        s = uncps(case["s"])
        ctx.case(case, nontrivial=s.startswith("swh:"))
        row = {}
        for cls in ("core", "extended", "qualified"):
            st, val = sc.parse_impl(cls, s)
            row[cls] = (st, val)
            reqs.append({"op": "swhid_parse", "cls": cls, "s": case["s"]})
            expect = sc.in_language(cls, s)
            ctx.count(f"{cls}:{'in' if expect else 'out'}-lang:{'accept' if st == 'ok' else val}")
            # ---------------- oracle on the implementation
            if st == "err" and val != "validation":
                ctx.fail(dict(case, cls=cls), f"{cls}.from_string raises {val} instead of ValidationError", "unclean-failure:" + val)
            elif st == "ok" and not expect:
                ctx.fail(dict(case, cls=cls), f"{cls}.from_string accepts a string outside the documented language", "accepts-outside-language", {"s": s[:120]})
            elif st == "err" and expect:
                kind = "rejects-inside-language"
                if sc.max_digit_run(s.partition(";")[2]) > 4300:
                    kind = "rejects-inside-language:lines-over-4300-digits"
                ctx.fail(dict(case, cls=cls), f"{cls}.from_string rejects a string of the documented language", kind, {"s": s[:120]})
            if st == "ok":
                try:
                    text = str(val)
                    st2, back = sc.parse_impl(cls, text)
                    if st2 != "ok" or back != val:
                        ctx.fail(dict(case, cls=cls), "an accepted string re-prints to a string that does not parse to an equal value", "reprint-fails", {"s": s[:120], "reprinted": text[:120]})
                except AssertionError as e:
                    ctx.fail(dict(case, cls=cls), f"re-printing an accepted value raises AssertionError", "reprint-assertion")
        impls.append(row)
        # the three classes agree on qualifier-free strings of a type they all support
        oks = {c: r for c, r in row.items() if r[0] == "ok"}
        if ";" not in s and any(s.startswith(f"swh:1:{t}:") for t in sc.CORE_TYPES):
            if len(oks) not in (0, 3):
                ctx.fail(case, "the three classes disagree on a qualifier-free string", "classes-disagree")
            elif len(oks) == 3 and len({(v.object_type.value, v.object_id) for _, v in oks.values()}) != 1:
                ctx.fail(case, "the three classes parse a qualifier-free string to different type/id", "classes-disagree")
    other_locale(ctx, cases, impls)
    res = ctx.model(reqs)
    for ci, case in enumerate(cases):
        for k, cls in enumerate(("core", "extended", "qualified")):
            r = res[3 * ci + k]
            st, val = impls[ci][cls]
            if "error" in r:
                if ctx.model_available:
                    ctx.disagree(dict(case, cls=cls), "model driver error", model=r)
                continue
            m = r["r"]
            if st == "ok":
                if "ok" not in m:
                    ctx.disagree(dict(case, cls=cls), "implementation accepts, model rejects", model=m.get("err"), impl="ok")
                elif m["ok"] != sc.value_json(cls, val):
                    ctx.disagree(dict(case, cls=cls), "parsed value: model vs implementation", model=m["ok"], impl=sc.value_json(cls, val))
                else:
                    try:
                        if uncps(m["print"]) != str(val):
                            ctx.disagree(dict(case, cls=cls), "re-printed text: model vs implementation", model=uncps(m["print"]), impl=str(val))
                    except AssertionError:
                        pass
            else:
                if "ok" in m:
                    ctx.disagree(dict(case, cls=cls), "model accepts, implementation rejects", model="ok", impl=val)
                elif m["err"] != val:
                    ctx.disagree(dict(case, cls=cls), "exception class: model vs implementation", model=m["err"], impl=val)


def other_locale(ctx, cases, impls):
    """what a string parses to does not depend on the locale / filesystem encoding of the process: a sample of
    the strings (those with characters outside ASCII first) is parsed again by a child interpreter under
    LC_ALL=C with UTF-8 mode and locale coercion off (filesystem encoding: ascii)"""
    import json
    import os
    import shutil
    import subprocess
    import sys

    from common import scratch_dir

    if len(cases) <= 3 and not any(c.get("locale") for c in cases):
        return
    # (accepted strings with characters outside ASCII first, then other strings with such characters, then the rest)
    idx = sorted(range(len(cases)), key=lambda i: (not any(ord(ch) > 127 for ch in uncps(cases[i]["s"])),
                                                   not any(impls[i][c][0] == "ok" for c in impls[i]), i))[: 400 if ctx.tier == "quick" else 3000]
    d_ = scratch_dir("c09l")
    try:
        with open(os.path.join(d_, "strings.jsonl"), "w", encoding="ascii") as fh:
            for i in idx:
                fh.write(json.dumps({"s": cases[i]["s"]}) + "\n")
        env = dict(os.environ, LC_ALL="C", LANG="C", PYTHONUTF8="0", PYTHONCOERCECLOCALE="0")
        p = subprocess.run([sys.executable, os.path.join(os.path.dirname(os.path.abspath(__file__)), "c09_child.py"), os.path.join(d_, "strings.jsonl")],
                           stdout=subprocess.PIPE, stderr=subprocess.PIPE, timeout=600, env=env)
        lines = p.stdout.decode("ascii", "replace").splitlines()
        if p.returncode != 0 or len(lines) != len(idx) + 1:
            ctx.notes.append("other-locale child failed: " + p.stderr.decode("utf-8", "replace")[-300:])
            return
        ctx.notes.append("strings parsed again in a child interpreter with filesystem encoding %s: %d" % (json.loads(lines[-1]).get("fsencoding"), len(idx)))
        for i, ln in zip(idx, lines):
            row = json.loads(ln)
            for cls in ("core", "extended", "qualified"):
                st, val = impls[i][cls]
                if st == "ok":
                    try:
                        here = ["ok", sc.value_json(cls, val), cps(str(val))]
                    except BaseException as e:  # noqa: B902
                        here = ["ok", "unprintable:" + type(e).__name__, None]
                else:
                    here = ["err", val, None]
                ctx.count("other-locale")
                if json.loads(json.dumps(here)) != row[cls]:
                    ctx.fail(dict(cases[i], cls=cls, locale="C"), "under LC_ALL=C (filesystem encoding ascii) the string parses to something else than under a UTF-8 locale", "locale-dependent", {"here": here[:2], "there": row[cls][:2]})
                    return
    finally:
        shutil.rmtree(d_, ignore_errors=True)


def neighbours(ctx, case):
    import random

    s = uncps(case["s"])
    rng = random.Random(len(s))
    return [{"s": cps(x)} for x in edits(rng, s, 20)]


def shrink(ctx, failure):
    """shorten the qualifier part while the same kind of failure persists"""
    from common import Ctx

    case = failure["case"]
    kind = failure["kind"]
    s = uncps(case["s"])
    head, sep, rest = s.partition(";")
    if not sep:
        return case
    chunks = rest.split(";")
    changed = True
    while changed and len(chunks) > 1:
        changed = False
        for i in range(len(chunks)):
            cand = head + ";" + ";".join(chunks[:i] + chunks[i + 1 :])
            c2 = Ctx(ctx.prop, ctx.tier, ctx.seed)
            c2.model_available = False
            try:
                check_cases_no_table(c2, [{"s": cps(cand)}])
            except Exception:
                continue
            if any(f["kind"] == kind for f in c2.failures):
                chunks = chunks[:i] + chunks[i + 1 :]
                changed = True
                break
    return {"s": cps(head + ";" + ";".join(chunks)), "text": (head + ";" + ";".join(chunks))[:300]}


def check_cases_no_table(ctx, cases):
    saved = sc.check_space_table
    sc.check_space_table = lambda c: None
    try:
        check_cases(ctx, cases)
    finally:
        sc.check_space_table = saved
