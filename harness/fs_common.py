"""On-disk tree fixtures shared by C06, C13 and C18: generation, materialisation in a scratch
area (removed afterwards), shuffled directory listings, physical pruning, git as an oracle."""
from __future__ import annotations

import contextlib
import os
import shutil
import stat
import subprocess

from common import hx, scratch_dir, unhx

BLOCK = 32768

NAME_PARTS = [b"a", b"b", b"a.", b"a-", b"a0", b"ab", b"A", b" ", b"\n", b"\xff", b"\xc3\xa9", b"\x80", b"x y", b".hidden", b"~", b"-", b"0", b"sub", b"Sub", b"build", b"BUILD", b"node_modules", b"t\x01", b"top", b"top"]  # "top" is also the name of every scratch root


def gen_name(rng, used):
    for _ in range(50):
        r = rng.random()
        if r < 0.6:
            n = rng.choice(NAME_PARTS)
        elif r < 0.85:
            n = rng.choice(NAME_PARTS) + rng.choice(NAME_PARTS)
        else:
            n = bytes(rng.choice([rng.randrange(1, 256), 0x61, 0x2E]) for _ in range(rng.randrange(1, 8)))
        n = n.replace(b"/", b"_").replace(b"\x00", b"_")
        if n and n not in (b".", b"..") and n not in used and not n.startswith(b".git") and len(n) < 200:
            used.add(n)
            return n
    n = b"n%d" % len(used)
    used.add(n)
    return n


def gen_file_size(rng, big=True):
    r = rng.random()
    if r < 0.35:
        return rng.choice([0, 1, 2, 10])
    if r < 0.85 or not big:
        return rng.randrange(0, 300)
    return rng.choice([BLOCK - 1, BLOCK, BLOCK + 1, 2 * BLOCK, 2 * BLOCK + 1, 40000])


def gen_tree(rng, depth=0, max_depth=4, fanout=6, specials=True, big=True):
    """returns a dir spec: {"t":"dir","entries":[[name_hex, node], ...]}"""
    entries = []
    used = set()
    n = rng.randrange(0, fanout + 1) if depth else rng.randrange(1, fanout + 2)
    for _ in range(n):
        name = gen_name(rng, used)
        r = rng.random()
        if r < 0.45:
            size = gen_file_size(rng, big)
            perm = rng.choice([0o644, 0o755, 0o600, 0o700, 0o640, 0o444, 0o711, 0o610, 0o601, rng.randrange(0o400, 0o1000) | 0o400])
            entries.append([hx(name), {"t": "file", "mode": perm, "seed": rng.randrange(2**31), "size": size}])
        elif r < 0.6:
            tgt = rng.choice([b"a", b"../x", b"/etc/passwd", b"dangling", b".", b"sub", b"a b", b"\xff\xfe", b"x" * 40, b"./a/../a"])
            entries.append([hx(name), {"t": "link", "target": hx(tgt)}])
        elif r < 0.65 and specials:
            entries.append([hx(name), {"t": "special", "mode": rng.choice([0o644, 0o755, 0o600])}])
        elif depth < max_depth:
            entries.append([hx(name), gen_tree(rng, depth + 1, max_depth, fanout, specials, big)])
        else:
            entries.append([hx(name), {"t": "dir", "entries": []}])
    return {"t": "dir", "entries": entries}


def file_bytes(node):
    import hashlib

    out = bytearray()
    blk = hashlib.sha256(node["seed"].to_bytes(4, "big")).digest()
    while len(out) < node["size"]:
        out += blk
        blk = hashlib.sha256(blk).digest()
    data = bytes(out[: node["size"]])
    if node.get("flip"):  # the same file after an in-place rewrite: same length, every byte changed
        data = bytes(b ^ 0xFF for b in data)
    return data


def materialise(spec, path: bytes):
    """create the tree described by `spec` at `path` (which must not exist)"""
    os.mkdir(path)
    for name_hex, node in spec["entries"]:
        p = os.path.join(path, unhx(name_hex))
        t = node["t"]
        if t == "file":
            with open(p, "wb") as f:
                f.write(file_bytes(node))
            os.chmod(p, node["mode"])
        elif t == "link":
            os.symlink(unhx(node["target"]), p)
        elif t == "special":
            # a named pipe, a character device (needs CAP_MKNOD: falls back to a pipe) or a socket,
            # chosen from the mode so that a spec stays a plain description
            sub = node.get("sub") or ("fifo", "chr", "sock")[(node["mode"] >> 3) % 3]
            made = False
            if sub == "chr":
                try:
                    os.mknod(p, stat.S_IFCHR | node["mode"], os.makedev(1, 3))
                    made = True
                except (PermissionError, OSError):
                    pass
            elif sub == "sock" and len(p) < 100:
                import socket

                try:
                    sk = socket.socket(socket.AF_UNIX)
                    sk.bind(p)
                    sk.close()
                    made = True
                except OSError:
                    pass
            if not made:
                os.mkfifo(p, node["mode"])
            os.chmod(p, node["mode"])
        else:
            materialise(node, p)


def force_rmtree(path):
    def onerr(func, p, exc):
        try:
            os.chmod(os.path.dirname(p), 0o700)
            os.chmod(p, 0o700)
            func(p)
        except Exception:
            pass

    shutil.rmtree(path, onerror=onerr)


@contextlib.contextmanager
def scratch_tree(spec, tag="tree", top=b"top"):
    base = scratch_dir(tag).encode()
    root = os.path.join(base, top)
    try:
        materialise(spec, root)
        yield root
    finally:
        force_rmtree(base)


@contextlib.contextmanager
def cwd_guard():
    """restore the working directory on exit"""
    cwd = os.getcwd()
    try:
        yield
    finally:
        os.chdir(cwd)


@contextlib.contextmanager
def shuffled_scandir(rng):
    """os.scandir returns its entries in a PRNG-chosen order (the OS order is arbitrary)"""
    real = os.scandir

    class Listing:
        def __init__(self, p):
            with real(p) as it:
                self.items = list(it)
            self.items.sort(key=lambda e: e.name)
            rng.shuffle(self.items)

        def __enter__(self):
            return iter(self.items)

        def __exit__(self, *a):
            return False

        def __iter__(self):
            return iter(self.items)

        def close(self):
            pass

    os.scandir = Listing
    try:
        yield
    finally:
        os.scandir = real


def readable(spec):
    """all regular files readable by owner? (the reader needs to open them)"""
    for _, node in spec["entries"]:
        if node["t"] == "file" and not node["mode"] & 0o400:
            return False
        if node["t"] == "dir" and not readable(node):
            return False
    return True


# ------------------------------------------------------------------ spec-level operations


def prune_spec(spec, drop_dir, top=True):
    """copy of the tree without the sub-directories for which drop_dir(name_bytes, node) holds"""
    out = []
    for name_hex, node in spec["entries"]:
        if node["t"] == "dir":
            if drop_dir(unhx(name_hex), node):
                continue
            out.append([name_hex, prune_spec(node, drop_dir, False)])
        else:
            out.append([name_hex, node])
    return {"t": "dir", "entries": out}


def prune_empty(spec):
    """remove empty sub-directories, recursively (a directory holding only empty directories goes too)"""
    out = []
    for name_hex, node in spec["entries"]:
        if node["t"] == "dir":
            sub = prune_empty(node)
            if not sub["entries"]:
                continue
            out.append([name_hex, sub])
        else:
            out.append([name_hex, node])
    return {"t": "dir", "entries": out}


def walk(spec, prefix=b""):
    """(path, node) for every node, the top as b''"""
    yield prefix, spec
    if spec["t"] == "dir":
        for name_hex, node in spec["entries"]:
            p = unhx(name_hex) if not prefix else prefix + b"/" + unhx(name_hex)
            yield from walk(node, p)


def dir_names(spec):
    return [unhx(n) for p, nd in walk(spec) if nd["t"] == "dir" for n, x in nd["entries"] if x["t"] == "dir"]


# ------------------------------------------------------------------ independent expected ids (git's rules)


def expected_ids(spec, owner_exec=False):
    """path -> (kind, id, perms) computed with hashlib from git's rules, independent of swh.model:
    regular file: blob, 100755 iff any execute bit (owner bit only when owner_exec) else 100644;
    symlink: blob of the link text, 120000; special: empty blob; directory: tree (40000)."""
    import hashlib

    out = {}

    def blob(data):
        return hashlib.sha1(b"blob %d\x00" % len(data) + data).digest()

    def rec(node, path):
        t = node["t"]
        if t == "file":
            x = node["mode"] & (0o100 if owner_exec else 0o111)
            r = ("content", blob(file_bytes(node)), 0o100755 if x else 0o100644)
        elif t == "link":
            r = ("content", blob(unhx(node["target"])), 0o120000)
        elif t == "special":
            r = ("content", blob(b""), 0o100755 if node["mode"] & 0o111 else 0o100644)
        else:
            ents = []
            for name_hex, child in node["entries"]:
                name = unhx(name_hex)
                k, i, p = rec(child, name if not path else path + b"/" + name)
                ents.append((name + (b"/" if k == "directory" else b""), name, p, i))
            ents.sort(key=lambda e: e[0])
            body = b"".join(b"%o %s\x00%s" % (p, n, i) for _, n, p, i in ents)
            r = ("directory", hashlib.sha1(b"tree %d\x00" % len(body) + body).digest(), 0o040000)
        out[path] = r
        return r

    rec(spec, b"")
    return out


def git_env():
    e = dict(os.environ)
    e.update(GIT_CONFIG_GLOBAL="/dev/null", GIT_CONFIG_SYSTEM="/dev/null", GIT_CONFIG_NOSYSTEM="1", HOME="/nonexistent", LC_ALL="C",
             GIT_AUTHOR_NAME="a", GIT_AUTHOR_EMAIL="a@a", GIT_COMMITTER_NAME="a", GIT_COMMITTER_EMAIL="a@a")
    return e


def git_write_tree(root: bytes):
    """`git add -A && git write-tree` on the tree at `root` (git dir outside the work tree)"""
    gd = os.path.join(os.path.dirname(root), b"gitdir")
    if os.path.exists(gd):
        shutil.rmtree(gd)
    env = git_env()
    base = ["git", "--git-dir", os.fsdecode(gd), "--work-tree", os.fsdecode(root)]
    subprocess.run(["git", "init", "-q", "--bare", os.fsdecode(gd)], check=True, env=env, stdout=subprocess.DEVNULL)
    subprocess.run(base + ["config", "core.fileMode", "true"], check=True, env=env)
    subprocess.run(base + ["config", "core.symlinks", "true"], check=True, env=env)
    subprocess.run(base + ["config", "core.quotePath", "false"], check=True, env=env)
    subprocess.run(base + ["config", "core.bare", "false"], check=True, env=env)
    p = subprocess.run(base + ["add", "-A", "."], env=env, stderr=subprocess.PIPE, cwd=os.fsdecode(root))
    if p.returncode != 0:
        return None
    p = subprocess.run(base + ["write-tree"], env=env, stdout=subprocess.PIPE, stderr=subprocess.PIPE)
    shutil.rmtree(gd, ignore_errors=True)
    if p.returncode != 0:
        return None
    return bytes.fromhex(p.stdout.decode().strip())


def git_expressible(spec):
    """no special files, executables are owner-executable, all files readable"""
    for _, node in walk(spec):
        if node["t"] == "special":
            return False
        if node["t"] == "file":
            if (node["mode"] & 0o111) and not (node["mode"] & 0o100):
                return False
            if not node["mode"] & 0o400:
                return False
    return True
