"""Child of the C12 check: decodes / round-trips the given cases in an interpreter started with -O (assert
statements are stripped) and prints one JSON summary per case; the parent compares with its own."""
import json
import sys

import common  # noqa: F401  (puts the repository under test on sys.path)
import c12


def main():
    for line in open(sys.argv[1]):
        print(json.dumps(c12.summary(json.loads(line))))


if __name__ == "__main__":
    main()
