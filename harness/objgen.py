"""Type-directed generator of keyword arguments for all 18 model classes and the 3 SWHID classes
(independent of the shipped hypothesis strategies).  Shared by C11 and C12.

`gen_kwargs(rng, cls_name)` returns constructor keyword arguments made of plain Python values and
already-built model objects; `build(cls_name, kwargs)` calls the constructor."""
from __future__ import annotations

import datetime

import c15

MODEL_CLASSES = [
    "Person", "Timestamp", "TimestampWithTimezone", "Origin", "OriginVisit", "OriginVisitStatus", "Snapshot",
    "SnapshotBranch", "Release", "Revision", "Directory", "DirectoryEntry", "Content", "SkippedContent",
    "MetadataAuthority", "MetadataFetcher", "RawExtrinsicMetadata", "ExtID",
]
SWHID_CLASSES = ["CoreSWHID", "QualifiedSWHID", "ExtendedSWHID"]


class LazyData:
    """a loader for Content.get_data (compares and copies by value, so that twins stay comparable)"""

    def __init__(self, data):
        self.data = data
        self.calls = 0

    def __call__(self):
        self.calls += 1
        return self.data

    def __eq__(self, other):
        return isinstance(other, LazyData) and other.data == self.data

    def __hash__(self):
        return hash(self.data)

    def __repr__(self):
        return "LazyData(%r)" % (self.data[:8],)


def cls_of(name):
    from swh.model import model, swhids

    return getattr(model, name, None) or getattr(swhids, name)


def rb(rng, n=20):
    return bytes(rng.randrange(256) for _ in range(n))


def gen_dt(rng):
    off = rng.choice([0, 60, -330, 765, -1439])
    s = rng.choice([0, -1, 1600000000, rng.randrange(-(10**9), 4 * 10**9)])
    us = rng.choice([0, 1, 999999, rng.randrange(10**6)])
    return datetime.datetime.fromtimestamp(s, datetime.timezone(datetime.timedelta(minutes=off))).replace(microsecond=us)


def gen_metadata(rng, nested=True):
    r = rng.random()
    if r < 0.3:
        return None
    d = {"k%d" % i: rng.choice(["v", 1, None, True, b"bytes"]) for i in range(rng.randrange(0, 4))}
    if nested and rng.random() < 0.5:
        d["nested"] = {"a": [1, 2, {"b": "c"}], "t": ("x", 1)}
        if rng.random() < 0.6:
            # containers reached only through a tuple
            d["tupled"] = ("upstream", ["alice"], {"depth": 1}, (["deep"],))
    return d


def gen_person(rng):
    from swh.model import model

    r = rng.random()
    if r < 0.5:
        return model.Person(fullname=rng.choice([b"A <a@b>", b"", b"n\nl <x>"]), name=rng.choice([None, b"A"]), email=rng.choice([None, b"a@b"]))
    return model.Person.from_fullname(rng.choice([b"Jane <j@x>", b"noemail", b"<only>", b" sp <a> trailing"]))


def gen_tstz(rng):
    from swh.model import model

    s = rng.choice([0, -1, 1234567890, model.Timestamp.MIN_SECONDS, model.Timestamp.MAX_SECONDS, rng.randrange(-(10**9), 4 * 10**9)])
    us = rng.choice([0, 0, 1, 500000, 999999])
    off = rng.choice([b"+0000", b"-0000", b"+0530", b"-1200", b"+200", b"", b"+051800", b"\xc3\xa9"])
    return model.TimestampWithTimezone(timestamp=model.Timestamp(seconds=s, microseconds=us), offset_bytes=off)


def gen_kwargs(rng, name, lazy=False):
    from swh.model import model, swhids

    if name == "Person":
        return {"fullname": rng.choice([b"A <a@b>", b"", b"x\ny"]), "name": rng.choice([None, b"A", b""]), "email": rng.choice([None, b"a@b"])}
    if name == "Timestamp":
        return {"seconds": rng.choice([0, -1, model.Timestamp.MIN_SECONDS, model.Timestamp.MAX_SECONDS, rng.randrange(-(10**9), 10**10)]), "microseconds": rng.choice([0, 1, 999999])}
    if name == "TimestampWithTimezone":
        t = gen_tstz(rng)
        return {"timestamp": t.timestamp, "offset_bytes": t.offset_bytes}
    if name == "Origin":
        return {"url": rng.choice(["http://x/", "", "é", "a\nb"])}
    if name == "OriginVisit":
        kw = {"origin": "http://x/", "date": gen_dt(rng), "type": rng.choice(["git", "svn", ""])}
        if rng.random() < 0.6:
            kw["visit"] = rng.choice([1, 7, 10**12])
        return kw
    if name == "OriginVisitStatus":
        kw = {"origin": "http://x/", "visit": rng.choice([1, 3]), "date": gen_dt(rng), "status": rng.choice(["created", "ongoing", "full", "partial", "not_found", "failed"]), "snapshot": rng.choice([None, rb(rng)])}
        if rng.random() < 0.6:
            kw["type"] = rng.choice(["git", None])
        if rng.random() < 0.6:
            kw["metadata"] = gen_metadata(rng)
        return kw
    if name == "SnapshotBranch":
        if rng.random() < 0.3:
            return {"target": rng.choice([b"refs/heads/main", b"", b"x" * 30]), "target_type": model.SnapshotTargetType.ALIAS}
        return {"target": rb(rng), "target_type": rng.choice([t for t in model.SnapshotTargetType if t.value != "alias"])}
    if name == "Snapshot":
        br = {}
        for i in range(rng.randrange(0, 5)):
            nm = rng.choice([b"HEAD", b"refs/heads/a", b"b", b"\xff", b"a1"]) + (b"%d" % i)
            br[nm] = None if rng.random() < 0.2 else model.SnapshotBranch(**gen_kwargs(rng, "SnapshotBranch"))
        return {"branches": br}
    if name == "Release":
        author = gen_person(rng) if rng.random() < 0.7 else None
        kw = {"name": rng.choice([b"v1", b"", b"a\nb"]), "message": rng.choice([None, b"", b"msg\n"]), "target": rb(rng),
              "target_type": rng.choice(list(model.ReleaseTargetType)), "synthetic": rng.random() < 0.5, "author": author,
              "date": gen_tstz(rng) if author is not None and rng.random() < 0.6 else None}
        if rng.random() < 0.6:
            kw["metadata"] = gen_metadata(rng)
        return kw
    if name == "Revision":
        author = gen_person(rng) if rng.random() < 0.8 else None
        committer = gen_person(rng) if rng.random() < 0.8 else None
        kw = {"message": rng.choice([None, b"", b"m"]), "author": author, "committer": committer,
              "date": gen_tstz(rng) if author is not None and rng.random() < 0.8 else None,
              "committer_date": gen_tstz(rng) if committer is not None and rng.random() < 0.8 else None,
              "type": rng.choice(list(model.RevisionType)), "directory": rb(rng), "synthetic": rng.random() < 0.5,
              "parents": tuple(rb(rng) for _ in range(rng.randrange(0, 3)))}
        if kw["parents"] and rng.random() < 0.35:
            # git history does contain commits that list the same parent twice
            ps = list(kw["parents"])
            ps.insert(rng.randrange(len(ps) + 1), rng.choice(ps))
            kw["parents"] = tuple(ps)
        r = rng.random()
        if r < 0.4:
            kw["extra_headers"] = tuple((rng.choice([b"gpgsig", b"x"]), rng.choice([b"", b"a\nb"])) for _ in range(rng.randrange(0, 3)))
        elif r < 0.6:
            kw["metadata"] = {"extra_headers": [[b"k", b"v"], [b"k2", b"v\n2"]], "other": 1}
        if "metadata" not in kw and rng.random() < 0.5:
            kw["metadata"] = gen_metadata(rng)
        return kw
    if name == "DirectoryEntry":
        ty = rng.choice(["file", "dir", "rev"])
        return {"name": rng.choice([b"a", b"", b"x y", b"\xff"]) + rb(rng, 2).replace(b"/", b"_"), "type": ty, "target": rb(rng), "perms": rng.choice([0o100644, 0o100755, 0o120000, 0o040000, 0o160000, 0])}
    if name == "Directory":
        ents = []
        for i in range(rng.randrange(0, 4)):
            k = gen_kwargs(rng, "DirectoryEntry")
            k["name"] = k["name"] + b"%d" % i
            ents.append(model.DirectoryEntry(**k))
        return {"entries": tuple(ents)}
    if name == "Content":
        data = rb(rng, rng.choice([0, 3, 50]))
        c = model.Content.from_data(data)
        kw = {"sha1": c.sha1, "sha1_git": c.sha1_git, "sha256": c.sha256, "blake2s256": c.blake2s256, "length": c.length, "status": rng.choice(["visible", "hidden"])}
        r = rng.random()
        if r < 0.4:
            kw["data"] = data
        elif r < 0.7 and lazy:
            # loaded on demand, as contents read from disk are (only where asked for: the dictionary
            # form of such an object carries the loaded data, so it does not round-trip to an equal object)
            kw["get_data"] = LazyData(data)
        if rng.random() < 0.4:
            kw["ctime"] = gen_dt(rng)
        return kw
    if name == "SkippedContent":
        c = model.Content.from_data(rb(rng, 5))
        kw = {"sha1": c.sha1, "sha1_git": c.sha1_git, "sha256": c.sha256, "blake2s256": c.blake2s256, "length": rng.choice([5, 0, -1]), "status": "absent", "reason": rng.choice(["too large", ""])}
        for h in ("sha1", "sha1_git", "sha256", "blake2s256"):
            if rng.random() < 0.3:
                kw[h] = None
        if rng.random() < 0.4:
            kw["origin"] = "http://o/"
        if rng.random() < 0.4:
            kw["ctime"] = gen_dt(rng)
        return kw
    if name == "MetadataAuthority":
        kw = {"type": rng.choice(list(model.MetadataAuthorityType)), "url": rng.choice(["http://a/", "é"])}
        if rng.random() < 0.5:
            kw["metadata"] = gen_metadata(rng)
        return kw
    if name == "MetadataFetcher":
        kw = {"name": rng.choice(["f", "my fetcher"]), "version": rng.choice(["1.0", "v"])}
        if rng.random() < 0.5:
            kw["metadata"] = gen_metadata(rng)
        return kw
    if name == "RawExtrinsicMetadata":
        kind = rng.choice(c15.KINDS)
        sub = c15.gen_rem(rng, kind, rng.choice(c15.admissible_subsets(kind)))
        o = c15.build_rem(sub)
        import attr

        kw = {a.name: getattr(o, a.name) for a in attr.fields(type(o)) if a.name != "id"}
        # authorities and fetchers carry free-form metadata of their own: few distinct (type, url) /
        # (name, version) keys, many different metadata
        if rng.random() < 0.6:
            kw["authority"] = attr.evolve(kw["authority"], metadata=gen_metadata(rng, nested=False))
        if rng.random() < 0.6:
            kw["fetcher"] = attr.evolve(kw["fetcher"], metadata=gen_metadata(rng, nested=False))
        return kw
    if name == "ExtID":
        o = c15.build_extid(c15.gen_extid(rng))
        import attr

        return {a.name: getattr(o, a.name) for a in attr.fields(type(o)) if a.name != "id"}
    if name == "CoreSWHID":
        return {"object_type": rng.choice(list(swhids.ObjectType)), "object_id": rb(rng)}
    if name == "ExtendedSWHID":
        return {"object_type": rng.choice(list(swhids.ExtendedObjectType)), "object_id": rb(rng)}
    if name == "QualifiedSWHID":
        kw = {"object_type": rng.choice(list(swhids.ObjectType)), "object_id": rb(rng)}
        if rng.random() < 0.5:
            kw["origin"] = rng.choice(["http://x/;a", "é%"])
        if rng.random() < 0.5:
            kw["visit"] = swhids.CoreSWHID(object_type=swhids.ObjectType.SNAPSHOT, object_id=rb(rng))
        if rng.random() < 0.5:
            kw["anchor"] = swhids.CoreSWHID(object_type=swhids.ObjectType.REVISION, object_id=rb(rng))
        if rng.random() < 0.5:
            kw["path"] = rng.choice([b"/a/b", b"\xff;%"])
        if rng.random() < 0.5:
            kw["lines"] = rng.choice([(1, None), (3, 9)])
        return kw
    raise KeyError(name)


def build(name, kwargs):
    return cls_of(name)(**kwargs)
