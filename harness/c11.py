"""C11 — model values are immutable and behave as values (equality, hashing)."""
from __future__ import annotations

import copy
import random

import objgen
import frozen_ops
from common import hx, unhx

REQUIRED = [
    "Swh.C11.frozen_eq_hash",
    "Swh.C11.frozen_eq_implies_hash_eq",
    "Swh.C11.eq_implies_hash_eq",
    "Swh.C11.same_args_equal",
    "Swh.C11.eq_flags_table",
    "Swh.C11.construct_copy_isolated",
    "Swh.C11.construct_alias_not_isolated",
    "Swh.C11.inv_init",
    "Swh.C11.inv_step",
    "Swh.C11.inv_reachable",
    "Swh.C11.frozen_never_changes",
    "Swh.C11.frozen_never_changes_reachable",
    "Swh.C11.fromDict_view",
    "Swh.C11.fromPairs_view",
    "Swh.C11.fromFrozen_view",
    "Swh.C11.copyPop_spec",
    "Swh.C11.copyPop_lookup",
    "Swh.C11.frozen_keys_distinct",
    "Swh.C11.lookup_pure",
    "Swh.C11.lookup_value",
    "Swh.C11.shallow_copy_not_frozen",
    "Swh.C11.alias_pairs_not_frozen",
    "Swh.C11.copyPop_shared_not_frozen",
]
RULE = (
    "every class (18 model classes, 3 SWHID classes, ImmutableDict) x every attrs field x every channel {setattr, "
    "delattr, item assignment/deletion and every mutating dict/list method on mappings and sequences, later mutation "
    "of each container passed to the constructor or inside the from_dict argument (top level and nested), construction "
    "from mappings the caller froze beforehand (argument unchanged, repeatable)} x generated "
    "field values; before/after observation = (dictionary form, id, recomputed hash, ==, hash()); non-trivial = every "
    "case; distinct by (class, channel, field, values)"
)
ASSUMPTIONS = [
    "'assignment raises' is a fact about CPython/attrs objects: the Lean model only predicts 'unchanged'; this clause "
    "is carried by the exhaustive run-time tie (partial)",
    "hash() coherence is claimed where hash() is defined (an object holding an unhashable metadata value has no hash)",
]
TRUSTED = ["attrs (frozen, generated __eq__/__hash__)", "CPython object protocol"]

MUTATORS = ["__setitem__", "__delitem__", "update", "pop", "popitem", "clear", "setdefault", "append", "extend", "insert", "remove", "sort", "reverse", "__iadd__", "__ior__"]


def generate(ctx):
    rng = ctx.rng
    cases = []
    n = ctx.budget(6, 60)
    for name in objgen.MODEL_CLASSES + objgen.SWHID_CLASSES:
        for _ in range(n):
            cases.append({"cls": name, "seed": rng.randrange(2**31)})
    for _ in range(ctx.budget(40, 600)):
        k = rng.randrange(0, 6)
        items = {}
        for _ in range(k):
            items[hx(bytes(rng.choice(b"ab\x00\xff01") for _ in range(rng.randrange(0, 4))))] = hx(bytes(rng.randrange(256) for _ in range(rng.randrange(0, 3))))
        order = list(items.items())
        rng.shuffle(order)
        cases.append({"cls": "ImmutableDict", "items": list(items.items()), "order2": order, "new_items": [[hx(b"zz"), hx(b"1")]]})
    ctx.exhaustive_parts.append("every attrs field of every class x setattr/delattr")
    # frozen mappings whose keys have colliding hashes (-1/-2, 0/2**61-1, 1/2**61): every
    # insertion order must give equal mappings with equal hashes (keys of one mapping are mutually comparable:
    # the library sorts the items)
    for keys in ([-1, -2], [0, 2**61 - 1], [-1, -2, 5], [1, 2**61], [0, 2**61 - 1, -1, -2], [1.0, 2**61], [True, 2**61]):
        cases.append({"cls": "ImmutableDictRaw", "keys": [repr(k) for k in keys]})
    # whole histories over frozen mappings: the caller's dictionaries and lists change between and after the
    # constructions (three constructor routes, copy_pop, lookups); see frozen_ops.py and Swh.Frozen
    for _ in range(ctx.budget(60, 1500)):
        cases.append({"cls": "ImmutableDictOps", "ops": frozen_ops.gen_history(rng, rng.randrange(4, 40)),
                      "pairs_as": rng.choice(["list", "iter", "tuple", "gen"])})
    return cases


def observe(o):
    out = {}
    if hasattr(o, "to_dict"):
        try:
            out["dict"] = repr(o.to_dict())
        except Exception as e:
            out["dict"] = "exc:" + type(e).__name__
    out["str"] = str(o) if type(o).__name__.endswith("SWHID") else repr(o)
    if hasattr(o, "id"):
        out["id"] = o.id
    if hasattr(o, "compute_hash"):
        try:
            out["computed"] = o.compute_hash()
        except Exception as e:
            out["computed"] = "exc:" + type(e).__name__
    try:
        out["hash"] = hash(o)
    except TypeError:
        out["hash"] = "unhashable"
    return out


def containers(v, path=()):
    """yield (path, container) for every dict/list reachable from a kwarg value through plain containers"""
    if isinstance(v, dict):
        yield path, v
        for k, x in list(v.items()):
            yield from containers(x, path + (k,))
    elif isinstance(v, list):
        yield path, v
        for i, x in enumerate(v):
            yield from containers(x, path + (i,))
    elif isinstance(v, tuple):
        for i, x in enumerate(v):
            yield from containers(x, path + (i,))


def poke(c):
    """mutate a plain container in place"""
    if isinstance(c, dict):
        c["__poked__"] = "x"
        for k in list(c)[:1]:
            if k != "__poked__":
                del c[k]
    else:
        c.append("poked")
        if len(c) > 1:
            del c[0]


def from_another_process(ctx, cases):
    """index -> the object of that case as built, hashed and pickled by another interpreter process
    (PYTHONHASHSEED differs), or {} when the child cannot be run"""
    import json
    import os
    import pickle
    import subprocess
    import sys
    import tempfile

    from common import scratch_dir

    d = scratch_dir("c11x")
    try:
        inp, outp = os.path.join(d, "cases.json"), os.path.join(d, "objs.pickle")
        json.dump([{k: c[k] for k in ("cls", "seed", "items") if k in c} for c in cases], open(inp, "w"))
        env = dict(os.environ, PYTHONHASHSEED="4242")
        p = subprocess.run([sys.executable, os.path.join(os.path.dirname(os.path.abspath(__file__)), "c11_child.py"), inp, outp],
                           env=env, stdout=subprocess.PIPE, stderr=subprocess.STDOUT, timeout=300)
        if p.returncode != 0 or not os.path.exists(outp):
            ctx.notes.append("cross-process child failed: " + p.stdout.decode("utf-8", "replace")[-300:])
            return {}
        res = {}
        for i, blob in pickle.load(open(outp, "rb")):
            try:
                res[i] = pickle.loads(blob)
            except Exception:
                pass
        return res
    finally:
        import shutil

        shutil.rmtree(d, ignore_errors=True)


def check_cases(ctx, cases):
    import attr

    foreign = from_another_process(ctx, cases) if len(cases) > 3 else {}
    index_of = {id(c): i for i, c in enumerate(cases)}

    from swh.model.collections import ImmutableDict

    reqs = []
    post = []
    seen_eq_cls = set()
    for case in cases:
        name = case["cls"]
        ctx.case(case)
        ctx.count("cls=" + name)
        if name == "ImmutableDictRaw":
            import ast
            import itertools

            keys = [ast.literal_eval(k) for k in case["keys"]]
            pairs = [(k, "v%d" % i) for i, k in enumerate(keys)]
            ms = [ImmutableDict(dict(p)) for p in itertools.permutations(pairs)]
            try:
                hs = {hash(m) for m in ms}
            except TypeError:
                hs = {0}
            if any(not (m == ms[0] and ms[0] == m) for m in ms) or len(hs) != 1 or any(m not in {ms[0]} for m in ms):
                ctx.fail(case, "frozen mappings with the same items (keys with colliding hashes) compare or hash differently depending on insertion order", "frozenmap-order-dependent:colliding-keys")
            continue
        if name == "ImmutableDictOps":
            for o in case["ops"]:
                ctx.count("frozen-op=" + o["o"])
            try:
                outs, trace = frozen_ops.run_impl(case["ops"], case.get("pairs_as", "list"))
            except Exception as e:
                ctx.fail(case, "a history of operations over frozen mappings raises %s: %s" % (type(e).__name__, str(e)[:100]), "frozenmap-history-raises")
                continue
            bad = frozen_ops.oracle(case["ops"], outs, trace)
            if bad:
                ctx.fail(case, "a frozen mapping changed after it was built, or was built or derived wrongly: " + bad, "frozenmap-history")
            reqs.append({"op": "frozen_run", "ops": case["ops"]})
            post.append(("frozen", case, (outs, trace)))
            continue
        if name == "ImmutableDict":
            items = [(unhx(k), unhx(v)) for k, v in case["items"]]
            order2 = [(unhx(k), unhx(v)) for k, v in case["order2"]]
            src = dict(items)
            d1 = ImmutableDict(src)
            d2 = ImmutableDict(order2)       # from an iterable of pairs, other insertion order
            d3 = ImmutableDict(d1)
            before = (dict(d1.items()), hash(d1))
            import collections as _c

            # read-only use never changes a frozen mapping, whatever dict type it was built from
            # (a defaultdict inserts on lookup)
            d6 = ImmutableDict(_c.defaultdict(list, items))
            b6 = (sorted(d6.items(), key=repr), len(d6), repr(d6))
            for probe in (b"__absent__", b"", 0):
                try:
                    probe in d6
                    d6.get(probe)
                    d6[probe]
                except (KeyError, TypeError):
                    pass
            if (sorted(d6.items(), key=repr), len(d6), repr(d6)) != b6 or not (d6 == d1):
                ctx.fail({"cls": "ImmutableDict", "items": case["items"][:2], "order2": case["order2"][:2], "new_items": case["new_items"], "from": "defaultdict"},
                         "looking up an absent key changes a frozen mapping built from a defaultdict", "frozenmap-changed-by-lookup")
            d4 = ImmutableDict(_c.OrderedDict(items))
            d5 = ImmutableDict(_c.OrderedDict(order2))
            if not (d4 == d5 and d5 == d4 and d4 == d1 and hash(d4) == hash(d5) == hash(d1)) or d4 != d5:
                ctx.fail(case, "frozen mappings built from OrderedDicts with the same items in another order compare/hash differently", "frozenmap-order-dependent:ordered-dict")
            fo = foreign.get(index_of[id(case)]) if foreign else None
            if fo is not None:
                ctx.count("channel=from-another-process")
                if not (fo == d1) or hash(fo) != hash(d1) or fo not in {d1}:
                    ctx.fail(case, "a frozen mapping hashed and pickled in another process is equal to the one built here but hashes differently", "equal-but-different-hash:other-process")
            if not (d1 == d2 and hash(d1) == hash(d2) and d1 == d3 and hash(d1) == hash(d3)):
                ctx.fail(case, "frozen mappings with the same items compare/hash differently depending on insertion order", "frozenmap-order-dependent")
            for m in MUTATORS:
                f = getattr(d1, m, None)
                if f is None:
                    continue
                try:
                    if m in ("__setitem__", "setdefault"):
                        f(b"k", b"v")
                    elif m in ("__delitem__", "pop", "remove") and items:
                        f(items[0][0])
                    elif m in ("update", "__ior__", "extend", "__iadd__"):
                        f({b"k": b"v"})
                    else:
                        f()
                    ctx.fail(case, f"ImmutableDict.{m} is available and does not raise", "frozenmap-mutator:" + m)
                except (TypeError, AttributeError, KeyError, ValueError):
                    pass
            try:
                d1[b"k"] = b"v"
                ctx.fail(case, "item assignment on a frozen mapping does not raise", "frozenmap-item-assignment")
            except TypeError:
                pass
            try:
                if items:
                    del d1[items[0][0]]
                    ctx.fail(case, "item deletion on a frozen mapping does not raise", "frozenmap-item-deletion")
            except TypeError:
                pass
            # later mutation of the dict it was built from
            src[b"zz"] = b"1"
            if items:
                del src[items[0][0]]
            after = (dict(d1.items()), hash(d1))
            if after != before:
                ctx.fail({"cls": "ImmutableDict", "items": case["items"][:2], "order2": case["order2"][:2], "new_items": case["new_items"]}, "mutating the dict an ImmutableDict was built from changes the ImmutableDict (content/hash)", "frozenmap-aliases-argument")
            canon = [[hx(k), hx(v)] for k, v in sorted(items)]
            reqs.append({"op": "values", "f": "map_canon", "items": case["order2"]})
            post.append(("canon", case, canon))
            reqs.append({"op": "values", "f": "alias_run", "mode": "copy", "items": case["items"], "new_items": case["new_items"]})
            post.append(("alias", case, [[hx(k), hx(v)] for k, v in before[0].items()] if after == before else [[hx(k), hx(v)] for k, v in after[0].items()]))
            continue

        rng = random.Random(case["seed"])
        kwargs = objgen.gen_kwargs(rng, name, lazy=True)
        twin_kwargs = copy.deepcopy(kwargs)
        try:
            o = objgen.build(name, kwargs)
            twin = objgen.build(name, twin_kwargs)
        except (ValueError, TypeError) as e:
            ctx.count("generator-rejected")
            continue
        fo = foreign.get(index_of[id(case)]) if foreign else None
        if fo is not None and fo == o:
            ctx.count("channel=from-another-process")
            try:
                if hash(fo) != hash(o) or fo not in {o}:
                    ctx.fail(case, "an object hashed and pickled in another process is equal to the one built here but hashes differently (a hash remembered across processes)", "equal-but-different-hash:other-process")
            except TypeError:
                pass
        # copies (copy, deepcopy, pickle round trip) are equal to the original and hash like it
        import pickle as _pk

        for how, mk in (("copy", copy.copy), ("deepcopy", copy.deepcopy), ("pickle", lambda x: _pk.loads(_pk.dumps(x)))):
            try:
                oc = mk(o)
            except Exception as e:
                ctx.fail(case, f"{how} of a {name} raises {type(e).__name__}", "copy-raises:" + how)
                continue
            ctx.count("channel=copies")
            if not (oc == o and o == oc):
                ctx.fail(case, f"a {how} of a {name} is not equal to the original", "copy-not-equal:" + how)
                continue
            try:
                if hash(oc) != hash(o):
                    ctx.fail(case, f"a {how} of a {name} is equal to the original but hashes differently", "equal-but-different-hash:" + how)
            except TypeError:
                pass
        # looking at an object never changes it: hash and equality are taken BEFORE anything else is
        # called on it, then every read-only method is called, then they are taken again
        try:
            h_first = hash(o)
        except TypeError:
            h_first = "unhashable"
        eq_first = o == twin
        for meth in ("to_dict", "__repr__", "__str__", "swhid", "unique_key", "compute_hash", "hashes", "anonymize", "with_data", "check"):
            fn = getattr(o, meth, None)
            if fn is not None:
                try:
                    fn()
                except Exception:
                    pass
        try:
            h_after = hash(o)
        except TypeError:
            h_after = "unhashable"
        if h_after != h_first or (o == twin) != eq_first:
            ctx.fail(case, "calling read-only methods (dictionary form, repr, swhid, check, ...) changes the hash or the equality of the object", "changed-by-observation:" + name)
        # what an object hands out is the caller's to change: mutating every container inside a dictionary form
        # (top level and nested) changes neither the object nor the dictionary form of any equal object
        if hasattr(o, "to_dict"):
            try:
                d_first = o.to_dict()
                d_keep = copy.deepcopy(d_first)
                def fresh(v, in_meta=False):
                    # containers that to_dict() builds for the caller.  (A list stored as a value inside free-form
                    # metadata is handed out as it is, like by obj.metadata[k] itself: changing what one obtained
                    # from an object is not among the ways of changing it that the property lists.)
                    if isinstance(v, dict):
                        yield v
                        for k_, x_ in list(v.items()):
                            yield from fresh(x_, in_meta or k_ == "metadata")
                    elif isinstance(v, list) and not in_meta:
                        yield v
                        for x_ in v:
                            yield from fresh(x_, in_meta)
                    elif isinstance(v, tuple):
                        for x_ in v:
                            yield from fresh(x_, in_meta)

                for c in list(fresh(d_first)):
                    poke(c)
                d_again = o.to_dict()
                d_twin = twin.to_dict()
                if repr(d_again) != repr(d_keep) or repr(d_twin) != repr(d_keep):
                    ctx.fail(case, "mutating the containers inside a dictionary form handed out by to_dict() changes the dictionary form handed out next (by the object or by an equal object)", "dict-form-shared:" + name)
            except (ValueError, TypeError, AttributeError):
                pass
        before = observe(o)
        # two objects built from the same arguments are equal, with equal hashes
        if not (o == twin) or (before["hash"] != "unhashable" and before["hash"] != hash(twin)):
            ctx.fail(case, "two objects built from the same arguments are not equal / hash differently", "same-args-not-equal")
        # an equal object built another way: nested dicts filled in the reverse order, numbers replaced
        # by equal numbers of another type (1 / 1.0 / True).  If the two compare equal, their hashes
        # (when defined) must be equal too.
        kw2 = {k: respell(v) if isinstance(v, dict) else v for k, v in copy.deepcopy(kwargs).items()}
        if any(isinstance(v, dict) for v in kwargs.values()):
            try:
                o_resp = objgen.build(name, kw2)
            except (ValueError, TypeError):
                o_resp = None
            if o_resp is not None and o_resp == o:
                ctx.count("channel=equal-by-another-spelling")
                try:
                    h1, h2 = hash(o), hash(o_resp)
                except TypeError:
                    h1 = h2 = None
                    ctx.count("equal-by-another-spelling:unhashable")
                if h1 != h2:
                    ctx.fail(case, "two objects that compare equal (nested mapping filled in another order / equal numbers of another type) have different hashes", "equal-but-different-hash:respelled")
                for fk in kwargs:
                    a, b = getattr(o, fk, None), getattr(o_resp, fk, None)
                    if isinstance(a, ImmutableDict) and a == b:
                        try:
                            if hash(a) != hash(b):
                                ctx.fail(dict(case, field=fk), "two frozen mappings that compare equal have different hashes", "frozenmap-equal-but-different-hash")
                        except TypeError:
                            pass
        # mappings of another dict type (OrderedDict, whose own == is order-sensitive), filled in two
        # orders: the objects built from them must be equal to each other and to the plain-dict one
        if any(isinstance(v, dict) for v in kwargs.values()):
            import collections as _c

            def od(v, rev):
                items = list(copy.deepcopy(v).items())
                return _c.OrderedDict(reversed(items) if rev else items)

            try:
                oa = objgen.build(name, {k: od(v, False) if isinstance(v, dict) else v for k, v in copy.deepcopy(kwargs).items()})
                ob = objgen.build(name, {k: od(v, True) if isinstance(v, dict) else v for k, v in copy.deepcopy(kwargs).items()})
            except (ValueError, TypeError):
                oa = ob = None
            if oa is not None:
                ctx.count("channel=ordered-dict-arguments")
                if not (oa == ob and ob == oa and oa == o and ob == o) or (oa != ob):
                    ctx.fail(case, "objects built from equal mappings of another dict type / insertion order do not compare equal", "mapping-order-dependent-equality:" + name)
                else:
                    try:
                        if len({hash(oa), hash(ob), hash(o)}) != 1:
                            ctx.fail(case, "equal objects built from mappings of another dict type hash differently", "equal-but-different-hash:ordered-dict")
                    except TypeError:
                        pass
        # the same arguments with every mapping already frozen by the caller: construction must not
        # change a frozen mapping, and building twice from the same arguments gives equal objects
        fkw = {k: (ImmutableDict(copy.deepcopy(v)) if isinstance(v, dict) else v) for k, v in kwargs.items()}
        frozen = {k: v for k, v in fkw.items() if isinstance(v, ImmutableDict)}
        if frozen:
            ctx.count("channel=frozen-mapping-arg")
            snap = {k: (repr(sorted(v.items(), key=repr)), len(v), repr(v)) for k, v in frozen.items()}
            try:
                of1 = objgen.build(name, fkw)
                of2 = objgen.build(name, fkw)
            except (ValueError, TypeError) as e:
                ctx.fail(case, f"construction from an already-frozen mapping raises {type(e).__name__}", "frozen-arg-rejected")
                of1 = of2 = None
            for k, v in frozen.items():
                if (repr(sorted(v.items(), key=repr)), len(v), repr(v)) != snap[k]:
                    ctx.fail(dict(case, field=k), f"building a {name} changes the frozen mapping passed as `{k}`", "constructor-mutates-frozen-argument:" + name + "." + k)
            if of1 is not None:
                if not (of1 == of2) or observe(of1) != observe(of2):
                    ctx.fail(case, "two objects built one after the other from the same (frozen) arguments differ", "same-args-not-equal:frozen")
                elif not (of1 == o) or observe(of1) != before:
                    ctx.fail(case, "an object built from a frozen mapping differs from the one built from the equal plain dict", "frozen-arg-differs")
        # a list where a tuple is expected (what a JSON/msgpack decoder hands over): either the
        # constructor rejects it, or the object neither keeps nor exposes the caller's list
        for fk, fv in kwargs.items():
            if not isinstance(fv, tuple):
                continue
            for deep in (False, True):
                lst = thaw(fv) if deep else list(fv)
                if deep and lst == list(fv):
                    continue
                ctx.count("channel=list-for-tuple")
                try:
                    ol = objgen.build(name, dict(copy.deepcopy({k: v for k, v in kwargs.items() if k != fk}), **{fk: lst}))
                except (ValueError, TypeError, KeyError, AttributeError):
                    ctx.count("list-for-tuple:rejected")
                    continue
                ctx.count("list-for-tuple:accepted")
                bl = observe(ol)
                got = getattr(ol, fk, None)
                if isinstance(got, list) or any(isinstance(x, list) for x in (got or ())):
                    ctx.fail(dict(case, field=fk), f"{name}({fk}=<list>) is accepted and the object exposes a list as `{fk}`", "field-mutable:list:" + name + "." + fk)
                for path, c in containers(lst):
                    poke(c)
                if observe(ol) != bl:
                    ctx.fail(dict(case, field=fk), f"{name}({fk}=<list>) is accepted and mutating that list afterwards changes the object", "constructor-aliases-argument:" + name + "." + fk)
        fields = [f.name for f in attr.fields(type(o))]
        for f in fields:
            ctx.count("channel=setattr")
            try:
                setattr(o, f, getattr(twin, f))
                ctx.fail(dict(case, field=f), f"assigning attribute {f} does not raise", "setattr-allowed")
            except (AttributeError, TypeError):
                pass
            try:
                delattr(o, f)
                ctx.fail(dict(case, field=f), f"deleting attribute {f} does not raise", "delattr-allowed")
            except (AttributeError, TypeError):
                pass
            v = getattr(o, f)
            for m in MUTATORS:
                if isinstance(v, (bytes, str, int, type(None))) or not hasattr(v, m) or hasattr(v, "object_type"):
                    continue
                if isinstance(v, (tuple,)):
                    continue
                ctx.fail(dict(case, field=f), f"the value of attribute {f} ({type(v).__name__}) offers the mutating method {m}", "field-mutable:" + type(v).__name__)
                break
        if observe(o) != before:
            ctx.fail(case, "the object changed after attempted attribute assignment/deletion", "changed-by-setattr")
        # later mutation of every container passed to the constructor
        for f, val in kwargs.items():
            for path, c in containers(val):
                ctx.count("channel=container-arg" + ("-nested" if path else ""))
                poke(c)
                now = observe(o)
                if now != before or not (o == twin):
                    kind = "constructor-aliases-nested-container" if path else "constructor-aliases-argument"
                    ctx.fail(dict(case, field=f, path=[str(p) for p in path]), f"mutating the {'nested ' if path else ''}container passed as `{f}` afterwards changes the object ({', '.join(k for k in before if before[k] != now[k]) or 'equality'})", kind + ":" + name + "." + f)
                    before = now  # report each channel once
                    twin = objgen.build(name, copy.deepcopy(kwargs))
        # from_dict: mutate the argument afterwards
        if hasattr(o, "to_dict") and hasattr(type(o), "from_dict"):
            try:
                d = copy.deepcopy(twin.to_dict())
                # lists instead of tuples, as a JSON/msgpack decoder would give
                d = thaw(d)
                o2 = type(o).from_dict(d)
                b2 = observe(o2)
                for path, c in containers(d):
                    ctx.count("channel=from_dict-arg" + ("-nested" if path else ""))
                    poke(c)
                    n2 = observe(o2)
                    if n2 != b2:
                        kind = "from_dict-aliases-nested-container" if path else "from_dict-aliases-argument"
                        ctx.fail(dict(case, path=[str(p) for p in path]), f"mutating the dictionary given to from_dict afterwards changes the object ({', '.join(k for k in b2 if b2[k] != n2[k])})", kind + ":" + name + "." + (str(path[0]) if path else ""))
                        b2 = n2
            except (ValueError, TypeError, KeyError):
                ctx.count("from_dict-rejected")
        if name not in seen_eq_cls:
            seen_eq_cls.add(name)
            reqs.append({"op": "values", "f": "eq_fields", "cls": name})
            post.append(("eqf", case, [f.name for f in attr.fields(type(o)) if f.eq]))
            # behaviour: changing a field changes equality iff it is an eq field
            for f in attr.fields(type(o)):
                other = None
                for s in range(20):
                    kw2 = objgen.gen_kwargs(random.Random(case["seed"] + 1 + s), name)
                    if f.name in kw2 and f.name in kwargs and repr(kw2[f.name]) != repr(twin_kwargs[f.name]):
                        other = kw2[f.name]
                        break
                if other is None or f.name == "id":
                    continue
                try:
                    o3 = attr.evolve(twin, **{f.name: other})
                except (ValueError, TypeError):
                    continue
                if getattr(o3, f.name) == getattr(twin, f.name):
                    continue
                same = o3 == twin
                if same != (not f.eq):
                    ctx.fail(dict(case, field=f.name), f"changing attribute {f.name} (eq={f.eq}) {'does not change' if same else 'changes'} equality", "eq-flag-behaviour")
                if same:
                    try:
                        if hash(o3) != hash(twin):
                            ctx.fail(dict(case, field=f.name), "objects that compare equal have different hashes", "equal-but-different-hash")
                    except TypeError:
                        pass
    res = ctx.model(reqs)
    for (kind, case, impl), r in zip(post, res):
        if "error" in r:
            if ctx.model_available:
                ctx.disagree(case, "model driver error", model=r)
            continue
        m = r["r"]
        if kind == "canon" and m["sorted"] != impl:
            ctx.disagree(case, "canonical item order of a frozen mapping: model vs implementation", model=m["sorted"], impl=impl)
        if kind == "alias" and sorted(m["observed"]) != sorted(impl):
            ctx.disagree(case, "object built from a container that is mutated afterwards: model (copying constructor) vs implementation", model=m["observed"], impl=impl)
        if kind == "frozen":
            outs, trace = impl
            if m.get("outs") != outs:
                ctx.disagree(case, "history over frozen mappings: per-operation results, model vs implementation", model=m.get("outs"), impl=outs)
            elif m.get("trace") != trace:
                n = next((i for i, (a, b) in enumerate(zip(m.get("trace") or [], trace)) if a != b), None)
                ctx.disagree(case, "history over frozen mappings: contents after step %r, model vs implementation" % n,
                             model=(m.get("trace") or [None] * (n + 1))[n] if n is not None else m.get("trace"), impl=trace[n] if n is not None else trace)
            continue
        if kind == "eqf" and m["fields"] != impl:
            ctx.disagree(case, "eq fields: regenerated table vs attrs", model=m["fields"], impl=impl)


def respell(v):
    """an equal value spelled differently: dicts rebuilt in reverse insertion order, ints <-> equal floats/bools"""
    if isinstance(v, dict):
        return {k: respell(x) for k, x in reversed(list(v.items()))}
    if isinstance(v, list):
        return [respell(x) for x in v]
    if isinstance(v, tuple):
        return tuple(respell(x) for x in v)
    if v is True:
        return 1
    if isinstance(v, int) and not isinstance(v, bool) and abs(v) < 2**50:
        return float(v)
    return v


def thaw(v):
    if isinstance(v, dict):
        return {k: thaw(x) for k, x in v.items()}
    if isinstance(v, tuple):
        return [thaw(x) for x in v]
    if isinstance(v, list):
        return [thaw(x) for x in v]
    return v


def neighbours(ctx, case):
    if case["cls"] == "ImmutableDictOps":
        ops = case["ops"]
        out = [dict(case, ops=ops[:n]) for n in range(1, len(ops))]
        out += [dict(case, ops=ops[:i] + ops[i + 1:]) for i in range(len(ops))]
        return out
    if case["cls"] in ("ImmutableDict", "ImmutableDictRaw"):
        return []
    return [dict(case, seed=case["seed"] + i) for i in range(1, 6)]


def shrink(ctx, failure):
    """histories over frozen mappings: drop operations while the oracle still objects"""
    case = failure["case"]
    if case.get("cls") != "ImmutableDictOps" or failure["kind"] != "frozenmap-history":
        return case
    ops = list(case["ops"])

    def bad(o):
        try:
            outs, trace = frozen_ops.run_impl(o, case.get("pairs_as", "list"))
        except Exception:
            return False
        return frozen_ops.oracle(o, outs, trace) is not None

    for n in range(1, len(ops)):
        if bad(ops[:n]):
            ops = ops[:n]
            break
    changed = True
    while changed:
        changed = False
        for i in reversed(range(len(ops))):
            cand = ops[:i] + ops[i + 1:]
            if cand and bad(cand):
                ops = cand
                changed = True
                break
    return dict(case, ops=ops)
