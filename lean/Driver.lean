import Lean.Data.Json
import SwhVerif.Model.All
import SwhVerif.Exec.Sha1
import SwhVerif.Exec.SerdeIds
/-!
  Line-protocol driver: one JSON object per input line, one JSON object per output line.
  Runs the *model's* executable definitions; the Python harness runs the implementation on
  the same cases and diffs. No Mathlib anywhere below this file.
-/
open Lean Swh

namespace Drv

def hexNib (c : Char) : Option Nat :=
  if '0' ≤ c ∧ c ≤ '9' then some (c.toNat - 48)
  else if 'a' ≤ c ∧ c ≤ 'f' then some (c.toNat - 87)
  else none

def unhexStr (s : String) : Except String Bytes := do
  let rec go (cs : List Char) (acc : Array UInt8) : Except String Bytes :=
    match cs with
    | [] => pure acc.toList
    | [_] => throw "odd hex"
    | a :: b :: rest =>
      match hexNib a, hexNib b with
      | some x, some y => go rest (acc.push (UInt8.ofNat (x * 16 + y)))
      | _, _ => throw "bad hex"
  go s.toList #[]

def hexStr (bs : Bytes) : String :=
  let d (n : Nat) : Char := if n < 10 then Char.ofNat (48 + n) else Char.ofNat (87 + n)
  String.ofList (bs.foldr (fun b acc => d (b.toNat / 16) :: d (b.toNat % 16) :: acc) [])

def getB (j : Json) (k : String) : Except String Bytes := do
  let s ← j.getObjValAs? String k
  unhexStr s

def getBOpt (j : Json) (k : String) : Except String (Option Bytes) :=
  match j.getObjVal? k with
  | .ok Json.null => pure none
  | .ok (Json.str s) => do let b ← unhexStr s; pure (some b)
  | .ok _ => throw s!"bad optional bytes {k}"
  | .error _ => pure none

def getN (j : Json) (k : String) : Except String Nat := j.getObjValAs? Nat k
def getI (j : Json) (k : String) : Except String Int := j.getObjValAs? Int k
def getS (j : Json) (k : String) : Except String String := j.getObjValAs? String k
def getBool (j : Json) (k : String) : Except String Bool := j.getObjValAs? Bool k
def getArr (j : Json) (k : String) : Except String (Array Json) := j.getObjValAs? (Array Json) k

def jB (bs : Bytes) : Json := Json.str (hexStr bs)
def jBOpt : Option Bytes → Json
  | none => Json.null
  | some b => jB b

/-- Python `str` travels as an array of code points -/
def getCps (j : Json) (k : String) : Except String (List Nat) := do
  let a ← getArr j k
  a.toList.mapM (fun x => x.getNat?)

def jCps (cs : List Nat) : Json := Json.arr (cs.map (fun n => Json.num (JsonNumber.fromNat n))).toArray

end Drv

open Drv

/-! ### per-property operations (each file `Drv/Cxx` would be overkill: kept together) -/

def parseEType (s : String) : Except String EType :=
  match s with
  | "file" => pure .file
  | "dir" => pure .dir
  | "rev" => pure .rev
  | _ => throw s!"bad entry type {s}"

def parseEntry (j : Json) : Except String Entry := do
  let name ← getB j "name"
  let ty ← getS j "type"
  let t ← parseEType ty
  let perms ← getN j "perms"
  let target ← getB j "target"
  pure ⟨name, t, perms, target⟩

def jTriples (ts : List (Nat × Bytes × Bytes)) : Json :=
  Json.arr (ts.map (fun (p, n, t) => Json.arr #[Json.num (JsonNumber.fromNat p), jB n, jB t])).toArray

def opDirManifest (j : Json) : Except String Json := do
  let es ← (← getArr j "entries").toList.mapM parseEntry
  let m := dirManifest es
  pure <| Json.mkObj [("manifest", jB m)]

def opTreeDecode (j : Json) : Except String Json := do
  let bs ← getB j "bytes"
  match stripGitHeader treeTy bs with
  | none => pure <| Json.mkObj [("decoded", Json.null)]
  | some body =>
    match decodeTree body with
    | none => pure <| Json.mkObj [("decoded", Json.null)]
    | some ts => pure <| Json.mkObj [("decoded", jTriples ts)]

/-! #### C05 snapshots -/

def parseBranch (j : Json) : Except String Branch := do
  let name ← getB j "name"
  let kind ← getS j "kind"
  match kind with
  | "dangling" => pure (name, .dangling)
  | "alias" => do let t ← getB j "target"; pure (name, .alias t)
  | "content" => do let t ← getB j "target"; pure (name, .obj .content t)
  | "directory" => do let t ← getB j "target"; pure (name, .obj .directory t)
  | "revision" => do let t ← getB j "target"; pure (name, .obj .revision t)
  | "release" => do let t ← getB j "target"; pure (name, .obj .release t)
  | "snapshot" => do let t ← getB j "target"; pure (name, .obj .snapshot t)
  | _ => throw s!"bad branch kind {kind}"

def jPairs (ps : List (Bytes × Bytes)) : Json :=
  Json.arr (ps.map (fun (a, b) => Json.arr #[jB a, jB b])).toArray

def opSnpManifest (j : Json) : Except String Json := do
  let bs ← (← getArr j "branches").toList.mapM parseBranch
  let ig ← getBool j "ignore"
  match snapshotManifest bs ig with
  | .ok m => pure <| Json.mkObj [("manifest", jB m), ("idmanifest", jB (snapshotIdManifest bs))]
  | .error u => pure <| Json.mkObj [("unresolved", jPairs u), ("idmanifest", jB (snapshotIdManifest bs))]

def opSnpDecode (j : Json) : Except String Json := do
  let bs ← getB j "bytes"
  match stripGitHeader snapshotTy bs with
  | none => pure <| Json.mkObj [("decoded", Json.null)]
  | some body =>
    match decodeSnapshot body with
    | none => pure <| Json.mkObj [("decoded", Json.null)]
    | some ts => pure <| Json.mkObj [("decoded",
        Json.arr (ts.map (fun (k, n, t) => Json.arr #[jB k, jB n, jB t])).toArray)]

/-! #### C20 toposort -/

def opToposort (j : Json) : Except String Json := do
  let log ← (← getArr j "log").toList.mapM (fun r => do
    let id ← getN r "id"
    let ps ← (← getArr r "parents").toList.mapM (fun x => x.getNat?)
    pure (Rev.mk id ps))
  let out := toposort log
  pure <| Json.mkObj [("order", Json.arr (out.map (fun r => Json.num (JsonNumber.fromNat r.id))).toArray)]

/-- `{"op":"toposort_run","log":[...],"order":[ids]}` → `{"is_run": b}`: is `order` (the ids in the
    order the implementation yielded them) a complete run of the work-list-generic Kahn algorithm on
    `log` (`Swh.ToposortGen.isRun`)?  Each id is mapped back to the first revision of the log with
    that id; an id that is not in the log makes the answer `false`. -/
def opToposortRun (j : Json) : Except String Json := do
  let log ← (← getArr j "log").toList.mapM (fun r => do
    let id ← getN r "id"
    let ps ← (← getArr r "parents").toList.mapM (fun x => x.getNat?)
    pure (Rev.mk id ps))
  let ids ← (← getArr j "order").toList.mapM (fun x => x.getNat?)
  let byId : Std.HashMap Nat Rev :=
    log.foldl (fun m r => if m.contains r.id then m else m.insert r.id r) {}
  let ok := match ids.mapM (fun i => byId[i]?) with
    | none => false
    | some order => Swh.ToposortGen.isRun log order
  pure <| Json.mkObj [("is_run", Json.bool ok)]

/-! #### C16 time -/

def jErr (e : ErrKind) : Json :=
  Json.str (match e with
    | .validation => "validation" | .valueError => "valueError" | .typeError => "typeError"
    | .assertion => "assertion" | .other => "other")

def jInt (i : Int) : Json := Json.num (JsonNumber.fromInt i)

def opOffsetTable (j : Json) : Except String Json := do
  let lo ← getI j "lo"
  let hi ← getI j "hi"
  let n := (hi - lo + 1).toNat
  let rows := (List.range n).flatMap (fun (k : Nat) =>
    let o : Int := lo + (k : Int)
    [false, true].map (fun f =>
      let b := formatOffset o f
      let p := match parseOffsetBytes b with | .ok v => jInt v | .error e => jErr e
      let c := match fromNumericOffset o f with | .ok _ => Json.bool true | .error e => jErr e
      Json.arr #[jB b, p, c]))
  pure <| Json.mkObj [("rows", Json.arr rows.toArray)]

def opOffsetParse (j : Json) : Except String Json := do
  let b ← getB j "bytes"
  match parseOffsetBytes b with
  | .ok v => pure <| Json.mkObj [("ok", jInt v)]
  | .error e => pure <| Json.mkObj [("err", jErr e)]

def opFmtDate (j : Json) : Except String Json := do
  let s ← getI j "s"
  let us ← getN j "us"
  let t := formatDate s us
  let back := match parseDate t with
    | some (a, b) => Json.arr #[jInt a, Json.num (JsonNumber.fromNat b)]
    | none => Json.null
  pure <| Json.mkObj [("text", jB t), ("back", back)]

def opMkTs (j : Json) : Except String Json := do
  let s ← getI j "s"
  let us ← getI j "us"
  match mkTimestamp s us with
  | .ok _ => pure <| Json.mkObj [("ok", Json.bool true)]
  | .error e => pure <| Json.mkObj [("err", jErr e)]

def opFromDt (j : Json) : Except String Json := do
  let u ← getI j "u"
  let off ← getI j "off"
  let (s, us, o) := fromDatetime ⟨u, off⟩
  let ob := match fromNumericOffset o false with | .ok b => jB b | .error e => jErr e
  let back := toDatetime s us o
  pure <| Json.mkObj [("s", jInt s), ("us", jInt us), ("off", jInt o), ("offset_bytes", ob),
    ("back", Json.arr #[jInt back.utcMicros, jInt back.offMin])]

def opToDt (j : Json) : Except String Json := do
  let s ← getI j "s"
  let us ← getI j "us"
  let b ← getB j "offset_bytes"
  match parseOffsetBytes b with
  | .error e => pure <| Json.mkObj [("err", jErr e)]
  | .ok o =>
    let d := toDatetime s us o
    pure <| Json.mkObj [("u", jInt d.utcMicros), ("off", jInt d.offMin), ("minutes", jInt o)]

/-! #### C03 / C04 / C15 header-list manifests -/

def getDate (j : Json) (k : String) : Except String (Option DateV) :=
  match j.getObjVal? k with
  | .ok Json.null => pure none
  | .error _ => pure none
  | .ok d => do
    let s ← getI d "s"
    let us ← getN d "us"
    let off ← getB d "off"
    pure (some ⟨s, us, off⟩)

def getHeaders (j : Json) (k : String) : Except String (List Header) := do
  let a ← getArr j k
  a.toList.mapM (fun p => do
    let kv ← p.getArr?
    if kv.size != 2 then throw "bad header pair"
    let ks ← kv[0]!.getStr?
    let vs ← kv[1]!.getStr?
    let kb ← unhexStr ks
    let vb ← unhexStr vs
    pure (kb, vb))

def getHeadersOpt (j : Json) (k : String) : Except String (Option (List Header)) :=
  match j.getObjVal? k with
  | .ok Json.null => pure none
  | .error _ => pure none
  | .ok _ => do let h ← getHeaders j k; pure (some h)

def jHeaders (hs : List Header) : Json := jPairs hs

def opRevManifest (j : Json) : Except String Json := do
  let dir ← getB j "directory"
  let parents ← (← getArr j "parents").toList.mapM (fun x => do let s ← x.getStr?; unhexStr s)
  let author ← getBOpt j "author"
  let date ← getDate j "date"
  let committer ← getBOpt j "committer"
  let cdate ← getDate j "committer_date"
  let extra ← getHeaders j "extra"
  let metaH ← getHeadersOpt j "meta"
  let msg ← getBOpt j "message"
  let r : RevAttrs := ⟨dir, parents, author, date, committer, cdate, extra, metaH, msg⟩
  pure <| Json.mkObj [("manifest", jB (revisionManifest r))]

def opCommitParse (j : Json) : Except String Json := do
  let bs ← getB j "bytes"
  match parseCommit bs with
  | none => pure <| Json.mkObj [("parsed", Json.null)]
  | some p => pure <| Json.mkObj [("parsed", Json.mkObj [
      ("tree", jB p.tree), ("parents", Json.arr (p.parents.map jB).toArray),
      ("author", jBOpt p.author), ("committer", jBOpt p.committer),
      ("extra", jHeaders p.extra), ("message", jBOpt p.message)])]

def opRelManifest (j : Json) : Except String Json := do
  let target ← getB j "target"
  let tt ← getB j "ttype"
  let name ← getB j "name"
  let author ← getBOpt j "author"
  let date ← getDate j "date"
  let msg ← getBOpt j "message"
  match targetTypeToGit tt with
  | none => throw "unknown target type"
  | some g =>
    let r : RelAttrs := ⟨target, g, name, author, date, msg⟩
    pure <| Json.mkObj [("manifest", jB (releaseManifest r))]

def opTagParse (j : Json) : Except String Json := do
  let bs ← getB j "bytes"
  match parseTag bs with
  | none => pure <| Json.mkObj [("parsed", Json.null)]
  | some p => pure <| Json.mkObj [("parsed", Json.mkObj [
      ("object", jB p.object), ("type", jB p.type), ("tag", jB p.tag),
      ("tagger", jBOpt p.tagger), ("message", jBOpt p.message)])]

def opExtidManifest (j : Json) : Except String Json := do
  let e : ExtidAttrs := ⟨← getB j "extid_type", ← getI j "version", ← getB j "extid",
    ← getB j "target", ← getBOpt j "payload_type", ← getBOpt j "payload"⟩
  pure <| Json.mkObj [("manifest", jB (extidManifest e))]

def opExtidParse (j : Json) : Except String Json := do
  let bs ← getB j "bytes"
  match parseExtid bs with
  | none => pure <| Json.mkObj [("parsed", Json.null)]
  | some p => pure <| Json.mkObj [("parsed", Json.mkObj [
      ("extid_type", jB p.extidType), ("version", jBOpt p.version), ("extid", jB p.extid),
      ("target", jB p.target), ("payload_type", jBOpt p.payloadType), ("payload", jBOpt p.payload)])]

def getNOpt (j : Json) (k : String) : Except String (Option Nat) :=
  match j.getObjVal? k with
  | .ok Json.null => pure none
  | .error _ => pure none
  | .ok v => do let n ← v.getNat?; pure (some n)

def opRemManifest (j : Json) : Except String Json := do
  let m : RemAttrs := {
    target := ← getB j "target", discovery := ⟨← getI j "u", ← getI j "off"⟩,
    authorityType := ← getB j "atype", authorityUrl := ← getB j "aurl",
    fetcherName := ← getB j "fname", fetcherVersion := ← getB j "fversion",
    format := ← getB j "format", metadata := ← getB j "metadata",
    origin := ← getBOpt j "origin", visit := ← getNOpt j "visit",
    snapshot := ← getBOpt j "snapshot", release := ← getBOpt j "release",
    revision := ← getBOpt j "revision", path := ← getBOpt j "path",
    directory := ← getBOpt j "directory" }
  pure <| Json.mkObj [("manifest", jB (remManifest m)), ("second", jInt m.second)]

def opRemParse (j : Json) : Except String Json := do
  let bs ← getB j "bytes"
  match parseRem bs with
  | none => pure <| Json.mkObj [("parsed", Json.null)]
  | some p => pure <| Json.mkObj [("parsed", Json.mkObj [
      ("target", jB p.target), ("discovery", jB p.discovery), ("atype", jB p.authorityType),
      ("aurl", jB p.authorityUrl), ("fname", jB p.fetcherName), ("fversion", jB p.fetcherVersion),
      ("format", jB p.format), ("origin", jBOpt p.origin), ("visit", jBOpt p.visit),
      ("snapshot", jBOpt p.snapshot), ("release", jBOpt p.release), ("revision", jBOpt p.revision),
      ("path", jBOpt p.path), ("directory", jBOpt p.directory), ("metadata", jB p.metadata)])]

/-! #### C17 discovery -/

def parseDObj (kind : Discovery.Kind) (j : Json) : Except String Discovery.Obj := do
  let id ← getN j "id"
  let es ← match j.getObjVal? "entries" with
    | .ok (Json.arr a) => a.toList.mapM (fun x => x.getNat?)
    | _ => pure []
  pure ⟨id, kind, es⟩

def jNats (l : List Nat) : Json := Json.arr (l.map (fun n => Json.num (JsonNumber.fromNat n))).toArray

def opDiscovery (j : Json) : Except String Json := do
  let cs ← (← getArr j "contents").toList.mapM (parseDObj .content)
  let sk ← (← getArr j "skipped").toList.mapM (parseDObj .skipped)
  let ds ← (← getArr j "dirs").toList.mapM (parseDObj .directory)
  let known ← (← getArr j "known").toList.mapM (fun x => x.getNat?)
  let n ← getN j "sample_size"
  let samples ← (← getArr j "samples").toList.mapM (fun a => do
    let l ← a.getArr?
    l.toList.mapM (fun x => x.getNat?))
  let pops ← (← getArr j "pops").toList.mapM (fun x => x.getNat?)
  let r := Discovery.runScriptIds n cs sk ds (fun x => known.contains x) samples pops
  pure <| Json.mkObj [("contents", jNats r.contentIds), ("skipped", jNats r.skippedIds),
    ("dirs", jNats r.directoryIds),
    ("log", Json.arr (r.log.map (fun e => Json.arr #[Json.num (JsonNumber.fromNat e.1), Json.bool e.2])).toArray),
    ("queries", Json.num (JsonNumber.fromNat r.queries)), ("ok", Json.bool r.ok)]

/-! #### C01 content hashes -/

def getNames (j : Json) : Except String (List String) := do
  (← getArr j "names").toList.mapM (fun x => x.getStr?)

def getChunks (j : Json) (k : String) : Except String (List Bytes) := do
  (← getArr j k).toList.mapM (fun x => do let s ← x.getStr?; unhexStr s)

def jMH (h : Hash.Heap) (m : Hash.MH) : Json :=
  Json.mkObj [
    ("fed", Json.mkObj (m.state.map (fun e =>
      (e.1, match Hash.fedOf h m e.1 with | some b => jB b | none => Json.null)))),
    ("base", Json.mkObj (m.state.map (fun e => (e.1, Json.str (Hash.baseName e.1))))),
    ("length", match m.length with | some n => Json.num (JsonNumber.fromNat n) | none => Json.null),
    ("keys", Json.arr ((Hash.keys m).map Json.str).toArray)]

def opMhFromData (j : Json) : Except String Json := do
  let data ← getB j "data"
  let names ← getNames j
  match Hash.fromData [] data names with
  | .ok (h, m) => pure <| Json.mkObj [("ok", jMH h m)]
  | .error e => pure <| Json.mkObj [("err", jErr e)]

def opMhStream (j : Json) : Except String Json := do
  let names ← getNames j
  let len ← getNOpt j "length"
  let chunks ← getChunks j "chunks"
  let asFile ← match j.getObjVal? "as_file" with | .ok (Json.bool b) => pure b | _ => pure false
  match Hash.mkMH [] names len with
  | .error e => pure <| Json.mkObj [("err", jErr e)]
  | .ok (h, m) =>
    let r := if asFile then Hash.fromReads h m chunks
             else chunks.foldl (fun s c => Hash.update s.1 s.2 c) (h, m)
    pure <| Json.mkObj [("ok", jMH r.1 r.2)]

def opMhCopy (j : Json) : Except String Json := do
  let names ← getNames j
  let len ← getNOpt j "length"
  let before ← getChunks j "before"
  let ops ← (← getArr j "ops").toList.mapM (fun o => do
    let a ← o.getArr?
    if a.size != 2 then throw "bad op"
    let who ← a[0]!.getBool?
    let s ← a[1]!.getStr?
    let b ← unhexStr s
    pure (who, b))
  match Hash.mkMH [] names len with
  | .error e => pure <| Json.mkObj [("err", jErr e)]
  | .ok (h, m) =>
    let r0 := before.foldl (fun s c => Hash.update s.1 s.2 c) (h, m)
    let hc := Hash.copy r0.1 r0.2
    let r := Hash.runOps hc.1 r0.2 hc.2 ops
    pure <| Json.mkObj [("orig", jMH r.1 r.2.1), ("copy", jMH r.1 r.2.2)]

/-! #### C19 repairing duplicated entries -/

def jEntry (e : Entry) : Json :=
  Json.mkObj [("name", jB e.name),
    ("type", Json.str (match e.type with | .file => "file" | .dir => "dir" | .rev => "rev")),
    ("perms", Json.num (JsonNumber.fromNat e.perms)), ("target", jB e.target)]

def opDedup (j : Json) : Except String Json := do
  let es ← (← getArr j "entries").toList.mapM parseEntry
  let r := fromPossiblyDuplicated es
  pure <| Json.mkObj [("flag", Json.bool r.flag), ("entries", Json.arr (r.entries.map jEntry).toArray),
    ("raw_manifest", jBOpt r.rawManifest),
    ("id_manifest", jB (match r.rawManifest with | some m => m | none => dirManifest r.entries))]

/-! #### C07 identity logic (digests supplied by the harness) -/

def opIdLogic (j : Json) : Except String Json := do
  let hAttr ← getB j "h_attr"
  let hRaw ← getBOpt j "h_raw"
  let explicitId ← getB j "explicit_id"
  let id := Identity.idLogic hAttr hRaw explicitId
  let chk := match Identity.checkLogic hAttr hRaw id with | .ok _ => Json.str "ok" | .error e => jErr e
  let tag ← getS j "kind"
  pure <| Json.mkObj [("id", jB id), ("check", chk),
    ("tag", match Identity.swhidTag tag with | some t => Json.str t | none => Json.null)]

/-! #### C10 / C14 Merkle histories -/

namespace MerkleDrv
open Swh.Merkle

partial def termJ : HTerm → Json
  | .node d ks => Json.arr #[Json.num (JsonNumber.fromNat d),
      Json.arr (ks.map (fun kv => Json.arr #[jB kv.1, Json.bool kv.2.1,
        Json.num (JsonNumber.fromNat kv.2.2.1), termJ kv.2.2.2])).toArray]

def entJ (e : EntryV HTerm) : Json :=
  Json.arr #[jB e.name, Json.bool e.isDir, Json.num (JsonNumber.fromNat e.cdata), termJ e.target]

def outJ (h : Heap HTerm) : Out HTerm → Json
  | .unit => Json.arr #[Json.str "unit"]
  | .newId n => Json.arr #[Json.str "id", Json.num (JsonNumber.fromNat n)]
  | .hash v => Json.arr #[Json.str "hash", termJ v]
  | .ids l => Json.arr #[Json.str "ids", Json.arr (l.map (fun i =>
      Json.arr #[Json.num (JsonNumber.fromNat i),
        match (h.get i).cache with | some v => termJ v | none => Json.null])).toArray]
  | .bool b => Json.arr #[Json.str "bool", Json.bool b]
  | .entries es => Json.arr #[Json.str "ent", Json.arr (es.map entJ).toArray]
  | .model es v => Json.arr #[Json.str "mod", Json.arr (es.map entJ).toArray, termJ v]
  | .err .keyError => Json.arr #[Json.str "err", Json.str "KeyError"]
  | .err .valueError => Json.arr #[Json.str "err", Json.str "ValueError"]
  | .err .badId => Json.arr #[Json.str "err", Json.str "badId"]
  | .err .outOfModel => Json.arr #[Json.str "err", Json.str "outOfModel"]

def getNames (a : Array Json) (start : Nat) : Except String (List Bytes) :=
  (a.toList.drop start).mapM (fun x => do let s ← x.getStr?; unhexStr s)

def parseOp (j : Json) : Except String Op := do
  let a ← j.getArr?
  let tag ← a[0]!.getStr?
  match tag with
  | "new" => pure (.newNode (← a[1]!.getNat?) (← a[2]!.getBool?) (← a[3]!.getBool?))
  | "set" => pure (.setItem (← a[1]!.getNat?) (← getNames a 3) (← a[2]!.getNat?))
  | "del" => pure (.delItem (← a[1]!.getNat?) (← getNames a 2))
  | "upd" => do
      let kids ← (← a[2]!.getArr?).toList.mapM (fun kv => do
        let p ← kv.getArr?
        let s ← p[0]!.getStr?
        let nm ← unhexStr s
        let c ← p[1]!.getNat?
        pure (nm, c))
      pure (.update (← a[1]!.getNat?) kids)
  | "hash" => pure (.readHash (← a[1]!.getNat?))
  | "force" => pure (.forceUpdate (← a[1]!.getNat?))
  | "ent" => pure (.readEntries (← a[1]!.getNat?))
  | "mod" => pure (.readModel (← a[1]!.getNat?))
  | "coll" => pure (.collect (← a[1]!.getNat?))
  | "reset" => pure (.resetCollect (← a[1]!.getNat?))
  | "has" => pure (.contains (← a[1]!.getNat?) (← getNames a 2))
  | _ => throw s!"bad merkle op {tag}"

def opRun (j : Json) : Except String Json := do
  let ops ← (← getArr j "ops").toList.mapM parseOp
  -- "leaf_class": n > 0 ⇒ the hash of a node with odd data d (a Content) retains only d / n
  -- (contents with the same bytes and different permissions share a hash); 0 ⇒ injective
  let n := (j.getObjValAs? Nat "leaf_class").toOption.getD 0
  let q : Nat → Nat := fun d => if n > 0 && d % 2 == 1 then d / n * n + 1 else d
  let (_, outs) := ops.foldl (fun (acc : Heap HTerm × Array Json) op =>
    let r := step (HTerm.hashFnQ q) acc.1 op
    (r.1, acc.2.push (outJ r.1 r.2))) (Heap.empty, #[])
  pure <| Json.mkObj [("outs", Json.arr outs)]

end MerkleDrv

/-! #### C08 / C09 SWHIDs -/

def cpsToStr (l : List Nat) : Str := l.map Char.ofNat
def strToCps (s : Str) : List Nat := s.map Char.toNat

def jBase (b : BaseSwhid) : Json :=
  Json.mkObj [("type", jCps (strToCps b.objectType)), ("id", jB b.objectId)]

def jBaseOpt : Option BaseSwhid → Json
  | none => Json.null
  | some b => jBase b

def jValue : Value → Json
  | .core v => Json.mkObj [("cls", Json.str "core"), ("base", jBase v)]
  | .extended v => Json.mkObj [("cls", Json.str "extended"), ("base", jBase v)]
  | .qualified v => Json.mkObj [("cls", Json.str "qualified"), ("base", jBase v.base),
      ("origin", match v.origin with | some o => jCps (strToCps o) | none => Json.null),
      ("visit", jBaseOpt v.visit), ("anchor", jBaseOpt v.anchor), ("path", jBOpt v.path),
      ("lines", match v.lines with
        | none => Json.null
        | some (a, none) => Json.arr #[Json.num (JsonNumber.fromNat a), Json.null]
        | some (a, some b) => Json.arr #[Json.num (JsonNumber.fromNat a), Json.num (JsonNumber.fromNat b)])]

def clsOf (s : String) : Except String SwhidClass :=
  match s with
  | "core" => pure .core
  | "extended" => pure .extended
  | "qualified" => pure .qualified
  | _ => throw s!"bad class {s}"

def opSwhidParse (j : Json) : Except String Json := do
  let cls ← clsOf (← getS j "cls")
  let s := cpsToStr (← getCps j "s")
  let il := inLang cls s
  let ilw := inLangW (some maxDigits) cls s
  match parseSwhid cls s with
  | .ok v => pure <| Json.mkObj [("ok", jValue v), ("print", jCps (strToCps (printValue v))),
      ("inlang", Json.bool il), ("inlang_limit", Json.bool ilw)]
  | .error e => pure <| Json.mkObj [("err", jErr e), ("inlang", Json.bool il), ("inlang_limit", Json.bool ilw)]

def getBase (j : Json) : Except String BaseSwhid := do
  let t ← getCps j "type"
  let i ← getB j "id"
  pure ⟨cpsToStr t, i⟩

def getBaseOpt (j : Json) (k : String) : Except String (Option BaseSwhid) :=
  match j.getObjVal? k with
  | .ok Json.null => pure none
  | .error _ => pure none
  | .ok b => do let x ← getBase b; pure (some x)

def opSwhidPrint (j : Json) : Except String Json := do
  let cls ← clsOf (← getS j "cls")
  let b ← getBase (← j.getObjVal? "base")
  let v : Value ← match cls with
    | .core => pure (Value.core b)
    | .extended => pure (Value.extended b)
    | .qualified => do
      let origin ← match j.getObjVal? "origin" with
        | .ok Json.null => pure none
        | .error _ => pure none
        | .ok _ => do let c ← getCps j "origin"; pure (some (cpsToStr c))
      let visit ← getBaseOpt j "visit"
      let anchor ← getBaseOpt j "anchor"
      let path ← getBOpt j "path"
      let lines ← match j.getObjVal? "lines" with
        | .ok (Json.arr a) => do
            let x ← a[0]!.getNat?
            match a[1]! with
            | Json.null => pure (some (x, none))
            | y => do let yy ← y.getNat?; pure (some (x, some yy))
        | _ => pure none
      pure (Value.qualified ⟨b.objectType, b.objectId, origin, visit, anchor, path, lines⟩)
  let txt := printValue v
  let back := match parseSwhid cls txt with
    | .ok v' => jValue v'
    | .error e => jErr e
  let conv := match v with
    | .core b => Json.mkObj [
        ("ext", match toExtended b with | .ok e => jCps (strToCps (printValue (.extended e))) | .error e => jErr e),
        ("qual", match toQualified b with | .ok q => jCps (strToCps (printValue (.qualified q))) | .error e => jErr e)]
    | _ => Json.null
  pure <| Json.mkObj [("text", jCps (strToCps txt)), ("back", back), ("inlang", Json.bool (inLang cls txt)), ("conv", conv)]

def opSwhidCodec (j : Json) : Except String Json := do
  let f ← getS j "f"
  match f with
  | "unquote" => pure <| Json.mkObj [("s", jCps (strToCps (pyUnquote (cpsToStr (← getCps j "s")))))]
  | "escape" => pure <| Json.mkObj [("s", jCps (strToCps (escapeOrigin (cpsToStr (← getCps j "s")))))]
  | "unq2b" => pure <| Json.mkObj [("b", jB (unquoteToBytes (cpsToStr (← getCps j "s"))))]
  | "quote" => pure <| Json.mkObj [("s", jCps (strToCps (quoteFromBytes (← getB j "b"))))]
  | "space" => pure <| Json.mkObj [("cps", jNats ((List.range 0x110000).filter (fun n => n.isValidChar && isPySpace (Char.ofNat n))))]
  | _ => throw s!"bad codec {f}"

/-! #### C18 identify decision table -/

namespace CliDrv
open Swh.Cli

def kindOf : String → Except String ArgKind
  | "file" => pure .file | "dir" => pure .dir | "linkFile" => pure .linkFile | "linkDir" => pure .linkDir
  | "stdin" => pure .stdin | "url" => pure .url | "gitRepo" => pure .gitRepo
  | s => throw s!"bad kind {s}"

def typeOfS : String → Except String TypeOpt
  | "auto" => pure .auto | "content" => pure .content | "directory" => pure .directory
  | "origin" => pure .origin | "snapshot" => pure .snapshot
  | s => throw s!"bad type {s}"

def verifyOf : String → Except String VerifyOpt
  | "absent" => pure .absent | "matching" => pure .matching | "nonMatching" => pure .nonMatching
  | "malformed" => pure .malformed
  | s => throw s!"bad verify {s}"

def jDes : Designated → Json
  | .contentOfFile => Json.str "contentOfFile" | .contentOfLinkText => Json.str "contentOfLinkText"
  | .contentOfStdin => Json.str "contentOfStdin" | .directory => Json.str "directory"
  | .origin => Json.str "origin" | .snapshot => Json.str "snapshot"

def jOutcome : Outcome → Json
  | .print d n w => Json.arr #[Json.str "print", jDes d, Json.bool n, Json.bool w]
  | .usageError => Json.arr #[Json.str "usageError"]
  | .exit0 d => Json.arr #[Json.str "exit0", jDes d]
  | .exit1 d => Json.arr #[Json.str "exit1", jDes d]
  | .crash => Json.arr #[Json.str "crash"]
  | .unspecified => Json.arr #[Json.str "unspecified"]

def opIdentify (j : Json) : Except String Json := do
  let c : Cfg := ⟨← kindOf (← getS j "kind"), ← typeOfS (← getS j "type"), ← getBool j "deref",
    ← getBool j "filename", ← getBool j "recursive", ← verifyOf (← getS j "verify"), ← getBool j "exclude"⟩
  pure <| Json.mkObj [("outcome", jOutcome (identify c)), ("expected", jOutcome (expected c)),
    ("in_scope", Json.bool (inScope c))]

def opIdentifyMany (j : Json) : Except String Json := do
  let kinds ← (← getArr j "kinds").toList.mapM (fun x => do kindOf (← x.getStr?))
  let c : Cmd := ⟨kinds, ← typeOfS (← getS j "type"), ← getBool j "deref",
    ← getBool j "filename", ← getBool j "recursive", ← verifyOf (← getS j "verify"), ← getBool j "exclude"⟩
  pure <| Json.mkObj [("outcomes", Json.arr ((identifyMany c).map jOutcome).toArray)]

end CliDrv

/-! #### C06 / C13 reading a tree from disk -/

namespace FsDrv
open Swh.Fs

partial def parseNode (j : Json) : Except String FsNode := do
  let t ← getS j "t"
  match t with
  | "file" => pure (.file (← getN j "mode") (← getB j "data"))
  | "link" => pure (.symlink (← getB j "target"))
  | "special" => pure (.special (← getN j "mode"))
  | "dir" => do
      let es ← (← getArr j "entries").toList.mapM (fun e => do
        let a ← e.getArr?
        let s ← a[0]!.getStr?
        let nm ← unhexStr s
        let c ← parseNode a[1]!
        pure (nm, c))
      pure (.dir es)
  | _ => throw s!"bad node {t}"

def parseFilter (j : Json) : Except String Filter := do
  let k ← getS j "kind"
  match k with
  | "acceptAll" => pure .acceptAll
  | "ignoreEmpty" => pure .ignoreEmpty
  | "ignoreNamed" => pure (.ignoreNamed (← getChunks j "names") (← getBool j "cs"))
  | "namedThenEmpty" => pure (.namedThenEmpty (← getChunks j "names") (← getBool j "cs"))
  | _ => throw s!"bad filter {k}"

def jKind : Kind → Json
  | .content => Json.str "content" | .skippedContent => Json.str "skipped" | .directory => Json.str "directory"

def jErrFs : Err → Json
  | .symlinkTooLarge => Json.str "symlinkTooLarge" | .notADirectory => Json.str "notADirectory"
  | .keyError => Json.str "keyError" | .internal => Json.str "internal"

def opRead (j : Json) : Except String Json := do
  let tree ← parseNode (← j.getObjVal? "tree")
  let flt ← parseFilter (← j.getObjVal? "filter")
  let ml ← getNOpt j "max_len"
  let coded ← match j.getObjVal? "as_coded" with | .ok (Json.bool b) => pure b | _ => pure true
  let H := Sha1.sha1
  let res := if coded then fromDisk H flt.fn ml tree else readTree H flt.fn ml tree
  let git := match gitTreeOf H tree with | some g => jB g | none => Json.null
  match res with
  | .error e => pure <| Json.mkObj [("err", jErrFs e), ("wf", Json.bool (wfFs tree)), ("git", git), ("gitok", Json.bool (gitOk tree))]
  | .ok r =>
    let nodes := (nodeTable H r).map (fun (p, k, i, perms) =>
      Json.arr #[Json.arr (p.map jB).toArray, jKind k, jB i, Json.num (JsonNumber.fromNat perms)])
    let (cs, sk, ds) := iterDirectory H r
    let jc := cs.map (fun c => Json.arr #[jB c.sha1git, Json.num (JsonNumber.fromNat c.length), jB (H c.data), Json.bool (c.check H)])
    let js := sk.map (fun c => Json.arr #[jB c.sha1git, Json.num (JsonNumber.fromNat c.length)])
    let jd := ds.map (fun d => Json.arr #[jB d.id,
      Json.arr (d.entries.map (fun e => Json.arr #[jB e.name, Json.str (match e.type with | .file => "file" | .dir => "dir" | .rev => "rev"), Json.num (JsonNumber.fromNat e.perms), jB e.target])).toArray,
      Json.bool (d.check H)])
    pure <| Json.mkObj [("nodes", Json.arr nodes.toArray), ("root", jB (rootId H r)),
      ("contents", Json.arr jc.toArray), ("skipped", Json.arr js.toArray), ("directories", Json.arr jd.toArray),
      ("wf", Json.bool (wfFs tree)), ("git", git), ("gitok", Json.bool (gitOk tree))]

def opNormalize (j : Json) : Except String Json := do
  let p ← getB j "path"
  pure <| Json.mkObj [("path", jB (normalizeTop p))]

end FsDrv

/-! #### C11 value semantics -/

def getItems (j : Json) (k : String) : Except String (Values.Items Bytes) := do
  (← getArr j k).toList.mapM (fun kv => do
    let a ← kv.getArr?
    let ks ← a[0]!.getStr?
    let vs ← a[1]!.getStr?
    pure (← unhexStr ks, ← unhexStr vs))

def opValues (j : Json) : Except String Json := do
  let f ← getS j "f"
  match f with
  | "map_canon" =>
      -- the sequence a frozen mapping's hash is computed from
      let a ← getItems j "items"
      pure <| Json.mkObj [("sorted", jPairs (sortByKey (fun kv => kv.1) a))]
  | "eq_fields" =>
      let cls ← getS j "cls"
      pure <| Json.mkObj [("fields", Json.arr ((Values.eqFields cls).map Json.str).toArray)]
  | "alias_run" =>
      let items ← getItems j "items"
      let mode := if (← getS j "mode") == "copy" then Values.Mode.copy else Values.Mode.alias
      let newItems ← getItems j "new_items"
      let s0 : Values.Store Bytes := ⟨fun l => if l = 0 then items else [], 1⟩
      let (s1, obj) := Values.construct mode s0 0
      let s2 := Values.mutateAll s1 [(0, fun _ => newItems)]
      pure <| Json.mkObj [("observed", jPairs (Values.observe s2 obj))]
  | _ => throw s!"bad values op {f}"

/-! #### C11 frozen mapping in a mutable heap (`Swh.Frozen`) -/

namespace FrozenDrv
open Swh.Frozen

/-- caller containers in order of creation: (location in the model's heap, is it a dict?).
    The JSON protocol names caller containers by CREATION INDEX (0-based, dicts and lists share
    one numbering), translated here to the model's locations. -/
abbrev Created := Array (Loc × Bool)

def locOf (cr : Created) (idx : Nat) (wantDict : Bool) : Option Loc :=
  match cr[idx]? with
  | some (l, isD) => if isD == wantDict then some l else none
  | none => none

/-- `{"a":n}` or `{"l":creation index of a caller list}`; `none`: the reference names nothing
    (or a dict) -/
def parseV (cr : Created) (j : Json) : Except String (Option Val) :=
  match j.getObjVal? "a", j.getObjVal? "l" with
  | .ok v, _ => do let n ← v.getNat?; pure (some (.atom n))
  | _, .ok v => do let i ← v.getNat?; pure ((locOf cr i false).map Val.listRef)
  | _, _ => throw "bad frozen value"

def parsePairs (cr : Created) (a : Array Json) : Except String (Option (List (Key × Val))) := do
  let ps ← a.toList.mapM (fun p => do
    let kv ← p.getArr?
    if kv.size != 2 then throw "bad frozen pair"
    let k ← kv[0]!.getNat?
    let v ← parseV cr kv[1]!
    pure (v.map (fun v => (k, v))))
  pure (ps.mapM id)

def getNats (j : Json) (k : String) : Except String (List Nat) := do
  (← getArr j k).toList.mapM (fun x => x.getNat?)

/-- `none`: a creation index that does not exist yet or names a container of the wrong kind -/
def parseOp (cr : Created) (j : Json) : Except String (Option Op) := do
  let o ← getS j "o"
  match o with
  | "new_dict" => do
      let its ← parsePairs cr (← getArr j "items")
      pure (its.map Op.newDict)
  | "new_list" => do pure (some (.newList (← getNats j "xs")))
  | "dict_set" => do
      let d := locOf cr (← getN j "d") true
      let k ← getN j "k"
      let v ← parseV cr (← j.getObjVal? "v")
      pure (do let d ← d; let v ← v; pure (.dictSet d k v))
  | "dict_del" => do
      let d := locOf cr (← getN j "d") true
      let k ← getN j "k"
      pure (d.map (fun d => .dictDel d k))
  | "dict_clear" => do
      pure ((locOf cr (← getN j "d") true).map Op.dictClear)
  | "list_append" => do
      let l := locOf cr (← getN j "l") false
      let n ← getN j "n"
      pure (l.map (fun l => .listAppend l n))
  | "list_set_all" => do
      let l := locOf cr (← getN j "l") false
      let xs ← getNats j "xs"
      pure (l.map (fun l => .listSetAll l xs))
  | "from_dict" => do
      pure ((locOf cr (← getN j "src") true).map Op.fromDict)
  | "from_frozen" => do pure (some (.fromFrozen (← getN j "i")))
  | "from_pairs" => do
      let ps ← parsePairs cr (← getArr j "ps")
      pure (ps.map Op.fromPairs)
  | "copy_pop" => do pure (some (.copyPop (← getN j "i") (← getN j "k")))
  | "lookup" => do pure (some (.lookup (← getN j "i") (← getN j "k")))
  | _ => throw s!"bad frozen op {o}"

def jNat (n : Nat) : Json := Json.num (JsonNumber.fromNat n)

def jR : RVal → Json
  | .atom n => Json.mkObj [("a", jNat n)]
  | .list xs => Json.mkObj [("l", Json.arr (xs.map jNat).toArray)]

def jROpt : Option RVal → Json
  | none => Json.null
  | some r => jR r

def jView (v : List (Key × RVal)) : Json :=
  Json.arr (v.map (fun kv => Json.arr #[jNat kv.1, jR kv.2])).toArray

def jViews (h : Heap) : Json := Json.arr ((views h).map jView).toArray

def jInvalid : Json := Json.mkObj [("invalid", Json.bool true)]

def parseDisc (j : Json) : Except String Discipline :=
  match j.getObjVal? "discipline" with
  | .ok (Json.str "deep") => pure .deep
  | .ok (Json.str "shallow") => pure .shallow
  | .ok (Json.str "alias") => pure .alias
  | .ok Json.null => pure .deep
  | .ok _ => throw "bad discipline"
  | .error _ => pure .deep

structure St where
  heap : Heap
  created : Created
  outs : Array Json
  trace : Array Json

def stepJ (disc : Discipline) (st : St) (j : Json) : Except String St := do
  match ← parseOp st.created j with
  | none => pure { st with outs := st.outs.push jInvalid, trace := st.trace.push (jViews st.heap) }
  | some op =>
    let r := stepD disc st.heap op
    let (created, out) : Created × Json :=
      match op, r.2 with
      | .newDict _, .loc l => (st.created.push (l, true), Json.mkObj [("c", jNat st.created.size)])
      | .newList _, .loc l => (st.created.push (l, false), Json.mkObj [("c", jNat st.created.size)])
      | _, .obj i => (st.created, Json.mkObj [("obj", jNat i)])
      | _, .popped i v => (st.created, Json.mkObj [("obj", jNat i), ("popped", jROpt v)])
      | _, .value v => (st.created, Json.mkObj [("value", jROpt v), ("found", Json.bool v.isSome)])
      | _, .unit => (st.created, Json.mkObj [])
      | _, .loc l => (st.created, Json.mkObj [("loc", jNat l)])
      | _, .invalid => (st.created, jInvalid)
    pure { heap := r.1, created := created, outs := st.outs.push out,
           trace := st.trace.push (jViews r.1) }

/-- `{"op":"frozen_run","discipline":…,"ops":[…]}` → `{"outs":…,"views":…,"trace":…}` -/
def opRun (j : Json) : Except String Json := do
  let disc ← parseDisc j
  let ops ← getArr j "ops"
  let st ← ops.foldlM (stepJ disc) ⟨init, #[], #[], #[]⟩
  pure <| Json.mkObj [("outs", Json.arr st.outs), ("views", jViews st.heap), ("trace", Json.arr st.trace)]

end FrozenDrv

/-! #### C12 dictionary serialisation -/

namespace SerdeDrv
open Swh.Serde

partial def parseVal (j : Json) : Except String Val :=
  match j with
  | Json.null => pure .none
  | Json.bool b => pure (.bool b)
  | Json.obj _ =>
    match j.getObjVal? "i", j.getObjVal? "s", j.getObjVal? "x", j.getObjVal? "dt", j.getObjVal? "l", j.getObjVal? "d" with
    | .ok v, _, _, _, _, _ => do let i ← v.getInt?; pure (.int i)
    | _, .ok v, _, _, _, _ => do
        let a ← v.getArr?
        let l ← a.toList.mapM (fun x => x.getNat?)
        pure (.str l)
    | _, _, .ok v, _, _, _ => do let h ← v.getStr?; let b ← unhexStr h; pure (.bytes b)
    | _, _, _, .ok v, _, _ => do
        let a ← v.getArr?
        pure (.dt (← a[0]!.getInt?) (← a[1]!.getInt?))
    | _, _, _, _, .ok v, _ => do
        let a ← v.getArr?
        let l ← a.toList.mapM parseVal
        pure (.list l)
    | _, _, _, _, _, .ok v => do
        let a ← v.getArr?
        let kv ← a.toList.mapM (fun p => do
          let q ← p.getArr?
          pure (← parseVal q[0]!, ← parseVal q[1]!))
        pure (.dict kv)
    | _, _, _, _, _, _ => throw "bad Val"
  | _ => throw "bad Val"

partial def jVal : Val → Json
  | .none => Json.null
  | .bool b => Json.bool b
  | .int i => Json.mkObj [("i", Json.num (JsonNumber.fromInt i))]
  | .str s => Json.mkObj [("s", jNats s)]
  | .bytes b => Json.mkObj [("x", jB b)]
  | .dt u o => Json.mkObj [("dt", Json.arr #[Json.num (JsonNumber.fromInt u), Json.num (JsonNumber.fromInt o)])]
  | .list l => Json.mkObj [("l", Json.arr (l.map jVal).toArray)]
  | .dict kv => Json.mkObj [("d", Json.arr (kv.map (fun p => Json.arr #[jVal p.1, jVal p.2])).toArray)]

def opRoundTrip (j : Json) : Except String Json := do
  let cls ← getS j "cls"
  let d ← parseVal (← j.getObjVal? "dict")
  match roundTrip cls d with
  | .ok (a, b) => pure <| Json.mkObj [("first", jVal a), ("second", jVal b)]
  | .error e => pure <| Json.mkObj [("err", jErr e)]

end SerdeDrv

def opSha1 (j : Json) : Except String Json := do
  let b ← getB j "data"
  pure <| Json.mkObj [("sha1", jB (Sha1.sha1 b))]

def dispatch (op : String) (j : Json) : Except String Json :=
  match op with
  | "ping" => pure (Json.mkObj [("pong", Json.bool true)])
  | "dir_manifest" => opDirManifest j
  | "tree_decode" => opTreeDecode j
  | "snp_manifest" => opSnpManifest j
  | "snp_decode" => opSnpDecode j
  | "toposort" => opToposort j
  | "toposort_run" => opToposortRun j
  | "offset_table" => opOffsetTable j
  | "offset_parse" => opOffsetParse j
  | "fmt_date" => opFmtDate j
  | "mk_ts" => opMkTs j
  | "from_dt" => opFromDt j
  | "to_dt" => opToDt j
  | "rev_manifest" => opRevManifest j
  | "commit_parse" => opCommitParse j
  | "rel_manifest" => opRelManifest j
  | "tag_parse" => opTagParse j
  | "extid_manifest" => opExtidManifest j
  | "extid_parse" => opExtidParse j
  | "rem_manifest" => opRemManifest j
  | "rem_parse" => opRemParse j
  | "discovery" => opDiscovery j
  | "mh_from_data" => opMhFromData j
  | "mh_stream" => opMhStream j
  | "mh_copy" => opMhCopy j
  | "dedup" => opDedup j
  | "id_logic" => opIdLogic j
  | "merkle_run" => MerkleDrv.opRun j
  | "swhid_parse" => opSwhidParse j
  | "swhid_print" => opSwhidPrint j
  | "swhid_codec" => opSwhidCodec j
  | "sha1" => opSha1 j
  | "cli_identify" => CliDrv.opIdentify j
  | "cli_identify_many" => CliDrv.opIdentifyMany j
  | "fs_read" => FsDrv.opRead j
  | "fs_normalize" => FsDrv.opNormalize j
  | "values" => opValues j
  | "frozen_run" => FrozenDrv.opRun j
  | "serde_roundtrip" => SerdeDrv.opRoundTrip j
  | _ => throw s!"unknown op {op}"

def handleLine (line : String) : String :=
  match Json.parse line with
  | .error e => (Json.mkObj [("error", Json.str s!"json: {e}")]).compress
  | .ok j =>
    let id := (j.getObjVal? "id").toOption.getD Json.null
    match j.getObjValAs? String "op" with
    | .error e => (Json.mkObj [("id", id), ("error", Json.str e)]).compress
    | .ok op =>
      match dispatch op j with
      | .ok r => (Json.mkObj [("id", id), ("r", r)]).compress
      | .error e => (Json.mkObj [("id", id), ("error", Json.str e)]).compress

partial def loop (hin : IO.FS.Stream) (hout : IO.FS.Stream) : IO Unit := do
  let line ← hin.getLine
  if line.isEmpty then return ()
  let l := line.trimAscii.toString
  if l.isEmpty then loop hin hout
  else
    hout.putStrLn (handleLine l)
    hout.flush
    loop hin hout

def main : IO Unit := do
  loop (← IO.getStdin) (← IO.getStdout)
