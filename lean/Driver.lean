import Lean.Data.Json
import SwhVerif.Model.All
/-!
  Line-protocol driver: one JSON object per input line, one JSON object per output line.
  Runs the *model's* executable definitions; the Python harness runs the implementation on
  the same cases and diffs. No Mathlib anywhere below this file.
-/
open Lean Swh

namespace Drv

def hexNib (c : Char) : Option Nat :=
  if '0' ≤ c ∧ c ≤ '9' then some (c.toNat - 48)
  else if 'a' ≤ c ∧ c ≤ 'f' then some (c.toNat - 87)
  else none

def unhexStr (s : String) : Except String Bytes := do
  let rec go (cs : List Char) (acc : Array UInt8) : Except String Bytes :=
    match cs with
    | [] => pure acc.toList
    | [_] => throw "odd hex"
    | a :: b :: rest =>
      match hexNib a, hexNib b with
      | some x, some y => go rest (acc.push (UInt8.ofNat (x * 16 + y)))
      | _, _ => throw "bad hex"
  go s.toList #[]

def hexStr (bs : Bytes) : String :=
  let d (n : Nat) : Char := if n < 10 then Char.ofNat (48 + n) else Char.ofNat (87 + n)
  String.ofList (bs.foldr (fun b acc => d (b.toNat / 16) :: d (b.toNat % 16) :: acc) [])

def getB (j : Json) (k : String) : Except String Bytes := do
  let s ← j.getObjValAs? String k
  unhexStr s

def getBOpt (j : Json) (k : String) : Except String (Option Bytes) :=
  match j.getObjVal? k with
  | .ok Json.null => pure none
  | .ok (Json.str s) => do let b ← unhexStr s; pure (some b)
  | .ok _ => throw s!"bad optional bytes {k}"
  | .error _ => pure none

def getN (j : Json) (k : String) : Except String Nat := j.getObjValAs? Nat k
def getI (j : Json) (k : String) : Except String Int := j.getObjValAs? Int k
def getS (j : Json) (k : String) : Except String String := j.getObjValAs? String k
def getBool (j : Json) (k : String) : Except String Bool := j.getObjValAs? Bool k
def getArr (j : Json) (k : String) : Except String (Array Json) := j.getObjValAs? (Array Json) k

def jB (bs : Bytes) : Json := Json.str (hexStr bs)
def jBOpt : Option Bytes → Json
  | none => Json.null
  | some b => jB b

/-- Python `str` travels as an array of code points -/
def getCps (j : Json) (k : String) : Except String (List Nat) := do
  let a ← getArr j k
  a.toList.mapM (fun x => x.getNat?)

def jCps (cs : List Nat) : Json := Json.arr (cs.map (fun n => Json.num (JsonNumber.fromNat n))).toArray

end Drv

open Drv

/-! ### per-property operations (each file `Drv/Cxx` would be overkill: kept together) -/

def parseEType (s : String) : Except String EType :=
  match s with
  | "file" => pure .file
  | "dir" => pure .dir
  | "rev" => pure .rev
  | _ => throw s!"bad entry type {s}"

def parseEntry (j : Json) : Except String Entry := do
  let name ← getB j "name"
  let ty ← getS j "type"
  let t ← parseEType ty
  let perms ← getN j "perms"
  let target ← getB j "target"
  pure ⟨name, t, perms, target⟩

def jTriples (ts : List (Nat × Bytes × Bytes)) : Json :=
  Json.arr (ts.map (fun (p, n, t) => Json.arr #[Json.num (JsonNumber.fromNat p), jB n, jB t])).toArray

def opDirManifest (j : Json) : Except String Json := do
  let es ← (← getArr j "entries").toList.mapM parseEntry
  let m := dirManifest es
  pure <| Json.mkObj [("manifest", jB m)]

def opTreeDecode (j : Json) : Except String Json := do
  let bs ← getB j "bytes"
  match stripGitHeader treeTy bs with
  | none => pure <| Json.mkObj [("decoded", Json.null)]
  | some body =>
    match decodeTree body with
    | none => pure <| Json.mkObj [("decoded", Json.null)]
    | some ts => pure <| Json.mkObj [("decoded", jTriples ts)]

/-! #### C05 snapshots -/

def parseBranch (j : Json) : Except String Branch := do
  let name ← getB j "name"
  let kind ← getS j "kind"
  match kind with
  | "dangling" => pure (name, .dangling)
  | "alias" => do let t ← getB j "target"; pure (name, .alias t)
  | "content" => do let t ← getB j "target"; pure (name, .obj .content t)
  | "directory" => do let t ← getB j "target"; pure (name, .obj .directory t)
  | "revision" => do let t ← getB j "target"; pure (name, .obj .revision t)
  | "release" => do let t ← getB j "target"; pure (name, .obj .release t)
  | "snapshot" => do let t ← getB j "target"; pure (name, .obj .snapshot t)
  | _ => throw s!"bad branch kind {kind}"

def jPairs (ps : List (Bytes × Bytes)) : Json :=
  Json.arr (ps.map (fun (a, b) => Json.arr #[jB a, jB b])).toArray

def opSnpManifest (j : Json) : Except String Json := do
  let bs ← (← getArr j "branches").toList.mapM parseBranch
  let ig ← getBool j "ignore"
  match snapshotManifest bs ig with
  | .ok m => pure <| Json.mkObj [("manifest", jB m), ("idmanifest", jB (snapshotIdManifest bs))]
  | .error u => pure <| Json.mkObj [("unresolved", jPairs u), ("idmanifest", jB (snapshotIdManifest bs))]

def opSnpDecode (j : Json) : Except String Json := do
  let bs ← getB j "bytes"
  match stripGitHeader snapshotTy bs with
  | none => pure <| Json.mkObj [("decoded", Json.null)]
  | some body =>
    match decodeSnapshot body with
    | none => pure <| Json.mkObj [("decoded", Json.null)]
    | some ts => pure <| Json.mkObj [("decoded",
        Json.arr (ts.map (fun (k, n, t) => Json.arr #[jB k, jB n, jB t])).toArray)]

/-! #### C20 toposort -/

def opToposort (j : Json) : Except String Json := do
  let log ← (← getArr j "log").toList.mapM (fun r => do
    let id ← getN r "id"
    let ps ← (← getArr r "parents").toList.mapM (fun x => x.getNat?)
    pure (Rev.mk id ps))
  let out := toposort log
  pure <| Json.mkObj [("order", Json.arr (out.map (fun r => Json.num (JsonNumber.fromNat r.id))).toArray)]

/-! #### C16 time -/

def jErr (e : ErrKind) : Json :=
  Json.str (match e with
    | .validation => "validation" | .valueError => "valueError" | .typeError => "typeError"
    | .assertion => "assertion" | .other => "other")

def jInt (i : Int) : Json := Json.num (JsonNumber.fromInt i)

def opOffsetTable (j : Json) : Except String Json := do
  let lo ← getI j "lo"
  let hi ← getI j "hi"
  let n := (hi - lo + 1).toNat
  let rows := (List.range n).flatMap (fun (k : Nat) =>
    let o : Int := lo + (k : Int)
    [false, true].map (fun f =>
      let b := formatOffset o f
      let p := match parseOffsetBytes b with | .ok v => jInt v | .error e => jErr e
      let c := match fromNumericOffset o f with | .ok _ => Json.bool true | .error e => jErr e
      Json.arr #[jB b, p, c]))
  pure <| Json.mkObj [("rows", Json.arr rows.toArray)]

def opOffsetParse (j : Json) : Except String Json := do
  let b ← getB j "bytes"
  match parseOffsetBytes b with
  | .ok v => pure <| Json.mkObj [("ok", jInt v)]
  | .error e => pure <| Json.mkObj [("err", jErr e)]

def opFmtDate (j : Json) : Except String Json := do
  let s ← getI j "s"
  let us ← getN j "us"
  let t := formatDate s us
  let back := match parseDate t with
    | some (a, b) => Json.arr #[jInt a, Json.num (JsonNumber.fromNat b)]
    | none => Json.null
  pure <| Json.mkObj [("text", jB t), ("back", back)]

def opMkTs (j : Json) : Except String Json := do
  let s ← getI j "s"
  let us ← getI j "us"
  match mkTimestamp s us with
  | .ok _ => pure <| Json.mkObj [("ok", Json.bool true)]
  | .error e => pure <| Json.mkObj [("err", jErr e)]

def opFromDt (j : Json) : Except String Json := do
  let u ← getI j "u"
  let off ← getI j "off"
  let (s, us, o) := fromDatetime ⟨u, off⟩
  let ob := match fromNumericOffset o false with | .ok b => jB b | .error e => jErr e
  let back := toDatetime s us o
  pure <| Json.mkObj [("s", jInt s), ("us", jInt us), ("off", jInt o), ("offset_bytes", ob),
    ("back", Json.arr #[jInt back.utcMicros, jInt back.offMin])]

def opToDt (j : Json) : Except String Json := do
  let s ← getI j "s"
  let us ← getI j "us"
  let b ← getB j "offset_bytes"
  match parseOffsetBytes b with
  | .error e => pure <| Json.mkObj [("err", jErr e)]
  | .ok o =>
    let d := toDatetime s us o
    pure <| Json.mkObj [("u", jInt d.utcMicros), ("off", jInt d.offMin), ("minutes", jInt o)]

def dispatch (op : String) (j : Json) : Except String Json :=
  match op with
  | "ping" => pure (Json.mkObj [("pong", Json.bool true)])
  | "dir_manifest" => opDirManifest j
  | "tree_decode" => opTreeDecode j
  | "snp_manifest" => opSnpManifest j
  | "snp_decode" => opSnpDecode j
  | "toposort" => opToposort j
  | "offset_table" => opOffsetTable j
  | "offset_parse" => opOffsetParse j
  | "fmt_date" => opFmtDate j
  | "mk_ts" => opMkTs j
  | "from_dt" => opFromDt j
  | "to_dt" => opToDt j
  | _ => throw s!"unknown op {op}"

def handleLine (line : String) : String :=
  match Json.parse line with
  | .error e => (Json.mkObj [("error", Json.str s!"json: {e}")]).compress
  | .ok j =>
    let id := (j.getObjVal? "id").toOption.getD Json.null
    match j.getObjValAs? String "op" with
    | .error e => (Json.mkObj [("id", id), ("error", Json.str e)]).compress
    | .ok op =>
      match dispatch op j with
      | .ok r => (Json.mkObj [("id", id), ("r", r)]).compress
      | .error e => (Json.mkObj [("id", id), ("error", Json.str e)]).compress

partial def loop (hin : IO.FS.Stream) (hout : IO.FS.Stream) : IO Unit := do
  let line ← hin.getLine
  if line.isEmpty then return ()
  let l := line.trimAscii.toString
  if l.isEmpty then loop hin hout
  else
    hout.putStrLn (handleLine l)
    hout.flush
    loop hin hout

def main : IO Unit := do
  loop (← IO.getStdin) (← IO.getStdout)
