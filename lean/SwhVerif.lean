import SwhVerif.Model.All
import SwhVerif.Lemmas.Bytes
import SwhVerif.Lemmas.Headers
import SwhVerif.Lemmas.Directory
import SwhVerif.Props.C02
