import SwhVerif.Model.All
import SwhVerif.Lemmas.Bytes
import SwhVerif.Lemmas.Headers
import SwhVerif.Lemmas.Directory
import SwhVerif.Props.C02
import SwhVerif.Lemmas.Snapshot
import SwhVerif.Props.C05
