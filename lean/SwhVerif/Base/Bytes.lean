/-
  Base definitions shared by every model: byte strings, radix printing/parsing,
  hex, splitting.  Executable, total, no Mathlib.
-/
namespace Swh

abbrev Byte := UInt8
abbrev Bytes := List UInt8

def ofStr (s : String) : Bytes := s.toUTF8.toList

/-- Bytes of an ASCII literal, as a plain list (kernel friendly). -/
def asc (s : List Char) : Bytes := s.map (fun c => UInt8.ofNat c.toNat)

def bSP : Byte := 0x20
def bNL : Byte := 0x0a
def bNUL : Byte := 0
def bSlash : Byte := 0x2f
def bColon : Byte := 0x3a
def bDot : Byte := 0x2e
def bMinus : Byte := 0x2d
def bPlus : Byte := 0x2b
def bZero : Byte := 0x30

/-! ### radix printing -/

/-- digits of `n` in base `k+2`, least significant first; `[0]` for `0`. -/
def toBaseRev (k : Nat) (n : Nat) : List Nat :=
  if h : n < k + 2 then [n] else (n % (k + 2)) :: toBaseRev k (n / (k + 2))
termination_by n
decreasing_by
  have : 0 < n := by omega
  exact Nat.div_lt_self this (by omega)

def digitByte (d : Nat) : Byte := UInt8.ofNat (48 + d)

/-- `"%d" % n` for a natural number / `oct(n)[2:]` -/
def natBase (k : Nat) (n : Nat) : Bytes := ((toBaseRev k n).reverse).map digitByte

def dec (n : Nat) : Bytes := natBase 8 n
def oct (n : Nat) : Bytes := natBase 6 n

/-- `"%d" % i` for an integer -/
def decInt (i : Int) : Bytes :=
  if i < 0 then bMinus :: dec i.natAbs else dec i.natAbs

def isDigitBase (k : Nat) (b : Byte) : Bool := 48 ≤ b.toNat && b.toNat < 48 + (k + 2)

/-- value of a most-significant-first digit string -/
def digitsVal (k : Nat) (bs : Bytes) : Nat :=
  bs.foldl (fun a b => a * (k + 2) + (b.toNat - 48)) 0

/-- strict parser: non-empty, all digits of the base. (Leading zeros accepted.) -/
def parseNatBase (k : Nat) (bs : Bytes) : Option Nat :=
  if bs.isEmpty then none
  else if bs.all (isDigitBase k) then some (digitsVal k bs) else none

def parseDec := parseNatBase 8
def parseOct := parseNatBase 6

/-- canonical decimal: `parseDec` plus "no leading zero unless the number is 0" -/
def parseDecCanon (bs : Bytes) : Option Nat :=
  match bs with
  | [] => none
  | [b] => parseDec [b]
  | b :: rest => if b = bZero then none else parseDec (b :: rest)

/-! ### hex -/

def hexDigit (d : Nat) : Byte := if d < 10 then UInt8.ofNat (48 + d) else UInt8.ofNat (87 + d)

/-- `binascii.hexlify` -/
def hexLower : Bytes → Bytes
  | [] => []
  | b :: bs => hexDigit (b.toNat / 16) :: hexDigit (b.toNat % 16) :: hexLower bs

def unhexDigit (b : Byte) : Option Nat :=
  if 48 ≤ b.toNat && b.toNat ≤ 57 then some (b.toNat - 48)
  else if 97 ≤ b.toNat && b.toNat ≤ 102 then some (b.toNat - 87)
  else none

/-- strict lower-case hex decoder -/
def unhexLower : Bytes → Option Bytes
  | [] => some []
  | [_] => none
  | a :: b :: rest =>
    match unhexDigit a, unhexDigit b, unhexLower rest with
    | some x, some y, some r => some (UInt8.ofNat (x * 16 + y) :: r)
    | _, _, _ => none

/-! ### splitting -/

/-- split at the first occurrence of `d`: `(before, after)` -/
def splitFirst (d : Byte) : Bytes → Option (Bytes × Bytes)
  | [] => none
  | b :: bs =>
    if b = d then some ([], bs)
    else match splitFirst d bs with
      | some (p, r) => some (b :: p, r)
      | none => none

/-- `bytes.split(d)` (always at least one piece) -/
def splitOn (d : Byte) : Bytes → List Bytes
  | [] => [[]]
  | b :: bs =>
    match splitOn d bs with
    | [] => [[]]   -- unreachable
    | p :: ps => if b = d then [] :: p :: ps else (b :: p) :: ps

/-- `sep.join(parts)` -/
def joinWith (sep : Bytes) : List Bytes → Bytes
  | [] => []
  | [p] => p
  | p :: ps => p ++ sep ++ joinWith sep ps

/-- `b"\n ".join(v.split(b"\n"))`, i.e. every LF becomes LF SP -/
def escapeNewlines : Bytes → Bytes
  | [] => []
  | b :: bs => if b = bNL then bNL :: bSP :: escapeNewlines bs else b :: escapeNewlines bs

/-- git object header `"<type> <len>\0"` -/
def gitHeader (ty : Bytes) (n : Nat) : Bytes := ty ++ bSP :: (dec n ++ [bNUL])

def gitObject (ty : Bytes) (body : Bytes) : Bytes := gitHeader ty body.length ++ body

/-! ### ordering (Python `bytes` comparison) -/

def bytesLe (a b : Bytes) : Bool := decide (a ≤ b)

/-- `sorted(xs, key=key)` : stable merge sort on the byte-string key -/
def sortByKey {α} (key : α → Bytes) (xs : List α) : List α :=
  xs.mergeSort (fun a b => bytesLe (key a) (key b))

end Swh
