import SwhVerif.Base.Bytes
/-!
  The header-block codec shared by commits, tags, extids and raw extrinsic metadata:
  `format_git_object_from_headers` (formatter, as coded in git_objects.py) and an
  independent line parser written as a four-state machine.
-/
namespace Swh

abbrev Header := Bytes × Bytes

/-- `key, b" ", escape_newlines(value), b"\n"` -/
def fmtHeader (kv : Header) : Bytes := kv.1 ++ bSP :: (escapeNewlines kv.2 ++ [bNL])

/-- body of `format_git_object_from_headers` (without the git object header) -/
def fmtHeaders (hs : List Header) (msg : Option Bytes) : Bytes :=
  (hs.map fmtHeader).flatten ++ (match msg with | none => [] | some m => bNL :: m)

inductive PSt where
  | lineStart
  | inKey (k : Bytes)
  | inVal (k v : Bytes)
  | afterNl (k v : Bytes)

/-- Independent parser of a header block: returns the header list (continuation lines
    folded back into multi-line values) and the optional message. -/
def parseHdr : PSt → List Header → Bytes → Option (List Header × Option Bytes)
  | .lineStart, acc, [] => some (acc, none)
  | .lineStart, acc, b :: bs =>
      if b = bNL then some (acc, some bs)
      else if b = bSP then none
      else parseHdr (.inKey [b]) acc bs
  | .inKey _, _, [] => none
  | .inKey k, acc, b :: bs =>
      if b = bSP then parseHdr (.inVal k []) acc bs
      else if b = bNL then none
      else parseHdr (.inKey (k ++ [b])) acc bs
  | .inVal _ _, _, [] => none
  | .inVal k v, acc, b :: bs =>
      if b = bNL then parseHdr (.afterNl k v) acc bs
      else parseHdr (.inVal k (v ++ [b])) acc bs
  | .afterNl k v, acc, [] => some (acc ++ [(k, v)], none)
  | .afterNl k v, acc, b :: bs =>
      if b = bSP then parseHdr (.inVal k (v ++ [bNL])) acc bs
      else if b = bNL then some (acc ++ [(k, v)], some bs)
      else parseHdr (.inKey [b]) (acc ++ [(k, v)]) bs

def parseHeaders (bs : Bytes) : Option (List Header × Option Bytes) := parseHdr .lineStart [] bs

/-- a key git can parse back: non-empty, no space, no newline -/
def wfKey (k : Bytes) : Bool := !k.isEmpty && k.all (fun b => b != bSP && b != bNL)

/-- strip the git object header `"<ty> <len>\0"`, checking type and length -/
def stripGitHeader (ty : Bytes) (obj : Bytes) : Option Bytes :=
  match splitFirst bNUL obj with
  | none => none
  | some (hd, body) =>
    match splitFirst bSP hd with
    | none => none
    | some (t, l) =>
      if t = ty then
        match parseDecCanon l with
        | some n => if n = body.length then some body else none
        | none => none
      else none

end Swh
