/-! Error kinds shared by all models: "raises only the library's validation error" is then a
    statement about a model. -/
namespace Swh

inductive ErrKind where
  | validation | valueError | typeError | assertion | other
  deriving DecidableEq, Repr

end Swh
