import SwhVerif.Model.Directory
import SwhVerif.Lemmas.Bytes
namespace Swh

theorem nodup_map_inj {α β} (f : α → β) (l : List α) (h : (l.map f).Nodup) :
    ∀ a ∈ l, ∀ b ∈ l, f a = f b → a = b := by
  induction l with
  | nil => intro a ha; cases ha
  | cons x xs ih =>
    simp only [List.map_cons, List.nodup_cons, List.mem_map, not_exists, not_and] at h
    intro a ha b hb hab
    simp only [List.mem_cons] at ha hb
    rcases ha with rfl | ha <;> rcases hb with rfl | hb
    · rfl
    · exact absurd hab.symm (h.1 b hb)
    · exact absurd hab (h.1 a ha)
    · exact ih h.2 a ha b hb hab

/-- keys are distinct when names are distinct and `'/'`-free -/
theorem entryKey_inj (es : List Entry) (hn : (es.map Entry.name).Nodup)
    (hs : ∀ e ∈ es, bSlash ∉ e.name) :
    ∀ a ∈ es, ∀ b ∈ es, entryKey a = entryKey b → a = b := by
  intro a ha b hb hk
  apply nodup_map_inj Entry.name es hn a ha b hb
  unfold entryKey at hk
  cases hta : a.type <;> cases htb : b.type <;> simp only [hta, htb] at hk
  all_goals first
    | exact hk
    | exact List.append_cancel_right hk
    | (exfalso; exact hs b hb (by rw [← hk]; simp))
    | (exfalso; exact hs a ha (by rw [hk]; simp))

/-! ### decoding -/

theorem decodeTreeAux_map (l : List Entry) (fuel : Nat) (hf : l.length < fuel)
    (hname : ∀ e ∈ l, bNUL ∉ e.name) (htgt : ∀ e ∈ l, e.target.length = 20) :
    decodeTreeAux fuel ((l.map entryBytes).flatten) = some (l.map Entry.triple) := by
  induction l generalizing fuel with
  | nil =>
    cases fuel with
    | zero => omega
    | succ f => simp [decodeTreeAux]
  | cons e l ih =>
    cases fuel with
    | zero => omega
    | succ f =>
      have hoct : ∀ b ∈ oct e.perms, b ≠ bSP := by
        intro b hb hc; have := oct_bytes _ b hb; subst hc; simp [bSP] at this
      have hne := natBase_ne_nil 6 e.perms
      simp only [List.map_cons, List.flatten_cons]
      -- the input is non-empty: expose its head
      cases hoc : oct e.perms with
      | nil => exact absurd hoc hne
      | cons d ds =>
        have hsplit : splitFirst bSP (entryBytes e ++ (l.map entryBytes).flatten)
            = some (oct e.perms, e.name ++ bNUL :: e.target ++ (l.map entryBytes).flatten) := by
          have : entryBytes e ++ (l.map entryBytes).flatten
              = oct e.perms ++ bSP :: (e.name ++ bNUL :: e.target ++ (l.map entryBytes).flatten) := by
            simp [entryBytes]
          rw [this]; exact splitFirst_append _ _ _ (fun h => hoct _ h rfl)
        have hform : entryBytes e ++ (l.map entryBytes).flatten
            = d :: (ds ++ bSP :: (e.name ++ bNUL :: e.target ++ (l.map entryBytes).flatten)) := by
          simp [entryBytes, hoc]
        rw [hform] at hsplit ⊢
        simp only [decodeTreeAux, hsplit]
        rw [parseOct_oct]
        have hs2 : splitFirst bNUL (e.name ++ bNUL :: e.target ++ (l.map entryBytes).flatten)
            = some (e.name, e.target ++ (l.map entryBytes).flatten) := by
          have : e.name ++ bNUL :: e.target ++ (l.map entryBytes).flatten
              = e.name ++ bNUL :: (e.target ++ (l.map entryBytes).flatten) := by simp
          rw [this]; exact splitFirst_append _ _ _ (hname e (by simp))
        simp only [hs2]
        have ht := htgt e (by simp)
        have hlen : ¬ (e.target ++ (l.map entryBytes).flatten).length < 20 := by
          simp [ht]
        simp only [hlen, if_false]
        have hdrop : (e.target ++ (l.map entryBytes).flatten).drop 20 = (l.map entryBytes).flatten := by
          rw [← ht]; simp
        have htake : (e.target ++ (l.map entryBytes).flatten).take 20 = e.target := by
          rw [← ht]; simp
        rw [hdrop, htake]
        rw [ih f (by simp at hf; omega) (fun x hx => hname x (by simp [hx]))
          (fun x hx => htgt x (by simp [hx]))]
        simp [Entry.triple]

theorem flatten_length_ge (l : List Entry) : l.length ≤ ((l.map entryBytes).flatten).length := by
  induction l with
  | nil => simp
  | cons e l ih =>
    simp only [List.map_cons, List.flatten_cons, List.length_append, List.length_cons]
    have : 1 ≤ (entryBytes e).length := by simp [entryBytes]; omega
    omega

/-! ### git order -/

theorem u8_tri (a b : UInt8) : a < b ∨ a = b ∨ b < a := by
  rcases Nat.lt_trichotomy a.toNat b.toNat with h | h | h
  · exact Or.inl (UInt8.lt_iff_toNat_lt.mpr h)
  · exact Or.inr (Or.inl (UInt8.toNat_inj.mp h))
  · exact Or.inr (Or.inr (UInt8.lt_iff_toNat_lt.mpr h))

theorem gitCmp_key (n1 n2 : Bytes) (d1 d2 : Bool)
    (h1 : bNUL ∉ n1 ∧ bSlash ∉ n1) (h2 : bNUL ∉ n2 ∧ bSlash ∉ n2) :
    ((if d1 then n1 ++ [bSlash] else n1) ≤ (if d2 then n2 ++ [bSlash] else n2))
      ↔ gitBaseNameCompare n1 d1 n2 d2 ≠ .gt := by
  induction n1 generalizing n2 with
  | nil =>
    cases n2 with
    | nil =>
      cases d1 <;> cases d2 <;> simp [gitBaseNameCompare, bSlash] <;> decide
    | cons b bs =>
      have hb0 : b ≠ 0 := fun h => h2.1 (by simp [h, bNUL])
      have hbs : b ≠ bSlash := fun h => h2.2 (by simp [h])
      cases d1 <;> cases d2 <;>
        simp only [gitBaseNameCompare, if_true, if_false, List.nil_append, List.cons_append,
          List.nil_le, true_iff, Bool.false_eq_true, List.cons_le_cons_iff]
      · have : (0:UInt8) < b := by
          rcases Nat.eq_zero_or_pos b.toNat with h | h
          · exact absurd (UInt8.toNat_inj.mp (by simpa using h)) hb0
          · exact UInt8.lt_iff_toNat_lt.mpr (by simpa using h)
        simp [this]
      · have : (0:UInt8) < b := by
          rcases Nat.eq_zero_or_pos b.toNat with h | h
          · exact absurd (UInt8.toNat_inj.mp (by simpa using h)) hb0
          · exact UInt8.lt_iff_toNat_lt.mpr (by simpa using h)
        simp [this]
      · by_cases hlt : bSlash < b
        · simp [hlt]
        · have hgt : b < bSlash := by
            rcases u8_tri b bSlash with h | h | h
            · exact h
            · exact absurd h hbs
            · exact absurd h hlt
          simp [hlt, hgt, Ne.symm hbs]
      · by_cases hlt : bSlash < b
        · simp [hlt]
        · have hgt : b < bSlash := by
            rcases u8_tri b bSlash with h | h | h
            · exact h
            · exact absurd h hbs
            · exact absurd h hlt
          simp [hlt, hgt, Ne.symm hbs]
  | cons a as ih =>
    have ha0 : a ≠ 0 := fun h => h1.1 (by simp [h, bNUL])
    have has : a ≠ bSlash := fun h => h1.2 (by simp [h])
    cases n2 with
    | nil =>
      have hpos : (0:UInt8) < a := by
        rcases Nat.eq_zero_or_pos a.toNat with h | h
        · exact absurd (UInt8.toNat_inj.mp (by simpa using h)) ha0
        · exact UInt8.lt_iff_toNat_lt.mpr (by simpa using h)
      have hnlt : ¬ a < 0 := by
        intro h; exact absurd (UInt8.lt_iff_toNat_lt.mp h) (by simp)
      cases d1 <;> cases d2 <;>
        simp only [gitBaseNameCompare, if_true, if_false, List.nil_append, List.cons_append,
          Bool.false_eq_true, List.cons_le_cons_iff, List.le_nil]
      · simp [hnlt, hpos]
      · by_cases hlt : a < bSlash
        · simp [hlt]
        · have hgt : bSlash < a := by
            rcases u8_tri a bSlash with h | h | h
            · exact absurd h hlt
            · exact absurd h has
            · exact h
          simp [hlt, hgt, has]
      · simp [hnlt, hpos]
      · by_cases hlt : a < bSlash
        · simp [hlt]
        · have hgt : bSlash < a := by
            rcases u8_tri a bSlash with h | h | h
            · exact absurd h hlt
            · exact absurd h has
            · exact h
          simp [hlt, hgt, has]
    | cons b bs =>
      have h1' : bNUL ∉ as ∧ bSlash ∉ as :=
        ⟨fun h => h1.1 (by simp [h]), fun h => h1.2 (by simp [h])⟩
      have h2' : bNUL ∉ bs ∧ bSlash ∉ bs :=
        ⟨fun h => h2.1 (by simp [h]), fun h => h2.2 (by simp [h])⟩
      have key : ((if d1 then (a :: as) ++ [bSlash] else a :: as) ≤ (if d2 then (b :: bs) ++ [bSlash] else b :: bs))
          ↔ (a < b ∨ a = b ∧ (if d1 then as ++ [bSlash] else as) ≤ (if d2 then bs ++ [bSlash] else bs)) := by
        cases d1 <;> cases d2 <;> simp [List.cons_le_cons_iff]
      rw [key, ih bs h1' h2']
      simp only [gitBaseNameCompare]
      by_cases hab : a < b
      · simp [hab]
      · by_cases hba : b < a
        · have : a ≠ b := fun h => by subst h; exact absurd hba hab
          simp [hab, hba, this]
        · have : a = b := by
            rcases u8_tri a b with h | h | h
            · exact absurd h hab
            · exact h
            · exact absurd h hba
          simp [hab, hba, this]

end Swh
