import SwhVerif.Lemmas.FsPerm
/-! git's tree construction (`gitTreeOf`) against the reader with empty directories ignored (C06). -/
namespace Swh.Fs
open Swh

/-! ### git's sort = the library's sort key -/

/-- the byte string git's comparison amounts to: the name, with `'/'` appended for a tree -/
def keyG (g : GitEnt) : Bytes := if g.isTree then g.name ++ [bSlash] else g.name

def nameValid (n : Bytes) : Prop := bNUL ∉ n ∧ bSlash ∉ n

theorem gitCmp_gt_iff (a b : GitEnt) (ha : nameValid a.name) (hb : nameValid b.name) :
    (gitBaseNameCompare a.name a.isTree b.name b.isTree == .gt) = true ↔ ¬ keyG a ≤ keyG b := by
  have := gitCmp_key a.name b.name a.isTree b.isTree ha hb
  unfold keyG
  rw [this]
  cases gitBaseNameCompare a.name a.isTree b.name b.isTree <;> simp

theorem gitInsert_perm (e : GitEnt) (l : List GitEnt) : (gitInsert e l).Perm (e :: l) := by
  induction l with
  | nil => simp [gitInsert]
  | cons x xs ih =>
    simp only [gitInsert]
    split
    · exact (List.Perm.cons x ih).trans (List.Perm.swap e x xs)
    · exact List.Perm.refl _

theorem gitSort_perm (l : List GitEnt) : (gitSort l).Perm l := by
  induction l with
  | nil => simp [gitSort]
  | cons e es ih => exact (gitInsert_perm e (gitSort es)).trans (List.Perm.cons e ih)

theorem gitInsert_sorted (e : GitEnt) (l : List GitEnt) (he : nameValid e.name)
    (hl : ∀ x ∈ l, nameValid x.name) (hs : l.Pairwise (fun a b => keyG a ≤ keyG b)) :
    (gitInsert e l).Pairwise (fun a b => keyG a ≤ keyG b) := by
  induction l with
  | nil => simp [gitInsert]
  | cons x xs ih =>
    have hx := hl x (by simp)
    have hxs : ∀ y ∈ xs, nameValid y.name := fun y hy => hl y (by simp [hy])
    rw [List.pairwise_cons] at hs
    simp only [gitInsert]
    by_cases hc : (gitBaseNameCompare e.name e.isTree x.name x.isTree == .gt) = true
    · rw [if_pos hc]
      have hxe : keyG x ≤ keyG e := by
        rw [gitCmp_gt_iff e x he hx] at hc
        rcases List.le_total (keyG e) (keyG x) with h | h
        · exact absurd h hc
        · exact h
      rw [List.pairwise_cons]
      refine ⟨?_, ih hxs hs.2⟩
      intro y hy
      have hy' := (gitInsert_perm e xs).mem_iff.mp hy
      simp only [List.mem_cons] at hy'
      rcases hy' with rfl | hy'
      · exact hxe
      · exact hs.1 y hy'
    · rw [if_neg hc]
      have hex : keyG e ≤ keyG x := by
        rw [gitCmp_gt_iff e x he hx] at hc
        exact Classical.not_not.mp hc
      rw [List.pairwise_cons]
      refine ⟨?_, List.pairwise_cons.mpr hs⟩
      intro y hy
      simp only [List.mem_cons] at hy
      rcases hy with rfl | hy
      · exact hex
      · exact List.le_trans hex (hs.1 y hy)

theorem gitSort_sorted (l : List GitEnt) (hl : ∀ x ∈ l, nameValid x.name) :
    (gitSort l).Pairwise (fun a b => keyG a ≤ keyG b) := by
  induction l with
  | nil => simp [gitSort]
  | cons e es ih =>
    have hes : ∀ x ∈ es, nameValid x.name := fun x hx => hl x (by simp [hx])
    exact gitInsert_sorted e (gitSort es) (hl e (by simp))
      (fun x hx => hes x ((gitSort_perm es).mem_iff.mp hx)) (ih hes)

/-- the git entry for a library directory entry: the mode as the library prints it -/
def toGit (e : Entry) : GitEnt := ⟨oct e.perms, e.name, e.isDir, e.target⟩

theorem keyG_toGit (e : Entry) : keyG (toGit e) = entryKey e := by
  unfold keyG toGit entryKey Entry.isDir
  cases e.type <;> simp

/-- git's sort of the entries is the library's `sorted(…, key=directory_entry_sort_key)` -/
theorem gitSort_eq (es : List Entry) (hn : (es.map Entry.name).Nodup)
    (hv : ∀ e ∈ es, nameValid e.name) :
    gitSort (es.map toGit) = (sortEntries es).map toGit := by
  have hvg : ∀ x ∈ es.map toGit, nameValid x.name := by
    intro x hx; obtain ⟨e, he, rfl⟩ := List.mem_map.mp hx; exact hv e he
  apply List.Perm.eq_of_pairwise (le := fun a b => keyG a ≤ keyG b)
  · intro a b ha hb hab hba
    obtain ⟨e1, he1, rfl⟩ := List.mem_map.mp ((gitSort_perm _).mem_iff.mp ha)
    obtain ⟨e2, he2, rfl⟩ := List.mem_map.mp hb
    have he2' : e2 ∈ es := (sortByKey_perm entryKey es).mem_iff.mp he2
    rw [keyG_toGit, keyG_toGit] at hab hba
    rw [entryKey_inj es hn (fun e he => (hv e he).2) e1 he1 e2 he2' (List.le_antisymm hab hba)]
  · exact gitSort_sorted _ hvg
  · have := sortByKey_sorted entryKey es
    rw [List.pairwise_map]
    refine this.imp ?_
    intro a b hab
    rw [keyG_toGit, keyG_toGit]
    simpa [bytesLe] using hab
  · exact (gitSort_perm _).trans ((sortByKey_perm entryKey es).map toGit).symm

/-- **the tree object git writes = the manifest the library hashes** -/
theorem gitTreeObject_eq (es : List Entry) (hn : (es.map Entry.name).Nodup)
    (hv : ∀ e ∈ es, nameValid e.name) :
    gitTreeObject (es.map toGit) = dirManifest es := by
  unfold gitTreeObject dirManifest dirBody
  rw [gitSort_eq es hn hv, List.map_map]
  rfl

/-! ### the expressible trees -/

theorem and_0o100 (m : Nat) (h : m &&& 0o111 = 0) : m &&& 0o100 = 0 := by
  have : m &&& 0o100 = (m &&& 0o111) &&& 0o100 := by
    rw [Nat.and_assoc]; rfl
  rw [this, h]; simp

theorem modeToPerms_reg (m : Nat) (h : isReg m = true) :
    modeToPerms m = if m &&& 0o111 ≠ 0 then Gen.perms_executable_content else Gen.perms_content := by
  unfold isReg at h
  have e : m &&& S_IFMT = S_IFREG := by simpa using h
  simp [modeToPerms, isLnk, isDir, e, S_IFREG, S_IFLNK, S_IFDIR]

theorem WfFs_cons {n : Bytes} {c : FsNode} {rest : List (Bytes × FsNode)}
    (h : WfFs (.dir ((n, c) :: rest))) : WfFs c ∧ WfFs (.dir rest) ∧ nameValid n ∧ n ∉ names rest := by
  have hw := (WfFs_dir _).mp h
  refine ⟨hw.2.2 (n, c) (by simp), ?_, ?_, ?_⟩
  · rw [WfFs_dir]
    refine ⟨fun x hx => hw.1 x (by simp [hx]), ?_, fun p hp => hw.2.2 p (by simp [hp])⟩
    have := hw.2.1; simp only [names_cons, List.nodup_cons] at this; exact this.2
  · have := hw.1 n (by simp); exact ⟨this.2.2, this.2.1⟩
  · have := hw.2.1; simp only [names_cons, List.nodup_cons] at this; exact this.1

theorem names_pruneEmptyL_sub (es : List (Bytes × FsNode)) : ∀ n ∈ names (pruneEmptyL es), n ∈ names es := by
  induction es with
  | nil => simp [pruneEmptyL, pruneEmpty, FsNode.entries]
  | cons p r ih =>
    obtain ⟨k, c⟩ := p
    intro n hn
    cases c with
    | dir ces =>
      rw [pruneEmptyL_dir] at hn
      by_cases hcond : (pruneEmptyL ces).isEmpty = true
      · rw [if_pos hcond] at hn; simp [ih n hn]
      · rw [if_neg hcond] at hn
        simp only [names_cons, List.mem_cons] at hn ⊢
        rcases hn with h | h
        · exact Or.inl h
        · exact Or.inr (ih n h)
    | _ =>
      simp only [pruneEmptyL, names_cons, List.mem_cons, pruneEmpty, FsNode.entries] at hn ⊢
      rcases hn with h | h
      · exact Or.inl h
      · exact Or.inr (ih n h)

/-- pruning keeps a tree well formed -/
theorem wf_pruneEmpty :
    (∀ t, WfFs t → WfFs (pruneEmpty t)) ∧
    (∀ es, WfFs (.dir es) → WfFs (.dir (pruneEmptyL es))) := by
  apply FsNode.induct2
  · intro m d h; exact h
  · intro t h; exact h
  · intro m h; exact h
  · intro es ih h; exact ih h
  · intro h; simpa [pruneEmptyL] using h
  · intro n c rest hc hr h
    obtain ⟨h1, h2, h3, h4⟩ := WfFs_cons h
    have hr' := hr h2
    have hn4 : n ∉ names (pruneEmptyL rest) := fun hm => h4 (names_pruneEmptyL_sub rest n hm)
    have hn0 : n ≠ [] ∧ bSlash ∉ n ∧ bNUL ∉ n := ((WfFs_dir _).mp h).1 n (by simp)
    have build : ∀ c', WfFs c' → WfFs (.dir ((n, c') :: pruneEmptyL rest)) := by
      intro c' hc'
      have hr2 := (WfFs_dir _).mp hr'
      rw [WfFs_dir]
      refine ⟨?_, ?_, ?_⟩
      · intro x hx; simp only [names_cons, List.mem_cons] at hx
        rcases hx with rfl | hx
        · exact hn0
        · exact hr2.1 x hx
      · simp only [names_cons, List.nodup_cons]; exact ⟨hn4, hr2.2.1⟩
      · intro p hp; simp only [List.mem_cons] at hp
        rcases hp with rfl | hp
        · exact hc'
        · exact hr2.2.2 p hp
    cases c with
    | dir ces =>
      rw [pruneEmptyL_dir]
      by_cases hcond : (pruneEmptyL ces).isEmpty = true
      · rw [if_pos hcond]; exact hr'
      · rw [if_neg hcond]; exact build _ (hc h1)
    | file m d => simp only [pruneEmptyL, pruneEmpty, FsNode.entries]; exact build _ h1
    | symlink t => simp only [pruneEmptyL, pruneEmpty, FsNode.entries]; exact build _ h1
    | special m => simp only [pruneEmptyL, pruneEmpty, FsNode.entries]; exact build _ h1

theorem entries_valid (H : Bytes → Bytes) (ml : Option Nat) (es : List (Bytes × FsNode))
    (hw : WfFs (.dir es)) :
    ((es.map (entryFor H ml)).map Entry.name).Nodup ∧
      ∀ e ∈ es.map (entryFor H ml), nameValid e.name := by
  have hw' := (WfFs_dir es).mp hw
  refine ⟨by rw [map_entryFor_names]; exact hw'.2.1, ?_⟩
  intro e he
  obtain ⟨p, hp, rfl⟩ := List.mem_map.mp he
  rw [entryFor_name]
  have := hw'.1 p.1 (List.mem_map.mpr ⟨p, hp, rfl⟩)
  exact ⟨this.2.2, this.2.1⟩

/-- the id of a read directory is git's hash of the tree built from its entries -/
theorem readNode_dir_git (H : Bytes → Bytes) (ml : Option Nat) (es : List (Bytes × FsNode))
    (hw : WfFs (.dir es)) :
    (readNode H ml (.dir es)).id H = H (gitTreeObject ((es.map (entryFor H ml)).map toGit)) := by
  have := entries_valid H ml es hw
  rw [readNode_dir_id, gitTreeObject_eq _ this.1 this.2]

theorem toGit_entryFor_dir (H : Bytes → Bytes) (ml : Option Nat) (n : Bytes)
    (es : List (Bytes × FsNode)) (hw : WfFs (.dir es)) :
    toGit (entryFor H ml (n, .dir es)) =
      ⟨gitModeTree, n, true, H (gitTreeObject ((es.map (entryFor H ml)).map toGit))⟩ := by
  rw [← readNode_dir_git H ml es hw]
  have e1 : (readNode H ml (.dir es)).isDirectory = true := by rw [readNode_dir]; rfl
  have e2 : (readNode H ml (.dir es)).perms = Gen.perms_directory := by rw [readNode_dir]; rfl
  unfold entryFor toGit
  rw [mkEntry_eq]
  simp only [e1, e2, Entry.isDir, if_true, C02.oct_git.2.2.2.1, gitModeTree, decide_true]

/-- git's index entries below a directory = the entries the reader records for the tree with
    its empty directories removed -/
theorem gitEntries_eq (H : Bytes → Bytes) (ml : Option Nat) :
    (∀ t, ∀ es, t = .dir es → WfFs t → gitOk t = true →
      gitEntries H es = some (((pruneEmptyL es).map (entryFor H ml)).map toGit)) ∧
    (∀ es, WfFs (.dir es) → gitOkL es = true →
      gitEntries H es = some (((pruneEmptyL es).map (entryFor H ml)).map toGit)) := by
  apply FsNode.induct2
  · intro m d es h; cases h
  · intro t es h; cases h
  · intro m es h; cases h
  · intro es ih es' h hw hg
    cases h
    exact ih hw (by simpa [gitOk] using hg)
  · intro _ _; simp [gitEntries, pruneEmptyL, pruneEmpty, FsNode.entries]
  · intro n c rest hc hr hw hg
    obtain ⟨h1, h2, h3, h4⟩ := WfFs_cons hw
    simp only [gitOkL, Bool.and_eq_true, Bool.not_eq_true'] at hg
    obtain ⟨⟨hdot, hgc⟩, hgr⟩ := hg
    have hrest := hr h2 hgr
    simp only [gitEntries, hdot, Bool.false_eq_true, if_false, hrest]
    cases c with
    | file m d =>
      have hreg : isReg m = true := by simpa [WfFs, wfFs] using h1
      have hx : (m &&& 0o111 ≠ 0) ↔ (m &&& 0o100 ≠ 0) := by
        constructor
        · have := hgc; simp only [gitOk, decide_eq_true_eq] at this; exact this
        · intro h0 h111; exact h0 (and_0o100 m h111)
      simp only [pruneEmptyL, List.map_cons, Option.some.injEq, List.cons.injEq, and_true, pruneEmpty, FsNode.entries]
      simp only [entryFor, readNode, walkP, mkEntry, toGit, Entry.isDir, RNode.id,
        modeToPerms_reg m hreg]
      by_cases h0 : m &&& 0o100 ≠ 0
      · have h111 := hx.mpr h0
        simp [h0, h111, gitModeExec, C02.oct_git.2.1]
      · have h111 : ¬ (m &&& 0o111 ≠ 0) := fun h => h0 (hx.mp h)
        simp only [ne_eq, Decidable.not_not] at h0 h111
        simp [h0, h111, gitModeFile, C02.oct_git.1]
    | symlink t =>
      simp only [pruneEmptyL, List.map_cons, Option.some.injEq, List.cons.injEq, and_true, pruneEmpty, FsNode.entries]
      have : modeToPerms symlinkMode = Gen.perms_symlink := by decide
      simp [entryFor, readNode, walkP, mkEntry, toGit, Entry.isDir, RNode.id, fromBytes, this,
        gitModeLink, C02.oct_git.2.2.1]
    | special m => simp [gitOk] at hgc
    | dir ces =>
      have hces := hc ces rfl h1 hgc
      have hwp : WfFs (.dir (pruneEmptyL ces)) := wf_pruneEmpty.2 ces h1
      rw [pruneEmptyL_dir]
      simp only [gitBelow, hces]
      cases hpe : pruneEmptyL ces with
      | nil => simp
      | cons q qs =>
        simp only [List.map_cons, List.isEmpty_cons, Bool.false_eq_true, if_false,
          Option.some.injEq, List.cons.injEq, and_true]
        rw [toGit_entryFor_dir H ml n (q :: qs) (hpe ▸ hwp)]
        simp

/-- **git equivalence**: on an expressible tree, the id of the reading of the tree without its
    (recursively) empty directories is the id `git add -A && git write-tree` prints -/
theorem gitTreeOf_eq (H : Bytes → Bytes) (ml : Option Nat) (es : List (Bytes × FsNode))
    (hw : WfFs (.dir es)) (hg : gitOk (.dir es) = true) :
    gitTreeOf H (.dir es) = some ((readNode H ml (pruneEmpty (.dir es))).id H) := by
  have h := (gitEntries_eq H ml).2 es hw (by simpa [gitOk] using hg)
  simp only [gitTreeOf, h, pruneEmpty]
  rw [readNode_dir_git H ml _ (wf_pruneEmpty.2 es hw)]

end Swh.Fs
