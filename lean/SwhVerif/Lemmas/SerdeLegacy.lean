import SwhVerif.Lemmas.SerdeRoundtrip2
import SwhVerif.Lemmas.SerdeRoundtrip3
import SwhVerif.Props.C16
/-!
  C12: the legacy encodings still accepted by `from_dict` decode to the same object as the
  current encoding.
-/
set_option linter.unusedSimpArgs false
namespace Swh.Serde
open Swh

/-! ### generic dictionaries -/

theorem lookup_append_new (k : PStr) (v : Val) (kv : KV) (h : lookup k kv = none) :
    lookup k (kv ++ [(Val.str k, v)]) = some v := by
  induction kv with
  | nil => simp [lookup]
  | cons p r ih =>
    obtain ⟨a, b⟩ := p
    cases a with
    | str s =>
      simp only [lookup, List.cons_append] at h ⊢
      by_cases hs : s = k
      · simp [hs] at h
      · simp only [hs, if_false] at h ⊢; exact ih h
    | _ => simp only [lookup, List.cons_append] at h ⊢; exact ih h

theorem lookup_append_ne (k k' : PStr) (v : Val) (kv : KV) (h : k' ≠ k) :
    lookup k (kv ++ [(Val.str k', v)]) = lookup k kv := by
  induction kv with
  | nil => simp [lookup, h]
  | cons p r ih =>
    obtain ⟨a, b⟩ := p
    cases a with
    | str s =>
      simp only [lookup, List.cons_append]
      by_cases hs : s = k
      · simp [hs]
      · simp only [hs, if_false]; exact ih
    | _ => simp only [lookup, List.cons_append]; exact ih

theorem lookup_erase_self (k : PStr) (kv : KV) : lookup k (erase k kv) = none := by
  induction kv with
  | nil => rfl
  | cons p r ih =>
    obtain ⟨a, b⟩ := p
    cases a with
    | str s =>
      simp only [erase]
      by_cases hs : s = k
      · simp [hs, ih]
      · simp [hs, lookup, ih]
    | _ => simp only [erase, lookup]; exact ih

theorem lookup_erase_ne (k k' : PStr) (kv : KV) (h : k' ≠ k) :
    lookup k (erase k' kv) = lookup k kv := by
  induction kv with
  | nil => rfl
  | cons p r ih =>
    obtain ⟨a, b⟩ := p
    cases a with
    | str s =>
      simp only [erase]
      by_cases hs : s = k'
      · have : s ≠ k := by rw [hs]; exact h
        simp [hs, lookup, ih, h]
      · simp only [hs, if_false, lookup, ih]
    | _ => simp only [erase, lookup]; exact ih

theorem lookup_map_set_ne (k k' : PStr) (v : Val) (kv : KV) (h : k' ≠ k) :
    lookup k (kv.map (fun p => match p.1 with
      | .str s => if s = k' then (p.1, v) else p | _ => p)) = lookup k kv := by
  induction kv with
  | nil => rfl
  | cons p r ih =>
    obtain ⟨a, b⟩ := p
    cases a with
    | str s =>
      simp only [List.map]
      by_cases hs : s = k'
      · have : s ≠ k := by rw [hs]; exact h
        simp [hs, lookup, ih, h]
      · simp only [hs, if_false, lookup, ih]
    | _ => simp only [List.map, lookup]; exact ih

theorem lookup_setKey_ne (k k' : PStr) (v : Val) (kv : KV) (h : k' ≠ k) :
    lookup k (setKey k' v kv) = lookup k kv := by
  unfold setKey
  split
  · exact lookup_map_set_ne k k' v kv h
  · exact lookup_append_ne k k' v kv h

/-! ### dates -/

/-- the old dictionary format (`offset`, `negative_utc`) and the same dictionary with the
    corresponding `offset_bytes` added decode alike -/
theorem tstz_legacy_offset_general (kv : KV) (o : Int)
    (hob : lookup k!"offset_bytes" kv = none) (hoff : lookup k!"offset" kv = some (.int o))
    (hlo : -32768 ≤ o) (hhi : o ≤ 32767)
    (hf : truthy (argD kv k!"negative_utc" .none) = true → o ≤ 0) :
    fromDictTimestampWithTimezone (.dict kv) =
    fromDictTimestampWithTimezone (.dict (kv ++ [(Val.str k!"offset_bytes",
      Val.bytes (formatOffset o (truthy (argD kv k!"negative_utc" .none))))])) := by
  have hnum := Swh.C16.fromNumericOffset_ok o _ hlo hhi hf
  have h1 := lookup_append_new k!"offset_bytes"
    (Val.bytes (formatOffset o (truthy (argD kv k!"negative_utc" .none)))) kv hob
  have h2 : lookup k!"timestamp" (kv ++ [(Val.str k!"offset_bytes",
      Val.bytes (formatOffset o (truthy (argD kv k!"negative_utc" .none))))])
      = lookup k!"timestamp" kv := lookup_append_ne _ _ _ _ (by decide)
  simp only [fromDictTimestampWithTimezone, item, h1, h2, hob, hoff, ofOpt, decOffset, hnum,
    decBytes, bind, Except.bind]

/-- the old format on a dictionary literal -/
theorem tstz_legacy_offset_lit (ts : Val) (o : Int) (f : Bool)
    (hlo : -32768 ≤ o) (hhi : o ≤ 32767) (hf : f = true → o ≤ 0) :
    fromDictTimestampWithTimezone (.dict (build
      [(k!"timestamp", some ts), (k!"offset", some (.int o)), (k!"negative_utc", some (.bool f))])) =
    fromDictTimestampWithTimezone (.dict (build
      [(k!"timestamp", some ts), (k!"offset_bytes", some (.bytes (formatOffset o f)))])) := by
  have hnum := Swh.C16.fromNumericOffset_ok o f hlo hhi hf
  serde_simp [fromDictTimestampWithTimezone, decOffset, truthy, hnum]

/-- a bare integer is a UTC date without microseconds -/
theorem tstz_from_int_eq (i : Int) :
    fromDictTimestampWithTimezone (.int i) =
    fromDictTimestampWithTimezone (.dict (build
      [(k!"timestamp", some (.dict (build [(k!"seconds", some (.int i)),
                                           (k!"microseconds", some (.int 0))]))),
       (k!"offset_bytes", some (.bytes plusZero))])) := by
  serde_simp [fromDictTimestampWithTimezone]

/-! ### persons -/

theorem person_without_fullname_eq (n e : Option Bytes) :
    fromDictPerson (.dict (build [(k!"name", some (encOptBytes n)), (k!"email", some (encOptBytes e))]))
      = .ok { fullname := joinFullname n e, name := n, email := e } := by
  cases n <;> cases e <;>
    simp [fromDictPerson, build, lookup, item, arg, argD, ofOpt, kwargs, strKeyIn, guardE,
      decJoinPart, encOptBytes, decBytes, decOptBytes, bind, Except.bind]

theorem joinFullname_cases (n e : Bytes) :
    joinFullname none none = [] ∧ joinFullname (some n) none = n ∧
    joinFullname none (some e) = (0x3c : UInt8) :: (e ++ [0x3e]) ∧
    joinFullname (some n) (some e) = n ++ [bSP] ++ (0x3c : UInt8) :: (e ++ [0x3e]) := by
  simp [joinFullname, joinWith]

/-! ### revisions -/

theorem mlookup_filter_self (k : PStr) (m : Meta) :
    mlookup k (m.filter (fun p => p.1 != k)) = none := by
  induction m with
  | nil => rfl
  | cons p r ih =>
    by_cases hp : p.1 = k
    · simp [List.filter_cons, hp, ih]
    · simp [List.filter_cons, hp, mlookup, ih]

/-- the constructor on a record whose extra headers are still inside the metadata -/
theorem revisionPostInit_legacy (ids : IdFns) (r : Revision) (m' : Meta) (hs : List (Bytes × Bytes))
    (hmeta : r.metadata = some m') (hempty : r.extra_headers = [])
    (hl : mlookup kExtraHeaders m' = some (encHeaders hs)) :
    revisionPostInit ids r =
      .ok { r with id := if r.id.isEmpty then ids.revision r else r.id,
                   extra_headers := hs,
                   metadata := some (m'.filter (fun p => p.1 != kExtraHeaders)) } := by
  have hne : m'.isEmpty = false := by
    cases m' with
    | nil => simp [mlookup] at hl
    | cons _ _ => rfl
  unfold revisionPostInit
  by_cases hid : r.id.isEmpty = true
  · simp [hid, hmeta, hempty, hne, hl, bind, Except.bind]
  · simp [hid, hmeta, hempty, hne, hl, bind, Except.bind]

/-- **legacy extra headers** (explicit id): a revision dictionary that carries the extra headers
    inside `metadata["extra_headers"]` decodes to the same revision as the current encoding; the
    rest of the metadata is kept (an empty dictionary when nothing else was there, not `None`) -/
theorem revision_legacy_headers_explicit (ids : IdFns) (o : Revision) (m' : Meta)
    (hv : ValidRevision o)
    (hmeta : o.metadata = some (m'.filter (fun p => p.1 != kExtraHeaders)))
    (hl : mlookup kExtraHeaders m' = some (encHeaders o.extra_headers)) :
    fromDictRevision ids (toDictRevision { o with metadata := some m', extra_headers := [] })
      = .ok o := by
  obtain ⟨h1, h2, h3, h4, h5, h6, h7⟩ := hv
  have hg1 : (o.author.isSome || o.date.isNone) = true := by
    cases ha : o.author with
    | none => simp [h2 ha]
    | some a => simp
  have hg2 : (o.committer.isSome || o.committer_date.isNone) = true := by
    cases ha : o.committer with
    | none => simp [h3 ha]
    | some a => simp
  have he : o.id.isEmpty = false := by
    cases hi : o.id with
    | nil => exact absurd hi h6
    | cons _ _ => rfl
  have hp := revisionPostInit_legacy ids { o with metadata := some m', extra_headers := [] } m'
    o.extra_headers rfl rfl hl
  simp only [he, Bool.false_eq_true, if_false] at hp
  have hfin : ({ o with metadata := some (m'.filter (fun p => p.1 != kExtraHeaders)) } : Revision) = o := by
    rw [← hmeta]
  serde_simp [fromDictRevision, toDictRevision, revisionFields, decEnum, decParents, iterVals,
    decIfTruthy_tstz o.date h4, decIfTruthy_tstz o.committer_date h5, h1, hg1, hg2, encHeaders,
    tuplify, mapE, decHeaders]
  rw [hp]
  exact congrArg Except.ok hfin

/-! ### raw extrinsic metadata -/

theorem originSwhidText_ok (ids : IdFns) (url : PStr) (hu : urlOk url = true)
    (hlen : (ids.origin url).length = 20) :
    originSwhidText ids (.str url) = .ok (swhidText ⟨tOri, ids.origin url⟩) := by
  have ht : tOri ∈ extTags := by decide
  simp [originSwhidText, mkOrigin, hu, mkBase, objectTypeConv, ht, checkObjectId, hlen,
    bind, Except.bind]

/-- the old schema (`type: origin`, `target: <url>`) is rewritten to the new one, which is left
    alone by a second pass -/
theorem remLegacy_origin (ids : IdFns) (kv : KV) (url : PStr)
    (hty : lookup k!"type" kv = some (.str k!"origin"))
    (htg : lookup k!"target" kv = some (.str url))
    (hu : urlOk url = true) (hlen : (ids.origin url).length = 20) :
    let kv2 := setKey k!"target" (.str (swhidText ⟨tOri, ids.origin url⟩)) (erase k!"type" kv)
    remLegacy ids kv = .ok kv2 ∧ remLegacy ids kv2 = .ok kv2 := by
  intro kv2
  have hne : (k!"type" : PStr) ≠ k!"target" := by decide
  have hne' : (k!"target" : PStr) ≠ k!"type" := by decide
  constructor
  · have h1 : lookup k!"target" (erase k!"type" kv) = some (.str url) := by
      rw [lookup_erase_ne _ _ _ hne]; exact htg
    simp [remLegacy, hty, item, h1, ofOpt, originSwhidText_ok ids url hu hlen, bind, Except.bind,
      kv2]
  · have h2 : lookup k!"type" kv2 = none := by
      show lookup k!"type" (setKey k!"target" _ (erase k!"type" kv)) = none
      rw [lookup_setKey_ne _ _ _ _ hne']; exact lookup_erase_self _ _
    simp [remLegacy, h2]

theorem metadata_legacy_target_eq (ids : IdFns) (kv : KV) (url : PStr)
    (hty : lookup k!"type" kv = some (.str k!"origin"))
    (htg : lookup k!"target" kv = some (.str url))
    (hu : urlOk url = true) (hlen : (ids.origin url).length = 20) :
    fromDictRawExtrinsicMetadata ids (.dict kv) =
    fromDictRawExtrinsicMetadata ids (.dict
      (setKey k!"target" (.str (swhidText ⟨tOri, ids.origin url⟩)) (erase k!"type" kv))) := by
  obtain ⟨h1, h2⟩ := remLegacy_origin ids kv url hty htg hu hlen
  simp only [fromDictRawExtrinsicMetadata, asDict_dict, h1, h2, bind, Except.bind]

/-! ### contents whose data is behind a callable -/

theorem content_lazy (o : Content) (g : Bytes) (h1 : 0 ≤ o.length) (h2 : o.status ∈ contentStatuses)
    (hd : o.data = none) (hg : o.get_data = some g) :
    fromDictContent (toDictContent o) = .ok { o with data := some g, get_data := none } := by
  serde_simp [fromDictContent, toDictContent, contentFields, decIn, decEnum, decGetData, decOptBytes,
    h1, h2, hd, hg]

end Swh.Serde
