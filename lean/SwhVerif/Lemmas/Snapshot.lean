import SwhVerif.Model.Snapshot
import SwhVerif.Lemmas.Headers
import SwhVerif.Lemmas.Directory
namespace Swh

theorem typeBytes_noSP (t : BranchTarget) : bSP ∉ t.typeBytes := by
  cases t with
  | dangling => decide
  | alias _ => simp only [BranchTarget.typeBytes]; decide
  | obj k _ => cases k <;> (simp only [BranchTarget.typeBytes]; decide)

theorem typeBytes_ne_nil (t : BranchTarget) : t.typeBytes ≠ [] := by
  cases t with
  | dangling => decide
  | alias _ => simp only [BranchTarget.typeBytes]; decide
  | obj k _ => cases k <;> (simp only [BranchTarget.typeBytes]; decide)

theorem kindTagOfBytes_typeBytes (t : BranchTarget) : kindTagOfBytes t.typeBytes = some t.tag := by
  cases t with
  | dangling => decide
  | alias _ => simp only [BranchTarget.typeBytes, BranchTarget.tag]; decide
  | obj k _ => cases k <;> (simp only [BranchTarget.typeBytes, BranchTarget.tag]; decide)

theorem branchOfTriple_triple (b : Branch) : branchOfTriple b.triple = some b := by
  obtain ⟨n, t⟩ := b
  simp only [branchOfTriple, Branch.triple, kindTagOfBytes_typeBytes]
  cases t <;> simp [BranchTarget.tag, BranchTarget.idBytes]

theorem decodeSnapshotAux_map (l : List Branch) (fuel : Nat) (hf : l.length < fuel)
    (hname : ∀ b ∈ l, bNUL ∉ b.1) :
    decodeSnapshotAux fuel ((l.map branchBytes).flatten) = some (l.map Branch.triple) := by
  induction l generalizing fuel with
  | nil =>
    cases fuel with
    | zero => omega
    | succ f => simp [decodeSnapshotAux]
  | cons e l ih =>
    cases fuel with
    | zero => omega
    | succ f =>
      obtain ⟨name, tgt⟩ := e
      have hty := typeBytes_noSP tgt
      have htne := typeBytes_ne_nil tgt
      have hdec : bColon ∉ dec tgt.idBytes.length := by
        intro h; have := dec_bytes _ _ h; simp [bColon] at this
      simp only [List.map_cons, List.flatten_cons]
      obtain ⟨tail, htail⟩ : ∃ t, t = (l.map branchBytes).flatten := ⟨_, rfl⟩
      rw [← htail]
      cases hoc : tgt.typeBytes with
      | nil => exact absurd hoc htne
      | cons d ds =>
        have hform : branchBytes (name, tgt) ++ tail
            = d :: (ds ++ bSP :: (name ++ bNUL :: (dec tgt.idBytes.length ++ bColon :: (tgt.idBytes ++ tail)))) := by
          simp [branchBytes, hoc]
        have hs1 : splitFirst bSP (d :: (ds ++ bSP :: (name ++ bNUL :: (dec tgt.idBytes.length ++ bColon :: (tgt.idBytes ++ tail)))))
            = some (d :: ds, name ++ bNUL :: (dec tgt.idBytes.length ++ bColon :: (tgt.idBytes ++ tail))) := by
          have := splitFirst_append bSP (d :: ds) (name ++ bNUL :: (dec tgt.idBytes.length ++ bColon :: (tgt.idBytes ++ tail))) (by rw [← hoc]; exact hty)
          simpa using this
        have hs2 : splitFirst bNUL (name ++ bNUL :: (dec tgt.idBytes.length ++ bColon :: (tgt.idBytes ++ tail)))
            = some (name, dec tgt.idBytes.length ++ bColon :: (tgt.idBytes ++ tail)) :=
          splitFirst_append _ _ _ (hname (name, tgt) (by simp))
        have hs3 : splitFirst bColon (dec tgt.idBytes.length ++ bColon :: (tgt.idBytes ++ tail))
            = some (dec tgt.idBytes.length, tgt.idBytes ++ tail) :=
          splitFirst_append _ _ _ hdec
        rw [hform]
        simp only [decodeSnapshotAux, hs1, hs2, hs3, parseDecCanon_dec]
        have hlen : ¬ (tgt.idBytes ++ tail).length < tgt.idBytes.length := by simp
        simp only [hlen, if_false, List.drop_left, List.take_left]
        rw [htail, ih f (by simp at hf; omega) (fun x hx => hname x (by simp [hx]))]
        simp [Branch.triple, hoc]

theorem snp_flatten_length_ge (l : List Branch) : l.length ≤ ((l.map branchBytes).flatten).length := by
  induction l with
  | nil => simp
  | cons e l ih =>
    simp only [List.map_cons, List.flatten_cons, List.length_append, List.length_cons]
    have : 1 ≤ (branchBytes e).length := by simp [branchBytes]; omega
    omega

end Swh
