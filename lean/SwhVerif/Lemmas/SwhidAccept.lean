import SwhVerif.Lemmas.SwhidRoundtrip
/-! The parser accepts exactly the documented language. -/
namespace Swh

theorem isOk_iff {α} (x : Except ErrKind α) : x.isOk = true ↔ ∃ v, x = .ok v := by
  cases x <;> simp [Except.isOk, Except.toBool]

/-! ### core shape -/

theorem coreShape_iff (T : List Str) (s : Str) :
    CoreShape T s ↔ ∃ b : BaseSwhid, b.objectType ∈ T ∧ b.objectId.length = 20 ∧ s = printBase b := by
  constructor
  · rintro ⟨t, ht, h, hl, hh, rfl⟩
    obtain ⟨id, _, hid, rfl⟩ :=
      hashToBytes_total 20 h (by omega) (fun c hc => isLowerHexC_of_mem c (hh c hc))
    exact ⟨⟨t, id⟩, ht, hid, by simp [printBase, corePrefix_lit]⟩
  · rintro ⟨⟨t, id⟩, ht, hid, rfl⟩
    refine ⟨t, ht, hexStrOf id, by rw [hexStrOf_length, hid], ?_, by simp [printBase, corePrefix_lit]⟩
    intro c hc
    exact mem_hexDigits_of_isLowerHexC c (hexStrOf_hex id c hc)

theorem baseFromString_accept (tags : List Str) (htags : ∀ t ∈ tags, t ∈ reTags) (s : Str) :
    (∃ b, baseFromString tags s = .ok b) ↔ CoreShape tags s := by
  rw [coreShape_iff]
  constructor
  · rintro ⟨b, hb⟩
    exact ⟨b, (baseFromString_iff tags htags s b).mp hb⟩
  · rintro ⟨b, hb⟩
    exact ⟨b, (baseFromString_iff tags htags s b).mpr hb⟩

/-! ### qualified: parser ⇒ language -/

theorem visitTags_lit : visitTags = ["snp".toList] := rfl
theorem anchorTags_lit : anchorTags = ["dir".toList, "rev".toList, "rel".toList, "snp".toList] := rfl

theorem refShape_of_conv (tags : List Str) (x : Option Str) (r : Option BaseSwhid) (y : Str)
    (hx : x = some y) (hc : optConv coreFromString x = .ok r)
    (hk : checkRefType tags r = .ok ()) : CoreShape tags y := by
  subst hx
  rw [optConv_ok] at hc
  rcases hc with ⟨h, _⟩ | ⟨a, b, ha, rfl, hf⟩
  · cases h
  · cases ha
    rw [checkRefType_ok] at hk
    obtain ⟨_, hid, rfl⟩ := (coreFromString_iff _ b).mp hf
    exact (coreShape_iff tags _).mpr ⟨b, hk b rfl, hid, rfl⟩

theorem qual_parse_inLang (lim : Option Nat) (s : Str) (v : QualSwhid)
    (h : qualFromStringW lim s = .ok v) : InLangW lim .qualified s := by
  obtain ⟨p, hp, hkeys, hmk⟩ := (qualFromStringW_ok lim s v).mp h
  obtain ⟨_, _, qs, hs, hq, hclean⟩ := parseParts_ok s p hp
  simp only [mkFromDict] at hmk
  obtain ⟨ht, hid, hvi, han, hli, hcv, hca, _⟩ := (mkQualified_ok _ _ _ _ _ _ _ _ v).mp hmk
  rw [hq] at hvi han hli hkeys
  refine ⟨printBase ⟨p.objectType, p.objectId⟩, qs,
    (coreShape_iff _ _).mpr ⟨⟨p.objectType, p.objectId⟩, ht, hid, rfl⟩, hs, ?_⟩
  refine ⟨?_, ?_, ?_, ?_, ?_⟩
  · intro kv hkv
    exact (qualKeys_iff_knownKeys _).mp (hkeys kv (by simpa using hkv))
  · intro kv hkv
    exact ⟨(hclean kv hkv).2.2.1, (hclean kv hkv).2.2.2.2⟩
  · intro x hx
    have := (lastVal_iff qs _ x).mp hx
    exact refShape_of_conv visitTags _ _ x this hvi hcv
  · intro x hx
    have := (lastVal_iff qs _ x).mp hx
    exact refShape_of_conv anchorTags _ _ x this han hca
  · intro x hx
    have hd : dictGet qs.reverse qkLines = some x := (lastVal_iff qs _ x).mp hx
    rw [hd, optConv_ok] at hli
    rcases hli with ⟨h, _⟩ | ⟨a, b, ha, _, hf⟩
    · cases h
    · cases ha
      exact (parseLines_ok_iff lim x).mp ⟨b, hf⟩

/-! ### qualified: language ⇒ parser -/

theorem optConv_core_exists (tags : List Str) (hsub : ∀ t ∈ tags, t ∈ coreTags) (x : Option Str)
    (h : ∀ y, x = some y → CoreShape tags y) :
    ∃ r, optConv coreFromString x = .ok r ∧ checkRefType tags r = .ok () := by
  cases x with
  | none => exact ⟨none, rfl, rfl⟩
  | some y =>
    obtain ⟨b, hb, hid, rfl⟩ := (coreShape_iff tags y).mp (h y rfl)
    have : coreFromString (printBase b) = .ok b := (coreFromString_iff _ b).mpr ⟨hsub _ hb, hid, rfl⟩
    refine ⟨some b, by simp [optConv, this, bind, Except.bind], ?_⟩
    rw [checkRefType_ok]
    intro b' hb'; cases hb'; exact hb

theorem optConv_lines_exists (lim : Option Nat) (x : Option Str)
    (h : ∀ y, x = some y → LinesShape lim y) : ∃ r, optConv (parseLines lim) x = .ok r := by
  cases x with
  | none => exact ⟨none, rfl⟩
  | some y =>
    obtain ⟨l, hl⟩ := (parseLines_ok_iff lim y).mpr (h y rfl)
    exact ⟨some l, by simp [optConv, hl, bind, Except.bind]⟩

theorem qual_inLang_parse (lim : Option Nat) (s : Str) (h : InLangW lim .qualified s) :
    ∃ v, qualFromStringW lim s = .ok v := by
  obtain ⟨c, qs, hc, rfl, hok⟩ := h
  obtain ⟨⟨t, id⟩, ht, hid, rfl⟩ := (coreShape_iff _ _).mp hc
  have hclean : ChunksClean qs := by
    intro kv hkv
    obtain ⟨k1, k2, k3⟩ := knownKeys_clean kv.1 (hok.keys kv hkv)
    exact ⟨k1, k2, (hok.vals kv hkv).1, k3, (hok.vals kv hkv).2⟩
  have hp := parseParts_render t id qs (coreTags_sub_reTags t ht) hid hclean
  obtain ⟨vi, hvi, hcv⟩ := optConv_core_exists visitTags visitTags_sub (dictGet qs.reverse qkVisit)
    (fun y hy => hok.visit y ((lastVal_iff qs _ y).mpr hy))
  obtain ⟨an, han, hca⟩ := optConv_core_exists anchorTags anchorTags_sub (dictGet qs.reverse qkAnchor)
    (fun y hy => hok.anchor y ((lastVal_iff qs _ y).mpr hy))
  obtain ⟨li, hli⟩ := optConv_lines_exists lim (dictGet qs.reverse qkLines)
    (fun y hy => hok.lines y ((lastVal_iff qs _ y).mpr hy))
  refine ⟨⟨t, id, (dictGet qs.reverse qkOrigin).map pyUnquote, vi, an,
    (dictGet qs.reverse qkPath).map unquoteToBytes, li⟩, ?_⟩
  rw [qualFromStringW_ok]
  refine ⟨_, hp, ?_, ?_⟩
  · intro kv hkv
    exact (qualKeys_iff_knownKeys _).mpr (hok.keys kv (by simpa using hkv))
  · simp only [mkFromDict]
    rw [mkQualified_ok]
    exact ⟨ht, hid, hvi, han, hli, hcv, hca, rfl⟩

/-- **the parser accepts exactly the language** (digit limit `lim` on both sides) -/
theorem accept_iff_W (lim : Option Nat) (cls : SwhidClass) (s : Str) :
    (parseSwhidW lim cls s).isOk = true ↔ InLangW lim cls s := by
  rw [isOk_iff]
  cases cls with
  | core =>
    simp only [parseSwhidW, InLangW]
    rw [← baseFromString_accept coreTags coreTags_sub_reTags s]
    constructor
    · rintro ⟨v, hv⟩
      cases hb : coreFromString s with
      | error e => simp [hb, bind, Except.bind] at hv
      | ok b => exact ⟨b, hb⟩
    · rintro ⟨b, hb⟩
      exact ⟨.core b, by simp [coreFromString, hb, bind, Except.bind]⟩
  | extended =>
    simp only [parseSwhidW, InLangW]
    rw [← baseFromString_accept extTags extTags_sub_reTags s]
    constructor
    · rintro ⟨v, hv⟩
      cases hb : extFromString s with
      | error e => simp [hb, bind, Except.bind] at hv
      | ok b => exact ⟨b, hb⟩
    · rintro ⟨b, hb⟩
      exact ⟨.extended b, by simp [extFromString, hb, bind, Except.bind]⟩
  | qualified =>
    simp only [parseSwhidW]
    constructor
    · rintro ⟨v, hv⟩
      cases hb : qualFromStringW lim s with
      | error e => simp [hb, bind, Except.bind] at hv
      | ok b => exact qual_parse_inLang lim s b hb
    · intro h
      obtain ⟨v, hv⟩ := qual_inLang_parse lim s h
      exact ⟨.qualified v, by simp [hv, bind, Except.bind]⟩

/-! ### the digit limit -/

theorem IsNumber.mono {lim : Option Nat} {a : Str} (h : IsNumber lim a) : IsNumber none a :=
  ⟨h.1, h.2.1, rfl⟩

theorem inLangW_mono (lim : Option Nat) (cls : SwhidClass) (s : Str) (h : InLangW lim cls s) :
    InLang cls s := by
  cases cls with
  | core => exact h
  | extended => exact h
  | qualified =>
    obtain ⟨c, qs, hc, hs, hok⟩ := h
    refine ⟨c, qs, hc, hs, hok.keys, hok.vals, hok.visit, hok.anchor, ?_⟩
    intro v hv
    obtain ⟨a, ha, hv'⟩ := hok.lines v hv
    refine ⟨a, ha.mono, ?_⟩
    rcases hv' with rfl | ⟨b, hb, rfl⟩
    · exact Or.inl rfl
    · exact Or.inr ⟨b, hb.mono, rfl⟩

/-- every run of decimal digits inside `s` has at most `m` characters -/
def DigitRunsWithin (m : Nat) (s : Str) : Prop :=
  ∀ pre a post, s = pre ++ a ++ post → (∀ c ∈ a, c ∈ decDigits) → a.length ≤ m

theorem qualText_append (a b : List (Str × Str)) : qualText (a ++ b) = qualText a ++ qualText b := by
  simp [qualText]

theorem inLang_within (m : Nat) (cls : SwhidClass) (s : Str) (h : InLang cls s)
    (hd : DigitRunsWithin m s) : InLangW (some m) cls s := by
  cases cls with
  | core => exact h
  | extended => exact h
  | qualified =>
    obtain ⟨c, qs, hc, hs, hok⟩ := h
    refine ⟨c, qs, hc, hs, hok.keys, hok.vals, hok.visit, hok.anchor, ?_⟩
    intro v hv
    obtain ⟨a, ha, hv'⟩ := hok.lines v hv
    obtain ⟨pre, post, hqs, _⟩ := hv
    have hs' : s = (c ++ qualText pre ++ ';' :: "lines".toList ++ ['=']) ++ v ++ qualText post := by
      rw [hs, hqs, qualText_append]
      simp [qualText]
    have up : ∀ x : Str, (∃ p q, v = p ++ x ++ q) → IsNumber none x → IsNumber (some m) x := by
      rintro x ⟨p, q, hx⟩ hn
      refine ⟨hn.1, hn.2.1, ?_⟩
      simp only [withinLimit, decide_eq_true_eq]
      apply hd ((c ++ qualText pre ++ ';' :: "lines".toList ++ ['=']) ++ p) x (q ++ qualText post)
      · rw [hs', hx]; simp
      · exact hn.2.1
    rcases hv' with rfl | ⟨b, hb, rfl⟩
    · exact ⟨v, up v ⟨[], [], by simp⟩ ha, Or.inl rfl⟩
    · exact ⟨a, up a ⟨[], '-' :: b, by simp⟩ ha,
        Or.inr ⟨b, up b ⟨a ++ ['-'], [], by simp⟩ hb, rfl⟩⟩

end Swh
