import SwhVerif.Lemmas.FsWalk4
/-! Pass 2 of `from_disk` as coded, continued: the fold of `stepAt` along a list of directory
    paths "extensions first" is the structural `refilter`. -/
namespace Swh.Fs
open Swh

/-! ### reordering a fold whose steps commute -/

theorem foldl_push {σ α} (g : σ → α → σ) (P : α → Bool)
    (hcomm : ∀ s a b, P a = true → P b = false → g (g s a) b = g (g s b) a)
    (Ps : List α) (hPs : ∀ a ∈ Ps, P a = true) (x : α) (hx : P x = false) (s : σ) :
    Ps.foldl g (g s x) = g (Ps.foldl g s) x := by
  induction Ps generalizing s with
  | nil => rfl
  | cons a Ps ih =>
    have ha := hPs a (by simp)
    simp only [List.foldl_cons]
    rw [← hcomm s a x ha hx]
    exact ih (fun b hb => hPs b (by simp [hb])) (g s a)

theorem foldl_partition {σ α} (g : σ → α → σ) (P : α → Bool)
    (hcomm : ∀ s a b, P a = true → P b = false → g (g s a) b = g (g s b) a) (L : List α) (s : σ) :
    L.foldl g s = (L.filter (fun a => !P a)).foldl g ((L.filter P).foldl g s) := by
  induction L generalizing s with
  | nil => rfl
  | cons x L ih =>
    by_cases hx : P x = true
    · simp only [List.foldl_cons, List.filter_cons, hx, if_true, Bool.not_true, Bool.false_eq_true,
        if_false]
      exact ih (g s x)
    · have hx' : P x = false := by simpa using hx
      simp only [List.foldl_cons, List.filter_cons, hx', Bool.false_eq_true, if_false, Bool.not_false,
        if_true]
      rw [ih (g s x), foldl_push g P hcomm _ (fun a ha => (List.mem_filter.mp ha).2) x hx']

/-! ### splitting a path list by first component -/

def headIs (k : Bytes) (p : List Bytes) : Bool :=
  match p with
  | c :: _ => c == k
  | [] => false

theorem headIs_true {k : Bytes} {p : List Bytes} (h : headIs k p = true) : ∃ q, p = k :: q := by
  cases p with
  | nil => simp [headIs] at h
  | cons c q => simp only [headIs, beq_iff_eq] at h; exact ⟨q, by rw [h]⟩

theorem stepP_comm (f : PathFilter) (k : Bytes) (E : List (Bytes × RNode)) (a b : List Bytes)
    (ha : headIs k a = true) (hb : headIs k b = false) :
    stepP f (stepP f E a) b = stepP f (stepP f E b) a := by
  obtain ⟨q, rfl⟩ := headIs_true ha
  cases b with
  | nil => rfl
  | cons c q' =>
    have hck : c ≠ k := by simpa [headIs] using hb
    simp only [stepP]
    exact stepE_comm f c k q' q E hck

theorem stepE_cons_ne (f : PathFilter) (c k : Bytes) (q : List Bytes) (Y : RNode) (E : List (Bytes × RNode))
    (h : c ≠ k) : stepE f c q ((k, Y) :: E) = (k, Y) :: stepE f c q E := by
  unfold stepE
  have : assoc c ((k, Y) :: E) = assoc c E := by simp [assoc, Ne.symm h]
  rw [this]
  cases opOf f c q (assoc c E) with
  | keep => rfl
  | del => exact dictDel_cons_ne c k Y E h
  | set v => exact dictSet_cons_ne c k Y v E h

/-- steps that do not go through the first entry leave it alone -/
theorem fold_pass_head (f : PathFilter) (k : Bytes) (Y : RNode) (Lo : List (List Bytes))
    (h : ∀ p ∈ Lo, headIs k p = false) (E : List (Bytes × RNode)) :
    Lo.foldl (stepP f) ((k, Y) :: E) = (k, Y) :: Lo.foldl (stepP f) E := by
  induction Lo generalizing E with
  | nil => rfl
  | cons p Lo ih =>
    have hp := h p (by simp)
    have hLo : ∀ p ∈ Lo, headIs k p = false := fun p hp => h p (by simp [hp])
    cases p with
    | nil => simp only [List.foldl_cons, stepP]; exact ih hLo E
    | cons c q =>
      have hck : c ≠ k := by simpa [headIs] using hp
      simp only [List.foldl_cons, stepP, stepE_cons_ne f c k q Y E hck]
      exact ih hLo _

/-- steps strictly below the first entry act inside it -/
theorem fold_under_head (f : PathFilter) (k : Bytes) (E : List (Bytes × RNode)) (Q0 : List (List Bytes))
    (h : ∀ q ∈ Q0, q ≠ []) (X : RNode) :
    (Q0.map (k :: ·)).foldl (stepP f) ((k, X) :: E) = (k, foldSteps f Q0 X) :: E := by
  induction Q0 generalizing X with
  | nil => rfl
  | cons q Q0 ih =>
    have hq := h q (by simp)
    obtain ⟨c2, r, rfl⟩ := List.exists_cons_of_ne_nil hq
    simp only [List.map_cons, List.foldl_cons, stepP]
    have : stepE f k (c2 :: r) ((k, X) :: E) = (k, stepAt f (c2 :: r) X) :: E := by
      simp [stepE, assoc, opOf, opApply, dictSet]
    rw [this, ih (fun q hq => h q (by simp [hq]))]
    rfl

theorem fold_nil (f : PathFilter) (L : List (List Bytes)) : L.foldl (stepP f) [] = [] := by
  induction L with
  | nil => rfl
  | cons p L ih =>
    cases p with
    | nil => simpa [stepP] using ih
    | cons c q => simpa [stepP, stepE, assoc, opOf, opApply] using ih

/-! ### "extensions first" -/

/-- no path comes before one of its extensions (in particular: no repetition) -/
def DescFirst (L : List (List Bytes)) : Prop := L.Pairwise (fun a b => ¬ a <+: b)

theorem descFirst_last_nil (Q : List (List Bytes)) (h : DescFirst Q) (hm : [] ∈ Q) :
    ∃ Q0, Q = Q0 ++ [[]] ∧ ∀ q ∈ Q0, q ≠ [] := by
  induction Q with
  | nil => simp at hm
  | cons a Q ih =>
    unfold DescFirst at h
    rw [List.pairwise_cons] at h
    by_cases ha : a = []
    · subst ha
      have : Q = [] := by
        cases Q with
        | nil => rfl
        | cons b Q => exact absurd List.nil_prefix (h.1 b (by simp))
      subst this
      exact ⟨[], rfl, by simp⟩
    · have hm' : [] ∈ Q := by
        simp only [List.mem_cons] at hm
        rcases hm with hm | hm
        · exact absurd hm.symm ha
        · exact hm
      obtain ⟨Q0, rfl, hQ0⟩ := ih h.2 hm'
      refine ⟨a :: Q0, rfl, ?_⟩
      intro q hq
      simp only [List.mem_cons] at hq
      rcases hq with rfl | hq
      · exact ha
      · exact hQ0 q hq

theorem RWf_cons {k : Bytes} {X : RNode} {E : List (Bytes × RNode)} (h : RWf (.directory ((k, X) :: E))) :
    RWf X ∧ RWf (.directory E) ∧ k ∉ names E := by
  have h0 := h [] _ rfl
  simp only [names_cons, List.nodup_cons] at h0
  refine ⟨(h.child (n := k) (X := X) (by simp)).1, ?_, h0.1.1⟩
  intro p es hg
  cases p with
  | nil =>
    simp only [getAt, Option.some.injEq, RNode.directory.injEq] at hg
    subst hg
    exact ⟨h0.1.2, fun n hn => h0.2 n (by simp [hn])⟩
  | cons c q =>
    have hck : c ≠ k := by
      intro e; subst e
      simp only [getAt] at hg
      cases ha : assoc c E with
      | none => simp [ha] at hg
      | some Y => exact h0.1.1 (mem_names_of_mem (assoc_mem c E Y ha))
    exact h (c :: q) es (by simpa [getAt, assoc, Ne.symm hck] using hg)

/-- **pass 2**: along any "extensions first" list of exactly the directory paths of a tree, the
    iterations of the re-filtering loop compute the structural `refilter` -/
theorem fold_refilter (f : PathFilter) :
    (∀ T, RWf T → ∀ L, DescFirst L →
      (∀ p ∈ L, ∃ es, getAt T p = some (.directory es)) →
      (∀ p es, getAt T p = some (.directory es) → p ∈ L) →
      foldSteps f L T = refilter f T) ∧
    (∀ E, RWf (.directory E) → ∀ L, DescFirst L →
      (∀ p ∈ L, ∃ es, getAt (.directory E) p = some (.directory es)) →
      (∀ c q es, getAt (.directory E) (c :: q) = some (.directory es) → (c :: q) ∈ L) →
      L.foldl (stepP f) E = refilterL f E) := by
  apply RNode.induct2
  · intro c _ L _ _ _
    rw [foldSteps_content]; rfl
  · intro E ih hw L hd hs hc
    rw [foldSteps_directory, ih hw L hd hs (fun c q es hg => hc (c :: q) es hg)]; rfl
  · intro _ L _ _ _; rw [fold_nil]; rfl
  · intro k X E' hX hE' hw L hd hs hc
    obtain ⟨hwX, hwE', hk⟩ := RWf_cons hw
    -- split the steps: those through `k` first
    rw [foldl_partition (stepP f) (headIs k) (fun s a b ha hb => stepP_comm f k s a b ha hb) L]
    -- the others
    have hLo_head : ∀ p ∈ L.filter (fun a => !headIs k a), headIs k p = false := by
      intro p hp; simpa using (List.mem_filter.mp hp).2
    have hLo_desc : DescFirst (L.filter (fun a => !headIs k a)) := List.Pairwise.filter _ hd
    have hLo_sound : ∀ p ∈ L.filter (fun a => !headIs k a),
        ∃ es, getAt (.directory E') p = some (.directory es) := by
      intro p hp
      have hpL := (List.mem_filter.mp hp).1
      have hh := hLo_head p hp
      cases p with
      | nil => exact ⟨E', rfl⟩
      | cons c q =>
        have hck : c ≠ k := by simpa [headIs] using hh
        obtain ⟨es, hg⟩ := hs _ hpL
        exact ⟨es, by simpa [getAt, assoc, Ne.symm hck] using hg⟩
    have hLo_cover : ∀ c q es, getAt (.directory E') (c :: q) = some (.directory es) →
        (c :: q) ∈ L.filter (fun a => !headIs k a) := by
      intro c q es hg
      have hck : c ≠ k := by
        intro e; subst e
        simp only [getAt] at hg
        cases ha : assoc c E' with
        | none => simp [ha] at hg
        | some Y => exact hk (mem_names_of_mem (assoc_mem c E' Y ha))
      refine List.mem_filter.mpr ⟨hc c q es (by simpa [getAt, assoc, Ne.symm hck] using hg), ?_⟩
      simp [headIs, hck]
    have hrest := hE' hwE' _ hLo_desc hLo_sound hLo_cover
    -- the steps through `k`
    have hLk : ∀ p ∈ L.filter (headIs k), ∃ q, p = k :: q := fun p hp => headIs_true (List.mem_filter.mp hp).2
    have hLk_map : L.filter (headIs k) = ((L.filter (headIs k)).map List.tail).map (k :: ·) := by
      rw [List.map_map]
      conv => lhs; rw [← List.map_id (L.filter (headIs k))]
      apply List.map_congr_left
      intro p hp
      obtain ⟨q, rfl⟩ := hLk p hp
      rfl
    cases X with
    | content cc =>
      have hnil : L.filter (headIs k) = [] := by
        apply List.eq_nil_iff_forall_not_mem.mpr
        intro p hp
        obtain ⟨q, rfl⟩ := hLk p hp
        obtain ⟨es, hg⟩ := hs _ (List.mem_filter.mp hp).1
        cases q <;> simp [getAt, assoc] at hg
      rw [hnil, List.foldl_nil, fold_pass_head f k _ _ hLo_head, hrest]
      simp [refilterL]
    | directory es =>
      have hQ_mem : ∀ q, q ∈ (L.filter (headIs k)).map List.tail ↔ (k :: q) ∈ L := by
        intro q
        constructor
        · intro hq
          obtain ⟨p, hp, rfl⟩ := List.mem_map.mp hq
          obtain ⟨q', rfl⟩ := hLk p hp
          exact (List.mem_filter.mp hp).1
        · intro hq
          exact List.mem_map.mpr ⟨k :: q, List.mem_filter.mpr ⟨hq, by simp [headIs]⟩, rfl⟩
      have hQ_desc : DescFirst ((L.filter (headIs k)).map List.tail) := by
        have h1 : DescFirst (L.filter (headIs k)) := List.Pairwise.filter _ hd
        rw [hLk_map] at h1
        unfold DescFirst at h1 ⊢
        rw [List.pairwise_map] at h1
        exact h1.imp (fun hab hpre => hab (List.cons_prefix_cons.mpr ⟨rfl, hpre⟩))
      have hQ_sound : ∀ q ∈ (L.filter (headIs k)).map List.tail,
          ∃ es', getAt (.directory es) q = some (.directory es') := by
        intro q hq
        obtain ⟨es', hg⟩ := hs _ ((hQ_mem q).mp hq)
        exact ⟨es', by simpa [getAt, assoc] using hg⟩
      have hQ_cover : ∀ q es', getAt (.directory es) q = some (.directory es') →
          q ∈ (L.filter (headIs k)).map List.tail := by
        intro q es' hg
        exact (hQ_mem q).mpr (hc k q es' (by simpa [getAt, assoc] using hg))
      have hXr := hX hwX _ hQ_desc hQ_sound hQ_cover
      obtain ⟨Q0, hQ0, hQ0ne⟩ := descFirst_last_nil _ hQ_desc (hQ_cover [] es rfl)
      have hfold0 : foldSteps f Q0 (.directory es) = refilter f (.directory es) := by
        rw [← hXr, hQ0]
        simp [foldSteps, List.foldl_append, stepAt_nil]
      rw [hLk_map, hQ0, List.map_append, List.foldl_append, fold_under_head f k E' Q0 hQ0ne, hfold0]
      simp only [List.map_cons, List.map_nil, List.foldl_cons, List.foldl_nil, stepP]
      rw [refilterL_dir]
      by_cases hf : f k (some (names (refilterL f es))) = true
      · have : stepE f k [] ((k, refilter f (.directory es)) :: E') = (k, refilter f (.directory es)) :: E' := by
          simp [stepE, assoc, opOf, opApply, refilter, hf]
        rw [this, fold_pass_head f k _ _ hLo_head, hrest, if_pos hf]
        rfl
      · have : stepE f k [] ((k, refilter f (.directory es)) :: E') = E' := by
          simp [stepE, assoc, opOf, opApply, refilter, hf, dictDel]
        rw [this, hrest, if_neg hf]

end Swh.Fs
