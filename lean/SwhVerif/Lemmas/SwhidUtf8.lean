import SwhVerif.Lemmas.SwhidBasic
/-! UTF-8: decoding (with replacement) inverts encoding. -/
namespace Swh

theorem ofNat_toNat_lt (n : Nat) (h : n < 256) : (UInt8.ofNat n).toNat = n := by
  rw [UInt8.toNat_ofNat']; exact Nat.mod_eq_of_lt (by simpa using h)

theorem u8Go_one (b0 : Byte) (rest : Bytes) (h0 : b0.toNat < 0x80) :
    u8Go {} (b0 :: rest) = Char.ofNat b0.toNat :: u8Go {} rest := by
  simp [u8Go, u8Step, u8Start, h0]

theorem u8Go_two (b0 b1 : Byte) (rest : Bytes) (h0 : 0xC2 ≤ b0.toNat ∧ b0.toNat < 0xE0)
    (h1 : 0x80 ≤ b1.toNat ∧ b1.toNat ≤ 0xBF) :
    u8Go {} (b0 :: b1 :: rest)
      = Char.ofNat ((b0.toNat - 0xC0) * 64 + (b1.toNat - 0x80)) :: u8Go {} rest := by
  have a1 : ¬ b0.toNat < 0x80 := by omega
  have a2 : ¬ b0.toNat < 0xC2 := by omega
  simp [u8Go, u8Step, u8Start, a1, a2, h0.2, h1.1, h1.2]

theorem u8Go_three (b0 b1 b2 : Byte) (rest : Bytes) (h0 : 0xE0 ≤ b0.toNat ∧ b0.toNat < 0xF0)
    (h1 : (if b0.toNat = 0xE0 then 0xA0 else 0x80) ≤ b1.toNat ∧
      b1.toNat ≤ (if b0.toNat = 0xED then 0x9F else 0xBF))
    (h2 : 0x80 ≤ b2.toNat ∧ b2.toNat ≤ 0xBF) :
    u8Go {} (b0 :: b1 :: b2 :: rest)
      = Char.ofNat (((b0.toNat - 0xE0) * 64 + (b1.toNat - 0x80)) * 64 + (b2.toNat - 0x80))
          :: u8Go {} rest := by
  have a1 : ¬ b0.toNat < 0x80 := by omega
  have a2 : ¬ b0.toNat < 0xC2 := by omega
  have a3 : ¬ b0.toNat < 0xE0 := by omega
  simp [u8Go, u8Step, u8Start, a1, a2, a3, h0.2, h1.1, h1.2, h2.1, h2.2]

theorem u8Go_four (b0 b1 b2 b3 : Byte) (rest : Bytes) (h0 : 0xF0 ≤ b0.toNat ∧ b0.toNat < 0xF5)
    (h1 : (if b0.toNat = 0xF0 then 0x90 else 0x80) ≤ b1.toNat ∧
      b1.toNat ≤ (if b0.toNat = 0xF4 then 0x8F else 0xBF))
    (h2 : 0x80 ≤ b2.toNat ∧ b2.toNat ≤ 0xBF) (h3 : 0x80 ≤ b3.toNat ∧ b3.toNat ≤ 0xBF) :
    u8Go {} (b0 :: b1 :: b2 :: b3 :: rest)
      = Char.ofNat ((((b0.toNat - 0xF0) * 64 + (b1.toNat - 0x80)) * 64 + (b2.toNat - 0x80)) * 64
          + (b3.toNat - 0x80)) :: u8Go {} rest := by
  have a1 : ¬ b0.toNat < 0x80 := by omega
  have a2 : ¬ b0.toNat < 0xC2 := by omega
  have a3 : ¬ b0.toNat < 0xE0 := by omega
  have a4 : ¬ b0.toNat < 0xF0 := by omega
  simp [u8Go, u8Step, u8Start, a1, a2, a3, a4, h0.2, h1.1, h1.2, h2.1, h2.2, h3.1, h3.2]

theorem u8Go_encChar (c : Char) (rest : Bytes) :
    u8Go {} (utf8EncChar c ++ rest) = c :: u8Go {} rest := by
  have hv := char_valid c
  have hc := Char.ofNat_toNat c
  unfold utf8EncChar
  simp only []
  generalize c.toNat = n at hv hc ⊢
  by_cases h1 : n < 0x80
  · simp only [h1, if_true, List.cons_append, List.nil_append]
    have t0 := ofNat_toNat_lt n (by omega)
    rw [u8Go_one _ _ (by omega), t0, hc]
  by_cases h2 : n < 0x800
  · simp only [h1, h2, if_true, if_false, List.cons_append, List.nil_append]
    have t0 := ofNat_toNat_lt (0xC0 + n / 64) (by omega)
    have t1 := ofNat_toNat_lt (0x80 + n % 64) (by omega)
    rw [u8Go_two _ _ _ (by omega) (by omega), t0, t1]
    have : (0xC0 + n / 64 - 0xC0) * 64 + (0x80 + n % 64 - 0x80) = n := by omega
    rw [this, hc]
  by_cases h3 : n < 0x10000
  · simp only [h1, h2, h3, if_true, if_false, List.cons_append, List.nil_append]
    have t0 := ofNat_toNat_lt (0xE0 + n / 4096) (by omega)
    have t1 := ofNat_toNat_lt (0x80 + n / 64 % 64) (by omega)
    have t2 := ofNat_toNat_lt (0x80 + n % 64) (by omega)
    rw [u8Go_three _ _ _ _ (by omega) (by rw [t0, t1]; constructor <;> split <;> omega) (by omega),
      t0, t1, t2]
    have : ((0xE0 + n / 4096 - 0xE0) * 64 + (0x80 + n / 64 % 64 - 0x80)) * 64
        + (0x80 + n % 64 - 0x80) = n := by omega
    rw [this, hc]
  · simp only [h1, h2, h3, if_false, List.cons_append, List.nil_append]
    have t0 := ofNat_toNat_lt (0xF0 + n / 262144) (by omega)
    have t1 := ofNat_toNat_lt (0x80 + n / 4096 % 64) (by omega)
    have t2 := ofNat_toNat_lt (0x80 + n / 64 % 64) (by omega)
    have t3 := ofNat_toNat_lt (0x80 + n % 64) (by omega)
    rw [u8Go_four _ _ _ _ _ (by omega) (by rw [t0, t1]; constructor <;> split <;> omega)
      (by omega) (by omega), t0, t1, t2, t3]
    have : (((0xF0 + n / 262144 - 0xF0) * 64 + (0x80 + n / 4096 % 64 - 0x80)) * 64
        + (0x80 + n / 64 % 64 - 0x80)) * 64 + (0x80 + n % 64 - 0x80) = n := by omega
    rw [this, hc]

theorem utf8Dec_utf8Enc (s : Str) : utf8Dec (utf8Enc s) = s := by
  unfold utf8Dec utf8Enc
  induction s with
  | nil => rfl
  | cons c cs ih => rw [List.flatMap_cons, u8Go_encChar, ih]

theorem utf8EncChar_ascii (c : Char) (h : isAsciiC c = true) :
    utf8EncChar c = [UInt8.ofNat c.toNat] := by
  simp only [isAsciiC, decide_eq_true_eq] at h
  simp [utf8EncChar, h]

theorem utf8Enc_ascii (s : Str) (h : ∀ c ∈ s, isAsciiC c = true) : utf8Enc s = asciiBytes s := by
  induction s with
  | nil => rfl
  | cons c cs ih =>
    simp only [utf8Enc, List.flatMap_cons, asciiBytes, List.map_cons] at ih ⊢
    rw [utf8EncChar_ascii c (h c (by simp)), ih (fun x hx => h x (by simp [hx]))]
    rfl

theorem utf8Enc_append (a b : Str) : utf8Enc (a ++ b) = utf8Enc a ++ utf8Enc b := by
  simp [utf8Enc]

end Swh
