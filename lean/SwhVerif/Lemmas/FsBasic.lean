import SwhVerif.Model.Fs
/-! Basic lemmas about the on-disk reader model: induction principles for the nested trees,
    the pure part of pass 1 (`walkP`) and its error condition (`bad`), `assoc`/`names`. -/
namespace Swh.Fs
open Swh

/-! ### induction principles -/

mutual
theorem FsNode.induct_aux {P : FsNode → Prop} {Q : List (Bytes × FsNode) → Prop}
    (hfile : ∀ m d, P (.file m d)) (hlink : ∀ t, P (.symlink t)) (hspec : ∀ m, P (.special m))
    (hdir : ∀ es, Q es → P (.dir es)) (hnil : Q [])
    (hcons : ∀ n c rest, P c → Q rest → Q ((n, c) :: rest)) : ∀ t, P t
  | .file m d => hfile m d
  | .symlink t => hlink t
  | .special m => hspec m
  | .dir es => hdir es (FsNode.induct_auxL hfile hlink hspec hdir hnil hcons es)
theorem FsNode.induct_auxL {P : FsNode → Prop} {Q : List (Bytes × FsNode) → Prop}
    (hfile : ∀ m d, P (.file m d)) (hlink : ∀ t, P (.symlink t)) (hspec : ∀ m, P (.special m))
    (hdir : ∀ es, Q es → P (.dir es)) (hnil : Q [])
    (hcons : ∀ n c rest, P c → Q rest → Q ((n, c) :: rest)) : ∀ es, Q es
  | [] => hnil
  | (n, c) :: rest =>
    hcons n c rest (FsNode.induct_aux hfile hlink hspec hdir hnil hcons c)
      (FsNode.induct_auxL hfile hlink hspec hdir hnil hcons rest)
end

/-- simultaneous induction on a tree and on entry lists -/
theorem FsNode.induct2 {P : FsNode → Prop} {Q : List (Bytes × FsNode) → Prop}
    (hfile : ∀ m d, P (.file m d)) (hlink : ∀ t, P (.symlink t)) (hspec : ∀ m, P (.special m))
    (hdir : ∀ es, Q es → P (.dir es)) (hnil : Q [])
    (hcons : ∀ n c rest, P c → Q rest → Q ((n, c) :: rest)) : (∀ t, P t) ∧ (∀ es, Q es) :=
  ⟨FsNode.induct_aux hfile hlink hspec hdir hnil hcons,
   FsNode.induct_auxL hfile hlink hspec hdir hnil hcons⟩

/-- induction on a tree with the hypothesis for every child of a directory -/
theorem FsNode.induct {P : FsNode → Prop}
    (hfile : ∀ m d, P (.file m d)) (hlink : ∀ t, P (.symlink t)) (hspec : ∀ m, P (.special m))
    (hdir : ∀ es, (∀ p ∈ es, P p.2) → P (.dir es)) : ∀ t, P t :=
  (FsNode.induct2 (Q := fun es => ∀ p ∈ es, P p.2) hfile hlink hspec hdir
    (by simp) (by intro n c rest hc hr p hp; simp at hp; rcases hp with rfl | hp; exact hc; exact hr p hp)).1

mutual
theorem RNode.induct_aux {P : RNode → Prop} {Q : List (Bytes × RNode) → Prop}
    (hc : ∀ c, P (.content c)) (hdir : ∀ es, Q es → P (.directory es)) (hnil : Q [])
    (hcons : ∀ n c rest, P c → Q rest → Q ((n, c) :: rest)) : ∀ t, P t
  | .content c => hc c
  | .directory es => hdir es (RNode.induct_auxL hc hdir hnil hcons es)
theorem RNode.induct_auxL {P : RNode → Prop} {Q : List (Bytes × RNode) → Prop}
    (hc : ∀ c, P (.content c)) (hdir : ∀ es, Q es → P (.directory es)) (hnil : Q [])
    (hcons : ∀ n c rest, P c → Q rest → Q ((n, c) :: rest)) : ∀ es, Q es
  | [] => hnil
  | (n, c) :: rest =>
    hcons n c rest (RNode.induct_aux hc hdir hnil hcons c) (RNode.induct_auxL hc hdir hnil hcons rest)
end

theorem RNode.induct2 {P : RNode → Prop} {Q : List (Bytes × RNode) → Prop}
    (hc : ∀ c, P (.content c)) (hdir : ∀ es, Q es → P (.directory es)) (hnil : Q [])
    (hcons : ∀ n c rest, P c → Q rest → Q ((n, c) :: rest)) : (∀ t, P t) ∧ (∀ es, Q es) :=
  ⟨RNode.induct_aux hc hdir hnil hcons, RNode.induct_auxL hc hdir hnil hcons⟩

theorem RNode.induct {P : RNode → Prop}
    (hc : ∀ c, P (.content c)) (hdir : ∀ es, (∀ p ∈ es, P p.2) → P (.directory es)) : ∀ t, P t :=
  (RNode.induct2 (Q := fun es => ∀ p ∈ es, P p.2) hc hdir
    (by simp) (by intro n c rest hc hr p hp; simp at hp; rcases hp with rfl | hp; exact hc; exact hr p hp)).1

/-! ### `names`, `assoc` -/

@[simp] theorem names_nil {α} : names ([] : List (Bytes × α)) = [] := rfl
@[simp] theorem names_cons {α} (p : Bytes × α) (r : List (Bytes × α)) :
    names (p :: r) = p.1 :: names r := rfl

theorem assoc_eq_none {α} (n : Bytes) (es : List (Bytes × α)) : assoc n es = none ↔ n ∉ names es := by
  induction es with
  | nil => simp [assoc]
  | cons p r ih =>
    obtain ⟨k, v⟩ := p
    by_cases h : k = n
    · simp [assoc, h]
    · simp [assoc, h, ih, Ne.symm h]

theorem assoc_mem {α} (n : Bytes) (es : List (Bytes × α)) (v : α) (h : assoc n es = some v) :
    (n, v) ∈ es := by
  induction es with
  | nil => simp [assoc] at h
  | cons p r ih =>
    obtain ⟨k, w⟩ := p
    by_cases hk : k = n
    · simp [assoc, hk] at h; simp [hk, h]
    · simp [assoc, hk] at h; simp [ih h]

theorem assoc_of_mem {α} (n : Bytes) (es : List (Bytes × α)) (v : α) (hn : (names es).Nodup)
    (h : (n, v) ∈ es) : assoc n es = some v := by
  induction es with
  | nil => simp at h
  | cons p r ih =>
    obtain ⟨k, w⟩ := p
    simp only [names_cons, List.nodup_cons] at hn
    simp only [List.mem_cons, Prod.mk.injEq] at h
    rcases h with ⟨rfl, rfl⟩ | h
    · simp [assoc]
    · have : k ≠ n := by
        intro e; subst e; exact hn.1 (List.mem_map.mpr ⟨(k, v), h, rfl⟩)
      simp [assoc, this, ih hn.2 h]

theorem mem_names_of_mem {α} {n : Bytes} {c : α} {es : List (Bytes × α)} (h : (n, c) ∈ es) :
    n ∈ names es := List.mem_map.mpr ⟨(n, c), h, rfl⟩

theorem exists_of_mem_names {α} {n : Bytes} {es : List (Bytes × α)} (h : n ∈ names es) :
    ∃ c, (n, c) ∈ es := by
  obtain ⟨p, hp, rfl⟩ := List.mem_map.mp h
  exact ⟨p.2, hp⟩

theorem mem_unique {α} {n : Bytes} {c c' : α} {es : List (Bytes × α)} (hn : (names es).Nodup)
    (h : (n, c) ∈ es) (h' : (n, c') ∈ es) : c = c' := by
  have a := assoc_of_mem n es c hn h
  have b := assoc_of_mem n es c' hn h'
  rw [a] at b; exact Option.some.inj b

/-! ### pass 1 without the error monad -/

mutual
/-- pass 1, reading every accepted symbolic link whatever its size -/
def walkP (H : Bytes → Bytes) (f : PathFilter) (maxLen : Option Nat) : FsNode → RNode
  | .dir es => .directory (walkPL H f maxLen es)
  | .file mode data =>
    .content { perms := modeToPerms mode, sha1git := H (Hash.gitBlob data), length := data.length,
               data := data, eager := false, skipped := tooLarge maxLen data.length }
  | .symlink t => .content (fromBytes H symlinkMode t)
  | .special mode => .content (fromBytes H mode [])
def walkPL (H : Bytes → Bytes) (f : PathFilter) (maxLen : Option Nat) :
    List (Bytes × FsNode) → List (Bytes × RNode)
  | [] => []
  | (n, c) :: rest =>
    if accepts f n c then (n, walkP H f maxLen c) :: walkPL H f maxLen rest
    else walkPL H f maxLen rest
end

mutual
/-- pass 1 meets a symbolic link longer than the limit -/
def bad (f : PathFilter) (maxLen : Option Nat) : FsNode → Bool
  | .dir es => badL f maxLen es
  | .symlink t => tooLarge maxLen t.length
  | _ => false
def badL (f : PathFilter) (maxLen : Option Nat) : List (Bytes × FsNode) → Bool
  | [] => false
  | (n, c) :: rest => (accepts f n c && bad f maxLen c) || badL f maxLen rest
end

theorem walk_eq (H : Bytes → Bytes) (f : PathFilter) (maxLen : Option Nat) :
    (∀ t, walkNode H f maxLen t =
      if bad f maxLen t then .error .symlinkTooLarge else .ok (walkP H f maxLen t)) ∧
    (∀ es, walkEntries H f maxLen es =
      if badL f maxLen es then .error .symlinkTooLarge else .ok (walkPL H f maxLen es)) := by
  apply FsNode.induct2
  · intro m d; simp [walkNode, fromFile, bad, walkP]
  · intro t; simp only [walkNode, fromFile, bad, walkP]
    by_cases h : tooLarge maxLen t.length <;> simp [h]
  · intro m; simp [walkNode, fromFile, bad, walkP]
  · intro es ih; simp only [walkNode, bad, walkP]; rw [ih]
    by_cases h : badL f maxLen es <;> simp [h]
  · simp [walkEntries, badL, walkPL]
  · intro n c rest hc hr
    simp only [walkEntries, badL, walkPL, hc, hr]
    by_cases hk : accepts f n c <;> by_cases hb : bad f maxLen c <;>
      by_cases hbl : badL f maxLen rest <;> simp [hk, hb, hbl]

theorem readTree_eq (H : Bytes → Bytes) (f : PathFilter) (maxLen : Option Nat)
    (es : List (Bytes × FsNode)) :
    readTree H f maxLen (.dir es) =
      if badL f maxLen es then .error .symlinkTooLarge
      else .ok (refilter f (.directory (walkPL H f maxLen es))) := by
  simp only [readTree]; rw [(walk_eq H f maxLen).2 es]
  by_cases h : badL f maxLen es <;> simp [h]

theorem bad_none (f : PathFilter) :
    (∀ t, bad f none t = false) ∧ (∀ es, badL f none es = false) := by
  apply FsNode.induct2 <;> simp_all [bad, badL, tooLarge]

/-! ### unfolding equations with the recursive call on the listing of a sub-directory -/

theorem refilterL_dir (f : PathFilter) (n : Bytes) (ces rest : List (Bytes × RNode)) :
    refilterL f ((n, .directory ces) :: rest) =
      if f n (some (names (refilterL f ces))) then (n, .directory (refilterL f ces)) :: refilterL f rest
      else refilterL f rest := by
  rfl

theorem pruneByL_dir (f : PathFilter) (n : Bytes) (ces rest : List (Bytes × FsNode)) :
    pruneByL f ((n, .dir ces) :: rest) =
      if f n (some (names (pruneByL f ces))) then (n, .dir (pruneByL f ces)) :: pruneByL f rest
      else pruneByL f rest := by
  rfl

theorem pruneNamedL_dir (nms : List Bytes) (cs : Bool) (n : Bytes) (ces rest : List (Bytes × FsNode)) :
    pruneNamedL nms cs ((n, .dir ces) :: rest) =
      if nameIgnored nms cs n then pruneNamedL nms cs rest
      else (n, .dir (pruneNamedL nms cs ces)) :: pruneNamedL nms cs rest := by
  rfl

theorem pruneEmptyL_dir (n : Bytes) (ces rest : List (Bytes × FsNode)) :
    pruneEmptyL ((n, .dir ces) :: rest) =
      if (pruneEmptyL ces).isEmpty then pruneEmptyL rest
      else (n, .dir (pruneEmptyL ces)) :: pruneEmptyL rest := by
  rfl

end Swh.Fs
