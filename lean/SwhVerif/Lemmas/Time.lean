import SwhVerif.Model.Time
import SwhVerif.Lemmas.Bytes
namespace Swh

theorem dec_lt10 (n : Nat) (h : n < 10) : dec n = [digitByte n] := by
  unfold dec natBase toBaseRev; simp [show n < 8 + 2 by omega]

theorem dec_lt100 (n : Nat) (h1 : 10 ≤ n) (h2 : n < 100) :
    dec n = [digitByte (n / 10), digitByte (n % 10)] := by
  unfold dec natBase
  rw [toBaseRev]
  simp only [show ¬ n < 8 + 2 by omega, dite_false]
  rw [toBaseRev]
  simp [show n / (8 + 2) < 8 + 2 by omega]

theorem pad2_length (m : Nat) (h : m < 100) : (pad2 m).length = 2 := by
  unfold pad2
  by_cases h10 : m < 10
  · simp [h10, dec_lt10 m h10]
  · simp [h10, dec_lt100 m (by omega) h]

theorem parseDec_cons_zero (bs : Bytes) (n : Nat) (h : parseDec bs = some n) :
    parseDec (bZero :: bs) = some n := by
  unfold parseDec parseNatBase at *
  cases bs with
  | nil => simp at h
  | cons b bs =>
    simp only [List.isEmpty_cons, Bool.false_eq_true, if_false] at h ⊢
    split at h
    · rename_i hall
      have hz : isDigitBase 8 bZero = true := by decide
      simp only [List.all_cons, hz, Bool.true_and]
      simp only [List.all_cons] at hall
      simp only [hall, if_true]
      simp only [digitsVal, List.foldl_cons] at h ⊢
      have : (0 * (8 + 2) + (bZero.toNat - 48)) = 0 := by decide
      rw [this]; exact h
    · simp at h

theorem parseDec_pad2 (n : Nat) : parseDec (pad2 n) = some n := by
  unfold pad2
  split
  · exact parseDec_cons_zero _ _ (parseDec_dec n)
  · exact parseDec_dec n

theorem pad2_ne_nil (n : Nat) : pad2 n ≠ [] := by
  unfold pad2; split
  · simp
  · exact natBase_ne_nil 8 n

/-- the parser's view of a formatted offset -/
theorem parseOffsetBytes_format (s : Byte) (hs : s = bPlus ∨ s = bMinus) (h m : Nat) (hm : m < 60) :
    parseOffsetBytes (s :: (pad2 h ++ pad2 m)) =
      (let offset : Int := (if s = bMinus then -1 else 1) * ((h : Int) * 60 + m)
       if -32768 ≤ offset ∧ offset < 32768 then .ok offset else .ok 0) := by
  have hml := pad2_length m (by omega)
  have hhl : 1 ≤ (pad2 h).length := by
    have := pad2_ne_nil h
    cases hp : pad2 h with
    | nil => exact absurd hp this
    | cons _ _ => simp
  unfold parseOffsetBytes
  have hsign : ¬ (s ≠ bPlus ∧ s ≠ bMinus) := by
    rcases hs with h | h <;> simp [h]
  simp only [hsign, if_false]
  have hlen : ¬ ((s :: (pad2 h ++ pad2 m)).length ≤ 3) := by
    simp only [List.length_cons, List.length_append]; omega
  simp only [hlen, if_false]
  have htake : (pad2 h ++ pad2 m).take ((pad2 h ++ pad2 m).length - 2) = pad2 h := by
    have : (pad2 h ++ pad2 m).length - 2 = (pad2 h).length := by
      simp only [List.length_append]; omega
    rw [this]; exact List.take_left
  have hdrop : (s :: (pad2 h ++ pad2 m)).drop ((s :: (pad2 h ++ pad2 m)).length - 2) = pad2 m := by
    have e : s :: (pad2 h ++ pad2 m) = (s :: pad2 h) ++ pad2 m := by simp
    have : (s :: (pad2 h ++ pad2 m)).length - 2 = (s :: pad2 h).length := by
      simp only [List.length_cons, List.length_append]; omega
    rw [this, e]; exact List.drop_left
  rw [htake, hdrop, parseDec_pad2, parseDec_pad2]
  simp only
  have : m ≤ 59 := by omega
  simp [this]

end Swh

namespace Swh

/-! ### date text -/

theorem dropWhile_append_ne_nil {α} (p : α → Bool) (l1 l2 : List α) (h : l1.dropWhile p ≠ []) :
    (l1 ++ l2).dropWhile p = l1.dropWhile p ++ l2 := by
  induction l1 with
  | nil => simp at h
  | cons a l ih =>
    simp only [List.cons_append, List.dropWhile_cons] at h ⊢
    split
    · rename_i hp; simp only [hp, if_true] at h; exact ih h
    · rfl

theorem rstripZeros_append (a b : Bytes) (h : rstripZeros b ≠ []) :
    rstripZeros (a ++ b) = a ++ rstripZeros b := by
  unfold rstripZeros at *
  have h' : b.reverse.dropWhile (· = bZero) ≠ [] := by
    intro hc; apply h; simp [hc]
  rw [List.reverse_append, dropWhile_append_ne_nil _ _ _ h']
  simp

theorem mem_takeWhile_p {α} (p : α → Bool) (l : List α) : ∀ x ∈ l.takeWhile p, p x = true := by
  induction l with
  | nil => intro x hx; simp at hx
  | cons a l ih =>
    intro x hx
    simp only [List.takeWhile_cons] at hx
    split at hx
    · rename_i hp
      simp only [List.mem_cons] at hx
      rcases hx with rfl | hx
      · exact hp
      · exact ih x hx
    · simp at hx

theorem length_dropWhile_le' {α} (p : α → Bool) (l : List α) : (l.dropWhile p).length ≤ l.length := by
  induction l with
  | nil => simp
  | cons a l ih =>
    simp only [List.dropWhile_cons]
    split
    · simp; omega
    · simp

/-- a list is its stripped form followed by zeros only -/
theorem rstripZeros_decomp (l : Bytes) :
    l = rstripZeros l ++ List.replicate (l.length - (rstripZeros l).length) bZero := by
  unfold rstripZeros
  have h : l.reverse.takeWhile (· = bZero) ++ l.reverse.dropWhile (· = bZero) = l.reverse :=
    List.takeWhile_append_dropWhile
  have hz : ∀ x ∈ l.reverse.takeWhile (· = bZero), x = bZero := by
    intro x hx; have := mem_takeWhile_p _ _ x hx; simpa using this
  have hrep : l.reverse.takeWhile (· = bZero)
      = List.replicate (l.reverse.takeWhile (· = bZero)).length bZero :=
    List.eq_replicate_iff.mpr ⟨rfl, hz⟩
  have hl : l = (l.reverse.dropWhile (· = bZero)).reverse ++ (l.reverse.takeWhile (· = bZero)).reverse := by
    have := congrArg List.reverse h
    rw [List.reverse_append, List.reverse_reverse] at this
    exact this.symm
  have hlen : l.length - ((l.reverse.dropWhile (· = bZero)).reverse).length
      = (l.reverse.takeWhile (· = bZero)).length := by
    have := congrArg List.length h
    rw [List.length_append, List.length_reverse] at this
    rw [List.length_reverse]; omega
  rw [hlen]
  conv => lhs; rw [hl]
  rw [hrep]; simp

theorem rstripZeros_length_le (l : Bytes) : (rstripZeros l).length ≤ l.length := by
  unfold rstripZeros
  have := length_dropWhile_le' (· = bZero) l.reverse
  simpa using this

theorem toBaseRev_length (k : Nat) : ∀ n, n < 10 ^ k → 1 ≤ k → (toBaseRev 8 n).length ≤ k := by
  induction k with
  | zero => intro n _ h; omega
  | succ k ih =>
    intro n hn _
    rw [toBaseRev]
    split
    · simp
    · rename_i h10
      have hk : 1 ≤ k := by
        rcases Nat.eq_zero_or_pos k with h | h
        · subst h; simp at hn; omega
        · exact h
      have : n / (8 + 2) < 10 ^ k := by
        rw [Nat.pow_succ] at hn
        exact Nat.div_lt_of_lt_mul (by omega)
      have := ih (n / (8+2)) this hk
      simp; omega

theorem dec_length_le (n k : Nat) (h : n < 10 ^ k) (hk : 1 ≤ k) : (dec n).length ≤ k := by
  unfold dec natBase; simp; exact toBaseRev_length k n h hk

theorem parseDec_replicate_zero (k : Nat) (bs : Bytes) (n : Nat) (h : parseDec bs = some n) :
    parseDec (List.replicate k bZero ++ bs) = some n := by
  induction k with
  | zero => simpa using h
  | succ k ih =>
    rw [List.replicate_succ, List.cons_append]
    exact parseDec_cons_zero _ _ ih

theorem pad6_length (n : Nat) (h : n < 1000000) : (pad6 n).length = 6 := by
  have := dec_length_le n 6 (by omega) (by omega)
  unfold pad6; simp; omega

theorem parseDec_pad6 (n : Nat) : parseDec (pad6 n) = some n :=
  parseDec_replicate_zero _ _ _ (parseDec_dec n)

theorem parseDec_all_zero (k : Nat) (hk : 0 < k) : parseDec (List.replicate k bZero) = some 0 := by
  have : List.replicate k bZero = List.replicate (k - 1) bZero ++ [bZero] := by
    cases k with
    | zero => omega
    | succ k => simp [List.replicate_succ']
  rw [this]
  exact parseDec_replicate_zero _ _ _ (by decide)

theorem rstripZeros_pad6_ne_nil (n : Nat) (h0 : n ≠ 0) : rstripZeros (pad6 n) ≠ [] := by
  intro hc
  have hd := rstripZeros_decomp (pad6 n)
  rw [hc] at hd
  simp only [List.length_nil, Nat.sub_zero, List.nil_append] at hd
  have hp := parseDec_pad6 n
  have hlen : 0 < (pad6 n).length := by
    unfold pad6
    have := natBase_ne_nil 8 n
    cases hh : dec n with
    | nil => exact absurd hh this
    | cons _ _ => simp only [List.length_append, List.length_cons]; omega
  rw [hd, parseDec_all_zero _ hlen] at hp
  simp at hp; omega

theorem dec_no_dot (n : Nat) : bDot ∉ dec n := by
  intro h; have := dec_bytes n _ h; simp [bDot] at this

theorem dec_head_ne_minus (n : Nat) : ∀ b rest, dec n = b :: rest → b ≠ bMinus := by
  intro b rest h hb
  have := dec_bytes n b (by rw [h]; simp)
  subst hb; simp [bMinus] at this

end Swh
