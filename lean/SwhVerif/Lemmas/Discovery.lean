import SwhVerif.Model.Discovery
/-!
# Lemmas for the discovery model (C17)

Structure:
* A. list-as-set operations
* B. graph maps (`children`, `parents`)
* C. one pop (`popStep`): structural facts, measure, semantic invariant
* D. `markLoop` / `markEntries`
* E. `queryPart` / `doQuery` / `getSample`
* F. `runLoop`
-/
namespace Swh.Discovery

/-! ## A. list-as-set operations -/

theorem mem_sdel {x y : Id} {l : List Id} : y ∈ sdel x l ↔ y ∈ l ∧ y ≠ x := by
  simp [sdel]

theorem mem_dedup {x : Id} {l : List Id} : x ∈ dedup l ↔ x ∈ l := by
  induction l with
  | nil => simp [dedup]
  | cons a l ih =>
    simp only [dedup, List.mem_cons, List.mem_filter, ih, bne_iff_ne, ne_eq]
    by_cases h : x = a <;> simp [h]

theorem nodup_dedup (l : List Id) : (dedup l).Nodup := by
  induction l with
  | nil => simp [dedup]
  | cons a l ih =>
    simp only [dedup, List.nodup_cons, List.mem_filter, bne_self_eq_false, and_false,
      not_false_eq_true, true_and, Bool.false_eq_true]
    exact ih.sublist List.filter_sublist

theorem length_dedup_le (l : List Id) : (dedup l).length ≤ l.length := by
  induction l with
  | nil => simp [dedup]
  | cons a l ih =>
    simp only [dedup, List.length_cons]
    have := List.length_filter_le (fun x => x != a) (dedup l)
    omega

theorem dedup_eq_nil {l : List Id} : dedup l = [] ↔ l = [] := by
  cases l <;> simp [dedup]

theorem mem_sadd {x y : Id} {l : List Id} : y ∈ sadd x l ↔ y ∈ l ∨ y = x := by
  unfold sadd
  split
  · rename_i h
    have hx : x ∈ l := List.contains_iff_mem.mp h
    constructor
    · exact Or.inl
    · rintro (h | rfl) <;> assumption
  · simp

theorem mem_sunion {y : Id} {l m : List Id} : y ∈ sunion l m ↔ y ∈ l ∨ y ∈ m := by
  simp only [sunion, List.mem_append, List.mem_filter, mem_dedup, Bool.not_eq_eq_eq_not,
    Bool.not_true, List.contains_eq_mem, decide_eq_false_iff_not]
  by_cases h : y ∈ l <;> simp [h]

theorem sdel_sublist (x : Id) (l : List Id) : (sdel x l).Sublist l := List.filter_sublist

theorem length_sdel_lt {x : Id} {l : List Id} (h : x ∈ l) : (sdel x l).length < l.length :=
  List.length_filter_lt_length_iff_exists.mpr ⟨x, h, by simp⟩

theorem sdel_eq_self {x : Id} {l : List Id} (h : x ∉ l) : sdel x l = l := by
  apply List.filter_eq_self.mpr
  intro a ha
  simp only [bne_iff_ne, ne_eq]
  rintro rfl
  exact h ha

theorem length_lt_of_sublist_of_mem {l' l : List Id} {x : Id} (hs : l'.Sublist l)
    (hx : x ∈ l) (hx' : x ∉ l') : l'.length < l.length := by
  have hle := hs.length_le
  rcases Nat.lt_or_ge l'.length l.length with h | h
  · exact h
  · have := hs.eq_of_length (by omega)
    subst this
    exact absurd hx hx'

theorem countP_lt_of_imp {p q : Id → Bool} {l : List Id} (himp : ∀ y, p y = true → q y = true)
    {x : Id} (hx : x ∈ l) (hq : q x = true) (hp : p x = false) :
    l.countP p < l.countP q := by
  induction l with
  | nil => cases hx
  | cons a l ih =>
    have hmono : l.countP p ≤ l.countP q := List.countP_mono_left (fun y _ => himp y)
    rcases List.mem_cons.mp hx with rfl | hx
    · simp only [List.countP_cons, hq, hp, if_true]
      simp
      omega
    · have := ih hx
      simp only [List.countP_cons]
      by_cases hpa : p a = true
      · simp [hpa, himp a hpa]; omega
      · simp [hpa]; split <;> omega

theorem pickAt_mem (x : Id) (xs : List Id) (i : Nat) : pickAt x xs i ∈ x :: xs := by
  unfold pickAt
  have hlt : i % (xs.length + 1) < (x :: xs).length := by
    simp only [List.length_cons]; exact Nat.mod_lt _ (Nat.succ_pos _)
  rw [List.getD_eq_getElem?_getD, List.getElem?_eq_getElem hlt]
  exact List.getElem_mem hlt

/-! ## B. graph maps -/

theorem mem_children {g : Graph} {x c : Id} (h : c ∈ g.children x) :
    ∃ d ∈ g.dirs, d.id = x ∧ c ∈ d.entries := by
  unfold Graph.children at h
  split at h
  · rename_i d hd
    have hm := List.mem_of_find?_eq_some hd
    have hp := List.find?_some hd
    exact ⟨d, List.mem_reverse.mp hm, by simpa using hp, mem_dedup.mp h⟩
  · cases h

theorem mem_parents {g : Graph} {x p : Id} (h : p ∈ g.parents x) :
    ∃ d ∈ g.dirs, d.id = p ∧ x ∈ d.entries := by
  unfold Graph.parents at h
  rw [mem_dedup, List.mem_map] at h
  obtain ⟨d, hd, rfl⟩ := h
  rw [List.mem_filter] at hd
  exact ⟨d, hd.1, rfl, List.contains_iff_mem.mp hd.2⟩

theorem dir_mem_ids {g : Graph} {d : Obj} (h : d ∈ g.dirs) : d.id ∈ g.ids := by
  unfold Graph.ids
  exact List.mem_append_right _ (List.mem_map_of_mem h)

/-! ## C. one pop -/

section pop
variable (g : Graph) (t : Target) (s : State) (w : List Id) (cur : Id)

@[simp] theorem popStep_undecided :
    (popStep g t s w cur).1.undecided = sdel cur s.undecided := by cases t <;> rfl

@[simp] theorem popStep_undecidedDirs :
    (popStep g t s w cur).1.undecidedDirs = sdel cur s.undecidedDirs := by cases t <;> rfl

theorem popStep_work :
    (popStep g t s w cur).2 =
      sunion (sdel cur w)
        ((g.mapping t cur).filter (fun x => (sdel cur s.undecided).contains x)) := by
  cases t <;> rfl

@[simp] theorem popStep_known_known :
    (popStep g .known s w cur).1.known = sadd cur s.known := rfl
@[simp] theorem popStep_known_unknown :
    (popStep g .known s w cur).1.unknown = s.unknown := rfl
@[simp] theorem popStep_unknown_known :
    (popStep g .unknown s w cur).1.known = s.known := rfl
@[simp] theorem popStep_unknown_unknown :
    (popStep g .unknown s w cur).1.unknown = sadd cur s.unknown := rfl
theorem popStep_known_log :
    (popStep g .known s w cur).1.log =
      if s.undecided.contains cur then s.log ++ [(cur, (sadd cur s.known).contains cur)]
      else s.log := rfl
theorem popStep_unknown_log :
    (popStep g .unknown s w cur).1.log =
      if s.undecided.contains cur then s.log ++ [(cur, s.known.contains cur)] else s.log := rfl

end pop

/-- `_undecided_directories ⊆ undecided` -/
def Wf (s : State) : Prop := ∀ x ∈ s.undecidedDirs, x ∈ s.undecided

theorem wf_pop (g : Graph) (t : Target) {s : State} (w : List Id) (cur : Id) (h : Wf s) :
    Wf (popStep g t s w cur).1 := by
  intro x hx
  rw [popStep_undecidedDirs, mem_sdel] at hx
  rw [popStep_undecided, mem_sdel]
  exact ⟨h x hx.1, hx.2⟩

/-- termination measure of the `while to_process` loop -/
def mu (s : State) (w : List Id) : Nat :=
  2 * s.undecided.length + w.countP (fun x => !s.undecided.contains x)

theorem mu_pop (g : Graph) (t : Target) (s : State) {w : List Id} {cur : Id} (hc : cur ∈ w) :
    mu (popStep g t s w cur).1 (popStep g t s w cur).2 < mu s w := by
  unfold mu
  rw [popStep_undecided, popStep_work, sunion, List.countP_append]
  have hz : List.countP (fun x => !(sdel cur s.undecided).contains x)
      ((dedup ((g.mapping t cur).filter (fun x => (sdel cur s.undecided).contains x))).filter
        (fun x => !(sdel cur w).contains x)) = 0 := by
    rw [List.countP_eq_zero]
    intro a ha
    rw [List.mem_filter, mem_dedup, List.mem_filter] at ha
    simp only [Bool.not_eq_eq_eq_not, Bool.not_true, Bool.not_eq_false]
    exact ha.1.2
  rw [hz, Nat.add_zero]
  have hf : List.countP (fun x => !(sdel cur s.undecided).contains x) (sdel cur w) =
      List.countP (fun a => !(sdel cur s.undecided).contains a && (a != cur)) w := by
    unfold sdel; rw [List.countP_filter]
  rw [hf]
  by_cases hu : cur ∈ s.undecided
  · have h1 := length_sdel_lt hu
    have h2 : List.countP (fun a => !(sdel cur s.undecided).contains a && (a != cur)) w ≤
        List.countP (fun x => !s.undecided.contains x) w := by
      apply List.countP_mono_left
      intro x _ hx
      simp only [Bool.and_eq_true, Bool.not_eq_eq_eq_not, Bool.not_true, bne_iff_ne, ne_eq,
        List.contains_eq_mem, decide_eq_false_iff_not, mem_sdel, not_and, Classical.not_not] at hx ⊢
      intro hxu
      exact hx.2 (hx.1 hxu)
    omega
  · rw [sdel_eq_self hu]
    have h2 : List.countP (fun a => !s.undecided.contains a && (a != cur)) w <
        List.countP (fun x => !s.undecided.contains x) w := by
      apply countP_lt_of_imp (x := cur) _ hc
      · simpa using hu
      · simp
      · intro y hy
        simp only [Bool.and_eq_true] at hy
        exact hy.1
    omega

/-! ### specification vocabulary and the semantic invariant -/

/-- the archive's known set is closed downwards on the input:
    a known input directory has all its entries (that are input objects) known -/
def Closed (ids : List Id) (dirs : List Obj) (K : Id → Bool) : Prop :=
  ∀ d ∈ dirs, K d.id = true → ∀ c ∈ d.entries, c ∈ ids → K c = true

/-- callback flag of `mark_known` / `mark_unknown` -/
def Target.flag : Target → Bool
  | .known => true
  | .unknown => false

/-- Soundness invariant w.r.t. the input ids `I` and the archive `K`. -/
structure Inv (I : List Id) (K : Id → Bool) (s : State) : Prop where
  /-- `undecided ∪ known ∪ unknown` = input ids -/
  cover : ∀ x, x ∈ I ↔ x ∈ s.undecided ∨ x ∈ s.known ∨ x ∈ s.unknown
  undK : ∀ x ∈ s.undecided, x ∉ s.known
  undU : ∀ x ∈ s.undecided, x ∉ s.unknown
  /-- `known ⊆ K` -/
  knownK : ∀ x ∈ s.known, K x = true
  /-- `unknown ∩ K = ∅` -/
  unknownK : ∀ x ∈ s.unknown, K x = false
  logNodup : (s.log.map Prod.fst).Nodup
  logMem : ∀ x, x ∈ s.log.map Prod.fst ↔ x ∈ s.known ∨ x ∈ s.unknown
  logFlag : ∀ e ∈ s.log, e.2 = K e.1

/-- every id in the work list is an input id whose archive status is the one being propagated -/
def WorkOK (I : List Id) (K : Id → Bool) (b : Bool) (w : List Id) : Prop :=
  ∀ x ∈ w, x ∈ I ∧ K x = b

theorem workOK_pop {g : Graph} {K : Id → Bool} (hcl : Closed g.ids g.dirs K) (t : Target)
    {s : State} (hI : Inv g.ids K s) {w : List Id} (hw : WorkOK g.ids K t.flag w)
    {cur : Id} (hc : cur ∈ w) :
    WorkOK g.ids K t.flag (popStep g t s w cur).2 := by
  intro x hx
  rw [popStep_work, mem_sunion] at hx
  rcases hx with hx | hx
  · exact hw x (mem_sdel.mp hx).1
  · rw [List.mem_filter, List.contains_iff_mem, mem_sdel] at hx
    obtain ⟨hmap, hxu, _⟩ := hx
    have hxI : x ∈ g.ids := (hI.cover x).mpr (Or.inl hxu)
    refine ⟨hxI, ?_⟩
    obtain ⟨hcI, hcK⟩ := hw cur hc
    cases t with
    | known =>
      obtain ⟨d, hd, hid, hxe⟩ := mem_children hmap
      exact hcl d hd (by rw [hid]; exact hcK) x hxe hxI
    | unknown =>
      obtain ⟨d, hd, hid, hce⟩ := mem_parents hmap
      cases hKx : K x with
      | false => rfl
      | true =>
        have := hcl d hd (by rw [hid]; exact hKx) cur hce hcI
        rw [hcK] at this
        exact absurd this (by simp [Target.flag])

/-- an input id that is no longer undecided and whose status is `true` is already in `known` -/
theorem Inv.decided_known {I : List Id} {K : Id → Bool} {s : State} (h : Inv I K s) {x : Id}
    (hI : x ∈ I) (hu : x ∉ s.undecided) (hK : K x = true) : x ∈ s.known := by
  rcases (h.cover x).mp hI with h1 | h1 | h1
  · exact absurd h1 hu
  · exact h1
  · have := h.unknownK x h1; rw [hK] at this; cases this

theorem Inv.decided_unknown {I : List Id} {K : Id → Bool} {s : State} (h : Inv I K s) {x : Id}
    (hI : x ∈ I) (hu : x ∉ s.undecided) (hK : K x = false) : x ∈ s.unknown := by
  rcases (h.cover x).mp hI with h1 | h1 | h1
  · exact absurd h1 hu
  · have := h.knownK x h1; rw [hK] at this; cases this
  · exact h1

theorem Inv.not_logged {I : List Id} {K : Id → Bool} {s : State} (h : Inv I K s) {x : Id}
    (hu : x ∈ s.undecided) : x ∉ s.log.map Prod.fst := by
  intro hl
  rcases (h.logMem x).mp hl with h1 | h1
  · exact h.undK x hu h1
  · exact h.undU x hu h1

theorem inv_pop_known {g : Graph} {I : List Id} {K : Id → Bool} {s : State} (h : Inv I K s)
    (w : List Id) {cur : Id} (hcI : cur ∈ I) (hcK : K cur = true) :
    Inv I K (popStep g .known s w cur).1 := by
  constructor
  · intro x
    simp only [popStep_undecided, popStep_known_known, popStep_known_unknown, mem_sdel, mem_sadd]
    rw [h.cover x]
    constructor
    · rintro (h1 | h1 | h1)
      · by_cases hx : x = cur
        · exact Or.inr (Or.inl (Or.inr hx))
        · exact Or.inl ⟨h1, hx⟩
      · exact Or.inr (Or.inl (Or.inl h1))
      · exact Or.inr (Or.inr h1)
    · rintro (h1 | (h1 | h1) | h1)
      · exact Or.inl h1.1
      · exact Or.inr (Or.inl h1)
      · subst h1; exact (h.cover x).mp hcI
      · exact Or.inr (Or.inr h1)
  · intro x hx
    simp only [popStep_undecided, popStep_known_known, mem_sdel, mem_sadd] at hx ⊢
    rintro (h1 | h1)
    · exact h.undK x hx.1 h1
    · exact hx.2 h1
  · intro x hx
    simp only [popStep_undecided, popStep_known_unknown, mem_sdel] at hx ⊢
    exact h.undU x hx.1
  · intro x hx
    simp only [popStep_known_known, mem_sadd] at hx
    rcases hx with h1 | h1
    · exact h.knownK x h1
    · subst h1; exact hcK
  · intro x hx
    simp only [popStep_known_unknown] at hx
    exact h.unknownK x hx
  · rw [popStep_known_log]
    split
    · rename_i hn
      have hn' : cur ∈ s.undecided := List.contains_iff_mem.mp hn
      rw [List.map_append, List.nodup_append]
      refine ⟨h.logNodup, by simp, ?_⟩
      intro a ha b hb
      simp only [List.map_cons, List.map_nil, List.mem_singleton] at hb
      subst hb
      rintro rfl
      exact h.not_logged hn' ha
    · exact h.logNodup
  · intro x
    rw [popStep_known_log]
    simp only [popStep_known_known, popStep_known_unknown, mem_sadd]
    split
    · rw [List.map_append, List.mem_append, h.logMem x]
      simp only [List.map_cons, List.map_nil, List.mem_singleton]
      constructor
      · rintro ((h1 | h1) | h1)
        · exact Or.inl (Or.inl h1)
        · exact Or.inr h1
        · exact Or.inl (Or.inr h1)
      · rintro ((h1 | h1) | h1)
        · exact Or.inl (Or.inl h1)
        · exact Or.inr h1
        · exact Or.inl (Or.inr h1)
    · rename_i hn
      have hn' : cur ∉ s.undecided := fun hm => hn (List.contains_iff_mem.mpr hm)
      have hk := h.decided_known hcI hn' hcK
      rw [h.logMem x]
      constructor
      · rintro (h1 | h1)
        · exact Or.inl (Or.inl h1)
        · exact Or.inr h1
      · rintro ((h1 | h1) | h1)
        · exact Or.inl h1
        · subst h1; exact Or.inl hk
        · exact Or.inr h1
  · intro e he
    rw [popStep_known_log] at he
    split at he
    · rw [List.mem_append, List.mem_singleton] at he
      rcases he with he | he
      · exact h.logFlag e he
      · subst he
        simp only [hcK]
        exact List.contains_iff_mem.mpr (mem_sadd.mpr (Or.inr rfl))
    · exact h.logFlag e he

theorem inv_pop_unknown {g : Graph} {I : List Id} {K : Id → Bool} {s : State} (h : Inv I K s)
    (w : List Id) {cur : Id} (hcI : cur ∈ I) (hcK : K cur = false) :
    Inv I K (popStep g .unknown s w cur).1 := by
  constructor
  · intro x
    simp only [popStep_undecided, popStep_unknown_known, popStep_unknown_unknown, mem_sdel,
      mem_sadd]
    rw [h.cover x]
    constructor
    · rintro (h1 | h1 | h1)
      · by_cases hx : x = cur
        · exact Or.inr (Or.inr (Or.inr hx))
        · exact Or.inl ⟨h1, hx⟩
      · exact Or.inr (Or.inl h1)
      · exact Or.inr (Or.inr (Or.inl h1))
    · rintro (h1 | h1 | (h1 | h1))
      · exact Or.inl h1.1
      · exact Or.inr (Or.inl h1)
      · exact Or.inr (Or.inr h1)
      · subst h1; exact (h.cover x).mp hcI
  · intro x hx
    simp only [popStep_undecided, popStep_unknown_known, mem_sdel] at hx ⊢
    exact h.undK x hx.1
  · intro x hx
    simp only [popStep_undecided, popStep_unknown_unknown, mem_sdel, mem_sadd] at hx ⊢
    rintro (h1 | h1)
    · exact h.undU x hx.1 h1
    · exact hx.2 h1
  · intro x hx
    simp only [popStep_unknown_known] at hx
    exact h.knownK x hx
  · intro x hx
    simp only [popStep_unknown_unknown, mem_sadd] at hx
    rcases hx with h1 | h1
    · exact h.unknownK x h1
    · subst h1; exact hcK
  · rw [popStep_unknown_log]
    split
    · rename_i hn
      have hn' : cur ∈ s.undecided := List.contains_iff_mem.mp hn
      rw [List.map_append, List.nodup_append]
      refine ⟨h.logNodup, by simp, ?_⟩
      intro a ha b hb
      simp only [List.map_cons, List.map_nil, List.mem_singleton] at hb
      subst hb
      rintro rfl
      exact h.not_logged hn' ha
    · exact h.logNodup
  · intro x
    rw [popStep_unknown_log]
    simp only [popStep_unknown_known, popStep_unknown_unknown, mem_sadd]
    split
    · rw [List.map_append, List.mem_append, h.logMem x]
      simp only [List.map_cons, List.map_nil, List.mem_singleton]
      constructor
      · rintro ((h1 | h1) | h1)
        · exact Or.inl h1
        · exact Or.inr (Or.inl h1)
        · exact Or.inr (Or.inr h1)
      · rintro (h1 | (h1 | h1))
        · exact Or.inl (Or.inl h1)
        · exact Or.inl (Or.inr h1)
        · exact Or.inr h1
    · rename_i hn
      have hn' : cur ∉ s.undecided := fun hm => hn (List.contains_iff_mem.mpr hm)
      have hk := h.decided_unknown hcI hn' hcK
      rw [h.logMem x]
      constructor
      · rintro (h1 | h1)
        · exact Or.inl h1
        · exact Or.inr (Or.inl h1)
      · rintro (h1 | (h1 | h1))
        · exact Or.inl h1
        · exact Or.inr h1
        · subst h1; exact Or.inr hk
  · intro e he
    rw [popStep_unknown_log] at he
    split at he
    · rename_i hn
      have hn' : cur ∈ s.undecided := List.contains_iff_mem.mp hn
      rw [List.mem_append, List.mem_singleton] at he
      rcases he with he | he
      · exact h.logFlag e he
      · subst he
        simp only [hcK]
        cases hc : s.known.contains cur with
        | false => rfl
        | true => exact absurd (List.contains_iff_mem.mp hc) (h.undK cur hn')
    · exact h.logFlag e he

theorem inv_pop {g : Graph} {I : List Id} {K : Id → Bool} (t : Target) {s : State}
    (h : Inv I K s) (w : List Id) {cur : Id} (hcI : cur ∈ I) (hcK : K cur = t.flag) :
    Inv I K (popStep g t s w cur).1 := by
  cases t with
  | known => exact inv_pop_known h w hcI hcK
  | unknown => exact inv_pop_unknown h w hcI hcK

/-! ## D. `markLoop` / `markEntries` -/

section loop
variable {ω : Type} (g : Graph) (t : Target) (O : Sched ω)

/-- Loop-invariant rule: a predicate on (state, work list) preserved by every possible pop
    holds of the final state and the left-over work list, whatever the scheduler does. -/
theorem markLoop_induct (P : State → List Id → Prop)
    (hstep : ∀ s w cur, P s w → cur ∈ w → P (popStep g t s w cur).1 (popStep g t s w cur).2) :
    ∀ (f : Nat) (o : ω) (s : State) (w : List Id), P s w →
      P (markLoop g t O f o s w).1 (markLoop g t O f o s w).2.2 := by
  intro f
  induction f with
  | zero => intro o s w h; exact h
  | succ f ih =>
    intro o s w h
    cases w with
    | nil => exact h
    | cons x xs =>
      simp only [markLoop]
      exact ih _ _ _ (hstep s (x :: xs) _ h (pickAt_mem x xs _))

/-- with fuel above the measure the loop ends because `to_process` is empty -/
theorem markLoop_fuel : ∀ (f : Nat) (o : ω) (s : State) (w : List Id), mu s w < f →
    (markLoop g t O f o s w).2.2 = [] := by
  intro f
  induction f with
  | zero => intro o s w h; omega
  | succ f ih =>
    intro o s w h
    cases w with
    | nil => rfl
    | cons x xs =>
      simp only [markLoop]
      apply ih
      exact Nat.lt_of_lt_of_le (mu_pop g t s (pickAt_mem x xs _)) (by omega)

theorem mu_lt_markFuel (s : State) (w : List Id) : mu s w < markFuel s w := by
  unfold mu markFuel
  have := List.countP_le_length (p := fun x => !s.undecided.contains x) (l := w)
  omega

/-- `_mark_entries` always terminates normally -/
theorem markEntries_ok (r : Run ω) (e : List Id) : (markEntries g t O r e).ok = r.ok := by
  simp only [markEntries]
  rw [markLoop_fuel g t O _ _ _ _ (mu_lt_markFuel r.st (dedup e))]
  simp

theorem markEntries_st (r : Run ω) (e : List Id) :
    (markEntries g t O r e).st =
      (markLoop g t O (markFuel r.st (dedup e)) r.orc r.st (dedup e)).1 := rfl

theorem markEntries_left (r : Run ω) (e : List Id) :
    (markLoop g t O (markFuel r.st (dedup e)) r.orc r.st (dedup e)).2.2 = [] :=
  markLoop_fuel g t O _ _ _ _ (mu_lt_markFuel r.st (dedup e))

/-- structural facts: `Wf` is kept, `undecided` only shrinks, every entry ends up decided -/
theorem markEntries_struct (r : Run ω) (e : List Id) (hwf : Wf r.st) :
    Wf (markEntries g t O r e).st ∧
    (markEntries g t O r e).st.undecided.Sublist r.st.undecided ∧
    ∀ x ∈ e, x ∉ (markEntries g t O r e).st.undecided := by
  have key := markLoop_induct g t O
    (fun s w => Wf s ∧ s.undecided.Sublist r.st.undecided ∧
      ∀ x ∈ e, x ∈ w ∨ x ∉ s.undecided)
    (by
      intro s w cur ⟨h1, h2, h3⟩ hc
      refine ⟨wf_pop g t w cur h1, ?_, ?_⟩
      · rw [popStep_undecided]; exact (sdel_sublist _ _).trans h2
      · intro x hx
        rw [popStep_undecided, popStep_work, mem_sunion, mem_sdel, mem_sdel]
        by_cases hxc : x = cur
        · exact Or.inr (fun hh => hh.2 hxc)
        · rcases h3 x hx with h4 | h4
          · exact Or.inl (Or.inl ⟨h4, hxc⟩)
          · exact Or.inr (fun hh => h4 hh.1))
    (markFuel r.st (dedup e)) r.orc r.st (dedup e)
    ⟨hwf, List.Sublist.refl _, fun x hx => Or.inl (mem_dedup.mpr hx)⟩
  rw [markEntries_left] at key
  rw [markEntries_st]
  refine ⟨key.1, key.2.1, ?_⟩
  intro x hx
  rcases key.2.2 x hx with h | h
  · cases h
  · exact h

/-- semantic invariant through `_mark_entries` -/
theorem markEntries_inv {K : Id → Bool} (hcl : Closed g.ids g.dirs K) (r : Run ω) (e : List Id)
    (hI : Inv g.ids K r.st) (he : WorkOK g.ids K t.flag e) :
    Inv g.ids K (markEntries g t O r e).st := by
  have key := markLoop_induct g t O
    (fun s w => Inv g.ids K s ∧ WorkOK g.ids K t.flag w)
    (by
      intro s w cur ⟨h1, h2⟩ hc
      exact ⟨inv_pop t h1 w (h2 cur hc).1 (h2 cur hc).2, workOK_pop hcl t h1 h2 hc⟩)
    (markFuel r.st (dedup e)) r.orc r.st (dedup e)
    ⟨hI, fun x hx => he x (mem_dedup.mp hx)⟩
  rw [markEntries_st]
  exact key.1

end loop

/-! ## E. `queryPart` / `doQuery` / `getSample` -/

/-- What is assumed of the random sampler: whenever `random.sample` is called (more than `n`
    undecided directories) it returns a non-empty list of undecided directories.
    (`random.sample(·, n)` with `n ≥ 1` returns exactly `n` distinct ones: a special case.) -/
def ValidSched {ω : Type} (n : Nat) (O : Sched ω) : Prop :=
  ∀ (o : ω) (s : State), n < s.undecidedDirs.length →
    (O.sample o s).1 ≠ [] ∧ ∀ x ∈ (O.sample o s).1, x ∈ s.undecidedDirs

section query
variable {ω : Type} (g : Graph) (K : Id → Bool) (O : Sched ω)

theorem queryPart_ok (r : Run ω) (smp : List Id) : (queryPart g K O r smp).ok = r.ok := by
  unfold queryPart
  split
  · rfl
  · simp only [markEntries_ok]

theorem mem_known_part {smp : List Id} {x : Id} :
    x ∈ (dedup smp).filter (fun x => !(dedup (smp.filter (fun x => !K x))).contains x) ↔
      x ∈ smp ∧ K x = true := by
  simp only [List.mem_filter, mem_dedup, Bool.not_eq_eq_eq_not, Bool.not_true,
    List.contains_eq_mem, decide_eq_false_iff_not, not_and, Bool.not_eq_false]
  constructor
  · rintro ⟨h1, h2⟩; exact ⟨h1, h2 h1⟩
  · rintro ⟨h1, h2⟩; exact ⟨h1, fun _ => h2⟩

theorem mem_unknown_part {smp : List Id} {x : Id} :
    x ∈ dedup (smp.filter (fun x => !K x)) ↔ x ∈ smp ∧ K x = false := by
  simp [mem_dedup]

theorem queryPart_struct (r : Run ω) (smp : List Id) (hwf : Wf r.st) :
    Wf (queryPart g K O r smp).st ∧
    (queryPart g K O r smp).st.undecided.Sublist r.st.undecided ∧
    ∀ x ∈ smp, x ∉ (queryPart g K O r smp).st.undecided := by
  unfold queryPart
  split
  · rename_i he
    refine ⟨hwf, List.Sublist.refl _, ?_⟩
    intro x hx
    rw [List.isEmpty_iff] at he
    subst he
    cases hx
  · obtain ⟨w1, s1, c1⟩ := markEntries_struct g .known O r
      ((dedup smp).filter (fun x => !(dedup (smp.filter (fun x => !K x))).contains x)) hwf
    obtain ⟨w2, s2, c2⟩ := markEntries_struct g .unknown O _
      (dedup (smp.filter (fun x => !K x))) w1
    refine ⟨w2, s2.trans s1, ?_⟩
    intro x hx
    cases hK : K x with
    | true =>
      intro hm
      exact c1 x (mem_known_part K |>.mpr ⟨hx, hK⟩) (s2.mem hm)
    | false => exact c2 x (mem_unknown_part K |>.mpr ⟨hx, hK⟩)

theorem queryPart_inv (hcl : Closed g.ids g.dirs K) (r : Run ω) (smp : List Id)
    (hI : Inv g.ids K r.st) (hs : ∀ x ∈ smp, x ∈ g.ids) :
    Inv g.ids K (queryPart g K O r smp).st := by
  unfold queryPart
  split
  · exact hI
  · apply markEntries_inv g .unknown O hcl
    · apply markEntries_inv g .known O hcl _ _ hI
      intro x hx
      have := (mem_known_part K).mp hx
      exact ⟨hs x this.1, this.2⟩
    · intro x hx
      have := (mem_unknown_part K).mp hx
      exact ⟨hs x this.1, this.2⟩

theorem doQuery_ok (r : Run ω) (smp : Sample) : (doQuery g K O r smp).ok = r.ok := by
  simp only [doQuery, queryPart_ok]

theorem doQuery_struct (r : Run ω) (smp : Sample) (hwf : Wf r.st) :
    Wf (doQuery g K O r smp).st ∧
    (doQuery g K O r smp).st.undecided.Sublist r.st.undecided ∧
    ∀ x ∈ smp.all, x ∉ (doQuery g K O r smp).st.undecided := by
  unfold doQuery
  obtain ⟨w1, s1, c1⟩ := queryPart_struct g K O r smp.contents hwf
  obtain ⟨w2, s2, c2⟩ := queryPart_struct g K O _ smp.skipped w1
  obtain ⟨w3, s3, c3⟩ := queryPart_struct g K O _ smp.dirs w2
  refine ⟨w3, (s3.trans s2).trans s1, ?_⟩
  intro x hx hm
  simp only [Sample.all, List.mem_append] at hx
  rcases hx with (hx | hx) | hx
  · exact c1 x hx ((s3.trans s2).mem hm)
  · exact c2 x hx (s3.mem hm)
  · exact c3 x hx hm

theorem doQuery_inv (hcl : Closed g.ids g.dirs K) (r : Run ω) (smp : Sample)
    (hI : Inv g.ids K r.st) (hs : ∀ x ∈ smp.all, x ∈ g.ids) :
    Inv g.ids K (doQuery g K O r smp).st := by
  unfold doQuery
  have h1 : ∀ x ∈ smp.contents, x ∈ g.ids := fun x hx =>
    hs x (by simp only [Sample.all, List.mem_append]; exact Or.inl (Or.inl hx))
  have h2 : ∀ x ∈ smp.skipped, x ∈ g.ids := fun x hx =>
    hs x (by simp only [Sample.all, List.mem_append]; exact Or.inl (Or.inr hx))
  have h3 : ∀ x ∈ smp.dirs, x ∈ g.ids := fun x hx =>
    hs x (by simp only [Sample.all, List.mem_append]; exact Or.inr hx)
  exact queryPart_inv g K O hcl _ _ (queryPart_inv g K O hcl _ _
    (queryPart_inv g K O hcl _ _ hI h1) h2) h3

/-- the sample is a non-empty set of undecided ids -/
theorem getSample_spec {n : Nat} (hv : ValidSched n O) (o : ω) {s : State} (hwf : Wf s)
    (hne : s.undecided ≠ []) :
    (getSample g n O o s).1.all ≠ [] ∧ ∀ x ∈ (getSample g n O o s).1.all, x ∈ s.undecided := by
  unfold getSample
  split
  · simp only [Sample.all, List.append_nil]
    constructor
    · obtain ⟨x, hx⟩ := List.exists_mem_of_ne_nil _ hne
      intro hnil
      have hmem : x ∈ s.undecided.filter (fun x => g.kindOf x == .content) ++
          s.undecided.filter (fun x => g.kindOf x != .content) := by
        rw [List.mem_append, List.mem_filter, List.mem_filter]
        cases hk : g.kindOf x == .content with
        | true => exact Or.inl ⟨hx, rfl⟩
        | false => exact Or.inr ⟨hx, by simp [bne, hk]⟩
      rw [hnil] at hmem
      cases hmem
    · intro x hx
      rw [List.mem_append, List.mem_filter, List.mem_filter] at hx
      rcases hx with hx | hx <;> exact hx.1
  · rename_i hd
    split
    · simp only [Sample.all, List.append_nil, List.nil_append]
      refine ⟨?_, hwf⟩
      intro hnil
      exact hd (by rw [hnil]; rfl)
    · rename_i hlen
      obtain ⟨v1, v2⟩ := hv o s (by omega)
      simp only [Sample.all, List.append_nil, List.nil_append]
      refine ⟨?_, ?_⟩
      · intro hnil; exact v1 (dedup_eq_nil.mp hnil)
      · intro x hx; exact hwf x (v2 x (mem_dedup.mp hx))

end query

section step
variable {ω : Type} (g : Graph) (K : Id → Bool) {n : Nat} (O : Sched ω)

theorem queryStep_eq (r : Run ω) : queryStep g K n O r =
    doQuery g K O { r with orc := (getSample g n O r.orc r.st).2 }
      (getSample g n O r.orc r.st).1 := rfl

theorem queryStep_ok (r : Run ω) : (queryStep g K n O r).ok = r.ok := by
  rw [queryStep_eq, doQuery_ok]

/-- every query strictly shrinks `undecided` -/
theorem queryStep_struct (hv : ValidSched n O) (r : Run ω) (hwf : Wf r.st)
    (hne : r.st.undecided ≠ []) :
    Wf (queryStep g K n O r).st ∧
    (queryStep g K n O r).st.undecided.length < r.st.undecided.length := by
  obtain ⟨hne', hsub⟩ := getSample_spec g O hv r.orc hwf hne
  rw [queryStep_eq]
  obtain ⟨w1, s1, c1⟩ := doQuery_struct g K O
    { r with orc := (getSample g n O r.orc r.st).2 } (getSample g n O r.orc r.st).1 hwf
  refine ⟨w1, ?_⟩
  obtain ⟨x, hx⟩ := List.exists_mem_of_ne_nil _ hne'
  exact length_lt_of_sublist_of_mem s1 (hsub x hx) (c1 x hx)

theorem queryStep_inv (hv : ValidSched n O) (hcl : Closed g.ids g.dirs K) (r : Run ω)
    (hwf : Wf r.st) (hne : r.st.undecided ≠ []) (hI : Inv g.ids K r.st) :
    Inv g.ids K (queryStep g K n O r).st := by
  obtain ⟨_, hsub⟩ := getSample_spec g O hv r.orc hwf hne
  rw [queryStep_eq]
  exact doQuery_inv g K O hcl { r with orc := (getSample g n O r.orc r.st).2 }
    (getSample g n O r.orc r.st).1 hI
    (fun x hx => (hI.cover x).mpr (Or.inl (hsub x hx)))

end step

/-! ## F. `runLoop`, initial state, concrete schedulers -/

section run
variable {ω : Type} (g : Graph) (K : Id → Bool) {n : Nat} (O : Sched ω)

/-- with enough fuel the outer loop ends with `undecided = ∅`, after at most `|undecided|`
    queries, and no inner loop ran out of fuel -/
theorem runLoop_struct (hv : ValidSched n O) : ∀ (f : Nat) (r : Run ω) (q : Nat), Wf r.st →
    r.st.undecided.length < f →
    (runLoop g K n O f r q).1.st.undecided = [] ∧
    (runLoop g K n O f r q).1.ok = r.ok ∧
    (runLoop g K n O f r q).2 ≤ q + r.st.undecided.length := by
  intro f
  induction f with
  | zero => intro r q _ h; omega
  | succ f ih =>
    intro r q hwf hlen
    simp only [runLoop]
    split
    · rename_i he
      exact ⟨List.isEmpty_iff.mp he, rfl, Nat.le_add_right _ _⟩
    · rename_i he
      have hne : r.st.undecided ≠ [] := fun h => he (by rw [h]; rfl)
      obtain ⟨w1, l1⟩ := queryStep_struct g K O hv r hwf hne
      obtain ⟨a, b, c⟩ := ih (queryStep g K n O r) (q + 1) w1 (by omega)
      refine ⟨a, ?_, by omega⟩
      rw [b, queryStep_ok]

theorem runLoop_inv (hv : ValidSched n O) (hcl : Closed g.ids g.dirs K) :
    ∀ (f : Nat) (r : Run ω) (q : Nat), Wf r.st → Inv g.ids K r.st →
      Inv g.ids K (runLoop g K n O f r q).1.st := by
  intro f
  induction f with
  | zero => intro r q _ h; exact h
  | succ f ih =>
    intro r q hwf hI
    simp only [runLoop]
    split
    · exact hI
    · rename_i he
      have hne : r.st.undecided ≠ [] := fun h => he (by rw [h]; rfl)
      exact ih _ _ (queryStep_struct g K O hv r hwf hne).1
        (queryStep_inv g K O hv hcl r hwf hne hI)

end run

theorem wf_init (g : Graph) : Wf g.init := by
  intro x hx
  simp only [Graph.init, mem_dedup] at hx ⊢
  unfold Graph.ids
  exact List.mem_append_right _ hx

theorem inv_init (g : Graph) (K : Id → Bool) : Inv g.ids K g.init := by
  constructor <;> simp [Graph.init, mem_dedup]

theorem length_init_lt (g : Graph) : g.init.undecided.length < runFuel g := by
  have := length_dedup_le g.ids
  simp only [Graph.init, runFuel, Graph.ids, List.length_append, List.length_map] at this ⊢
  omega

theorem length_ids (g : Graph) :
    g.ids.length = g.contents.length + g.skipped.length + g.dirs.length := by
  simp [Graph.ids]; omega

/-! ### concrete schedulers are valid -/

theorem sanitize_valid (n : Nat) (s : State) (l : List Id) (h : s.undecidedDirs ≠ []) :
    sanitize n s l ≠ [] ∧ ∀ x ∈ sanitize n s l, x ∈ s.undecidedDirs := by
  unfold sanitize
  simp only
  split
  · constructor
    · intro hnil
      rcases List.take_eq_nil_iff.mp hnil with h0 | h0
      · omega
      · exact h h0
    · intro x hx; exact (List.take_sublist _ _).mem hx
  · rename_i he
    constructor
    · intro hnil; exact he (by rw [hnil]; rfl)
    · intro x hx
      exact List.contains_iff_mem.mp (List.mem_filter.mp hx).2

theorem ne_nil_of_lt_length {n : Nat} {l : List Id} (h : n < l.length) : l ≠ [] := by
  intro h0; subst h0; simp at h

theorem validSched_script (n : Nat) : ValidSched n (scriptSched n) := by
  intro o s h
  obtain ⟨ss, ps⟩ := o
  cases ss with
  | nil => exact sanitize_valid n s [] (ne_nil_of_lt_length h)
  | cons l ss => exact sanitize_valid n s l (ne_nil_of_lt_length h)

theorem validSched_scriptIds (n : Nat) : ValidSched n (scriptSchedIds n) := by
  intro o s h
  obtain ⟨ss, ps⟩ := o
  cases ss with
  | nil => exact sanitize_valid n s [] (ne_nil_of_lt_length h)
  | cons l ss => exact sanitize_valid n s l (ne_nil_of_lt_length h)

/-- `random.sample(tuple(undecided_dirs), n)`: `n` distinct undecided directories -/
def StrictSample (n : Nat) (s : State) (l : List Id) : Prop :=
  l.Nodup ∧ (∀ x ∈ l, x ∈ s.undecidedDirs) ∧ l.length = n

theorem validSched_ofFun {n : Nat} (hn : 1 ≤ n) (pick : List Id → Nat) (sampler : State → List Id)
    (h : ∀ s : State, n < s.undecidedDirs.length → StrictSample n s (sampler s)) :
    ValidSched n (Sched.ofFun pick sampler) := by
  intro o s hl
  obtain ⟨_, h2, h3⟩ := h s hl
  refine ⟨?_, h2⟩
  intro hnil
  simp only [Sched.ofFun] at hnil
  rw [hnil] at h3
  simp at h3
  omega

/-! ### projections of `filterKnownObjects` -/

section proj
variable {ω : Type} (c s d : List Obj) (K : Id → Bool) (n : Nat) (O : Sched ω) (o : ω)

theorem fko_contents : (filterKnownObjects c s d K n O o).contents =
    c.filter (fun x => (discover ⟨c, s, d⟩ K n O o).1.st.unknown.contains x.id) := rfl
theorem fko_skipped : (filterKnownObjects c s d K n O o).skipped =
    s.filter (fun x => (discover ⟨c, s, d⟩ K n O o).1.st.unknown.contains x.id) := rfl
theorem fko_directories : (filterKnownObjects c s d K n O o).directories =
    d.filter (fun x => (discover ⟨c, s, d⟩ K n O o).1.st.unknown.contains x.id) := rfl
theorem fko_log : (filterKnownObjects c s d K n O o).log =
    (discover ⟨c, s, d⟩ K n O o).1.st.log := rfl
theorem fko_queries : (filterKnownObjects c s d K n O o).queries =
    (discover ⟨c, s, d⟩ K n O o).2 := rfl
theorem fko_ok : (filterKnownObjects c s d K n O o).ok =
    (discover ⟨c, s, d⟩ K n O o).1.ok := rfl

end proj

/-- once nothing is undecided, membership in `unknown` is exactly "missing from the archive" -/
theorem Inv.unknown_iff {I : List Id} {K : Id → Bool} {s : State} (h : Inv I K s)
    (hu : s.undecided = []) {x : Id} (hx : x ∈ I) : s.unknown.contains x = !K x := by
  cases hK : K x with
  | true =>
    cases hc : s.unknown.contains x with
    | false => rfl
    | true =>
      have := h.unknownK x (List.contains_iff_mem.mp hc)
      rw [hK] at this; cases this
  | false =>
    exact List.contains_iff_mem.mpr (h.decided_unknown hx (by rw [hu]; simp) hK)

end Swh.Discovery
