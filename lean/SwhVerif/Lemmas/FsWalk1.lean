import SwhVerif.Lemmas.FsPath
/-! Pass 1 of `from_disk` as coded (`walkLoop`: explicit `to_visit` stack, `dirs[root].update`,
    `filtered`) against its structural description. -/
namespace Swh.Fs
open Swh

/-! ### what one `scandir` round writes -/

/-- the `entries` dict of one round: an empty `Directory` for each sub-directory, the content
    for each accepted non-directory -/
def scanP (H : Bytes → Bytes) (f : PathFilter) (ml : Option Nat) :
    List (Bytes × FsNode) → List (Bytes × RNode)
  | [] => []
  | (n, c) :: rest =>
    match c with
    | .dir _ => (n, .directory []) :: scanP H f ml rest
    | leaf => if f n none then (n, walkP H f ml leaf) :: scanP H f ml rest else scanP H f ml rest

/-- the round meets an oversized symbolic link -/
def scanBad (f : PathFilter) (ml : Option Nat) : List (Bytes × FsNode) → Bool
  | [] => false
  | (n, c) :: rest =>
    match c with
    | .dir _ => scanBad f ml rest
    | leaf => (f n none && bad f ml leaf) || scanBad f ml rest

/-- the sub-directories of a listing, in listing order -/
def subdirs : List (Bytes × FsNode) → List (Bytes × List (Bytes × FsNode))
  | [] => []
  | (n, c) :: rest =>
    match c with
    | .dir ces => (n, ces) :: subdirs rest
    | _ => subdirs rest

def mkFrame (p : List Bytes) (s : Bytes × List (Bytes × FsNode)) : Frame := ⟨p ++ [s.1], s.2⟩

theorem scan_eq (H : Bytes → Bytes) (f : PathFilter) (ml : Option Nat) (rel : List Bytes)
    (es : List (Bytes × FsNode)) :
    scanEntries H f ml rel es =
      if scanBad f ml es then .error .symlinkTooLarge
      else .ok (scanP H f ml es, (subdirs es).map (mkFrame rel)) := by
  induction es with
  | nil => simp [scanEntries, scanBad, scanP, subdirs]
  | cons p r ih =>
    obtain ⟨n, c⟩ := p
    cases c with
    | dir ces =>
      simp only [scanEntries, ih, scanBad, scanP, subdirs]
      by_cases hb : scanBad f ml r <;> simp [hb, mkFrame]
    | file m d =>
      simp only [scanEntries, ih, scanBad, scanP, subdirs, fromFile, bad, walkP]
      by_cases hf : f n none <;> by_cases hb : scanBad f ml r <;> simp [hf, hb]
    | symlink t =>
      simp only [scanEntries, ih, scanBad, scanP, subdirs, fromFile, bad, walkP]
      by_cases hf : f n none <;> by_cases hb : scanBad f ml r <;>
        by_cases ht : tooLarge ml t.length <;> simp [hf, hb, ht]
    | special m =>
      simp only [scanEntries, ih, scanBad, scanP, subdirs, fromFile, bad, walkP]
      by_cases hf : f n none <;> by_cases hb : scanBad f ml r <;> simp [hf, hb]

theorem names_scanP_sub (H : Bytes → Bytes) (f : PathFilter) (ml : Option Nat) (es : List (Bytes × FsNode)) :
    (names (scanP H f ml es)).Sublist (names es) := by
  induction es with
  | nil => simp [scanP]
  | cons p r ih =>
    obtain ⟨n, c⟩ := p
    cases c with
    | dir ces => simp only [scanP, names_cons]; exact ih.cons₂ n
    | file m d =>
      simp only [scanP]; split
      · exact ih.cons₂ n
      · exact ih.cons n
    | symlink t =>
      simp only [scanP]; split
      · exact ih.cons₂ n
      · exact ih.cons n
    | special m =>
      simp only [scanP]; split
      · exact ih.cons₂ n
      · exact ih.cons n

theorem names_subdirs_sub (es : List (Bytes × FsNode)) : ((subdirs es).map (·.1)).Sublist (names es) := by
  induction es with
  | nil => simp [subdirs]
  | cons p r ih =>
    obtain ⟨n, c⟩ := p
    cases c with
    | dir ces => simp only [subdirs, List.map_cons, names_cons]; exact ih.cons₂ n
    | file m d => simp only [subdirs, names_cons]; exact ih.cons n
    | symlink t => simp only [subdirs, names_cons]; exact ih.cons n
    | special m => simp only [subdirs, names_cons]; exact ih.cons n

theorem mem_subdirs (es : List (Bytes × FsNode)) (s : Bytes × List (Bytes × FsNode)) :
    s ∈ subdirs es ↔ (s.1, FsNode.dir s.2) ∈ es := by
  induction es with
  | nil => simp [subdirs]
  | cons p r ih =>
    obtain ⟨n, c⟩ := p
    cases c with
    | dir ces =>
      simp only [subdirs, List.mem_cons, ih, Prod.mk.injEq, FsNode.dir.injEq]
      constructor
      · rintro (h | h)
        · subst h; exact Or.inl ⟨rfl, rfl⟩
        · exact Or.inr h
      · rintro (⟨h1, h2⟩ | h)
        · left; cases s; simp_all
        · exact Or.inr h
    | file m d => simp [subdirs, ih]
    | symlink t => simp [subdirs, ih]
    | special m => simp [subdirs, ih]

theorem assoc_scanP_subdir (H : Bytes → Bytes) (f : PathFilter) (ml : Option Nat)
    (es : List (Bytes × FsNode)) (hn : (names es).Nodup) (s : Bytes × List (Bytes × FsNode))
    (hs : s ∈ subdirs es) : assoc s.1 (scanP H f ml es) = some (.directory []) := by
  induction es with
  | nil => simp [subdirs] at hs
  | cons p r ih =>
    obtain ⟨n, c⟩ := p
    simp only [names_cons, List.nodup_cons] at hn
    have tail : s ∈ subdirs r → s.1 ≠ n := by
      intro h e
      have := (mem_subdirs r s).mp h
      exact hn.1 (e ▸ mem_names_of_mem this)
    cases c with
    | dir ces =>
      simp only [subdirs, List.mem_cons] at hs
      rcases hs with rfl | hs
      · simp [scanP, assoc]
      · simp [scanP, assoc, Ne.symm (tail hs), ih hn.2 hs]
    | file m d =>
      simp only [subdirs] at hs
      simp only [scanP]; split
      · simp [assoc, Ne.symm (tail hs), ih hn.2 hs]
      · exact ih hn.2 hs
    | symlink t =>
      simp only [subdirs] at hs
      simp only [scanP]; split
      · simp [assoc, Ne.symm (tail hs), ih hn.2 hs]
      · exact ih hn.2 hs
    | special m =>
      simp only [subdirs] at hs
      simp only [scanP]; split
      · simp [assoc, Ne.symm (tail hs), ih hn.2 hs]
      · exact ih hn.2 hs

/-! ### the tree the stack walk builds, the fuel it burns, the paths it files as `filtered` -/

mutual
/-- pass 1 *before* the `filtered` paths are deleted: a rejected sub-directory is still there,
    as the empty `Directory` created when its parent was scanned -/
def walkK (H : Bytes → Bytes) (f : PathFilter) (ml : Option Nat) : FsNode → RNode
  | .dir es => .directory (walkKL H f ml es)
  | .file m d => walkP H f ml (.file m d)
  | .symlink t => walkP H f ml (.symlink t)
  | .special m => walkP H f ml (.special m)
def walkKL (H : Bytes → Bytes) (f : PathFilter) (ml : Option Nat) :
    List (Bytes × FsNode) → List (Bytes × RNode)
  | [] => []
  | (n, c) :: rest =>
    match c with
    | .dir ces =>
      if f n (some (names ces)) then (n, walkK H f ml c) :: walkKL H f ml rest
      else (n, .directory []) :: walkKL H f ml rest
    | leaf =>
      if f n none then (n, walkP H f ml leaf) :: walkKL H f ml rest else walkKL H f ml rest
end

mutual
/-- number of `to_visit.pop()` spent below a directory that is scanned -/
def pops (f : PathFilter) : FsNode → Nat
  | .dir es => popsL f es
  | _ => 0
def popsL (f : PathFilter) : List (Bytes × FsNode) → Nat
  | [] => 0
  | (n, c) :: rest =>
    match c with
    | .dir ces => popsL f rest + (1 + if f n (some (names ces)) then pops f c else 0)
    | _ => popsL f rest
end

mutual
/-- the paths appended to `filtered` below a directory that is scanned, in append order (the
    stack visits the sub-directories last-listed first) -/
def rej (f : PathFilter) : List Bytes → FsNode → List (List Bytes)
  | rel, .dir es => rejL f rel es
  | _, _ => []
def rejL (f : PathFilter) : List Bytes → List (Bytes × FsNode) → List (List Bytes)
  | _, [] => []
  | rel, (n, c) :: rest =>
    match c with
    | .dir ces =>
      rejL f rel rest ++ (if f n (some (names ces)) then rej f (rel ++ [n]) c else [rel ++ [n]])
    | _ => rejL f rel rest
end

theorem walkKL_dir (H : Bytes → Bytes) (f : PathFilter) (ml : Option Nat) (n : Bytes)
    (ces rest : List (Bytes × FsNode)) :
    walkKL H f ml ((n, .dir ces) :: rest) =
      if f n (some (names ces)) then (n, .directory (walkKL H f ml ces)) :: walkKL H f ml rest
      else (n, .directory []) :: walkKL H f ml rest := by rfl

theorem popsL_dir (f : PathFilter) (n : Bytes) (ces rest : List (Bytes × FsNode)) :
    popsL f ((n, .dir ces) :: rest) =
      popsL f rest + (1 + if f n (some (names ces)) then popsL f ces else 0) := by rfl

theorem rejL_dir (f : PathFilter) (rel : List Bytes) (n : Bytes) (ces rest : List (Bytes × FsNode)) :
    rejL f rel ((n, .dir ces) :: rest) =
      rejL f rel rest ++ (if f n (some (names ces)) then rejL f (rel ++ [n]) ces else [rel ++ [n]]) := by
  rfl

/-! ### the stack discipline -/

/-- cost, effect on the parent's entries, and `filtered` contribution of a run of sibling
    frames, in the order they are popped -/
def acc (f : PathFilter) (s : Bytes × List (Bytes × FsNode)) : Bool := f s.1 (some (names s.2))

def costR (f : PathFilter) : List (Bytes × List (Bytes × FsNode)) → Nat
  | [] => 0
  | s :: r => (1 + if acc f s then popsL f s.2 else 0) + costR f r

def fillR (H : Bytes → Bytes) (f : PathFilter) (ml : Option Nat) :
    List (Bytes × List (Bytes × FsNode)) → List (Bytes × RNode) → List (Bytes × RNode)
  | [], E => E
  | s :: r, E =>
    fillR H f ml r (if acc f s then dictSet s.1 (.directory (walkKL H f ml s.2)) E else E)

def rejR (f : PathFilter) (p : List Bytes) : List (Bytes × List (Bytes × FsNode)) → List (List Bytes)
  | [] => []
  | s :: r => (if acc f s then rejL f (p ++ [s.1]) s.2 else [p ++ [s.1]]) ++ rejR f p r

def badR (f : PathFilter) (ml : Option Nat) : List (Bytes × List (Bytes × FsNode)) → Bool
  | [] => false
  | s :: r => (acc f s && badL f ml s.2) || badR f ml r

theorem walkLoop_succ (H : Bytes → Bytes) (f : PathFilter) (ml : Option Nat) (fuel : Nat) (fr : Frame)
    (stack : List Frame) (tree : RNode) (filt : List (List Bytes)) :
    walkLoop H f ml (fuel + 1) (fr :: stack) tree filt =
      if fr.rel ≠ [] && !f (fr.rel.getLastD []) (some (names fr.listing)) then
        walkLoop H f ml fuel stack tree (filt ++ [fr.rel])
      else
        match scanEntries H f ml fr.rel fr.listing with
        | .error e => .error e
        | .ok (entries, pushes) =>
          match RNode.updateAt fr.rel entries tree with
          | .error e => .error e
          | .ok tree' => walkLoop H f ml fuel (pushes.reverse ++ stack) tree' filt := by
  rfl

/-- what scanning one accepted frame, and everything it pushes, amounts to -/
def FrameOK (H : Bytes → Bytes) (f : PathFilter) (ml : Option Nat) (ces : List (Bytes × FsNode)) : Prop :=
  ∀ (p : List Bytes) (stack : List Frame) (tree : RNode) (filt : List (List Bytes)) (fuel' : Nat),
    getAt tree p = some (.directory []) →
    (p = [] ∨ f (p.getLastD []) (some (names ces)) = true) →
    walkLoop H f ml (popsL f ces + fuel' + 1) (⟨p, ces⟩ :: stack) tree filt =
      if badL f ml ces then .error .symlinkTooLarge
      else walkLoop H f ml fuel' stack (setAt p (.directory (walkKL H f ml ces)) tree)
            (filt ++ rejL f p ces)

theorem getLastD_concat (p : List Bytes) (n : Bytes) : (p ++ [n]).getLastD [] = n := by
  simp [List.getLastD_eq_getLast?]

/-- a run of sibling frames on top of the stack -/
theorem run_siblings (H : Bytes → Bytes) (f : PathFilter) (ml : Option Nat) (p : List Bytes)
    (tree0 : RNode) (hp : (getAt tree0 p).isSome) (stack : List Frame) (fuel' : Nat) :
    ∀ (R : List (Bytes × List (Bytes × FsNode))) (E : List (Bytes × RNode)) (filt : List (List Bytes)),
      (∀ s ∈ R, FrameOK H f ml s.2) → (R.map (·.1)).Nodup →
      (∀ s ∈ R, assoc s.1 E = some (.directory [])) →
      walkLoop H f ml (costR f R + fuel') (R.map (mkFrame p) ++ stack) (setAt p (.directory E) tree0) filt =
        if badR f ml R then .error .symlinkTooLarge
        else walkLoop H f ml fuel' stack (setAt p (.directory (fillR H f ml R E)) tree0)
              (filt ++ rejR f p R) := by
  intro R
  induction R with
  | nil => intro E filt _ _ _; simp [costR, badR, fillR, rejR]
  | cons s R' ih =>
    intro E filt hok hnd hE
    simp only [List.map_cons, List.nodup_cons] at hnd
    have hok' : ∀ s' ∈ R', FrameOK H f ml s'.2 := fun s' hs' => hok s' (by simp [hs'])
    have hne : ∀ s' ∈ R', s'.1 ≠ s.1 := by
      intro s' hs' e
      exact hnd.1 (List.mem_map.mpr ⟨s', hs', e⟩)
    by_cases ha : acc f s = true
    · -- accepted: the frame and all it pushes are processed first
      have hfuel : costR f (s :: R') + fuel' = popsL f s.2 + (costR f R' + fuel') + 1 := by
        simp only [costR, ha, if_true]; omega
      have hget : getAt (setAt p (.directory E) tree0) (p ++ [s.1]) = some (.directory []) := by
        rw [getAt_append, getAt_setAt_same p _ tree0 hp]
        simp [getAt, hE s (by simp)]
      have hacc : (p ++ [s.1] = [] ∨ f ((p ++ [s.1]).getLastD []) (some (names s.2)) = true) := by
        right; rw [getLastD_concat]; exact ha
      have := hok s (by simp) (p ++ [s.1]) (R'.map (mkFrame p) ++ stack) (setAt p (.directory E) tree0) filt
        (costR f R' + fuel') hget hacc
      simp only [List.map_cons, List.cons_append, mkFrame] at this ⊢
      rw [hfuel, this]
      by_cases hb : badL f ml s.2 = true
      · simp [badR, ha, hb]
      · simp only [hb, Bool.false_eq_true, if_false]
        rw [setAt_setAt_child p s.1 _ E tree0 hp (by simp [hE s (by simp)])]
        have hE' : ∀ s' ∈ R', assoc s'.1 (dictSet s.1 (.directory (walkKL H f ml s.2)) E) = some (.directory []) := by
          intro s' hs'
          rw [assoc_dictSet_ne _ _ _ _ (hne s' hs')]
          exact hE s' (by simp [hs'])
        have := ih _ (filt ++ rejL f (p ++ [s.1]) s.2) hok' hnd.2 hE'
        rw [this]
        simp [badR, ha, hb, fillR, rejR, List.append_assoc]
    · -- rejected: filed, not scanned
      have ha' : acc f s = false := by simpa using ha
      have hfuel : costR f (s :: R') + fuel' = (costR f R' + fuel') + 1 := by
        simp only [costR, ha', Bool.false_eq_true, if_false]; omega
      simp only [List.map_cons, List.cons_append]
      rw [hfuel, walkLoop_succ]
      have hcond : (decide ((mkFrame p s).rel ≠ []) && !f ((mkFrame p s).rel.getLastD [])
          (some (names (mkFrame p s).listing))) = true := by
        simp only [mkFrame, getLastD_concat]
        have : f s.1 (some (names s.2)) = false := ha'
        simp [this]
      rw [if_pos hcond]
      have hE' : ∀ s' ∈ R', assoc s'.1 E = some (.directory []) := fun s' hs' => hE s' (by simp [hs'])
      have := ih E (filt ++ [(mkFrame p s).rel]) hok' hnd.2 hE'
      rw [this]
      simp [badR, ha', fillR, rejR, mkFrame, List.append_assoc]

/-! ### the run of the sub-directories of one listing, popped last-listed first -/

theorem costR_append (f : PathFilter) (A : List (Bytes × List (Bytes × FsNode))) (s) :
    costR f (A ++ [s]) = costR f A + (1 + if acc f s then popsL f s.2 else 0) := by
  induction A with
  | nil => simp [costR]
  | cons a A ih => simp only [List.cons_append, costR, ih]; omega

theorem fillR_append (H : Bytes → Bytes) (f : PathFilter) (ml : Option Nat)
    (A : List (Bytes × List (Bytes × FsNode))) (s) (E : List (Bytes × RNode)) :
    fillR H f ml (A ++ [s]) E =
      (if acc f s then dictSet s.1 (.directory (walkKL H f ml s.2)) (fillR H f ml A E)
       else fillR H f ml A E) := by
  induction A generalizing E with
  | nil => simp [fillR]
  | cons a A ih => simp only [List.cons_append, fillR, ih]

theorem rejR_append (f : PathFilter) (p : List Bytes) (A : List (Bytes × List (Bytes × FsNode))) (s) :
    rejR f p (A ++ [s]) = rejR f p A ++ (if acc f s then rejL f (p ++ [s.1]) s.2 else [p ++ [s.1]]) := by
  induction A with
  | nil => simp [rejR]
  | cons a A ih => simp only [List.cons_append, rejR, ih, List.append_assoc]

theorem badR_append (f : PathFilter) (ml : Option Nat) (A : List (Bytes × List (Bytes × FsNode))) (s) :
    badR f ml (A ++ [s]) = (badR f ml A || (acc f s && badL f ml s.2)) := by
  induction A with
  | nil => simp [badR]
  | cons a A ih => simp only [List.cons_append, badR, ih, Bool.or_assoc]

theorem fillR_cons_ne (H : Bytes → Bytes) (f : PathFilter) (ml : Option Nat)
    (A : List (Bytes × List (Bytes × FsNode))) (k : Bytes) (X : RNode) (E : List (Bytes × RNode))
    (h : ∀ s ∈ A, s.1 ≠ k) : fillR H f ml A ((k, X) :: E) = (k, X) :: fillR H f ml A E := by
  induction A generalizing E with
  | nil => simp [fillR]
  | cons a A ih =>
    have ha : a.1 ≠ k := h a (by simp)
    have hA : ∀ s ∈ A, s.1 ≠ k := fun s hs => h s (by simp [hs])
    simp only [fillR]
    by_cases hc : acc f a = true
    · simp only [hc, if_true, dictSet, Ne.symm ha, if_false]; exact ih _ hA
    · simp only [hc, Bool.false_eq_true, if_false]; exact ih _ hA

theorem subdirs_ne (r : List (Bytes × FsNode)) (n : Bytes) (hn : n ∉ names r) :
    ∀ s ∈ (subdirs r).reverse, s.1 ≠ n := by
  intro s hs e
  rw [List.mem_reverse, mem_subdirs] at hs
  exact hn (e ▸ mem_names_of_mem hs)

theorem costR_subdirs (f : PathFilter) (es : List (Bytes × FsNode)) :
    costR f (subdirs es).reverse = popsL f es := by
  induction es with
  | nil => simp [subdirs, costR, popsL]
  | cons p r ih =>
    obtain ⟨n, c⟩ := p
    cases c with
    | dir ces =>
      have e : subdirs ((n, .dir ces) :: r) = (n, ces) :: subdirs r := rfl
      rw [e, List.reverse_cons, costR_append, ih, popsL_dir]; rfl
    | file m d => simpa [subdirs, popsL] using ih
    | symlink t => simpa [subdirs, popsL] using ih
    | special m => simpa [subdirs, popsL] using ih

theorem rejR_subdirs (f : PathFilter) (p : List Bytes) (es : List (Bytes × FsNode)) :
    rejR f p (subdirs es).reverse = rejL f p es := by
  induction es with
  | nil => simp [subdirs, rejR, rejL]
  | cons q r ih =>
    obtain ⟨n, c⟩ := q
    cases c with
    | dir ces =>
      have e : subdirs ((n, .dir ces) :: r) = (n, ces) :: subdirs r := rfl
      rw [e, List.reverse_cons, rejR_append, ih, rejL_dir]; rfl
    | file m d => simpa [subdirs, rejL] using ih
    | symlink t => simpa [subdirs, rejL] using ih
    | special m => simpa [subdirs, rejL] using ih

theorem badL_split (f : PathFilter) (ml : Option Nat) (es : List (Bytes × FsNode)) :
    badL f ml es = (scanBad f ml es || badR f ml (subdirs es).reverse) := by
  induction es with
  | nil => simp [subdirs, badR, badL, scanBad]
  | cons q r ih =>
    obtain ⟨n, c⟩ := q
    cases c with
    | dir ces =>
      simp only [subdirs, List.reverse_cons, badR_append, badL, accepts, bad, ih, scanBad, acc]
      cases scanBad f ml r <;> cases badR f ml (subdirs r).reverse <;>
        cases (f n (some (names ces)) && badL f ml ces) <;> rfl
    | file m d => simp only [subdirs, badL, accepts, scanBad, ih, Bool.or_assoc]
    | symlink t => simp only [subdirs, badL, accepts, scanBad, ih, Bool.or_assoc]
    | special m => simp only [subdirs, badL, accepts, scanBad, ih, Bool.or_assoc]

theorem fillR_subdirs (H : Bytes → Bytes) (f : PathFilter) (ml : Option Nat) (es : List (Bytes × FsNode))
    (hn : (names es).Nodup) :
    fillR H f ml (subdirs es).reverse (scanP H f ml es) = walkKL H f ml es := by
  induction es with
  | nil => simp [subdirs, fillR, scanP, walkKL]
  | cons q r ih =>
    obtain ⟨n, c⟩ := q
    simp only [names_cons, List.nodup_cons] at hn
    have hne := subdirs_ne r n hn.1
    cases c with
    | dir ces =>
      simp only [subdirs, List.reverse_cons, fillR_append, scanP, fillR_cons_ne H f ml _ n _ _ hne,
        ih hn.2, walkKL_dir, acc]
      by_cases h : f n (some (names ces)) = true <;> simp [h, dictSet]
    | file m d =>
      simp only [subdirs, scanP, walkKL]
      by_cases h : f n none = true
      · simp only [h, if_true, fillR_cons_ne H f ml _ n _ _ hne, ih hn.2]
      · simp only [h, Bool.false_eq_true, if_false, ih hn.2]
    | symlink t =>
      simp only [subdirs, scanP, walkKL]
      by_cases h : f n none = true
      · simp only [h, if_true, fillR_cons_ne H f ml _ n _ _ hne, ih hn.2]
      · simp only [h, Bool.false_eq_true, if_false, ih hn.2]
    | special m =>
      simp only [subdirs, scanP, walkKL]
      by_cases h : f n none = true
      · simp only [h, if_true, fillR_cons_ne H f ml _ n _ _ hne, ih hn.2]
      · simp only [h, Bool.false_eq_true, if_false, ih hn.2]

/-- every accepted frame behaves as `FrameOK` says -/
theorem frameOK_all (H : Bytes → Bytes) (f : PathFilter) (ml : Option Nat) :
    ∀ t, ∀ ces, t = .dir ces → WfFs t → FrameOK H f ml ces := by
  apply FsNode.induct
  · intro m d ces h; cases h
  · intro x ces h; cases h
  · intro m ces h; cases h
  · intro es ih ces0 h hw
    cases h
    have hw' := (WfFs_dir es).mp hw
    intro p stack tree filt fuel' hget hacc
    rw [walkLoop_succ]
    have hcond : (decide (p ≠ []) && !f (p.getLastD []) (some (names es))) = false := by
      rcases hacc with h | h
      · subst h; rfl
      · rw [h]; simp
    have hneg : ¬ ((decide ((⟨p, es⟩ : Frame).rel ≠ []) && !f ((⟨p, es⟩ : Frame).rel.getLastD [])
        (some (names (⟨p, es⟩ : Frame).listing))) = true) := by
      show ¬ ((decide (p ≠ []) && !f (p.getLastD []) (some (names es))) = true)
      rw [hcond]; exact Bool.false_ne_true
    rw [if_neg hneg]
    simp only [scan_eq]
    rw [badL_split]
    by_cases hsb : scanBad f ml es = true
    · simp [hsb]
    · simp only [hsb, Bool.false_eq_true, if_false, Bool.false_or]
      have hnd : (names (scanP H f ml es)).Nodup := (names_scanP_sub H f ml es).nodup hw'.2.1
      rw [updateAt_eq p _ [] tree hget, dictUpdate_nil _ hnd]
      simp only [← List.map_reverse]
      have hok : ∀ s ∈ (subdirs es).reverse, FrameOK H f ml s.2 := by
        intro s hs
        rw [List.mem_reverse, mem_subdirs] at hs
        exact ih (s.1, .dir s.2) hs s.2 rfl (hw'.2.2 _ hs)
      have hnd2 : ((subdirs es).reverse.map (·.1)).Nodup := by
        rw [List.map_reverse]
        have := (names_subdirs_sub es).nodup hw'.2.1
        unfold List.Nodup at this ⊢
        rw [List.pairwise_reverse]
        exact this.imp (fun h => Ne.symm h)
      have hE : ∀ s ∈ (subdirs es).reverse, assoc s.1 (scanP H f ml es) = some (.directory []) := by
        intro s hs
        rw [List.mem_reverse] at hs
        exact assoc_scanP_subdir H f ml es hw'.2.1 s hs
      have := run_siblings H f ml p tree (by simp [hget]) stack fuel' (subdirs es).reverse
        (scanP H f ml es) filt hok hnd2 hE
      rw [costR_subdirs, fillR_subdirs H f ml es hw'.2.1, rejR_subdirs] at this
      exact this

theorem popsL_le_sizeL (f : PathFilter) :
    (∀ t, pops f t + 1 ≤ FsNode.size t) ∧ (∀ es, popsL f es ≤ FsNode.sizeL es) := by
  apply FsNode.induct2
  · intro m d; simp [pops, FsNode.size]
  · intro t; simp [pops, FsNode.size]
  · intro m; simp [pops, FsNode.size]
  · intro es ih; simp only [pops, FsNode.size]; omega
  · simp [popsL, FsNode.sizeL]
  · intro n c rest hc hr
    cases c with
    | dir ces =>
      simp only [popsL_dir, FsNode.sizeL]
      simp only [pops] at hc
      split <;> omega
    | file m d => simp only [popsL, FsNode.sizeL]; omega
    | symlink t => simp only [popsL, FsNode.sizeL]; omega
    | special m => simp only [popsL, FsNode.sizeL]; omega

/-- **the `while to_visit` loop, from the top** -/
theorem walkLoop_top (H : Bytes → Bytes) (f : PathFilter) (ml : Option Nat) (es : List (Bytes × FsNode))
    (hw : WfFs (.dir es)) :
    walkLoop H f ml (FsNode.size (.dir es)) [⟨[], es⟩] (.directory []) [] =
      if badL f ml es then .error .symlinkTooLarge
      else .ok (.directory (walkKL H f ml es), rejL f [] es) := by
  have hle := (popsL_le_sizeL f).2 es
  have hsz : FsNode.size (.dir es) = popsL f es + (FsNode.sizeL es - popsL f es) + 1 := by
    simp only [FsNode.size]; omega
  rw [hsz, frameOK_all H f ml (.dir es) es rfl hw [] [] (.directory []) [] _ (by simp [getAt]) (Or.inl rfl)]
  by_cases hb : badL f ml es = true
  · simp [hb]
  · simp only [hb, Bool.false_eq_true, if_false, setAt, List.nil_append]
    cases (FsNode.sizeL es - popsL f es) <;> rfl

end Swh.Fs
