import SwhVerif.Lemmas.FsFilter
/-! Well-formedness unpacked, the unfiltered reader as a `map`, lookups (C06 `nested_lookup`). -/
namespace Swh.Fs
open Swh

/-! ### well-formedness -/

theorem distinct_iff (l : List Bytes) : distinct l = true ↔ l.Nodup := by
  induction l with
  | nil => simp [distinct]
  | cons a r ih => simp [distinct, ih]

theorem wfFsL_iff (es : List (Bytes × FsNode)) : wfFsL es = true ↔ ∀ p ∈ es, wfFs p.2 = true := by
  induction es with
  | nil => simp [wfFsL]
  | cons p r ih => obtain ⟨n, c⟩ := p; simp [wfFsL, ih]

theorem nameOk_iff (n : Bytes) : nameOk n = true ↔ n ≠ [] ∧ bSlash ∉ n ∧ bNUL ∉ n := by
  cases n <;> simp [nameOk]

theorem WfFs_dir (es : List (Bytes × FsNode)) :
    WfFs (.dir es) ↔ (∀ n ∈ names es, n ≠ [] ∧ bSlash ∉ n ∧ bNUL ∉ n) ∧ (names es).Nodup ∧
      ∀ p ∈ es, WfFs p.2 := by
  unfold WfFs
  simp only [wfFs, Bool.and_eq_true, List.all_eq_true, distinct_iff, wfFsL_iff, nameOk_iff,
    and_assoc]

theorem WfFs_cons' {n : Bytes} {c : FsNode} {rest : List (Bytes × FsNode)}
    (h : WfFs (.dir ((n, c) :: rest))) : WfFs c ∧ WfFs (.dir rest) ∧ n ∉ names rest := by
  have hw := (WfFs_dir _).mp h
  refine ⟨hw.2.2 (n, c) (by simp), ?_, ?_⟩
  · rw [WfFs_dir]
    refine ⟨fun x hx => hw.1 x (by simp [hx]), ?_, fun p hp => hw.2.2 p (by simp [hp])⟩
    have := hw.2.1; simp only [names_cons, List.nodup_cons] at this; exact this.2
  · have := hw.2.1; simp only [names_cons, List.nodup_cons] at this; exact this.1

theorem WfFs.child {es : List (Bytes × FsNode)} (h : WfFs (.dir es)) {n : Bytes} {c : FsNode}
    (hm : (n, c) ∈ es) : WfFs c := ((WfFs_dir es).mp h).2.2 (n, c) hm

theorem WfFs.sub {t : FsNode} (h : WfFs t) : ∀ (p : List Bytes) (s : FsNode), t.sub p = some s → WfFs s := by
  intro p
  induction p generalizing t with
  | nil => intro s hs; cases t <;> simp [FsNode.sub] at hs <;> subst hs <;> exact h
  | cons c rest ih =>
    intro s hs
    cases t with
    | dir es =>
      simp only [FsNode.sub] at hs
      cases ha : assoc c es with
      | none => simp [ha] at hs
      | some ch =>
        simp only [ha] at hs
        exact ih (h.child (assoc_mem c es ch ha)) s hs
    | _ => simp [FsNode.sub] at hs

/-! ### the unfiltered reader -/

/-- the reading of one on-disk node, no filter: `Content.from_file` for a non-directory, the
    `Directory` of the readings of its children (in listing order) for a directory -/
def readNode (H : Bytes → Bytes) (ml : Option Nat) (t : FsNode) : RNode := walkP H acceptAllPaths ml t

theorem accepts_acceptAll (n : Bytes) (c : FsNode) : accepts acceptAllPaths n c = true := by
  cases c <;> simp [accepts, acceptAllPaths]

theorem walkPL_acceptAll (H : Bytes → Bytes) (ml : Option Nat) (es : List (Bytes × FsNode)) :
    walkPL H acceptAllPaths ml es = es.map (fun p => (p.1, readNode H ml p.2)) := by
  induction es with
  | nil => simp [walkPL]
  | cons p r ih => obtain ⟨n, c⟩ := p; simp [walkPL, accepts_acceptAll, ih, readNode]

theorem readNode_dir (H : Bytes → Bytes) (ml : Option Nat) (es : List (Bytes × FsNode)) :
    readNode H ml (.dir es) = .directory (es.map (fun p => (p.1, readNode H ml p.2))) := by
  simp [readNode, walkP, walkPL_acceptAll]

theorem entriesOf_eq_map (H : Bytes → Bytes) (rs : List (Bytes × RNode)) :
    entriesOf H rs = rs.map (fun p => mkEntry p.1 p.2 (p.2.id H)) := by
  induction rs with
  | nil => simp [entriesOf]
  | cons p r ih => obtain ⟨n, c⟩ := p; simp [entriesOf, ih]

/-- a successful unfiltered read returns `readNode` of the top -/
theorem readTree_acceptAll_ok (H : Bytes → Bytes) (ml : Option Nat) (t : FsNode) (r : RNode)
    (h : readTree H acceptAllPaths ml t = .ok r) : r = readNode H ml t ∧ t.isDirNode = true := by
  cases t with
  | dir es =>
    rw [readTree_eq] at h
    by_cases hb : badL acceptAllPaths ml es
    · simp [hb] at h
    · simp only [hb] at h
      simp only [Bool.false_eq_true, if_false, Except.ok.injEq] at h
      rw [← h, refilter_acceptAll.1]; simp [readNode, walkP, FsNode.isDirNode]
  | _ => simp [readTree] at h

theorem readTree_acceptAll_none (H : Bytes → Bytes) (es : List (Bytes × FsNode)) :
    readTree H acceptAllPaths none (.dir es) = .ok (readNode H none (.dir es)) := by
  rw [readTree_eq, (bad_none _).2]; simp [refilter_acceptAll.1, readNode, walkP]

/-! ### lookups -/

theorem assoc_map {α β} (g : α → β) (n : Bytes) (es : List (Bytes × α)) :
    assoc n (es.map (fun p => (p.1, g p.2))) = (assoc n es).map g := by
  induction es with
  | nil => simp [assoc]
  | cons p r ih =>
    obtain ⟨k, v⟩ := p
    by_cases h : k = n <;> simp [assoc, h, ih]

/-- **Nested lookup**: the node at a path of the result is the reading of the on-disk node at
    that path (and there is none exactly when the path does not exist on disk). -/
theorem lookup_readNode (H : Bytes → Bytes) (ml : Option Nat) (t : FsNode) (path : List Bytes)
    (hp : ∀ c ∈ path, c ≠ []) :
    (readNode H ml t).lookup path = (t.sub path).map (readNode H ml) := by
  induction path generalizing t with
  | nil => cases t <;> simp [RNode.lookup, FsNode.sub]
  | cons c rest ih =>
    have hc : c ≠ [] := hp c (by simp)
    have hrest : ∀ c ∈ rest, c ≠ [] := fun x hx => hp x (by simp [hx])
    cases t with
    | dir es =>
      rw [readNode_dir]
      simp only [RNode.lookup, hc, if_false, FsNode.sub, assoc_map]
      cases assoc c es with
      | none => simp
      | some ch => simp [ih ch hrest]
    | file m d => simp [readNode, walkP, RNode.lookup, FsNode.sub]
    | symlink t => simp [readNode, walkP, RNode.lookup, FsNode.sub]
    | special m => simp [readNode, walkP, RNode.lookup, FsNode.sub]

/-- an empty component (`a//b`, leading or trailing `/`) stays on the current directory -/
theorem lookup_empty_component (es : List (Bytes × RNode)) (rest : List Bytes) :
    (RNode.directory es).lookup ([] :: rest) = (RNode.directory es).lookup rest := by
  simp [RNode.lookup]

end Swh.Fs
