import SwhVerif.Lemmas.FsWalk2
import SwhVerif.Lemmas.FsWalk5
/-! `fromDisk` (as coded) = `readTree` (structural). -/
namespace Swh.Fs
open Swh

/-! ### the re-filtering loop, step by step -/

theorem delAt_directory (q : List Bytes) (E : List (Bytes × RNode)) :
    ∃ E', delAt q (.directory E) = .directory E' := by
  cases q with
  | nil => exact ⟨E, rfl⟩
  | cons c q' =>
    cases q' with
    | nil => exact ⟨_, rfl⟩
    | cons c2 r =>
      simp only [delAt]
      cases assoc c E with
      | none => exact ⟨_, rfl⟩
      | some X => exact ⟨_, rfl⟩

/-- deleting at `q` keeps every path that does not extend `q` a directory path -/
theorem isDir_delAt (q : List Bytes) : ∀ (t : RNode) (p : List Bytes), ¬ q <+: p →
    (∃ es, getAt t p = some (.directory es)) → ∃ es, getAt (delAt q t) p = some (.directory es) := by
  induction q with
  | nil => intro t p h; exact absurd List.nil_prefix h
  | cons c q' ih =>
    intro t p hnp hg
    cases t with
    | content cc => simpa [delAt] using hg
    | directory E =>
      cases p with
      | nil =>
        obtain ⟨E', hE'⟩ := delAt_directory (c :: q') E
        exact ⟨E', by simp [getAt, hE']⟩
      | cons c' p' =>
        obtain ⟨es, hg⟩ := hg
        by_cases hc : c' = c
        · subst hc
          have hnp' : ¬ q' <+: p' := fun h => hnp (List.cons_prefix_cons.mpr ⟨rfl, h⟩)
          cases q' with
          | nil => exact absurd List.nil_prefix hnp'
          | cons c2 r =>
            simp only [getAt] at hg
            cases ha : assoc c' E with
            | none => simp [ha] at hg
            | some X =>
              simp only [ha] at hg
              obtain ⟨es', hes'⟩ := ih X p' hnp' ⟨es, hg⟩
              exact ⟨es', by simp [delAt, ha, getAt, assoc_dictSet_same, hes']⟩
        · refine ⟨es, ?_⟩
          cases q' with
          | nil => simpa [delAt, getAt, assoc_dictDel_ne c' c E hc] using hg
          | cons c2 r =>
            simp only [delAt]
            cases ha : assoc c E with
            | none => exact hg
            | some X => simpa [getAt, assoc_dictSet_ne c' c _ E hc] using hg

theorem isDir_stepAt (f : PathFilter) (q : List Bytes) (t : RNode) (p : List Bytes) (h : ¬ q <+: p)
    (hg : ∃ es, getAt t p = some (.directory es)) : ∃ es, getAt (stepAt f q t) p = some (.directory es) := by
  unfold stepAt
  cases getAt t q with
  | none => exact hg
  | some Y =>
    cases Y with
    | content cc => exact hg
    | directory es =>
      simp only
      split
      · exact isDir_delAt q t p h hg
      · exact hg

theorem rejects_eq (f : PathFilter) (p : List Bytes) (es : List (Bytes × RNode)) :
    (decide (p ≠ []) && !f (p.getLastD []) (some (names es))) = rejects f p es := by
  cases p with
  | nil => rfl
  | cons c q => simp [rejects]

theorem refilterStep_eq (f : PathFilter) (t : RNode) (p : List Bytes) (hp : ∀ c ∈ p, c ≠ [])
    (hg : ∃ es, getAt t p = some (.directory es)) : refilterStep f t p = .ok (stepAt f p t) := by
  obtain ⟨es, hg⟩ := hg
  unfold refilterStep stepAt
  rw [lookup_eq_getAt t p hp, hg]
  simp only [rejects_eq]
  by_cases hr : rejects f p es = true
  · simp only [hr, if_true]
    have hne : p ≠ [] := by
      intro e; subst e; simp [rejects] at hr
    exact deleteAt_eq p t hne (by simp [hg])
  · simp [hr]

/-- the loop runs without error and computes the fold of the pure steps -/
theorem refilterLoop_eq (f : PathFilter) (L : List (List Bytes)) :
    ∀ (t : RNode), DescFirst L → (∀ p ∈ L, ∀ c ∈ p, c ≠ []) →
      (∀ p ∈ L, ∃ es, getAt t p = some (.directory es)) →
      refilterLoop f L t = .ok (foldSteps f L t) := by
  induction L with
  | nil => intro t _ _ _; rfl
  | cons p L ih =>
    intro t hd hne hg
    unfold DescFirst at hd
    rw [List.pairwise_cons] at hd
    simp only [refilterLoop, refilterStep_eq f t p (hne p (by simp)) (hg p (by simp))]
    have := ih (stepAt f p t) hd.2 (fun q hq => hne q (by simp [hq]))
      (fun q hq => isDir_stepAt f p t q (hd.1 q hq) (hg q (by simp [hq])))
    rw [this]
    rfl

/-! ### well-formedness of what pass 1 builds -/

theorem RWf_intro (E : List (Bytes × RNode)) (hn : (names E).Nodup) (hne : ∀ n ∈ names E, n ≠ [])
    (hch : ∀ p ∈ E, RWf p.2) : RWf (.directory E) := by
  intro p es hg
  cases p with
  | nil =>
    simp only [getAt, Option.some.injEq, RNode.directory.injEq] at hg
    subst hg; exact ⟨hn, hne⟩
  | cons c q =>
    simp only [getAt] at hg
    cases ha : assoc c E with
    | none => simp [ha] at hg
    | some X =>
      simp only [ha] at hg
      exact hch (c, X) (assoc_mem c E X ha) q es hg

theorem RWf_content (c : Content) : RWf (.content c) := by
  intro p es hg
  cases p <;> simp [getAt] at hg

theorem names_walkPL_sub (H : Bytes → Bytes) (f : PathFilter) (ml : Option Nat) (es : List (Bytes × FsNode)) :
    (names (walkPL H f ml es)).Sublist (names es) := by
  induction es with
  | nil => simp [walkPL]
  | cons p r ih =>
    obtain ⟨n, c⟩ := p
    simp only [walkPL]
    split
    · exact ih.cons₂ n
    · exact ih.cons n

theorem mem_walkPL (H : Bytes → Bytes) (f : PathFilter) (ml : Option Nat) (es : List (Bytes × FsNode))
    (x : Bytes × RNode) (hx : x ∈ walkPL H f ml es) : ∃ c, (x.1, c) ∈ es ∧ x.2 = walkP H f ml c := by
  induction es with
  | nil => simp [walkPL] at hx
  | cons p r ih =>
    obtain ⟨n, c⟩ := p
    simp only [walkPL] at hx
    split at hx
    · simp only [List.mem_cons] at hx
      rcases hx with rfl | hx
      · exact ⟨c, by simp, rfl⟩
      · obtain ⟨c', hc', he⟩ := ih hx; exact ⟨c', by simp [hc'], he⟩
    · obtain ⟨c', hc', he⟩ := ih hx; exact ⟨c', by simp [hc'], he⟩

theorem RWf_walkP (H : Bytes → Bytes) (f : PathFilter) (ml : Option Nat) :
    ∀ t, WfFs t → RWf (walkP H f ml t) := by
  apply FsNode.induct
  · intro m d _; exact RWf_content _
  · intro t _; exact RWf_content _
  · intro m _; exact RWf_content _
  · intro es ih hw
    have hw' := (WfFs_dir es).mp hw
    simp only [walkP]
    apply RWf_intro
    · exact (names_walkPL_sub H f ml es).nodup hw'.2.1
    · intro n hn; exact (hw'.1 n ((names_walkPL_sub H f ml es).subset hn)).1
    · intro x hx
      obtain ⟨c, hc, he⟩ := mem_walkPL H f ml es x hx
      rw [he]
      exact ih (x.1, c) hc (hw'.2.2 _ hc)

theorem RWf.components {t : RNode} (h : RWf t) : ∀ (p : List Bytes) (X : RNode),
    getAt t p = some X → ∀ c ∈ p, c ≠ [] := by
  intro p
  induction p generalizing t with
  | nil => intro X _ c hc; simp at hc
  | cons a q ih =>
    intro X hg c hc
    cases t with
    | content cc => simp [getAt] at hg
    | directory E =>
      simp only [getAt] at hg
      cases ha : assoc a E with
      | none => simp [ha] at hg
      | some Y =>
        simp only [ha] at hg
        have hm := assoc_mem a E Y ha
        simp only [List.mem_cons] at hc
        rcases hc with rfl | hc
        · exact (h [] E rfl).2 c (mem_names_of_mem hm)
        · exact ih (h.child hm).1 X hg c hc

/-! ### pass 2 as coded = `refilter` -/

theorem pass2_eq (f : PathFilter) (E : List (Bytes × RNode)) (hw : RWf (.directory E)) :
    refilterLoop f (bfsLoop (RNode.size (.directory E)) [([], .directory E)]).reverse (.directory E)
      = .ok (refilter f (.directory E)) := by
  let T := RNode.directory E
  let Q : List (List Bytes × RNode) := [([], T)]
  have hts : totalSize Q = RNode.size T := by simp [Q, totalSize]
  have hbfs : bfsLoop (RNode.size T) Q = levels (RNode.size T) Q :=
    bfs_levels (RNode.size T) Q (RNode.size T) (by omega) (by omega)
  have hqok : QOK Q := by
    intro x hx
    simp only [Q, List.mem_singleton] at hx
    subst hx; exact ⟨rfl, hw⟩
  have hdepth : AtDepth 0 Q := by
    intro x hx
    simp only [Q, List.mem_singleton] at hx
    subst hx; rfl
  have hsound : ∀ p ∈ (levels (RNode.size T) Q).reverse, ∃ es, getAt T p = some (.directory es) := by
    intro p hp
    rw [List.mem_reverse] at hp
    obtain ⟨x, hx, q, es, rfl, hg⟩ := levels_sound _ Q hqok p hp
    simp only [Q, List.mem_singleton] at hx
    subst hx
    exact ⟨es, by simpa using hg⟩
  have hcover : ∀ p es, getAt T p = some (.directory es) → p ∈ (levels (RNode.size T) Q).reverse := by
    intro p es hg
    rw [List.mem_reverse]
    have := levels_cover (RNode.size T) Q (by omega) ([], T) (by simp [Q]) p es hg
    simpa using this
  have hdesc : DescFirst (levels (RNode.size T) Q).reverse := by
    unfold DescFirst
    rw [List.pairwise_reverse]
    exact levels_order _ 0 Q hdepth hqok (by simp [Q])
  have hne : ∀ p ∈ (levels (RNode.size T) Q).reverse, ∀ c ∈ p, c ≠ [] := by
    intro p hp
    obtain ⟨es, hg⟩ := hsound p hp
    exact hw.components p _ hg
  show refilterLoop f (bfsLoop (RNode.size T) Q).reverse T = .ok (refilter f T)
  rw [hbfs, refilterLoop_eq f _ T hdesc hne hsound, (fold_refilter f).1 T hw _ hdesc hsound hcover]

/-- **the code's explicit stack and breadth-first re-filtering compute what the structural
    reader computes**, on every well-formed tree, error cases included -/
theorem fromDisk_eq_readTree (H : Bytes → Bytes) (f : PathFilter) (ml : Option Nat) (t : FsNode)
    (hw : WfFs t) : fromDisk H f ml t = readTree H f ml t := by
  cases t with
  | dir es =>
    rw [readTree_eq]
    have h1 := pass1_eq H f ml es hw
    unfold fromDisk
    by_cases hb : badL f ml es = true
    · simp only [hb, if_true] at h1 ⊢
      cases hl : walkLoop H f ml (FsNode.size (.dir es)) [⟨[], es⟩] (.directory []) [] with
      | error e => rw [hl] at h1; simp only at h1 ⊢; exact h1
      | ok r =>
        obtain ⟨tree, filtered⟩ := r
        rw [hl] at h1
        simp only at h1 ⊢
        rw [h1]
    · simp only [hb, Bool.false_eq_true, if_false] at h1 ⊢
      cases hl : walkLoop H f ml (FsNode.size (.dir es)) [⟨[], es⟩] (.directory []) [] with
      | error e => rw [hl] at h1; simp at h1
      | ok r =>
        obtain ⟨tree, filtered⟩ := r
        rw [hl] at h1
        simp only at h1 ⊢
        rw [h1]
        simp only
        have hwf : RWf (.directory (walkPL H f ml es)) := by
          have := RWf_walkP H f ml (.dir es) hw
          simpa [walkP] using this
        exact pass2_eq f _ hwf
  | file m d => rfl
  | symlink x => rfl
  | special m => rfl

end Swh.Fs
