import SwhVerif.Model.Serde
/-!
  Helper lemmas for C12: reading a key of a dictionary literal (`build`), argument passing
  (`kwargs`), and the decoder/encoder pairs of the field types.
-/
namespace Swh.Serde
open Swh

/-! ### dictionary literals -/

/-- the first present entry with key `k` of a dictionary literal -/
def specLookup (k : PStr) : List (PStr × Option Val) → Option Val
  | [] => none
  | (k', ov) :: r => if k' = k then ov.or (specLookup k r) else specLookup k r

theorem lookup_build (k : PStr) (fs : List (PStr × Option Val)) :
    lookup k (build fs) = specLookup k fs := by
  induction fs with
  | nil => rfl
  | cons p r ih =>
    obtain ⟨k', ov⟩ := p
    cases ov with
    | none =>
      simp only [build, specLookup, ih, Option.or]
      split <;> rfl
    | some v =>
      simp only [build, lookup, specLookup, ih, Option.or]

/-- the keys of a dictionary literal (whether or not the entry is present) -/
def specKeysIn (allowed : List PStr) (fs : List (PStr × Option Val)) : Bool :=
  fs.all (fun p => allowed.contains p.1)

theorem kwargs_build (allowed : List PStr) (fs : List (PStr × Option Val))
    (h : specKeysIn allowed fs = true) : kwargs allowed (build fs) = .ok () := by
  unfold kwargs
  have : (build fs).all (strKeyIn allowed) = true := by
    induction fs with
    | nil => rfl
    | cons p r ih =>
      obtain ⟨k', ov⟩ := p
      simp only [specKeysIn, List.all_cons, Bool.and_eq_true] at h
      cases ov with
      | none => exact ih h.2
      | some v =>
        simp only [build, List.all_cons, Bool.and_eq_true]
        exact ⟨by simpa [strKeyIn] using h.1, ih h.2⟩
  rw [this]; rfl

theorem erase_build (k : PStr) (fs : List (PStr × Option Val)) :
    erase k (build fs) = build (fs.filter (fun p => !(p.1 == k))) := by
  induction fs with
  | nil => rfl
  | cons p r ih =>
    obtain ⟨k', ov⟩ := p
    by_cases hk : k' = k
    · cases ov with
      | none => simp [build, hk, ih]
      | some v => simp [build, erase, hk, ih]
    · cases ov with
      | none => simp [build, hk, ih]
      | some v => simp [build, erase, hk, ih]

theorem argD_build (k : PStr) (fs : List (PStr × Option Val)) (d : Val) :
    argD (build fs) k d = (specLookup k fs).getD d := by
  unfold argD; rw [lookup_build]

theorem arg_build (k : PStr) (fs : List (PStr × Option Val)) :
    arg (build fs) k = ofOpt .typeError (specLookup k fs) := by
  unfold arg; rw [lookup_build]

theorem item_build (k : PStr) (fs : List (PStr × Option Val)) :
    item (build fs) k = ofOpt .other (specLookup k fs) := by
  unfold item; rw [lookup_build]

@[simp] theorem ofOpt_some (e : ErrKind) (v : Val) : ofOpt e (some v) = .ok v := rfl

@[simp] theorem asDict_dict (e : ErrKind) (kv : KV) : asDict e (.dict kv) = .ok kv := rfl
@[simp] theorem guardE_true (e : ErrKind) : guardE true e = .ok () := rfl

/-! ### decoders after encoders -/

@[simp] theorem decBytes_bytes (b : Bytes) : decBytes (.bytes b) = .ok b := rfl
@[simp] theorem decStr_str (s : PStr) : decStr (.str s) = .ok s := rfl
@[simp] theorem decBool_bool (b : Bool) : decBool (.bool b) = .ok b := rfl
@[simp] theorem decIntStrict_int (i : Int) : decIntStrict (.int i) = .ok i := rfl
@[simp] theorem decInt_int (i : Int) : decInt (.int i) = .ok i := rfl
@[simp] theorem decReason_str (s : PStr) : decReason (.str s) = .ok s := rfl
@[simp] theorem decOptBytes_enc (x : Option Bytes) : decOptBytes (encOptBytes x) = .ok x := by
  cases x <;> rfl
@[simp] theorem decOptStr_enc (x : Option PStr) : decOptStr (encOptStr x) = .ok x := by
  cases x <;> rfl
@[simp] theorem decOptInt_enc (x : Option Int) : decOptInt (encOptInt x) = .ok x := by
  cases x <;> rfl
@[simp] theorem decDt_enc (d : DT) : decDt (encDt d) = .ok d := rfl
@[simp] theorem decOptDt_enc (x : Option DT) : decOptDt (encOptDt x) = .ok x := by
  cases x <;> rfl

/-- entries that are left out when `None`, read back with the default `None` -/
@[simp] theorem decOptBytes_drop (x : Option Bytes) :
    decOptBytes ((x.map Val.bytes).getD .none) = .ok x := by cases x <;> rfl
@[simp] theorem decRawManifest_drop (x : Option Bytes) :
    decRawManifest ((x.map Val.bytes).getD .none) = .ok x := by cases x <;> rfl
@[simp] theorem decOptStr_drop (x : Option PStr) :
    decOptStr ((x.map Val.str).getD .none) = .ok x := by cases x <;> rfl
@[simp] theorem decOptInt_drop (x : Option Int) :
    decOptInt ((x.map Val.int).getD .none) = .ok x := by cases x <;> rfl
@[simp] theorem decOptDt_drop (x : Option DT) :
    decOptDt ((x.map encDt).getD .none) = .ok x := by cases x <;> rfl

@[simp] theorem isStrVal_dt_drop (x : Option DT) :
    isStrVal ((x.map encDt).getD .none) = false := by cases x <;> rfl

theorem mapE_map {α} (f : Val → Except ErrKind α) (g : α → Val) (h : ∀ a, f (g a) = .ok a)
    (l : List α) : mapE f (l.map g) = .ok l := by
  induction l with
  | nil => rfl
  | cons a as ih => simp only [List.map, mapE, h, ih]

theorem mapE_congr {α β} (f : α → Except ErrKind β) (g : α → β) (l : List α)
    (h : ∀ a ∈ l, f a = .ok (g a)) : mapE f l = .ok (l.map g) := by
  induction l with
  | nil => rfl
  | cons a as ih =>
    have h1 := h a (by simp)
    have h2 := ih (fun x hx => h x (by simp [hx]))
    simp only [mapE, h1, h2, List.map]

@[simp] theorem mapE_decBytes (l : List Bytes) : mapE decBytes (l.map Val.bytes) = .ok l :=
  mapE_map decBytes Val.bytes (fun _ => rfl) l

theorem decMetaKeys (m : Meta) :
    mapE metaEntry (m.map (fun p => (Val.str p.1, p.2))) = .ok m := by
  induction m with
  | nil => rfl
  | cons a as ih => simp only [List.map, mapE, metaEntry, ih]

@[simp] theorem decMeta_encMeta (m : Meta) : decMeta (encMeta m) = .ok (some m) := by
  simp only [decMeta, encMeta, decMetaKeys]; rfl
@[simp] theorem decMeta_enc (m : Option Meta) : decMeta (encOptMeta m) = .ok m := by
  cases m with
  | none => rfl
  | some m => exact decMeta_encMeta m
@[simp] theorem decMeta_drop (m : Option Meta) :
    decMeta ((m.map encMeta).getD .none) = .ok m := by
  cases m with
  | none => rfl
  | some m => exact decMeta_encMeta m

@[simp] theorem tuplify_enc (hs : List (Bytes × Bytes)) :
    tuplify (encHeaders hs) = .ok (hs.map (fun p => (Val.bytes p.1, Val.bytes p.2))) := by
  simp only [tuplify, encHeaders, iterVals]
  induction hs with
  | nil => rfl
  | cons a as ih => simp only [List.map, mapE, ih]

@[simp] theorem decHeaders_enc (hs : List (Bytes × Bytes)) :
    decHeaders (hs.map (fun p => (Val.bytes p.1, Val.bytes p.2))) = .ok hs := by
  unfold decHeaders
  induction hs with
  | nil => rfl
  | cons a as ih => simp only [List.map, mapE, ih]

end Swh.Serde
