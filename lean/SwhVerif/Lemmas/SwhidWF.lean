import SwhVerif.Lemmas.SwhidAccept
/-! Parsed values are well-formed; class agreement; shape of percent-encoded texts. -/
namespace Swh

/-! ### parsed values are well-formed -/

theorem conv_wf (tags : List Str) (x : Option Str) (r : Option BaseSwhid)
    (hc : optConv coreFromString x = .ok r) (hk : checkRefType tags r = .ok ()) :
    ∀ b, r = some b → BaseWF tags b := by
  intro b hb
  subst hb
  rw [optConv_ok] at hc
  rcases hc with ⟨_, h⟩ | ⟨a, b', _, hb', hf⟩
  · cases h
  · cases hb'
    rw [checkRefType_ok] at hk
    exact ⟨hk b rfl, ((coreFromString_iff _ b).mp hf).2.1⟩

theorem qualFromStringW_wf (lim : Option Nat) (s : Str) (v : QualSwhid)
    (h : qualFromStringW lim s = .ok v) : QualWF lim v := by
  obtain ⟨p, _, _, hmk⟩ := (qualFromStringW_ok lim s v).mp h
  simp only [mkFromDict] at hmk
  obtain ⟨ht, hid, hvi, han, hli, hcv, hca, hv⟩ := (mkQualified_ok _ _ _ _ _ _ _ _ v).mp hmk
  refine ⟨by rw [hv]; exact ht, by rw [hv]; exact hid, conv_wf _ _ _ hvi hcv, conv_wf _ _ _ han hca,
    ?_⟩
  intro l hl
  rw [hl, optConv_ok] at hli
  rcases hli with ⟨_, h⟩ | ⟨a, b, _, hb, hf⟩
  · cases h
  · cases hb
    exact parseLines_wf lim a l hf

/-! ### values of the three classes -/

def ValueWF (lim : Option Nat) : Value → Prop
  | .core b => BaseWF coreTags b
  | .extended b => BaseWF extTags b
  | .qualified q => QualWF lim q

theorem parseSwhidW_print (lim : Option Nat) (v : Value) (h : ValueWF lim v) :
    parseSwhidW lim v.cls (printValue v) = .ok v := by
  cases v with
  | core b =>
    have := (coreFromString_iff (printBase b) b).mpr ⟨h.ty, h.id, rfl⟩
    simp [parseSwhidW, Value.cls, printValue, this, bind, Except.bind]
  | extended b =>
    have := (extFromString_iff (printBase b) b).mpr ⟨h.ty, h.id, rfl⟩
    simp [parseSwhidW, Value.cls, printValue, this, bind, Except.bind]
  | qualified q =>
    have := qualFromStringW_print lim q h
    simp [parseSwhidW, Value.cls, printValue, this, bind, Except.bind]

theorem parseSwhidW_wf (lim : Option Nat) (cls : SwhidClass) (s : Str) (v : Value)
    (h : parseSwhidW lim cls s = .ok v) : ValueWF lim v ∧ v.cls = cls := by
  cases cls with
  | core =>
    simp only [parseSwhidW] at h
    cases hb : coreFromString s with
    | error e => simp [hb, bind, Except.bind] at h
    | ok b =>
      simp only [hb, bind, Except.bind, Except.ok.injEq] at h
      subst h
      obtain ⟨h1, h2, _⟩ := (coreFromString_iff s b).mp hb
      exact ⟨⟨h1, h2⟩, rfl⟩
  | extended =>
    simp only [parseSwhidW] at h
    cases hb : extFromString s with
    | error e => simp [hb, bind, Except.bind] at h
    | ok b =>
      simp only [hb, bind, Except.bind, Except.ok.injEq] at h
      subst h
      obtain ⟨h1, h2, _⟩ := (extFromString_iff s b).mp hb
      exact ⟨⟨h1, h2⟩, rfl⟩
  | qualified =>
    simp only [parseSwhidW] at h
    cases hb : qualFromStringW lim s with
    | error e => simp [hb, bind, Except.bind] at h
    | ok b =>
      simp only [hb, bind, Except.bind, Except.ok.injEq] at h
      subst h
      exact ⟨qualFromStringW_wf lim s b hb, rfl⟩

theorem parseSwhidW_clean (lim : Option Nat) (cls : SwhidClass) (s : Str) :
    Clean (parseSwhidW lim cls s) := by
  cases cls with
  | core => exact (baseFromString_clean coreTags s).bind (fun v => Or.inl ⟨_, rfl⟩)
  | extended => exact (baseFromString_clean extTags s).bind (fun v => Or.inl ⟨_, rfl⟩)
  | qualified => exact (qualFromStringW_clean lim s).bind (fun v => Or.inl ⟨_, rfl⟩)

/-! ### the classes on qualifier-free text -/

theorem ofBase_wf (lim : Option Nat) (b : BaseSwhid) (h : BaseWF coreTags b) :
    QualWF lim (QualSwhid.ofBase b) :=
  ⟨h.ty, h.id, (by intro _ h'; simp [QualSwhid.ofBase] at h'),
    (by intro _ h'; simp [QualSwhid.ofBase] at h'), (by intro _ h'; simp [QualSwhid.ofBase] at h')⟩

theorem printQualified_ofBase (b : BaseSwhid) : printQualified (QualSwhid.ofBase b) = printBase b := by
  simp [printQualified, QualSwhid.ofBase, QualSwhid.base, qualifierList, optQual]

theorem qual_of_core (lim : Option Nat) (b : BaseSwhid) (h : BaseWF coreTags b) :
    qualFromStringW lim (printBase b) = .ok (QualSwhid.ofBase b) := by
  have := qualFromStringW_print lim _ (ofBase_wf lim b h)
  rwa [printQualified_ofBase] at this

theorem qualText_semi (qs : List (Str × Str)) (h : ';' ∉ qualText qs) : qs = [] := by
  cases qs with
  | nil => rfl
  | cons kv rest => simp [qualText] at h

theorem qual_no_semi (lim : Option Nat) (s : Str) (q : QualSwhid) (hs : ';' ∉ s)
    (h : qualFromStringW lim s = .ok q) :
    q = QualSwhid.ofBase q.base ∧ s = printBase q.base ∧ BaseWF coreTags q.base := by
  obtain ⟨p, hp, _, hmk⟩ := (qualFromStringW_ok lim s q).mp h
  obtain ⟨_, _, qs, hs', hq, _⟩ := parseParts_ok s p hp
  have hqs : qs = [] := qualText_semi qs (fun hm => hs (by rw [hs']; simp [hm]))
  subst hqs
  simp only [mkFromDict, List.reverse_nil] at hmk hq
  rw [hq] at hmk
  obtain ⟨ht, hid, hvi, han, hli, _, _, hv⟩ := (mkQualified_ok _ _ _ _ _ _ _ _ q).mp hmk
  simp only [dictGet, optConv, Except.ok.injEq] at hvi han hli
  rw [← hvi, ← han, ← hli] at hv
  simp only [dictGet, Option.map_none] at hv
  refine ⟨by rw [hv]; rfl, ?_, ?_⟩
  · rw [hs', hv]; simp [qualText, QualSwhid.base]
  · rw [hv]; exact ⟨ht, hid⟩

/-! ### percent-encoded texts -/

def hexUpperDigits : Str := "0123456789ABCDEF".toList

/-- texts in which `;` and whitespace never occur and every `%` is followed by two upper-case
    hex digits -/
inductive PctSafe : Str → Prop
  | nil : PctSafe []
  | plain (c : Char) (rest : Str) : c ≠ '%' → c ≠ ';' → isPySpace c = false → PctSafe rest →
      PctSafe (c :: rest)
  | pct (x y : Char) (rest : Str) : x ∈ hexUpperDigits → y ∈ hexUpperDigits → PctSafe rest →
      PctSafe ('%' :: x :: y :: rest)

theorem PctSafe.append {a b : Str} (ha : PctSafe a) (hb : PctSafe b) : PctSafe (a ++ b) := by
  induction ha with
  | nil => exact hb
  | plain c rest h1 h2 h3 _ ih => exact PctSafe.plain c _ h1 h2 h3 ih
  | pct x y rest hx hy _ ih => exact PctSafe.pct x y _ hx hy ih

theorem PctSafe.flatMap {α} {l : List α} {f : α → Str} (h : ∀ a ∈ l, PctSafe (f a)) :
    PctSafe (l.flatMap f) := by
  induction l with
  | nil => exact PctSafe.nil
  | cons x xs ih =>
    rw [List.flatMap_cons]
    exact (h x (by simp)).append (ih (fun a ha => h a (by simp [ha])))

theorem hexUpper_mem : ∀ d : Fin 16, hexUpperDigit d.val ∈ hexUpperDigits := by decide

theorem quoteByte_pctSafe (b : Byte) : PctSafe (quoteByte b) := by
  unfold quoteByte
  have hb := UInt8.toNat_lt b
  split
  · rename_i hs
    have := safeChar_clean b hs
    refine PctSafe.plain _ _ ?_ this.1 this.2 PctSafe.nil
    intro hc
    have e : (byteChar b).toNat = 37 := by rw [hc]; rfl
    rw [byteChar_toNat] at e
    simp [isSafeByte, e] at hs
  · exact PctSafe.pct _ _ _ (hexUpper_mem ⟨b.toNat / 16, by omega⟩)
      (hexUpper_mem ⟨b.toNat % 16, by omega⟩) PctSafe.nil

theorem quoteFromBytes_pctSafe (b : Bytes) : PctSafe (quoteFromBytes b) :=
  PctSafe.flatMap (fun x _ => quoteByte_pctSafe x)

theorem escChar_pctSafe (c : Char) : PctSafe (escChar c) := by
  unfold escChar
  split
  · exact PctSafe.pct _ _ _ (by decide) (by decide) PctSafe.nil
  · split
    · exact PctSafe.pct _ _ _ (by decide) (by decide) PctSafe.nil
    · split
      · exact quoteFromBytes_pctSafe _
      · rename_i h1 h2 h3
        exact PctSafe.plain c [] h1 h2 (by simpa using h3) PctSafe.nil

theorem escapeOrigin_pctSafe (o : Str) : PctSafe (escapeOrigin o) := by
  rw [escapeOrigin_eq]
  exact PctSafe.flatMap (fun c _ => escChar_pctSafe c)

end Swh
