import SwhVerif.Lemmas.MerkleUpdate
/-!
# Merkle cache: the structural operations `__setitem__`, `__delitem__`, `update`
(C10/C14 helper lemmas, part 4)
-/
namespace Swh.Merkle
variable {H : Type} {hashFn : Data → List (EntryV H) → H}

/-! ### dict lemmas -/

def vals (l : List (Name × Id)) : List Id := l.map (·.2)

def ind (b : Prop) [Decidable b] : Nat := if b then 1 else 0

theorem count_vals_cons (k : Name) (v : Id) (t : List (Name × Id)) (d : Id) :
    (vals ((k, v) :: t)).count d = (vals t).count d + ind (d = v) := by
  unfold vals ind
  simp only [List.map_cons, List.count_cons, beq_iff_eq]
  by_cases e : d = v
  · simp [e]
  · have : ¬ v = d := fun h => e h.symm
    simp [e, this]

theorem count_dictSet (l : List (Name × Id)) (k : Name) (c d : Id) :
    (vals (dictSet l k c)).count d + (match dictGet l k with | some o => ind (d = o) | none => 0)
      = (vals l).count d + ind (d = c) := by
  induction l with
  | nil =>
    simp only [dictSet, dictGet, count_vals_cons]
    simp [vals]
  | cons x t ih =>
    obtain ⟨k', v'⟩ := x
    by_cases e : k' = k
    · simp only [dictSet, dictGet, if_pos e, count_vals_cons]; omega
    · simp only [dictSet, dictGet, if_neg e, count_vals_cons]; omega

theorem count_dictDel (l : List (Name × Id)) (k : Name) (d : Id) :
    (vals (dictDel l k)).count d + (match dictGet l k with | some o => ind (d = o) | none => 0)
      = (vals l).count d := by
  induction l with
  | nil => simp [dictDel, dictGet, vals]
  | cons x t ih =>
    obtain ⟨k', v'⟩ := x
    by_cases e : k' = k
    · simp only [dictDel, dictGet, if_pos e, count_vals_cons]
    · simp only [dictDel, dictGet, if_neg e, count_vals_cons]; omega

theorem dictGet_mem (l : List (Name × Id)) (k : Name) (o : Id) (h : dictGet l k = some o) :
    o ∈ vals l := by
  induction l with
  | nil => simp [dictGet] at h
  | cons x t ih =>
    obtain ⟨k', v'⟩ := x
    by_cases e : k' = k
    · simp [dictGet, e] at h; subst h; simp [vals]
    · simp only [dictGet, if_neg e] at h
      have := ih h
      simp only [vals, List.map_cons, List.mem_cons] at *
      exact .inr this

theorem mem_dictSet (l : List (Name × Id)) (k : Name) (c d : Id) (h : d ∈ vals (dictSet l k c)) :
    d = c ∨ d ∈ vals l := by
  induction l with
  | nil => simp [dictSet, vals] at h; exact .inl h
  | cons x t ih =>
    obtain ⟨k', v'⟩ := x
    by_cases e : k' = k
    · simp only [dictSet, if_pos e, vals, List.map_cons, List.mem_cons] at h ⊢
      rcases h with h | h
      · exact .inl h
      · exact .inr (.inr h)
    · simp only [dictSet, if_neg e, vals, List.map_cons, List.mem_cons] at h ⊢
      rcases h with h | h
      · exact .inr (.inl h)
      · rcases ih h with h | h
        · exact .inl h
        · exact .inr (.inr h)

theorem mem_dictDel (l : List (Name × Id)) (k : Name) (d : Id) (h : d ∈ vals (dictDel l k)) :
    d ∈ vals l := by
  induction l with
  | nil => simp [dictDel, vals] at h
  | cons x t ih =>
    obtain ⟨k', v'⟩ := x
    by_cases e : k' = k
    · simp only [dictDel, if_pos e] at h
      simp only [vals, List.map_cons, List.mem_cons] at *
      exact .inr h
    · simp only [dictDel, if_neg e, vals, List.map_cons, List.mem_cons] at h ⊢
      rcases h with h | h
      · exact .inl h
      · exact .inr (ih h)

theorem dictGet_dictSet_ne (l : List (Name × Id)) (k k2 : Name) (c : Id) (hne : k2 ≠ k) :
    dictGet (dictSet l k c) k2 = dictGet l k2 := by
  induction l with
  | nil => simp [dictSet, dictGet, hne.symm]
  | cons x t ih =>
    obtain ⟨k', v'⟩ := x
    by_cases e : k' = k
    · subst e
      simp [dictSet, dictGet, hne.symm]
    · simp only [dictSet, if_neg e, dictGet, ih]

theorem mem_dictUpdate (ks l : List (Name × Id)) (d : Id) (h : d ∈ vals (dictUpdate l ks)) :
    d ∈ vals l ∨ d ∈ vals ks := by
  induction ks generalizing l with
  | nil => exact .inl h
  | cons x t ih =>
    simp only [dictUpdate, List.foldl_cons] at h
    rcases ih (dictSet l x.1 x.2) h with h | h
    · rcases mem_dictSet l x.1 x.2 d h with h | h
      · right; subst h; simp [vals]
      · exact .inl h
    · right; simp only [vals, List.map_cons, List.mem_cons] at *; exact .inr h


theorem kids_eq (h : Heap H) (p : Id) : kids h p = vals (h.get p).children := rfl

/-! ### heaps that differ only in links -/

/-- everything except `children` and `parents` -/
def Node.core (nd : Node H) :=
  (nd.data, nd.isDir, nd.isLeaf, nd.cache, nd.collected, nd.entriesCache, nd.modelCache)

structure CoreSame (h h' : Heap H) : Prop where
  size : h'.size = h.size
  core : ∀ n, (h'.get n).core = (h.get n).core

theorem CoreSame.refl (h : Heap H) : CoreSame h h := ⟨rfl, fun _ => rfl⟩
theorem CoreSame.trans {a b c : Heap H} (h1 : CoreSame a b) (h2 : CoreSame b c) : CoreSame a c :=
  ⟨h2.size.trans h1.size, fun n => (h2.core n).trans (h1.core n)⟩

section
variable {a b : Heap H} (cs : CoreSame a b)
include cs
theorem CoreSame.data (n : Id) : (b.get n).data = (a.get n).data := congrArg (·.1) (cs.core n)
theorem CoreSame.isDir (n : Id) : (b.get n).isDir = (a.get n).isDir := congrArg (·.2.1) (cs.core n)
theorem CoreSame.isLeaf (n : Id) : (b.get n).isLeaf = (a.get n).isLeaf :=
  congrArg (·.2.2.1) (cs.core n)
theorem CoreSame.cache (n : Id) : (b.get n).cache = (a.get n).cache :=
  congrArg (·.2.2.2.1) (cs.core n)
theorem CoreSame.collected (n : Id) : (b.get n).collected = (a.get n).collected :=
  congrArg (·.2.2.2.2.1) (cs.core n)
theorem CoreSame.ent (n : Id) : (b.get n).entriesCache = (a.get n).entriesCache :=
  congrArg (·.2.2.2.2.2.1) (cs.core n)
theorem CoreSame.mod (n : Id) : (b.get n).modelCache = (a.get n).modelCache :=
  congrArg (·.2.2.2.2.2.2) (cs.core n)
theorem CoreSame.hasAny (n : Id) : (b.get n).hasAny = (a.get n).hasAny := by
  unfold Node.hasAny; rw [cs.cache, cs.ent, cs.mod]
theorem CoreSame.collStable : CollStable a b := by
  intro m hc; rw [cs.collected] at hc; exact ⟨hc, cs.cache m⟩
end

theorem get_setParents (h : Heap H) (i : Id) (fp : List Id → List Id) (hi : i < h.size) (j : Id) :
    (h.modify i (fun x => { x with parents := fp x.parents })).get j =
      { h.get j with parents := if j = i then fp (h.get j).parents else (h.get j).parents } := by
  rw [Heap.get_modify h i _ j hi]
  by_cases e : j = i
  · subst e; simp
  · simp [e]

theorem get_setChildren (h : Heap H) (i : Id) (fc : List (Name × Id) → List (Name × Id))
    (hi : i < h.size) (j : Id) :
    (h.modify i (fun x => { x with children := fc x.children })).get j =
      { h.get j with children := if j = i then fc (h.get j).children else (h.get j).children } := by
  rw [Heap.get_modify h i _ j hi]
  by_cases e : j = i
  · subst e; simp
  · simp [e]

theorem coreSame_setParents (h : Heap H) (i : Id) (fp : List Id → List Id) (hi : i < h.size) :
    CoreSame h (h.modify i (fun x => { x with parents := fp x.parents })) :=
  ⟨Heap.size_modify _ _ _, fun n => by rw [get_setParents h i fp hi]; rfl⟩

theorem coreSame_setChildren (h : Heap H) (i : Id) (fc : List (Name × Id) → List (Name × Id))
    (hi : i < h.size) :
    CoreSame h (h.modify i (fun x => { x with children := fc x.children })) :=
  ⟨Heap.size_modify _ _ _, fun n => by rw [get_setChildren h i fc hi]; rfl⟩

/-- A change of links around a node `t` that holds no cache keeps the invariant, provided the
back-links and bounds hold afterwards. -/
theorem inv_restructure {h h' : Heap H} (i : Inv hashFn h) (t : Id)
    (ht : (h.get t).hasAny = false) (cs : CoreSame h h')
    (hch : ∀ n, n ≠ t → (h'.get n).children = (h.get n).children)
    (hlinks : ∀ p c, (kids h' p).count c ≤ ((h'.get c).parents).count p)
    (hbound : ∀ c ∈ kids h' t, c < h.size) : Inv hashFn h' := by
  have hne : ∀ n, (h'.get n).hasAny = true → n ≠ t := by
    intro n hn e; subst e; rw [cs.hasAny, ht] at hn; cases hn
  have hvals : ∀ n, n ≠ t → dirEntries h' n = dirEntries h n ∧ hashKids h' n = hashKids h n := by
    intro n hn
    have e : entVals h' (h'.get n).children = entVals h (h.get n).children := by
      rw [hch n hn]
      exact entVals_congr h h' _ (fun kc _ => ⟨cs.cache _, cs.isDir _, cs.data _⟩)
    constructor
    · unfold dirEntries; rw [e]
    · unfold hashKids dirEntries; rw [e, cs.isDir]
  refine ⟨?_, ?_, ?_, ?_, ?_, hlinks, ?_⟩
  · intro p c hc hp
    have hpt := hne p hp
    rw [kids_eq, hch p hpt, ← kids_eq] at hc
    rw [cs.hasAny] at hp
    rw [cs.cache]; exact i.closure p c hc hp
  · intro n v hv
    have hnt := hne n (by simp [Node.hasAny, hv])
    rw [(hvals n hnt).2, cs.data]
    rw [cs.cache] at hv
    exact i.value n v hv
  · intro n e hv
    have hnt := hne n (by simp [Node.hasAny, hv])
    rw [(hvals n hnt).1]
    rw [cs.ent] at hv
    exact i.entV n e hv
  · intro n e hv
    have hnt := hne n (by simp [Node.hasAny, hv])
    rw [(hvals n hnt).1]
    rw [cs.mod] at hv
    exact i.modV n e hv
  · intro n hd
    rw [cs.isDir] at hd
    rw [cs.ent, cs.mod]; exact i.nondir n hd
  · intro p c hc
    rw [cs.size]
    by_cases hp : p = t
    · subst hp; exact hbound c hc
    · rw [kids_eq, hch p hp, ← kids_eq] at hc; exact i.bound p c hc

theorem count_singleton (t p : Id) : List.count p [t] = ind (p = t) := by
  unfold ind
  by_cases e : p = t
  · simp [e]
  · have : ¬ t = p := fun h => e h.symm
    simp [e, this]

/-! ### `__setitem__` -/

theorem baseSet_spec {h : Heap H} (i : Inv hashFn h) (t c : Id) (name : Name)
    (ht : t < h.size) (hc : c < h.size) :
    Inv hashFn (baseSet h t name c) ∧ CollStable h (baseSet h t name c) ∧
    (baseSet h t name c).size = h.size := by
  obtain ⟨i1, nv, a1⟩ := invalidateTop_spec i t
  unfold baseSet
  generalize invalidateTop h t = h1 at i1 nv a1
  have hs1 : h1.size = h.size := nv.toSameStruct.size
  have ht1 : t < h1.size := by rw [hs1]; exact ht
  let h2 := h1.modify t (fun x => { x with children := dictSet x.children name c })
  have hc2 : c < h2.size := by rw [Heap.size_modify, hs1]; exact hc
  have g2 := get_setChildren h1 t (fun l => dictSet l name c) ht1
  have g3 := get_setParents h2 c (fun l => l ++ [t]) hc2
  have cs : CoreSame h1 (h2.modify c (fun x => { x with parents := x.parents ++ [t] })) :=
    (coreSame_setChildren h1 t (fun l => dictSet l name c) ht1).trans
      (coreSame_setParents h2 c (fun l => l ++ [t]) hc2)
  show Inv hashFn (h2.modify c (fun x => { x with parents := x.parents ++ [t] })) ∧
    CollStable h (h2.modify c (fun x => { x with parents := x.parents ++ [t] })) ∧
    (h2.modify c (fun x => { x with parents := x.parents ++ [t] })).size = h.size
  generalize hh3 : h2.modify c (fun x => { x with parents := x.parents ++ [t] }) = h3 at g3 cs
  have hchild : ∀ n, (h3.get n).children =
      if n = t then dictSet (h1.get n).children name c else (h1.get n).children := by
    intro n; rw [g3]; show (h2.get n).children = _; rw [g2]
  have hpar : ∀ n, (h3.get n).parents =
      if n = c then (h1.get n).parents ++ [t] else (h1.get n).parents := by
    intro n; rw [g3]
    show (if n = c then (h2.get n).parents ++ [t] else (h2.get n).parents) = _
    rw [g2]
  refine ⟨?_, (CollStable.of_shrinks nv.toShrinks).trans cs.collStable, cs.size.trans hs1⟩
  apply inv_restructure i1 t a1 cs
  · intro n hn; rw [hchild, if_neg hn]
  · intro p d
    rw [kids_eq, hchild, hpar]
    have hl := i1.links p d
    rw [kids_eq] at hl
    by_cases hp : p = t
    · subst hp
      rw [if_pos rfl]
      have hcnt := count_dictSet (h1.get p).children name c d
      have : (vals (dictSet (h1.get p).children name c)).count d
          ≤ (vals (h1.get p).children).count d + ind (d = c) := by omega
      by_cases hd : d = c
      · subst hd
        rw [if_pos rfl, List.count_append, count_singleton]
        simp only [ind, if_true] at this ⊢
        omega
      · rw [if_neg hd]
        simp only [ind, if_neg hd] at this
        omega
    · rw [if_neg hp]
      by_cases hd : d = c
      · rw [if_pos hd, List.count_append]; omega
      · rw [if_neg hd]; exact hl
  · intro d hd
    rw [kids_eq, hchild, if_pos rfl] at hd
    rcases mem_dictSet _ _ _ _ hd with e | e
    · rw [e, hs1]; exact hc
    · exact i1.bound t d e

/-! ### `__delitem__` -/

theorem count_erase (l : List Id) (t p : Id) :
    (l.erase t).count p = l.count p - ind (p = t) := by
  unfold ind
  by_cases e : p = t
  · subst e; simp [List.count_erase_self]
  · simp [e, List.count_erase_of_ne e]

theorem baseDel_spec {h : Heap H} (i : Inv hashFn h) (t o : Id) (name : Name)
    (ht : t < h.size) (ho : dictGet (h.get t).children name = some o) :
    Inv hashFn (baseDel h t name o) ∧ CollStable h (baseDel h t name o) ∧
    (baseDel h t name o).size = h.size ∧
    (∀ q, q ≠ t → ∀ d, ((baseDel h t name o).get d).parents.count q = (h.get d).parents.count q) ∧
    (∀ d, ((baseDel h t name o).get d).parents.count t = (h.get d).parents.count t - ind (d = o)) := by
  obtain ⟨i1, nv, a1⟩ := invalidateTop_spec i t
  unfold baseDel
  have ho1 : dictGet ((invalidateTop h t).get t).children name = some o := by
    rw [nv.toSameStruct.children]; exact ho
  have hpar0 : ∀ d, ((invalidateTop h t).get d).parents = (h.get d).parents := nv.toSameStruct.parents
  generalize invalidateTop h t = h1 at i1 nv a1 ho1 hpar0
  have hs1 : h1.size = h.size := nv.toSameStruct.size
  have ht1 : t < h1.size := by rw [hs1]; exact ht
  have hok : o ∈ kids h1 t := dictGet_mem _ _ _ ho1
  have ho1' : o < h1.size := i1.bound t o hok
  let h2 := h1.modify o (fun x => { x with parents := x.parents.erase t })
  have ht2 : t < h2.size := by rw [Heap.size_modify]; exact ht1
  have g2 := get_setParents h1 o (fun l => l.erase t) ho1'
  have g3 := get_setChildren h2 t (fun l => dictDel l name) ht2
  have cs : CoreSame h1 (h2.modify t (fun x => { x with children := dictDel x.children name })) :=
    (coreSame_setParents h1 o (fun l => l.erase t) ho1').trans
      (coreSame_setChildren h2 t (fun l => dictDel l name) ht2)
  show Inv hashFn (h2.modify t (fun x => { x with children := dictDel x.children name })) ∧
    CollStable h (h2.modify t (fun x => { x with children := dictDel x.children name })) ∧
    (h2.modify t (fun x => { x with children := dictDel x.children name })).size = h.size ∧ _ ∧ _
  generalize hh3 : h2.modify t (fun x => { x with children := dictDel x.children name }) = h3
    at g3 cs
  have hchild : ∀ n, (h3.get n).children =
      if n = t then dictDel (h1.get n).children name else (h1.get n).children := by
    intro n; rw [g3]
    show (if n = t then dictDel (h2.get n).children name else (h2.get n).children) = _
    rw [g2]
  have hpar : ∀ n, (h3.get n).parents =
      if n = o then (h1.get n).parents.erase t else (h1.get n).parents := by
    intro n; rw [g3]; show (h2.get n).parents = _; rw [g2]
  refine ⟨?_, (CollStable.of_shrinks nv.toShrinks).trans cs.collStable, cs.size.trans hs1, ?_, ?_⟩
  rotate_left 2
  · intro d
    rw [hpar, ← hpar0]
    by_cases hd : d = o
    · rw [if_pos hd, count_erase]; simp [ind, hd]
    · rw [if_neg hd]; simp [ind, hd]
  · apply inv_restructure i1 t a1 cs
    · intro n hn; rw [hchild, if_neg hn]
    · intro p d
      rw [kids_eq, hchild, hpar]
      have hl := i1.links p d
      rw [kids_eq] at hl
      by_cases hp : p = t
      · subst hp
        rw [if_pos rfl]
        have hcnt := count_dictDel (h1.get p).children name d
        rw [ho1] at hcnt
        by_cases hd : d = o
        · subst hd
          rw [if_pos rfl, count_erase]
          simp only [ind, if_true] at hcnt ⊢
          omega
        · rw [if_neg hd]
          simp only [ind, if_neg hd] at hcnt
          omega
      · rw [if_neg hp]
        by_cases hd : d = o
        · rw [if_pos hd, count_erase]; simp only [ind, if_neg hp]; omega
        · rw [if_neg hd]; exact hl
    · intro d hd
      rw [kids_eq, hchild, if_pos rfl] at hd
      exact i1.bound t d (mem_dictDel _ _ _ hd)
  · intro q hq d
    rw [hpar, ← hpar0]
    by_cases hd : d = o
    · rw [if_pos hd, count_erase]; simp [ind, hq]
    · rw [if_neg hd]

end Swh.Merkle
