import SwhVerif.Lemmas.MerkleStep
/-!
# Merkle cache: one step, histories, the ghost log of reported nodes
(C10/C14 helper lemmas, part 7)
-/
namespace Swh.Merkle
variable {H : Type} {hashFn : Data → List (EntryV H) → H}

theorem StepPost.of_ic {h : Heap H} {op : Op} {r : Heap H × Out H} (p : PostIC hashFn h r)
    (ho : OutOk hashFn r.1 op r.2) : StepPost hashFn h op r :=
  ⟨p.1, fun _ _ => p.2, ho⟩

theorem rank_lt_topFuel {h : Heap H} {rank : Id → Nat} (hb : ∀ n, rank n ≤ h.size) (n : Id) :
    rank n < topFuel h := by have := hb n; unfold topFuel; omega

/-- `collect root` on an allocated root, unfolded -/
theorem step_collect (h : Heap H) (n : Id) (hn : n < h.size) :
    step hashFn h (.collect n) =
      ((collect hashFn (topFuel h) (topFuel h) h n).1,
       .ids (collect hashFn (topFuel h) (topFuel h) h n).2) := by
  simp [step, hn]

theorem step_resetCollect (h : Heap H) (n : Id) (hn : n < h.size) :
    step hashFn h (.resetCollect n) = (resetCollect (topFuel h) h n, .unit) := by
  simp [step, hn]

/-- **Every operation** keeps the invariant on an acyclic heap, keeps the hash of every node that
stays marked collected (unless it is a collection), and reports from-scratch values. -/
theorem step_post {h : Heap H} (i : Inv hashFn h) (a : Acyclic h) (op : Op) :
    StepPost hashFn h op (step hashFn h op) := by
  obtain ⟨rank, rk, hb⟩ := a
  have a : Acyclic h := ⟨rank, rk, hb⟩
  cases op with
  | newNode d b1 b2 =>
    simp only [step]
    split
    · exact StepPost.of_ic (PostIC.noop i _) trivial
    · exact StepPost.of_ic (inv_push i d b1 b2) trivial
  | setItem p path c => exact StepPost.of_ic (stepSet_post i p c path) trivial
  | delItem p path => exact StepPost.of_ic (stepDel_post i p path) trivial
  | update p ks => exact StepPost.of_ic (stepUpdate_post i p ks) trivial
  | readHash n =>
    simp only [step]
    split
    · rename_i hn
      obtain ⟨gd, cached⟩ := updateHash_spec (hashFn := hashFn) rank (topFuel h) false h n i rk
        (rank_lt_topFuel hb n) hn
      refine ⟨gd.inv, fun k _ => gd.coll k, ?_⟩
      intro _
      exact congrArg Out.hash (cache_eq_fresh _ gd.inv (a.of_same gd.same) n _ cached)
    · rename_i hn
      exact ⟨i, fun _ _ => CollStable.refl h, fun hn' => absurd hn' hn⟩
  | forceUpdate n =>
    simp only [step]
    split
    · rename_i hn
      obtain ⟨gd, cached⟩ := updateHash_spec (hashFn := hashFn) rank (topFuel h) true h n i rk
        (rank_lt_topFuel hb n) hn
      refine ⟨gd.inv, fun k _ => gd.coll k, ?_⟩
      intro _
      exact congrArg Out.hash (cache_eq_fresh _ gd.inv (a.of_same gd.same) n _ cached)
    · rename_i hn
      exact ⟨i, fun _ _ => CollStable.refl h, fun hn' => absurd hn' hn⟩
  | readEntries n =>
    simp only [step]
    split
    · rename_i hn
      have hn : ¬ n < h.size := by simpa using hn
      exact ⟨i, fun _ _ => CollStable.refl h, fun hn' => absurd hn' hn⟩
    · rename_i hn
      have hn : n < h.size := by simpa using hn
      split
      · rename_i hd
        have hd : (h.get n).isDir = false := by simpa using hd
        refine ⟨i, fun _ _ => CollStable.refl h, fun _ hd' => ?_⟩
        rw [hd] at hd'; cases hd'
      · rename_i hd
        have hd : (h.get n).isDir = true := by simpa using hd
        obtain ⟨i1, g1, k1, e1⟩ := entriesProp_spec (hashFn := hashFn) (hashProp hashFn) h h n
          (fun kc hk => hashProp_updOK a kc.2 (i.bound n kc.2 (mem_kids_of_mem hk)))
          i (SameStruct.refl h) hn hd
        refine ⟨i1, fun k _ => CollStable.of_grows k g1, ?_⟩
        intro _ _
        show Out.entries _ = Out.entries _
        rw [e1, dirEntries_eq_fresh _ i1 (a.of_same g1.toSameStruct) n k1]
  | readModel n =>
    simp only [step]
    split
    · rename_i hn
      have hn : ¬ n < h.size := by simpa using hn
      exact ⟨i, fun _ _ => CollStable.refl h, fun hn' => absurd hn' hn⟩
    · rename_i hn
      have hn : n < h.size := by simpa using hn
      split
      · rename_i hd
        have hd : (h.get n).isDir = false := by simpa using hd
        refine ⟨i, fun _ _ => CollStable.refl h, fun _ hd' => ?_⟩
        rw [hd] at hd'; cases hd'
      · rename_i hd
        have hd : (h.get n).isDir = true := by simpa using hd
        obtain ⟨i1, g1, k1, e1⟩ := toModel_spec (hashFn := hashFn) (hashProp hashFn) h h n
          (fun kc hk => hashProp_updOK a kc.2 (i.bound n kc.2 (mem_kids_of_mem hk)))
          i (SameStruct.refl h) hn hd
        refine ⟨i1, fun k _ => CollStable.of_grows k g1, ?_⟩
        intro _ hd'
        have a1 := a.of_same g1.toSameStruct
        have ef := dirEntries_eq_fresh _ i1 a1 n k1
        show Out.model _ _ = Out.model _ _
        rw [e1, ef, fresh_eq _ a1 n, hd', if_pos rfl, g1.toSameStruct.data]
        rfl
  | collect n =>
    by_cases hn : n < h.size
    · rw [step_collect h n hn]
      obtain ⟨i1, _, _, _⟩ := collect_spec (hashFn := hashFn) rank (topFuel h)
        (rank_lt_topFuel hb) (topFuel h) h n i rk (rank_lt_topFuel hb n) hn
      exact ⟨i1, fun _ hne => absurd rfl (hne n), trivial⟩
    · simp only [step, if_neg hn]
      exact ⟨i, fun _ _ => CollStable.refl h, trivial⟩
  | resetCollect n =>
    by_cases hn : n < h.size
    · rw [step_resetCollect h n hn]
      obtain ⟨f1, mono, _⟩ := resetCollect_spec rank (topFuel h) h n rk (rank_lt_topFuel hb n)
      exact ⟨inv_of_flagOnly i f1, fun _ _ m hm => ⟨mono m hm, f1.cache m⟩, trivial⟩
    · simp only [step, if_neg hn]
      exact ⟨i, fun _ _ => CollStable.refl h, trivial⟩
  | contains p path =>
    simp only [step]
    split
    · exact StepPost.of_ic (PostIC.noop i _) trivial
    · split
      · exact StepPost.of_ic (PostIC.noop i _) trivial
      · exact StepPost.of_ic (PostIC.noop i _) trivial

/-! ### histories -/

/-- every heap along the history `ops` started in `h` is acyclic -/
def AcyclicHist (hashFn : Data → List (EntryV H) → H) : Heap H → List Op → Prop
  | h, [] => Acyclic h
  | h, op :: ops => Acyclic h ∧ AcyclicHist hashFn (step hashFn h op).1 ops

theorem AcyclicHist.head {h : Heap H} {ops : List Op} (a : AcyclicHist hashFn h ops) :
    Acyclic h := by
  cases ops with
  | nil => exact a
  | cons _ _ => exact a.1

/-- the heap reached by a history -/
def runHeap (hashFn : Data → List (EntryV H) → H) (h : Heap H) (ops : List Op) : Heap H :=
  ops.foldl (fun g op => (step hashFn g op).1) h

theorem run_eq (h : Heap H) (ops : List Op) :
    run hashFn h ops = (runHeap hashFn h ops, (trace hashFn h ops).map (·.2.1)) := by
  have key : ∀ (ops : List Op) (g : Heap H) (acc : List (Out H)),
      ops.foldl (fun acc op => let r := step hashFn acc.1 op; (r.1, acc.2 ++ [r.2])) (g, acc)
        = (runHeap hashFn g ops, acc ++ (trace hashFn g ops).map (·.2.1)) := by
    intro ops
    induction ops with
    | nil => intro g acc; simp [runHeap, trace]
    | cons op t ih =>
      intro g acc
      simp only [List.foldl_cons, ih, runHeap, trace, List.map_cons, List.append_assoc]
      rfl
  have := key ops h []
  simp only [List.nil_append] at this
  exact this

/-- along an acyclic history the invariant holds after every operation and every reading
operation reports the from-scratch value -/
theorem trace_post : ∀ (ops : List Op) (h : Heap H), Inv hashFn h → AcyclicHist hashFn h ops →
    (∀ t ∈ trace hashFn h ops, Inv hashFn t.2.2 ∧ Acyclic t.2.2 ∧ OutOk hashFn t.2.2 t.1 t.2.1) ∧
    Inv hashFn (runHeap hashFn h ops) ∧ Acyclic (runHeap hashFn h ops) := by
  intro ops
  induction ops with
  | nil => intro h i a; exact ⟨fun t ht => (by cases ht), i, a⟩
  | cons op rest ih =>
    intro h i a
    have sp := step_post i a.1 op
    obtain ⟨h1, h2, h3⟩ := ih (step hashFn h op).1 sp.inv a.2
    refine ⟨?_, h2, h3⟩
    intro t ht
    simp only [trace, List.mem_cons] at ht
    rcases ht with rfl | ht
    · exact ⟨sp.inv, a.2.head, sp.out⟩
    · exact h1 t ht

/-! ### the ghost log of reported `(node, hash)` pairs -/

abbrev Log (H : Type) := List (Id × H)

def outIds : Out H → List Id
  | .ids l => l
  | _ => []

/-- what a collection that returned the nodes `ids` reported: each node with its hash -/
def logOf (h' : Heap H) (ids : List Id) : Log H :=
  ids.filterMap (fun j => (h'.get j).cache.map (fun v => (j, v)))

/-- one step, recording in the ghost log what a collection returns -/
def stepL (hashFn : Data → List (EntryV H) → H) (s : Heap H × Log H) (op : Op) : Heap H × Log H :=
  ((step hashFn s.1 op).1, s.2 ++ logOf (step hashFn s.1 op).1 (outIds (step hashFn s.1 op).2))

def runL (hashFn : Data → List (EntryV H) → H) (s : Heap H × Log H) (ops : List Op) :
    Heap H × Log H := ops.foldl (stepL hashFn) s

theorem runL_fst (ops : List Op) (s : Heap H × Log H) :
    (runL hashFn s ops).1 = runHeap hashFn s.1 ops := by
  induction ops generalizing s with
  | nil => rfl
  | cons op t ih => simp only [runL, List.foldl_cons, runHeap] at ih ⊢; rw [ih]; rfl

/-- (K) with the log: a node marked collected has a cached hash and was reported with it -/
def KLog (h : Heap H) (L : Log H) : Prop :=
  ∀ n, (h.get n).collected = true → ∃ v, (h.get n).cache = some v ∧ (n, v) ∈ L

theorem KLog.kinv {h : Heap H} {L : Log H} (k : KLog h L) : KInv h := by
  intro n hn
  obtain ⟨v, hv, _⟩ := k n hn
  rw [hv]; exact Option.some_ne_none v

theorem mem_logOf (h' : Heap H) (ids : List Id) (n : Id) (v : H) (hn : n ∈ ids)
    (hv : (h'.get n).cache = some v) : (n, v) ∈ logOf h' ids := by
  unfold logOf
  exact List.mem_filterMap.mpr ⟨n, hn, by simp [hv]⟩

/-- facts about `collect root` on a sound acyclic state -/
theorem collect_post {h : Heap H} (i : Inv hashFn h) (a : Acyclic h) (n : Id) (hn : n < h.size) :
    let r := collect hashFn (topFuel h) (topFuel h) h n
    Inv hashFn r.1 ∧ CollStep h r.1 r.2 ∧ (KInv h → KInv r.1) ∧
    ∀ m, Reach h n m → (r.1.get m).collected = true := by
  obtain ⟨rank, rk, hb⟩ := a
  exact collect_spec rank (topFuel h) (rank_lt_topFuel hb) (topFuel h) h n i rk
    (rank_lt_topFuel hb n) hn

theorem klog_stepL {s : Heap H × Log H} (i : Inv hashFn s.1) (a : Acyclic s.1) (k : KLog s.1 s.2)
    (op : Op) : KLog (stepL hashFn s op).1 (stepL hashFn s op).2 := by
  have sp := step_post i a op
  by_cases hop : ∃ n, op = .collect n ∧ n < s.1.size
  · obtain ⟨n, rfl, hn⟩ := hop
    obtain ⟨_, cst, kk, _⟩ := collect_post i a n hn
    unfold stepL
    rw [step_collect s.1 n hn]
    simp only [outIds]
    intro m hm
    have k1 := kk k.kinv m hm
    rw [cst.flags] at hm
    cases hc : (s.1.get m).collected with
    | true =>
      obtain ⟨v, hv, hl⟩ := k m hc
      exact ⟨v, cst.g0.cache m v hv, List.mem_append_left _ hl⟩
    | false =>
      rw [hc] at hm
      have hmem : m ∈ (collect hashFn (topFuel s.1) (topFuel s.1) s.1 n).2 := by simpa using hm
      cases hv : ((collect hashFn (topFuel s.1) (topFuel s.1) s.1 n).1.get m).cache with
      | none => exact absurd hv k1
      | some v => exact ⟨v, rfl, List.mem_append_right _ (mem_logOf _ _ m v hmem hv)⟩
  · -- not a collection (or a collection of an unallocated id, which does nothing)
    have hcs : CollStable s.1 (step hashFn s.1 op).1 := by
      by_cases hc : ∃ n, op = .collect n
      · obtain ⟨n, rfl⟩ := hc
        have hn : ¬ n < s.1.size := fun hn => hop ⟨n, rfl, hn⟩
        simp only [step, if_neg hn]
        exact CollStable.refl _
      · exact sp.coll k.kinv (fun n e => hc ⟨n, e⟩)
    intro m hm
    obtain ⟨h1, h2⟩ := hcs m hm
    obtain ⟨v, hv, hl⟩ := k m h1
    exact ⟨v, by show ((step hashFn s.1 op).1.get m).cache = some v; rw [h2]; exact hv,
      List.mem_append_left _ hl⟩

/-- a state reached by an acyclic history: invariant, acyclic, (K) with the log -/
structure Sound (hashFn : Data → List (EntryV H) → H) (s : Heap H × Log H) : Prop where
  inv : Inv hashFn s.1
  acyclic : Acyclic s.1
  klog : KLog s.1 s.2

theorem sound_empty : Sound hashFn ((Heap.empty : Heap H), []) :=
  ⟨inv_empty, acyclic_empty, fun n hn => by simp [Heap.get_empty, Node.blank] at hn⟩

theorem sound_runL : ∀ (ops : List Op) (s : Heap H × Log H), Sound hashFn s →
    AcyclicHist hashFn s.1 ops → Sound hashFn (runL hashFn s ops) := by
  intro ops
  induction ops with
  | nil => intro s sd _; exact sd
  | cons op rest ih =>
    intro s sd a
    simp only [runL, List.foldl_cons]
    apply ih
    · exact ⟨(step_post sd.inv sd.acyclic op).inv, a.2.head, klog_stepL sd.inv sd.acyclic sd.klog op⟩
    · exact a.2

end Swh.Merkle
