import SwhVerif.Model.ToposortGen
import SwhVerif.Lemmas.Toposort
/-!
# Lemmas about the work-list-generic Kahn model (`SwhVerif.Model.ToposortGen`)

1. `foldl_relaxStep_acc`: the inner loop does not look at the queue it appends to, so
   `relax` (empty accumulator) describes the FIFO model's inner loop too;
2. the FIFO loop invariant `Swh.Toposort.Inv` only speaks about the work list up to permutation
   (`Inv.perm`), hence is preserved by a step popping *any* element (`Inv.step_mem`);
3. `replay_inv` / `replay_init_inv`: every prefix accepted by the replay satisfies the invariant and
   is parents-first; `run_spec`, `never_stuck`, `run_extends` follow;
4. `replay_perm`: the replay only depends on the work list as a bag;
   `isRun_iff_scheduled`: the checker accepts exactly the yield sequences of schedules;
5. `toposortBy_isRun`, `toposort_eq_toposortBy`, `fifo_isRun_of_nodup`: the deterministic
   instances, FIFO included, are accepted.

Core Lean only.  Hypotheses are unbundled here; `Swh.C20` restates the results for `WfLog`.
-/
namespace Swh.ToposortGen
open Swh Swh.Toposort

/-! ## generic list facts -/

theorem perm_cons_eraseIdx {α} : ∀ (w : List α) (k : Nat) (r : α), w[k]? = some r →
    w.Perm (r :: w.eraseIdx k) := by
  intro w
  induction w with
  | nil => intro k r h; simp at h
  | cons a w ih =>
    intro k r h
    cases k with
    | zero =>
      simp only [List.getElem?_cons_zero, Option.some.injEq] at h
      subst h
      exact List.Perm.refl _
    | succ k =>
      rw [List.getElem?_cons_succ] at h
      rw [List.eraseIdx_cons_succ]
      exact ((ih k r h).cons a).trans (List.Perm.swap r a _)

theorem mem_of_getElem?_eq_some {α} : ∀ (w : List α) (k : Nat) (r : α), w[k]? = some r → r ∈ w := by
  intro w k r h
  exact (perm_cons_eraseIdx w k r h).mem_iff.mpr List.mem_cons_self

/-- an element of a list sits at some position, and erasing that position erases the element -/
theorem exists_pos_of_mem {α} [DecidableEq α] : ∀ (w : List α) (r : α), r ∈ w →
    ∃ k, w[k]? = some r ∧ w.eraseIdx k = w.erase r := by
  intro w
  induction w with
  | nil => intro r h; cases h
  | cons a w ih =>
    intro r h
    by_cases har : a = r
    · subst har
      exact ⟨0, by simp, by simp⟩
    · have hr : r ∈ w := by
        rcases List.mem_cons.mp h with h1 | h1
        · exact absurd h1.symm har
        · exact h1
      obtain ⟨k, hk1, hk2⟩ := ih r hr
      refine ⟨k + 1, by simpa using hk1, ?_⟩
      have hne : ¬ (a == r) = true := by simpa using har
      rw [List.eraseIdx_cons_succ, hk2, List.erase_cons_tail hne]

/-- erasing the position of `r` and erasing `r` agree as bags -/
theorem eraseIdx_perm_erase (w : List Rev) (k : Nat) (r : Rev) (h : w[k]? = some r) :
    (w.eraseIdx k).Perm (w.erase r) := by
  have h1 := perm_cons_eraseIdx w k r h
  have h2 := List.perm_cons_erase (mem_of_getElem?_eq_some w k r h)
  exact (h1.symm.trans h2).cons_inv

/-! ## the inner loop does not depend on the accumulated queue -/

theorem foldl_relaxStep_acc (cs : List Rev) (f : RevId → Int) (q : List Rev) :
    cs.foldl relaxStep (f, q)
      = ((cs.foldl relaxStep (f, [])).1, q ++ (cs.foldl relaxStep (f, [])).2) := by
  induction cs generalizing f q with
  | nil => simp
  | cons c cs ih =>
    have h1 : relaxStep (f, q) c
        = (setDeg f c.id (f c.id - 1), q ++ (if f c.id - 1 = 0 then [c] else [])) := by
      simp only [relaxStep]
      by_cases hz : f c.id - 1 = 0 <;> simp [hz]
    have h2 : relaxStep (f, []) c
        = (setDeg f c.id (f c.id - 1), (if f c.id - 1 = 0 then [c] else [])) := by
      simp only [relaxStep]
      by_cases hz : f c.id - 1 = 0 <;> simp [hz]
    rw [List.foldl_cons, List.foldl_cons, h1, h2, ih _ (q ++ _), ih _ (ite _ _ _)]
    simp only [List.append_assoc]

/-- `relax` is the FIFO model's inner loop started from any queue -/
theorem foldl_relaxStep_eq_relax (ch : RevId → List Rev) (f : RevId → Int) (r : Rev)
    (q : List Rev) :
    (ch r.id).foldl relaxStep (f, q) = ((relax ch f r).1, q ++ (relax ch f r).2) :=
  foldl_relaxStep_acc _ _ _

/-! ## the invariant sees the work list as a bag -/

theorem _root_.Swh.Toposort.Inv.perm {log : List Rev} {f : RevId → Int} {q q' out : List Rev}
    (h : Inv log f q out) (hp : q.Perm q') : Inv log f q' out := by
  have hp' : (out ++ q).Perm (out ++ q') := hp.append_left out
  refine ⟨?_, ?_, h.deg, ?_⟩
  · intro r hr
    exact h.sub r (hp'.mem_iff.mpr hr)
  · exact hp'.nodup_iff.mp h.nodup
  · intro r hr
    rw [← hp'.mem_iff]
    exact h.zero r hr

/-- popping any element of the work list preserves the invariant -/
theorem _root_.Swh.Toposort.Inv.step_mem {log : List Rev} {f : RevId → Int} {w out : List Rev} {r : Rev}
    (hnd : (log.map Rev.id).Nodup) (h : Inv log f w out) (hr : r ∈ w) :
    Inv log (relax (childrenOf log) f r).1 (w.erase r ++ (relax (childrenOf log) f r).2)
      (out ++ [r]) := by
  have h1 := (h.perm (List.perm_cons_erase hr)).step hnd
  rw [foldl_relaxStep_eq_relax] at h1
  exact h1

/-- every element of the work list has all its parents among the already-yielded revisions -/
theorem _root_.Swh.Toposort.Inv.mem_parents {log : List Rev} {f : RevId → Int} {w out : List Rev} {r : Rev}
    (h : Inv log f w out) (hr : r ∈ w) : ∀ p ∈ r.parents, p ∈ out.map Rev.id :=
  (h.perm (List.perm_cons_erase hr)).head_parents

/-- what has been yielded so far is duplicate-free and part of the log, hence not longer -/
theorem _root_.Swh.Toposort.Inv.length_le {log : List Rev} {f : RevId → Int} {w out : List Rev}
    (h : Inv log f w out) : out.length ≤ log.length := by
  have hout : out.Nodup := (List.nodup_append.mp h.nodup).1
  exact length_le_of_nodup_subset out log hout (fun a ha => h.sub a (by simp [ha]))

/-- with an empty work list, what has been yielded is a permutation of a well-formed log -/
theorem _root_.Swh.Toposort.Inv.perm_of_empty {log : List Rev} {f : RevId → Int} {out : List Rev}
    (h : Inv log f [] out) (hnd : (log.map Rev.id).Nodup)
    (hpar : ∀ r ∈ log, ∀ p ∈ r.parents, ∃ q ∈ log, q.id = p)
    (rank : RevId → Nat) (hrank : ∀ r ∈ log, ∀ p ∈ r.parents, rank p < rank r.id) :
    out.Perm log := by
  have hout : out.Nodup := by simpa using h.nodup
  rw [List.perm_ext_iff_of_nodup hout (nodup_of_nodup_map _ _ hnd)]
  intro a
  exact ⟨fun ha => h.sub a (by simp [ha]), h.complete hpar rank hrank a⟩

/-! ## the replay -/

theorem replay_append (ch : RevId → List Rev) : ∀ (a b : List Rev) (s : WState),
    replay ch s (a ++ b) = (replay ch s a).bind (fun s' => replay ch s' b) := by
  intro a
  induction a with
  | nil => intro b s; simp [replay]
  | cons r rs ih =>
    intro b s
    simp only [List.cons_append, replay]
    by_cases hm : r ∈ s.work
    · simp only [hm, if_true]
      exact ih b _
    · simp [hm]

/-- an accepted replay preserves the invariant and only yields revisions whose parents have all been
    yielded -/
theorem replay_inv {log : List Rev} (hnd : (log.map Rev.id).Nodup) :
    ∀ (order : List Rev) (s s' : WState) (out : List Rev),
      Inv log s.inDeg s.work out → replay (childrenOf log) s order = some s' →
      Inv log s'.inDeg s'.work (out ++ order) ∧ PFfrom (out.map Rev.id) order := by
  intro order
  induction order with
  | nil =>
    intro s s' out h hr
    simp only [replay, Option.some.injEq] at hr
    subst hr
    exact ⟨by simpa using h, trivial⟩
  | cons r rs ih =>
    intro s s' out h hr
    simp only [replay] at hr
    by_cases hm : r ∈ s.work
    · simp only [hm, if_true] at hr
      obtain ⟨i1, i2⟩ := ih _ _ (out ++ [r]) (h.step_mem hnd hm) hr
      refine ⟨by simpa using i1, h.mem_parents hm, by simpa using i2⟩
    · simp [hm] at hr

theorem init_inv (log : List Rev) (hnd : (log.map Rev.id).Nodup) :
    Inv log (init log).inDeg (init log).work [] := Inv.init log hnd

/-- every prefix accepted from the initial state: invariant and parents-first -/
theorem replay_init_inv {log : List Rev} (hnd : (log.map Rev.id).Nodup) {pre : List Rev}
    {s : WState} (hp : replay (initPass log).children (init log) pre = some s) :
    Inv log s.inDeg s.work pre ∧ PFfrom [] pre := by
  rw [initPass_children] at hp
  simpa using replay_inv hnd pre (init log) s [] (init_inv log hnd) hp

theorem isRun_iff_replay (log order : List Rev) :
    isRun log order = true ↔
      ∃ s, replay (initPass log).children (init log) order = some s ∧ s.work = [] := by
  unfold isRun
  cases h : replay (initPass log).children (init log) order with
  | none => simp
  | some s => simp [List.isEmpty_iff]

/-- a complete run on a well-formed log: a permutation of the log, parents-first -/
theorem run_spec {log order : List Rev} (hnd : (log.map Rev.id).Nodup)
    (hpar : ∀ r ∈ log, ∀ p ∈ r.parents, ∃ q ∈ log, q.id = p)
    (rank : RevId → Nat) (hrank : ∀ r ∈ log, ∀ p ∈ r.parents, rank p < rank r.id)
    (hr : isRun log order = true) : order.Perm log ∧ PFfrom [] order := by
  obtain ⟨s, hs, hw⟩ := (isRun_iff_replay log order).mp hr
  obtain ⟨i1, i2⟩ := replay_init_inv hnd hs
  rw [hw] at i1
  exact ⟨i1.perm_of_empty hnd hpar rank hrank, i2⟩

/-- progress: if the work bag is empty after an accepted prefix, the prefix already is a permutation
    of the (well-formed) log -/
theorem never_stuck {log pre : List Rev} {s : WState} (hnd : (log.map Rev.id).Nodup)
    (hpar : ∀ r ∈ log, ∀ p ∈ r.parents, ∃ q ∈ log, q.id = p)
    (rank : RevId → Nat) (hrank : ∀ r ∈ log, ∀ p ∈ r.parents, rank p < rank r.id)
    (hp : replay (initPass log).children (init log) pre = some s) (hw : s.work = []) :
    pre.Perm log := by
  obtain ⟨i1, _⟩ := replay_init_inv hnd hp
  rw [hw] at i1
  exact i1.perm_of_empty hnd hpar rank hrank

/-- every accepted prefix extends to an accepted complete run (distinct ids suffice) -/
theorem run_extends {log : List Rev} (hnd : (log.map Rev.id).Nodup) :
    ∀ (n : Nat) (pre : List Rev) (s : WState),
      replay (initPass log).children (init log) pre = some s → log.length - pre.length ≤ n →
      ∃ rest, isRun log (pre ++ rest) = true := by
  intro n
  induction n with
  | zero =>
    intro pre s hp hn
    cases hw : s.work with
    | nil =>
      exact ⟨[], by rw [List.append_nil]; exact (isRun_iff_replay _ _).mpr ⟨s, hp, hw⟩⟩
    | cons r w =>
      exfalso
      have hm : r ∈ s.work := by rw [hw]; exact List.mem_cons_self
      have h2 : replay (initPass log).children (init log) (pre ++ [r])
          = some ⟨(relax (initPass log).children s.inDeg r).1,
              s.work.erase r ++ (relax (initPass log).children s.inDeg r).2⟩ := by
        rw [replay_append, hp]
        simp [replay, hm]
      have := (replay_init_inv hnd h2).1.length_le
      simp only [List.length_append, List.length_cons, List.length_nil] at this
      omega
  | succ n ih =>
    intro pre s hp hn
    cases hw : s.work with
    | nil =>
      exact ⟨[], by rw [List.append_nil]; exact (isRun_iff_replay _ _).mpr ⟨s, hp, hw⟩⟩
    | cons r w =>
      have hm : r ∈ s.work := by rw [hw]; exact List.mem_cons_self
      have h2 : replay (initPass log).children (init log) (pre ++ [r])
          = some ⟨(relax (initPass log).children s.inDeg r).1,
              s.work.erase r ++ (relax (initPass log).children s.inDeg r).2⟩ := by
        rw [replay_append, hp]
        simp [replay, hm]
      obtain ⟨rest, hrest⟩ := ih (pre ++ [r]) _ h2 (by
        simp only [List.length_append, List.length_cons, List.length_nil]; omega)
      exact ⟨r :: rest, by simpa using hrest⟩

/-! ## the replay only depends on the work list as a bag -/

theorem replay_perm (ch : RevId → List Rev) : ∀ (order : List Rev) (s t s' : WState),
    t.inDeg = s.inDeg → t.work.Perm s.work → replay ch s order = some s' →
    ∃ t', replay ch t order = some t' ∧ t'.inDeg = s'.inDeg ∧ t'.work.Perm s'.work := by
  intro order
  induction order with
  | nil =>
    intro s t s' hd hw hr
    simp only [replay, Option.some.injEq] at hr
    subst hr
    exact ⟨t, rfl, hd, hw⟩
  | cons r rs ih =>
    intro s t s' hd hw hr
    simp only [replay] at hr ⊢
    by_cases hm : r ∈ s.work
    · have hm' : r ∈ t.work := hw.mem_iff.mpr hm
      simp only [hm, if_true] at hr
      simp only [hm', if_true]
      refine ih _ _ s' ?_ ?_ hr
      · simp only [hd]
      · simp only [hd]
        exact (hw.erase r).append_right _
    · simp [hm] at hr

/-- replaying `r :: rs` when `r` sits at position `k`, in terms of `eraseIdx` -/
theorem replay_cons_of_getElem (ch : RevId → List Rev) (s s' : WState) (k : Nat) (r : Rev)
    (rs : List Rev) (hk : s.work[k]? = some r)
    (hr : replay ch ⟨(relax ch s.inDeg r).1, s.work.eraseIdx k ++ (relax ch s.inDeg r).2⟩ rs
      = some s') :
    ∃ t', replay ch s (r :: rs) = some t' ∧ t'.inDeg = s'.inDeg ∧ t'.work.Perm s'.work := by
  have hm : r ∈ s.work := mem_of_getElem?_eq_some _ _ _ hk
  simp only [replay, hm, if_true]
  refine replay_perm ch rs
    ⟨(relax ch s.inDeg r).1, s.work.eraseIdx k ++ (relax ch s.inDeg r).2⟩
    ⟨(relax ch s.inDeg r).1, s.work.erase r ++ (relax ch s.inDeg r).2⟩ s' rfl ?_ hr
  exact ((eraseIdx_perm_erase _ _ _ hk).symm).append_right _

/-! ## the checker accepts exactly the scheduled runs -/

theorem step?_eq_some (ch : RevId → List Rev) (s : WState) (m : Move) (r : Rev) (s' : WState) :
    step? ch s m = some (r, s') ↔
      s.work[m.pos]? = some r ∧ s'.inDeg = (relax ch s.inDeg r).1 ∧ s'.work = m.newWork ∧
        m.newWork.Perm (s.work.eraseIdx m.pos ++ (relax ch s.inDeg r).2) := by
  unfold step?
  cases hk : s.work[m.pos]? with
  | none => simp
  | some r0 =>
    simp only [Option.some.injEq]
    by_cases hp : m.newWork.isPerm (s.work.eraseIdx m.pos ++ (relax ch s.inDeg r0).2) = true
    · simp only [hp, if_true, Option.some.injEq, Prod.mk.injEq]
      constructor
      · rintro ⟨rfl, rfl⟩
        exact ⟨rfl, rfl, rfl, List.isPerm_iff.mp hp⟩
      · rintro ⟨rfl, h1, h2, _⟩
        refine ⟨rfl, ?_⟩
        cases s'
        simp only at h1 h2
        rw [h1, h2]
    · simp only [hp]
      constructor
      · intro h; simp at h
      · rintro ⟨rfl, _, _, h3⟩
        exact absurd (List.isPerm_iff.mpr h3) hp

/-- an accepted replay is the yield sequence of a schedule reaching the same state -/
theorem sched_of_replay (ch : RevId → List Rev) : ∀ (order : List Rev) (s s' : WState),
    replay ch s order = some s' → ∃ sched, runSched ch s sched = some (order, s') := by
  intro order
  induction order with
  | nil =>
    intro s s' hr
    simp only [replay, Option.some.injEq] at hr
    subst hr
    exact ⟨[], rfl⟩
  | cons r rs ih =>
    intro s s' hr
    simp only [replay] at hr
    by_cases hm : r ∈ s.work
    · simp only [hm, if_true] at hr
      obtain ⟨sched, hs⟩ := ih _ _ hr
      obtain ⟨k, hk1, hk2⟩ := exists_pos_of_mem s.work r hm
      refine ⟨⟨k, s.work.erase r ++ (relax ch s.inDeg r).2⟩ :: sched, ?_⟩
      have hstep : step? ch s ⟨k, s.work.erase r ++ (relax ch s.inDeg r).2⟩
          = some (r, ⟨(relax ch s.inDeg r).1, s.work.erase r ++ (relax ch s.inDeg r).2⟩) := by
        rw [step?_eq_some]
        refine ⟨hk1, rfl, rfl, ?_⟩
        simp only [hk2]
        exact List.Perm.refl _
      simp only [runSched, hstep, hs]
    · simp [hm] at hr

/-- the yield sequence of a schedule is accepted by the replay, from any state with the same
    counters and the same bag, and reaches the same bag -/
theorem replay_of_sched (ch : RevId → List Rev) : ∀ (sched : List Move) (s s' t : WState)
    (order : List Rev), runSched ch s sched = some (order, s') →
    t.inDeg = s.inDeg → t.work.Perm s.work →
    ∃ t', replay ch t order = some t' ∧ t'.inDeg = s'.inDeg ∧ t'.work.Perm s'.work := by
  intro sched
  induction sched with
  | nil =>
    intro s s' t order hr hd hw
    simp only [runSched, Option.some.injEq, Prod.mk.injEq] at hr
    obtain ⟨rfl, rfl⟩ := hr
    exact ⟨t, rfl, hd, hw⟩
  | cons m ms ih =>
    intro s s' t order hr hd hw
    simp only [runSched] at hr
    cases hstep : step? ch s m with
    | none => simp [hstep] at hr
    | some p =>
      obtain ⟨r, s1⟩ := p
      simp only [hstep] at hr
      cases hrest : runSched ch s1 ms with
      | none => simp [hrest] at hr
      | some p2 =>
        obtain ⟨out, s2⟩ := p2
        simp only [hrest, Option.some.injEq, Prod.mk.injEq] at hr
        obtain ⟨rfl, rfl⟩ := hr
        obtain ⟨hk, h1, h2, h3⟩ := (step?_eq_some ch s m r s1).mp hstep
        have hm : r ∈ s.work := mem_of_getElem?_eq_some _ _ _ hk
        have hm' : r ∈ t.work := hw.mem_iff.mpr hm
        simp only [replay, hm', if_true]
        refine ih s1 s2 _ out hrest ?_ ?_
        · simp only [hd, h1]
        · simp only [hd, h2]
          refine List.Perm.trans ?_ h3.symm
          exact ((hw.erase r).trans (eraseIdx_perm_erase _ _ _ hk).symm).append_right _

/-- **the checker is exact**: `isRun` accepts `order` iff it is the yield sequence of a complete run
    under some work-list discipline (any log) -/
theorem isRun_iff_scheduled (log order : List Rev) :
    isRun log order = true ↔ IsScheduledRun log order := by
  rw [isRun_iff_replay]
  constructor
  · rintro ⟨s, hs, hw⟩
    obtain ⟨sched, h⟩ := sched_of_replay _ _ _ _ hs
    exact ⟨sched, s, h, hw⟩
  · rintro ⟨sched, s', hs, hw⟩
    obtain ⟨t', h1, _, h3⟩ := replay_of_sched _ sched _ s' (init log) order hs rfl (List.Perm.refl _)
    rw [hw] at h3
    exact ⟨t', h1, List.perm_nil.mp h3⟩

/-! ## deterministic instances -/

/-- the yield sequence of `loopBy` is accepted, and if the fuel was not exhausted the bag is empty
    at the end (for a `pick` that always answers in range) -/
theorem replay_loopBy (pick : List Rev → Nat) (hpick : ∀ w, w ≠ [] → pick w < w.length)
    (ch : RevId → List Rev) : ∀ (fuel : Nat) (s : WState),
    ∃ s', replay ch s (loopBy pick ch fuel s) = some s' ∧
      (s'.work = [] ∨ (loopBy pick ch fuel s).length = fuel) := by
  intro fuel
  induction fuel with
  | zero => intro s; exact ⟨s, by simp [loopBy, replay], Or.inr (by simp [loopBy])⟩
  | succ fuel ih =>
    intro s
    cases hk : s.work[pick s.work]? with
    | none =>
      have hw : s.work = [] := by
        apply Classical.byContradiction
        intro hne
        have := hpick s.work hne
        rw [List.getElem?_eq_none_iff] at hk
        omega
      exact ⟨s, by simp [loopBy, hk, replay], Or.inl hw⟩
    | some r =>
      have hl : loopBy pick ch (fuel + 1) s
          = r :: loopBy pick ch fuel ⟨(relax ch s.inDeg r).1,
              s.work.eraseIdx (pick s.work) ++ (relax ch s.inDeg r).2⟩ := by
        simp only [loopBy, hk]
      obtain ⟨s1, h1, h2⟩ := ih ⟨(relax ch s.inDeg r).1,
        s.work.eraseIdx (pick s.work) ++ (relax ch s.inDeg r).2⟩
      obtain ⟨t', ht1, _, ht3⟩ := replay_cons_of_getElem ch s s1 _ r _ hk h1
      rw [hl]
      refine ⟨t', ht1, ?_⟩
      rcases h2 with h2 | h2
      · left
        rw [h2] at ht3
        exact List.perm_nil.mp ht3
      · right
        simp only [List.length_cons, h2]

/-- every deterministic instance with an in-range `pick` produces an accepted complete run
    (distinct ids suffice: they bound the length of any accepted sequence by `|log|`) -/
theorem toposortBy_isRun_of_nodup (pick : List Rev → Nat)
    (hpick : ∀ w, w ≠ [] → pick w < w.length) (log : List Rev)
    (hnd : (log.map Rev.id).Nodup) : isRun log (toposortBy pick log) = true := by
  obtain ⟨s', h1, h2⟩ := replay_loopBy pick hpick (initPass log).children
    (2 * log.length + 1) (init log)
  rw [isRun_iff_replay]
  refine ⟨s', h1, ?_⟩
  rcases h2 with h2 | h2
  · exact h2
  · exfalso
    have := (replay_init_inv hnd h1).1.length_le
    omega

/-- the FIFO loop is the instance popping position `0` -/
theorem loop_eq_loopBy (ch : RevId → List Rev) : ∀ (fuel : Nat) (f : RevId → Int) (q : List Rev),
    loop ch fuel f q = loopBy (fun _ => 0) ch fuel ⟨f, q⟩ := by
  intro fuel
  induction fuel with
  | zero => intro f q; simp [loop, loopBy]
  | succ fuel ih =>
    intro f q
    cases q with
    | nil => simp [loop, loopBy]
    | cons r q =>
      simp only [loop, loopBy, List.getElem?_cons_zero, List.eraseIdx_cons_zero]
      rw [foldl_relaxStep_eq_relax, ih]

/-- the FIFO model is `toposortBy (fun _ => 0)` -/
theorem toposort_eq_toposortBy (log : List Rev) : toposort log = toposortBy (fun _ => 0) log := by
  unfold toposort toposortBy
  exact loop_eq_loopBy _ _ _ _

/-- the FIFO model's output is an accepted run as soon as the ids are distinct -/
theorem fifo_isRun_of_nodup (log : List Rev) (hnd : (log.map Rev.id).Nodup) :
    isRun log (toposort log) = true := by
  rw [toposort_eq_toposortBy]
  exact toposortBy_isRun_of_nodup _ (fun w hw => List.length_pos_iff.mpr hw) log hnd

end Swh.ToposortGen
