import SwhVerif.Lemmas.SwhidParse
import SwhVerif.Lemmas.SwhidQuote
/-! The three `from_string` class methods against `__str__`. -/
namespace Swh

/-! ### error discipline -/

/-- outcomes allowed inside a `try … except ValueError` block -/
def Tame {α} (x : Except ErrKind α) : Prop :=
  (∃ v, x = .ok v) ∨ x = .error .validation ∨ x = .error .valueError

/-- outcomes allowed to leave `from_string` -/
def Clean {α} (x : Except ErrKind α) : Prop := (∃ v, x = .ok v) ∨ x = .error .validation

theorem Clean.tame {α} {x : Except ErrKind α} (h : Clean x) : Tame x := by
  rcases h with h | h
  · exact Or.inl h
  · exact Or.inr (Or.inl h)

theorem Tame.bind {α β} {x : Except ErrKind α} {f : α → Except ErrKind β} (hx : Tame x)
    (hf : ∀ a, Tame (f a)) : Tame (x >>= f) := by
  rcases hx with ⟨v, rfl⟩ | rfl | rfl
  · exact hf v
  · exact Or.inr (Or.inl rfl)
  · exact Or.inr (Or.inr rfl)

theorem Clean.bind {α β} {x : Except ErrKind α} {f : α → Except ErrKind β} (hx : Clean x)
    (hf : ∀ a, Clean (f a)) : Clean (x >>= f) := by
  rcases hx with ⟨v, rfl⟩ | rfl
  · exact hf v
  · exact Or.inr rfl

theorem Tame.wrap {α} {x : Except ErrKind α} (hx : Tame x) : Clean (wrapValueError x) := by
  rcases hx with ⟨v, rfl⟩ | rfl | rfl
  · exact Or.inl ⟨v, rfl⟩
  · exact Or.inr rfl
  · exact Or.inr rfl

theorem wrap_ok {α} (x : Except ErrKind α) (v : α) : wrapValueError x = .ok v ↔ x = .ok v := by
  cases x with
  | ok a => simp [wrapValueError]
  | error e => cases e <;> simp [wrapValueError]

/-! ### `CoreSWHID.from_string` / `ExtendedSWHID.from_string` -/

theorem mkBase_ok (tags : List Str) (t : Str) (id : Bytes) (b : BaseSwhid) :
    mkBase tags t id = .ok b ↔ t ∈ tags ∧ id.length = 20 ∧ b = ⟨t, id⟩ := by
  unfold mkBase objectTypeConv checkObjectId
  by_cases ht : t ∈ tags <;> by_cases hid : id.length = 20 <;>
    simp [ht, hid, bind, Except.bind, eq_comm]

theorem mkBase_tame (tags : List Str) (t : Str) (id : Bytes) : Tame (mkBase tags t id) := by
  unfold mkBase objectTypeConv checkObjectId
  by_cases ht : t ∈ tags <;> by_cases hid : id.length = 20 <;>
    simp [ht, hid, bind, Except.bind, Tame]

/-- the parser of the unqualified classes is the inverse of the printer, exactly -/
theorem baseFromString_iff (tags : List Str) (htags : ∀ t ∈ tags, t ∈ reTags) (s : Str)
    (b : BaseSwhid) :
    baseFromString tags s = .ok b ↔ b.objectType ∈ tags ∧ b.objectId.length = 20 ∧ s = printBase b := by
  constructor
  · intro h
    unfold baseFromString at h
    cases hp : parseParts s with
    | error e => simp [hp, bind, Except.bind] at h
    | ok p =>
      simp only [hp, bind, Except.bind] at h
      split at h
      · simp at h
      · rename_i hq
        rw [wrap_ok, mkBase_ok] at h
        obtain ⟨ht, hid, rfl⟩ := h
        obtain ⟨_, _, qs, hs, hqs, _⟩ := parseParts_ok s p hp
        have : qs = [] := by
          have : p.qualifiers = [] := by
            cases hpq : p.qualifiers with
            | nil => rfl
            | cons _ _ => simp [hpq] at hq
          rw [this] at hqs
          simpa using hqs.symm
        subst this
        exact ⟨ht, hid, by simpa [qualText] using hs⟩
  · rintro ⟨ht, hid, rfl⟩
    obtain ⟨t, id⟩ := b
    have := parseParts_render t id [] (htags t ht) hid (by simp [ChunksClean])
    simp only [qualText, List.flatMap_nil, List.append_nil, List.reverse_nil] at this
    unfold baseFromString
    simp only [this, bind, Except.bind, List.isEmpty_nil, Bool.not_true, Bool.false_eq_true,
      if_false]
    rw [wrap_ok, mkBase_ok]
    exact ⟨ht, hid, rfl⟩

theorem baseFromString_clean (tags : List Str) (s : Str) : Clean (baseFromString tags s) := by
  unfold baseFromString
  apply Clean.bind
  · exact parseParts_clean s
  · intro p
    split
    · exact Or.inr rfl
    · exact (mkBase_tame _ _ _).wrap

theorem coreFromString_iff (s : Str) (b : BaseSwhid) :
    coreFromString s = .ok b ↔ b.objectType ∈ coreTags ∧ b.objectId.length = 20 ∧ s = printBase b :=
  baseFromString_iff coreTags coreTags_sub_reTags s b

theorem extFromString_iff (s : Str) (b : BaseSwhid) :
    extFromString s = .ok b ↔ b.objectType ∈ extTags ∧ b.objectId.length = 20 ∧ s = printBase b :=
  baseFromString_iff extTags extTags_sub_reTags s b

/-! ### `QualifiedSWHID(...)` -/

theorem optConv_ok {α} (f : Str → Except ErrKind α) (x : Option Str) (y : Option α) :
    optConv f x = .ok y ↔
      (x = none ∧ y = none) ∨ ∃ a b, x = some a ∧ y = some b ∧ f a = .ok b := by
  cases x with
  | none => simp [optConv, eq_comm]
  | some a =>
    constructor
    · intro h
      simp only [optConv] at h
      cases hf : f a with
      | error e => rw [hf] at h; simp [bind, Except.bind] at h
      | ok b =>
        rw [hf] at h
        simp only [bind, Except.bind, Except.ok.injEq] at h
        exact Or.inr ⟨a, b, rfl, h.symm, hf⟩
    · rintro (⟨h, _⟩ | ⟨a', b, ha, rfl, hf⟩)
      · cases h
      · cases ha
        simp [optConv, hf, bind, Except.bind]

theorem optConv_tame {α} (f : Str → Except ErrKind α) (hf : ∀ a, Tame (f a)) (x : Option Str) :
    Tame (optConv f x) := by
  cases x with
  | none => exact Or.inl ⟨none, rfl⟩
  | some a => exact (hf a).bind (fun y => Or.inl ⟨some y, rfl⟩)

theorem optConv_path (pa : Option Str) :
    optConv (fun p => (.ok (unquoteToBytes p) : Except ErrKind Bytes)) pa
      = .ok (pa.map unquoteToBytes) := by
  cases pa <;> simp [optConv, bind, Except.bind]

theorem checkRefType_ok (allowed : List Str) (x : Option BaseSwhid) :
    checkRefType allowed x = .ok () ↔ ∀ b, x = some b → b.objectType ∈ allowed := by
  cases x with
  | none => simp [checkRefType]
  | some b =>
    by_cases h : b.objectType ∈ allowed <;> simp [checkRefType, h]

theorem checkRefType_tame (allowed : List Str) (x : Option BaseSwhid) :
    Tame (checkRefType allowed x) := by
  cases x with
  | none => exact Or.inl ⟨(), rfl⟩
  | some b => by_cases h : b.objectType ∈ allowed <;> simp [checkRefType, h, Tame]

theorem mkQualified_ok (lim : Option Nat) (t : Str) (id : Bytes) (o vi an pa li : Option Str)
    (v : QualSwhid) :
    mkQualified lim t id o vi an pa li = .ok v ↔
      t ∈ coreTags ∧ id.length = 20 ∧
      optConv coreFromString vi = .ok v.visit ∧ optConv coreFromString an = .ok v.anchor ∧
      optConv (parseLines lim) li = .ok v.lines ∧
      checkRefType visitTags v.visit = .ok () ∧ checkRefType anchorTags v.anchor = .ok () ∧
      v = ⟨t, id, o, v.visit, v.anchor, pa.map unquoteToBytes, v.lines⟩ := by
  unfold mkQualified objectTypeConv checkObjectId
  rw [optConv_path]
  by_cases ht : t ∈ coreTags
  case neg => simp [ht, bind, Except.bind]
  by_cases hid : id.length = 20
  case neg =>
    cases optConv coreFromString vi <;> cases optConv coreFromString an <;>
      cases optConv (parseLines lim) li <;> simp [ht, hid, bind, Except.bind]
  cases h1 : optConv coreFromString vi with
  | error e => simp [ht, bind, Except.bind]
  | ok vi' =>
    cases h2 : optConv coreFromString an with
    | error e => simp [ht, bind, Except.bind]
    | ok an' =>
      cases h3 : optConv (parseLines lim) li with
      | error e => simp [ht, bind, Except.bind]
      | ok li' =>
        simp only [ht, hid, if_true, bind, Except.bind, true_and, Except.ok.injEq]
        cases h4 : checkRefType visitTags vi' with
        | error e =>
          simp only
          constructor
          · intro h; cases h
          · rintro ⟨rfl, rfl, rfl, h5, _⟩; rw [h4] at h5; cases h5
        | ok u =>
          cases h5 : checkRefType anchorTags an' with
          | error e =>
            simp only
            constructor
            · intro h; cases h
            · rintro ⟨rfl, rfl, rfl, _, h6, _⟩; rw [h5] at h6; cases h6
          | ok u' =>
            simp only [Except.ok.injEq]
            constructor
            · rintro rfl; exact ⟨rfl, rfl, rfl, h4, h5, rfl⟩
            · rintro ⟨rfl, rfl, rfl, _, _, h8⟩; exact h8.symm

theorem parseLines_tame (lim : Option Nat) (v : Str) : Tame (parseLines lim v) :=
  Clean.tame (parseLines_clean lim v)

theorem mkQualified_tame (lim : Option Nat) (t : Str) (id : Bytes) (o vi an pa li : Option Str) :
    Tame (mkQualified lim t id o vi an pa li) := by
  unfold mkQualified
  have hot : Tame (objectTypeConv coreTags t) := by
    unfold objectTypeConv; split
    · exact Or.inl ⟨_, rfl⟩
    · exact Or.inr (Or.inr rfl)
  have hck : Tame (checkObjectId id) := by
    unfold checkObjectId; split
    · exact Or.inl ⟨_, rfl⟩
    · exact Or.inr (Or.inl rfl)
  refine hot.bind fun _ => ?_
  refine (optConv_tame _ (fun a => (baseFromString_clean coreTags a).tame) vi).bind fun _ => ?_
  refine (optConv_tame _ (fun a => (baseFromString_clean coreTags a).tame) an).bind fun _ => ?_
  refine (optConv_tame _ (fun a => Or.inl ⟨_, rfl⟩) pa).bind fun _ => ?_
  refine (optConv_tame _ (parseLines_tame lim) li).bind fun _ => ?_
  refine hck.bind fun _ => ?_
  refine (checkRefType_tame _ _).bind fun _ => ?_
  refine (checkRefType_tame _ _).bind fun _ => ?_
  exact Or.inl ⟨_, rfl⟩

/-! ### `QualifiedSWHID.from_string` -/

/-- the arguments handed to the constructor for a qualifier dictionary `q` -/
def mkFromDict (lim : Option Nat) (t : Str) (id : Bytes) (q : List (Str × Str)) :
    Except ErrKind QualSwhid :=
  mkQualified lim t id ((dictGet q qkOrigin).map pyUnquote)
    (dictGet q qkVisit) (dictGet q qkAnchor) (dictGet q qkPath) (dictGet q qkLines)

theorem any_not_contains (q : List (Str × Str)) (ks : List Str) :
    q.any (fun kv => !(ks.contains kv.1)) = false ↔ ∀ kv ∈ q, kv.1 ∈ ks := by
  simp [List.any_eq_false]

theorem qualFromStringW_ok (lim : Option Nat) (s : Str) (v : QualSwhid) :
    qualFromStringW lim s = .ok v ↔
      ∃ p, parseParts s = .ok p ∧ (∀ kv ∈ p.qualifiers, kv.1 ∈ qualKeys) ∧
        mkFromDict lim p.objectType p.objectId p.qualifiers = .ok v := by
  unfold qualFromStringW
  cases hp : parseParts s with
  | error e => simp [bind, Except.bind]
  | ok p =>
    simp only [bind, Except.bind]
    by_cases h1 : ∀ kv ∈ p.qualifiers, kv.1 ∈ qualKeys
    · have h2 : ∀ kv ∈ p.qualifiers, kv.1 ∈ fieldNames :=
        fun kv hkv => qualKeys_sub_fieldNames _ (h1 kv hkv)
      rw [if_neg (by rw [Bool.not_eq_true, any_not_contains]; exact h1),
        if_neg (by rw [Bool.not_eq_true, any_not_contains]; exact h2), wrap_ok]
      constructor
      · intro h; exact ⟨p, rfl, h1, h⟩
      · rintro ⟨p', hp', _, h⟩; cases hp'; exact h
    · rw [if_pos (by
        rw [← Bool.not_eq_false, any_not_contains]; exact h1)]
      constructor
      · intro h; cases h
      · rintro ⟨p', hp', h, _⟩; cases hp'; exact absurd h h1

theorem qualFromStringW_clean (lim : Option Nat) (s : Str) : Clean (qualFromStringW lim s) := by
  unfold qualFromStringW
  apply Clean.bind (parseParts_clean s)
  intro p
  simp only
  by_cases h1 : ∀ kv ∈ p.qualifiers, kv.1 ∈ qualKeys
  · have h2 : ∀ kv ∈ p.qualifiers, kv.1 ∈ fieldNames :=
      fun kv hkv => qualKeys_sub_fieldNames _ (h1 kv hkv)
    rw [if_neg (by rw [Bool.not_eq_true, any_not_contains]; exact h1),
      if_neg (by rw [Bool.not_eq_true, any_not_contains]; exact h2)]
    exact (mkQualified_tame _ _ _ _ _ _ _ _).wrap
  · rw [if_pos (by rw [← Bool.not_eq_false, any_not_contains]; exact h1)]
    exact Or.inr rfl

end Swh
