import SwhVerif.Model.SwhidLang
import SwhVerif.Lemmas.Bytes
/-! Generic helper lemmas for the SWHID model: list splitting, prefixes, chars/bytes, tables. -/
namespace Swh

/-! ### chars and bytes -/

theorem toNat_ofNat_valid (n : Nat) (h : n.isValidChar) : (Char.ofNat n).toNat = n := by
  rw [Char.ofNat, dif_pos h]
  simp [Char.ofNatAux, Char.toNat]

theorem toNat_ofNat_small (n : Nat) (h : n < 0xD800) : (Char.ofNat n).toNat = n :=
  toNat_ofNat_valid n (Or.inl h)

theorem char_valid (c : Char) :
    c.toNat < 0xD800 ∨ (0xDFFF < c.toNat ∧ c.toNat < 0x110000) := c.valid

theorem byteChar_toNat (b : Byte) : (byteChar b).toNat = b.toNat := by
  have := UInt8.toNat_lt b
  exact toNat_ofNat_small _ (by omega)

theorem ofNat_byteChar (b : Byte) : UInt8.ofNat (byteChar b).toNat = b := by
  rw [byteChar_toNat]; exact UInt8.ofNat_toNat

theorem asciiBytes_bytesStr (b : Bytes) : asciiBytes (bytesStr b) = b := by
  induction b with
  | nil => rfl
  | cons x xs ih =>
    simp only [bytesStr, asciiBytes, List.map_cons, List.map_map] at ih ⊢
    rw [ih]; simp [ofNat_byteChar]

theorem byteChar_ofNat_toNat (c : Char) (h : c.toNat < 256) :
    byteChar (UInt8.ofNat c.toNat) = c := by
  unfold byteChar
  rw [UInt8.toNat_ofNat', Nat.mod_eq_of_lt (by simpa using h)]
  exact Char.ofNat_toNat c

theorem bytesStr_asciiBytes (s : Str) (h : ∀ c ∈ s, c.toNat < 256) :
    bytesStr (asciiBytes s) = s := by
  induction s with
  | nil => rfl
  | cons x xs ih =>
    simp only [bytesStr, asciiBytes, List.map_cons, List.map_map] at ih ⊢
    rw [ih (fun c hc => h c (by simp [hc]))]
    have := byteChar_ofNat_toNat x (h x (by simp))
    simp [this]

theorem bytesStr_append (a b : Bytes) : bytesStr (a ++ b) = bytesStr a ++ bytesStr b := by
  simp [bytesStr]

theorem bytesStr_length (a : Bytes) : (bytesStr a).length = a.length := by simp [bytesStr]

theorem mem_bytesStr {c : Char} {b : Bytes} (h : c ∈ bytesStr b) : ∃ x ∈ b, c = byteChar x := by
  simp only [bytesStr, List.mem_map] at h
  obtain ⟨x, hx, rfl⟩ := h
  exact ⟨x, hx, rfl⟩

/-! ### splitOnL -/

section split
variable {α : Type} [DecidableEq α]

theorem splitOnL_ne_nil (d : α) (l : List α) : splitOnL d l ≠ [] := by
  cases l with
  | nil => simp [splitOnL]
  | cons b bs => simp only [splitOnL]; split <;> simp

theorem splitOnL_not_mem (d : α) (p : List α) (h : d ∉ p) : splitOnL d p = [p] := by
  induction p with
  | nil => rfl
  | cons b bs ih =>
    have hb : b ≠ d := fun e => h (by simp [e])
    have := ih (fun e => h (by simp [e]))
    simp [splitOnL, hb, this]

theorem splitOnL_append (d : α) (p r : List α) (h : d ∉ p) :
    splitOnL d (p ++ d :: r) = p :: splitOnL d r := by
  induction p with
  | nil => simp [splitOnL]
  | cons b bs ih =>
    have hb : b ≠ d := fun e => h (by simp [e])
    have := ih (fun e => h (by simp [e]))
    simp [splitOnL, hb, this]

/-- the pieces of `splitOnL`, glued back with the separator -/
def joinSep (d : α) : List (List α) → List α
  | [] => []
  | p :: ps => p ++ ps.flatMap (fun q => d :: q)

theorem splitOnL_cons_sep (d : α) (bs : List α) : splitOnL d (d :: bs) = [] :: splitOnL d bs := by
  simp [splitOnL]

theorem splitOnL_cons_ne (d b : α) (bs : List α) (h : b ≠ d) :
    splitOnL d (b :: bs) = (b :: (splitOnL d bs).headD []) :: (splitOnL d bs).tail := by
  simp [splitOnL, h]

theorem joinSep_splitOnL (d : α) (l : List α) : joinSep d (splitOnL d l) = l := by
  induction l with
  | nil => rfl
  | cons b bs ih =>
    by_cases hb : b = d
    · subst hb
      rw [splitOnL_cons_sep]
      cases hs : splitOnL b bs with
      | nil => exact absurd hs (splitOnL_ne_nil _ _)
      | cons p ps =>
        rw [hs] at ih
        simp only [joinSep, List.flatMap_cons, List.nil_append] at ih ⊢
        rw [← ih]; simp
    · rw [splitOnL_cons_ne d b bs hb]
      cases hs : splitOnL d bs with
      | nil => exact absurd hs (splitOnL_ne_nil _ _)
      | cons p ps =>
        rw [hs] at ih
        simp only [joinSep, List.headD_cons, List.tail_cons, List.cons_append] at ih ⊢
        rw [ih]

theorem splitOnL_pieces (d : α) (l : List α) : ∀ p ∈ splitOnL d l, d ∉ p := by
  induction l with
  | nil => simp [splitOnL]
  | cons b bs ih =>
    by_cases hb : b = d
    · subst hb
      rw [splitOnL_cons_sep]
      intro p hp
      simp only [List.mem_cons] at hp
      rcases hp with rfl | hp
      · simp
      · exact ih p hp
    · rw [splitOnL_cons_ne d b bs hb]
      cases hs : splitOnL d bs with
      | nil => exact absurd hs (splitOnL_ne_nil _ _)
      | cons q qs =>
        rw [hs] at ih
        intro p hp
        simp only [List.headD_cons, List.tail_cons, List.mem_cons] at hp
        rcases hp with rfl | hp
        · have := ih q (by simp)
          simp only [List.mem_cons, not_or]
          exact ⟨fun e => hb e.symm, this⟩
        · exact ih p (by simp [hp])

/-- splitting a glued list of separator-free pieces gives the pieces back -/
theorem splitOnL_joinSep (d : α) (p : List α) (ps : List (List α))
    (hp : d ∉ p) (hps : ∀ q ∈ ps, d ∉ q) : splitOnL d (joinSep d (p :: ps)) = p :: ps := by
  induction ps generalizing p with
  | nil => simpa [joinSep] using splitOnL_not_mem d p hp
  | cons q qs ih =>
    have := ih q (hps q (by simp)) (fun r hr => hps r (by simp [hr]))
    simp only [joinSep, List.flatMap_cons, List.cons_append] at this ⊢
    rw [splitOnL_append d p _ hp, this]

/-! ### splitFirstL -/

theorem splitFirstL_append (d : α) (p r : List α) (h : d ∉ p) :
    splitFirstL d (p ++ d :: r) = some (p, r) := by
  induction p with
  | nil => simp [splitFirstL]
  | cons b bs ih =>
    have hb : b ≠ d := fun e => h (by simp [e])
    have := ih (fun e => h (by simp [e]))
    simp [splitFirstL, hb, this]

theorem splitFirstL_eq_some (d : α) (l p r : List α) (h : splitFirstL d l = some (p, r)) :
    l = p ++ d :: r ∧ d ∉ p := by
  induction l generalizing p with
  | nil => simp [splitFirstL] at h
  | cons b bs ih =>
    simp only [splitFirstL] at h
    split at h
    · rename_i hb
      simp only [Option.some.injEq, Prod.mk.injEq] at h
      obtain ⟨rfl, rfl⟩ := h
      simp [hb]
    · rename_i hb
      split at h
      · rename_i p' r' hs
        simp only [Option.some.injEq, Prod.mk.injEq] at h
        obtain ⟨rfl, rfl⟩ := h
        obtain ⟨h1, h2⟩ := ih p' hs
        refine ⟨by rw [h1]; simp, ?_⟩
        simp only [List.mem_cons, not_or]
        exact ⟨fun e => hb e.symm, h2⟩
      · simp at h

theorem splitFirstL_eq_none (d : α) (l : List α) (h : splitFirstL d l = none) : d ∉ l := by
  induction l with
  | nil => simp
  | cons b bs ih =>
    simp only [splitFirstL] at h
    split at h
    · simp at h
    · rename_i hb
      split at h
      · simp at h
      · rename_i hs
        simp only [List.mem_cons, not_or]
        exact ⟨fun e => hb e.symm, ih hs⟩

/-! ### stripPrefix -/

theorem stripPrefix_append (p r : List α) : stripPrefix p (p ++ r) = some r := by
  induction p with
  | nil => rfl
  | cons b bs ih => simp [stripPrefix, ih]

theorem stripPrefix_eq_some (p s r : List α) (h : stripPrefix p s = some r) : s = p ++ r := by
  induction p generalizing s with
  | nil => simp [stripPrefix] at h; simp [h]
  | cons b bs ih =>
    cases s with
    | nil => simp [stripPrefix] at h
    | cons c cs =>
      simp only [stripPrefix] at h
      split at h
      · rename_i hb; subst hb
        rw [ih cs h]; rfl
      · simp at h

/-- two texts `x ++ d :: r`, with `d`-free heads, are equal only if heads and tails are -/
theorem sep_unique (d : α) (x y r r' : List α) (hx : d ∉ x) (hy : d ∉ y)
    (h : x ++ d :: r = y ++ d :: r') : x = y ∧ r = r' := by
  have h1 := splitFirstL_append d x r hx
  have h2 := splitFirstL_append d y r' hy
  rw [h, h2] at h1
  simp only [Option.some.injEq, Prod.mk.injEq] at h1
  exact ⟨h1.1.symm, h1.2.symm⟩

end split

/-! ### tables -/

theorem corePrefix_eq : corePrefix = ['s', 'w', 'h', ':', '1', ':'] := by decide

theorem corePrefix_lit : corePrefix = "swh:1:".toList := by
  rw [corePrefix_eq]; decide

/-- facts about the generated tables the proofs rest on (re-checked when the tables change) -/
theorem reTags_clean : ∀ t ∈ reTags, ':' ∉ t ∧ ';' ∉ t := by decide
theorem coreTags_sub_reTags : ∀ t ∈ coreTags, t ∈ reTags := by decide
theorem coreTags_sub_extTags : ∀ t ∈ coreTags, t ∈ extTags := by decide
theorem extTags_sub_reTags : ∀ t ∈ extTags, t ∈ reTags := by decide
theorem qualKeys_sub_fieldNames : ∀ k ∈ qualKeys, k ∈ fieldNames := by decide
theorem qualKeys_iff_knownKeys : ∀ k, k ∈ qualKeys ↔ k ∈ knownKeys := by
  intro k
  have h1 : ∀ k ∈ qualKeys, k ∈ knownKeys := by decide
  have h2 : ∀ k ∈ knownKeys, k ∈ qualKeys := by decide
  exact ⟨h1 k, h2 k⟩
theorem knownKeys_clean : ∀ k ∈ knownKeys, '=' ∉ k ∧ ';' ∉ k ∧ ∀ c ∈ k, isPySpace c = false := by
  decide
theorem visitTags_sub : ∀ t ∈ visitTags, t ∈ coreTags := by decide
theorem anchorTags_sub : ∀ t ∈ anchorTags, t ∈ coreTags := by decide

end Swh
