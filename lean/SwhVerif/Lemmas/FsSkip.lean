import SwhVerif.Lemmas.FsExport
/-! The size limit changes the `skipped` flag of contents and nothing else (C13). -/
namespace Swh.Fs
open Swh

mutual
/-- the same tree with every content marked visible -/
def unskip : RNode → RNode
  | .content c => .content { c with skipped := false }
  | .directory es => .directory (unskipL es)
def unskipL : List (Bytes × RNode) → List (Bytes × RNode)
  | [] => []
  | (n, c) :: r => (n, unskip c) :: unskipL r
end

theorem unskipL_eq_map (es : List (Bytes × RNode)) : unskipL es = es.map (fun p => (p.1, unskip p.2)) := by
  induction es with
  | nil => simp [unskipL]
  | cons p r ih => obtain ⟨n, c⟩ := p; simp [unskipL, ih]

theorem names_unskipL (es : List (Bytes × RNode)) : names (unskipL es) = names es := by
  rw [unskipL_eq_map]; simp [names]

/-- reading with a limit, then forgetting the flags = reading without limit -/
theorem unskip_walkP (H : Bytes → Bytes) (f : PathFilter) (ml : Option Nat) :
    (∀ t, unskip (walkP H f ml t) = walkP H f none t) ∧
    (∀ es, unskipL (walkPL H f ml es) = walkPL H f none es) := by
  apply FsNode.induct2
  · intro m d; simp [walkP, unskip, tooLarge]
  · intro t; simp [walkP, unskip, fromBytes]
  · intro m; simp [walkP, unskip, fromBytes]
  · intro es ih; simp [walkP, unskip, ih]
  · simp [walkPL, unskipL]
  · intro n c rest hc hr
    by_cases h : accepts f n c <;> simp [walkPL, h, unskipL, hc, hr]

theorem unskip_refilter (f : PathFilter) :
    (∀ r, unskip (refilter f r) = refilter f (unskip r)) ∧
    (∀ es, unskipL (refilterL f es) = refilterL f (unskipL es)) := by
  apply RNode.induct2
  · intro c; simp [refilter, unskip]
  · intro es ih; simp [refilter, unskip, ih]
  · simp [refilterL, unskipL, refilter, RNode.entries]
  · intro n c rest hc hr
    cases c with
    | content cc => simp [refilterL, unskipL, unskip, hr, refilter, RNode.entries]
    | directory ces =>
      simp only [refilter, unskip, RNode.directory.injEq] at hc
      simp only [refilterL, unskipL, unskip, ← hc, names_unskipL, refilter, RNode.entries]
      by_cases h : f n (some (names (refilterL f ces))) <;> simp [h, unskipL, unskip, hr]

theorem unskip_id (H : Bytes → Bytes) :
    (∀ r, (unskip r).id H = r.id H) ∧ (∀ es, entriesOf H (unskipL es) = entriesOf H es) := by
  apply RNode.induct2
  · intro c; simp [unskip, RNode.id]
  · intro es ih; simp [unskip, RNode.id, ih]
  · simp [unskipL, entriesOf]
  · intro n c rest hc hr
    simp only [unskipL, entriesOf, hc, hr]
    cases c <;> simp [unskip, mkEntry]

theorem unskip_lookup (r : RNode) (path : List Bytes) :
    (unskip r).lookup path = (r.lookup path).map unskip := by
  induction path generalizing r with
  | nil => cases r <;> simp [RNode.lookup]
  | cons c rest ih =>
    cases r with
    | content cc => simp [unskip, RNode.lookup]
    | directory es =>
      simp only [unskip, RNode.lookup]
      by_cases hc : c = []
      · have := ih (.directory es)
        simp only [unskip] at this
        simp [hc, this]
      · simp only [hc, if_false, unskipL_eq_map, assoc_map]
        cases assoc c es with
        | none => simp
        | some ch => simp [ih ch]

theorem unskip_perms (r : RNode) : (unskip r).perms = r.perms := by
  cases r <;> simp [unskip, RNode.perms]

theorem unskip_isDirectory (r : RNode) : (unskip r).isDirectory = r.isDirectory := by
  cases r <;> simp [unskip, RNode.isDirectory]

/-- **the limit never changes the tree, only `skipped` flags** (and possibly raises) -/
theorem readTree_unskip (H : Bytes → Bytes) (f : PathFilter) (ml : Option Nat) (t : FsNode) (r : RNode)
    (h : readTree H f ml t = .ok r) : readTree H f none t = .ok (unskip r) := by
  cases t with
  | dir es =>
    rw [readTree_eq] at h
    rw [readTree_eq, (bad_none f).2]
    by_cases hb : badL f ml es
    · simp [hb] at h
    · simp only [hb, Bool.false_eq_true, if_false, Except.ok.injEq] at h
      subst h
      simp only [Bool.false_eq_true, if_false, Except.ok.injEq]
      rw [(unskip_refilter f).1]
      simp [unskip, (unskip_walkP H f ml).2]
  | file m d => simp [readTree] at h
  | symlink t => simp [readTree] at h
  | special m => simp [readTree] at h

end Swh.Fs
