import SwhVerif.Lemmas.SerdeBasic
import SwhVerif.Props.C08
/-!
  C12: SWHID-valued fields.  The text written by `to_dict` (`str(swhid)`) is read back by
  `from_string` to the same value: an instance of C08 (`parse_print`).
-/
namespace Swh.Serde
open Swh

theorem strToChars_charsToStr (s : Str) : strToChars (charsToStr s) = some s := by
  induction s with
  | nil => rfl
  | cons c cs ih =>
    have hv : c.toNat.isValidChar := c.valid
    have hc : Char.ofNat c.toNat = c := Char.ofNat_toNat c
    simp only [charsToStr, List.map] at ih ⊢
    simp only [strToChars, hv, if_true, ih, hc, Option.map]

theorem coreFromString_print (b : BaseSwhid) (h : WfSwhid coreTags b) :
    coreFromString (printBase b) = .ok b := by
  have := Swh.C08.parse_print (.core b) ⟨h.1, h.2⟩
  simp only [parseSwhid, parseSwhidW, Value.cls, printValue] at this
  cases hc : coreFromString (printBase b) with
  | error e => rw [hc] at this; cases this
  | ok v => rw [hc] at this; simp only [bind, Except.bind] at this; cases this; rfl

theorem extFromString_print (b : BaseSwhid) (h : WfSwhid extTags b) :
    extFromString (printBase b) = .ok b := by
  have := Swh.C08.parse_print (.extended b) ⟨h.1, h.2⟩
  simp only [parseSwhid, parseSwhidW, Value.cls, printValue] at this
  cases hc : extFromString (printBase b) with
  | error e => rw [hc] at this; cases this
  | ok v => rw [hc] at this; simp only [bind, Except.bind] at this; cases this; rfl

theorem decSwhid_core (b : BaseSwhid) (h : WfSwhid coreTags b) :
    decSwhid coreTags (encSwhid b) = .ok b := by
  simp only [decSwhid, encSwhid, swhidText, strToChars_charsToStr]
  exact coreFromString_print b h

theorem decSwhid_ext (b : BaseSwhid) (h : WfSwhid extTags b) :
    decSwhid extTags (encSwhid b) = .ok b := by
  simp only [decSwhid, encSwhid, swhidText, strToChars_charsToStr]
  exact extFromString_print b h

theorem truthy_encSwhid (b : BaseSwhid) : truthy (encSwhid b) = true := by
  simp [truthy, encSwhid, swhidText, charsToStr, printBase, corePrefix, nsStr]

end Swh.Serde
