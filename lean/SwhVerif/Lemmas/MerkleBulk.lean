import SwhVerif.Lemmas.MerkleStruct
/-!
# Merkle cache: the bulk operation `update` (C10/C14 helper lemmas, part 5)
-/
namespace Swh.Merkle
variable {H : Type} {hashFn : Data → List (EntryV H) → H}

/-- the `match` of the loop body, as a count -/
def indOpt (d : Id) : Option Id → Nat
  | some o => ind (d = o)
  | none => 0

theorem count_dictSet' (l : List (Name × Id)) (k : Name) (c d : Id) :
    (vals (dictSet l k c)).count d + indOpt d (dictGet l k) = (vals l).count d + ind (d = c) := by
  have := count_dictSet l k c d
  unfold indOpt
  cases h : dictGet l k <;> simp only [h] at this ⊢ <;> exact this

/-- one round of the loop of `update`: `c.parents.append(t)`; then, if the name was present with
old child `o`, `o.parents.remove(t)` -/
theorem updateStep_spec (g : Heap H) (t c : Id) (oo : Option Id) (hc : c < g.size)
    (ho : ∀ o, oo = some o → o < g.size) :
    let g1 := g.modify c (fun x => { x with parents := x.parents ++ [t] })
    let g2 := removeParentOpt t g1 oo
    CoreSame g g2 ∧ (∀ n, (g2.get n).children = (g.get n).children) ∧
    (∀ d, ((g2.get d).parents).count t = ((g.get d).parents).count t + ind (d = c) - indOpt d oo) ∧
    (∀ d q, q ≠ t → ((g2.get d).parents).count q = ((g.get d).parents).count q) := by
  intro g1 g2
  have e1 := get_setParents g c (fun l => l ++ [t]) hc
  have cs1 : CoreSame g g1 := coreSame_setParents g c (fun l => l ++ [t]) hc
  have hp1 : ∀ d, (g1.get d).parents = if d = c then (g.get d).parents ++ [t] else (g.get d).parents := by
    intro d; show ((g.modify c _).get d).parents = _; rw [e1]
  have hch1 : ∀ n, (g1.get n).children = (g.get n).children := by
    intro n; show ((g.modify c _).get n).children = _; rw [e1]
  have cnt1 : ∀ d q, ((g1.get d).parents).count q
      = ((g.get d).parents).count q + (if q = t then ind (d = c) else 0) := by
    intro d q
    rw [hp1]
    by_cases hd : d = c
    · rw [if_pos hd, List.count_append, count_singleton]
      by_cases hq : q = t <;> simp [ind, hd, hq]
    · rw [if_neg hd]
      by_cases hq : q = t <;> simp [ind, hd, hq]
  cases oo with
  | none =>
    refine ⟨cs1, hch1, ?_, ?_⟩
    · intro d; show ((g1.get d).parents).count t = _; rw [cnt1]; simp [indOpt]
    · intro d q hq; show ((g1.get d).parents).count q = _; rw [cnt1]; simp [hq]
  | some o =>
    have ho1 : o < g1.size := by rw [cs1.size]; exact ho o rfl
    have e2 := get_setParents g1 o (fun l => l.erase t) ho1
    have cs2 : CoreSame g1 g2 := coreSame_setParents g1 o (fun l => l.erase t) ho1
    have hp2 : ∀ d, (g2.get d).parents =
        if d = o then (g1.get d).parents.erase t else (g1.get d).parents := by
      intro d; show ((g1.modify o _).get d).parents = _; rw [e2]
    refine ⟨cs1.trans cs2, ?_, ?_, ?_⟩
    · intro n; show ((g1.modify o _).get n).children = _; rw [e2]; exact hch1 n
    · intro d
      rw [hp2]
      by_cases hd : d = o
      · rw [if_pos hd, count_erase, cnt1]; simp [indOpt, ind, hd]
      · rw [if_neg hd, cnt1]; simp [indOpt, ind, hd]
    · intro d q hq
      rw [hp2]
      by_cases hd : d = o
      · rw [if_pos hd, count_erase, cnt1]; simp [ind, hq]
      · rw [if_neg hd, cnt1]; simp [hq]

theorem dictUpdate_cons (l : List (Name × Id)) (x : Name × Id) (ks : List (Name × Id)) :
    dictUpdate l (x :: ks) = dictUpdate (dictSet l x.1 x.2) ks := rfl

/-- the loop of `update` keeps the back-links of `t` with respect to the dict it is about to
write (`dictUpdate Lg ks`) and those of every other node. -/
theorem updateLoop_spec (t : Id) (old : List (Name × Id)) (h1 : Heap H) :
    ∀ (ks : List (Name × Id)) (g : Heap H) (Lg : List (Name × Id)),
      CoreSame h1 g → (∀ n, (g.get n).children = (h1.get n).children) →
      (∀ kc ∈ ks, kc.2 < h1.size) → (ks.map (·.1)).Nodup →
      (∀ kc ∈ ks, dictGet Lg kc.1 = dictGet old kc.1) →
      (∀ o ∈ vals old, o < h1.size) →
      (∀ d, (vals Lg).count d ≤ ((g.get d).parents).count t) →
      (∀ p, p ≠ t → ∀ d, (kids g p).count d ≤ ((g.get d).parents).count p) →
      CoreSame h1 (updateLoop t old g ks) ∧
      (∀ n, ((updateLoop t old g ks).get n).children = (h1.get n).children) ∧
      (∀ d, (vals (dictUpdate Lg ks)).count d ≤ (((updateLoop t old g ks).get d).parents).count t) ∧
      (∀ p, p ≠ t → ∀ d, (kids (updateLoop t old g ks) p).count d
        ≤ (((updateLoop t old g ks).get d).parents).count p) := by
  intro ks
  induction ks with
  | nil => intro g Lg cs hch _ _ _ _ lt lo; exact ⟨cs, hch, lt, lo⟩
  | cons x rest ih =>
    obtain ⟨name, c⟩ := x
    intro g Lg cs hch hks hnd hget hold lt lo
    have hc : c < g.size := by rw [cs.size]; exact hks (name, c) List.mem_cons_self
    have hoo : ∀ o, dictGet old name = some o → o < g.size := by
      intro o ho; rw [cs.size]; exact hold o (dictGet_mem _ _ _ ho)
    obtain ⟨cs2, hch2, cntT, cntO⟩ := updateStep_spec g t c (dictGet old name) hc hoo
    simp only [updateLoop]
    rw [dictUpdate_cons]
    have hnd' : (rest.map (·.1)).Nodup := (List.nodup_cons.mp hnd).2
    have hnotin : name ∉ rest.map (·.1) := (List.nodup_cons.mp hnd).1
    apply ih _ (dictSet Lg name c) (cs.trans cs2) (fun n => (hch2 n).trans (hch n))
      (fun kc hk => hks kc (List.mem_cons_of_mem _ hk)) hnd'
    · intro kc hk
      have hne : kc.1 ≠ name := by
        intro e; apply hnotin; rw [← e]; exact List.mem_map.mpr ⟨kc, hk, rfl⟩
      rw [dictGet_dictSet_ne _ _ _ _ hne]
      exact hget kc (List.mem_cons_of_mem _ hk)
    · exact hold
    · intro d
      rw [cntT]
      have h1' := count_dictSet' Lg name c d
      have hg0 : dictGet Lg name = dictGet old name := hget (name, c) List.mem_cons_self
      rw [hg0] at h1'
      have := lt d
      omega
    · intro p hp d
      rw [cntO d p hp, kids_eq, hch2 p, ← kids_eq]
      exact lo p hp d

/-- `update(kids)` -/
theorem baseUpdate_spec {h : Heap H} (i : Inv hashFn h) (t : Id) (ks : List (Name × Id))
    (ht : t < h.size) (hks : ∀ kc ∈ ks, kc.2 < h.size) (hnd : (ks.map (·.1)).Nodup) :
    Inv hashFn (baseUpdate h t ks) ∧ CollStable h (baseUpdate h t ks) ∧
    (baseUpdate h t ks).size = h.size := by
  obtain ⟨i1, nv, a1⟩ := invalidateTop_spec i t
  unfold baseUpdate
  generalize invalidateTop h t = h1 at i1 nv a1
  have hs1 : h1.size = h.size := nv.toSameStruct.size
  obtain ⟨cs2, hch2, lt2, lo2⟩ := updateLoop_spec t (h1.get t).children h1 ks h1 (h1.get t).children
    (CoreSame.refl h1) (fun _ => rfl) (fun kc hk => by rw [hs1]; exact hks kc hk) hnd
    (fun _ _ => rfl) (fun o ho => i1.bound t o ho) (fun d => i1.links t d)
    (fun p _ d => i1.links p d)
  simp only
  generalize updateLoop t (h1.get t).children h1 ks = h2 at cs2 hch2 lt2 lo2
  have ht2 : t < h2.size := by rw [cs2.size, hs1]; exact ht
  have g3 := get_setChildren h2 t (fun l => dictUpdate l ks) ht2
  have cs3 : CoreSame h2 (h2.modify t (fun x => { x with children := dictUpdate x.children ks })) :=
    coreSame_setChildren h2 t (fun l => dictUpdate l ks) ht2
  generalize h2.modify t (fun x => { x with children := dictUpdate x.children ks }) = h3 at g3 cs3
  have cs := cs2.trans cs3
  have hchild : ∀ n, (h3.get n).children =
      if n = t then dictUpdate (h1.get n).children ks else (h1.get n).children := by
    intro n; rw [g3]
    show (if n = t then dictUpdate (h2.get n).children ks else (h2.get n).children) = _
    rw [hch2]
  have hpar : ∀ n, (h3.get n).parents = (h2.get n).parents := by
    intro n; rw [g3]
  refine ⟨?_, (CollStable.of_shrinks nv.toShrinks).trans cs.collStable, cs.size.trans hs1⟩
  apply inv_restructure i1 t a1 cs
  · intro n hn; rw [hchild, if_neg hn]
  · intro p d
    rw [hpar]
    by_cases hp : p = t
    · subst hp
      rw [kids_eq, hchild, if_pos rfl]
      exact lt2 d
    · have : kids h3 p = kids h2 p := by rw [kids_eq, hchild, if_neg hp, ← hch2 p, ← kids_eq]
      rw [this]
      exact lo2 p hp d
  · intro d hd
    rw [kids_eq, hchild, if_pos rfl] at hd
    rcases mem_dictUpdate _ _ _ hd with e | e
    · exact i1.bound t d e
    · obtain ⟨kc, hk, rfl⟩ := List.mem_map.mp e
      rw [hs1]; exact hks kc hk

end Swh.Merkle
