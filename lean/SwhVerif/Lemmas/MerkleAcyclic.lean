import SwhVerif.Lemmas.MerkleRun
/-!
# Merkle cache: `Acyclic` (a strict rank bounded by the number of nodes) is exactly
"no node reaches itself" (pigeonhole), so the hypothesis of C10/C14 is the plain absence of cycles.
-/
namespace Swh.Merkle
variable {H : Type}

/-- no node is reachable from one of its own children -/
def NoCycle (h : Heap H) : Prop := ∀ n c, c ∈ kids h n → ¬ Reach h c n

/-- consecutive elements are linked by an edge -/
def isPath (h : Heap H) : List Id → Prop
  | [] => True
  | [_] => True
  | a :: b :: t => b ∈ kids h a ∧ isPath h (b :: t)

def maxL : List Nat → Nat
  | [] => 0
  | a :: t => max a (maxL t)

theorem le_maxL (l : List Nat) (x : Nat) (hx : x ∈ l) : x ≤ maxL l := by
  induction l with
  | nil => cases hx
  | cons a t ih =>
    rcases List.mem_cons.mp hx with rfl | h
    · exact Nat.le_max_left _ _
    · exact Nat.le_trans (ih h) (Nat.le_max_right _ _)

theorem maxL_mem (l : List Nat) : maxL l = 0 ∨ maxL l ∈ l := by
  induction l with
  | nil => exact .inl rfl
  | cons a t ih =>
    simp only [maxL]
    rcases Nat.le_total a (maxL t) with h | h
    · rw [Nat.max_eq_right h]
      rcases ih with e | e
      · exact .inl e
      · exact .inr (List.mem_cons_of_mem _ e)
    · rw [Nat.max_eq_left h]; exact .inr List.mem_cons_self

/-- height with bounded depth: the length of the longest path of at most `f` edges from `n` -/
def ht (h : Heap H) : Nat → Id → Nat
  | 0, _ => 0
  | f + 1, n => maxL ((kids h n).map (fun c => ht h f c + 1))

theorem ht_le (h : Heap H) : ∀ f n, ht h f n ≤ f := by
  intro f
  induction f with
  | zero => intro n; exact Nat.le_refl 0
  | succ f ih =>
    intro n
    simp only [ht]
    rcases maxL_mem ((kids h n).map (fun c => ht h f c + 1)) with e | e
    · rw [e]; exact Nat.zero_le _
    · obtain ⟨c, _, hc⟩ := List.mem_map.mp e
      rw [← hc]; exact Nat.succ_le_succ (ih c)

theorem ht_witness (h : Heap H) : ∀ f n, ∃ p, isPath h (n :: p) ∧ p.length = ht h f n := by
  intro f
  induction f with
  | zero => intro n; exact ⟨[], trivial, rfl⟩
  | succ f ih =>
    intro n
    simp only [ht]
    rcases maxL_mem ((kids h n).map (fun c => ht h f c + 1)) with e | e
    · exact ⟨[], trivial, by rw [e]; rfl⟩
    · obtain ⟨c, hc, hv⟩ := List.mem_map.mp e
      obtain ⟨p, hp, hl⟩ := ih c
      exact ⟨c :: p, ⟨hc, hp⟩, by rw [← hv, ← hl]; rfl⟩

theorem ht_ge_path (h : Heap H) : ∀ f n p, isPath h (n :: p) → p.length ≤ f → p.length ≤ ht h f n := by
  intro f
  induction f with
  | zero => intro n p _ hl; exact hl
  | succ f ih =>
    intro n p hp hl
    cases p with
    | nil => exact Nat.zero_le _
    | cons c p' =>
      have h1 := ih c p' hp.2 (by simpa using hl)
      simp only [ht]
      apply Nat.le_trans _ (le_maxL _ (ht h f c + 1) (List.mem_map.mpr ⟨c, hp.1, rfl⟩))
      simpa using h1

theorem path_reach (h : Heap H) : ∀ (t : List Id) (a : Id), isPath h (a :: t) →
    ∀ y ∈ t, ∃ c ∈ kids h a, Reach h c y := by
  intro t
  induction t with
  | nil => intro a _ y hy; cases hy
  | cons b t ih =>
    intro a hp y hy
    rcases List.mem_cons.mp hy with rfl | hy
    · exact ⟨y, hp.1, Reach.refl y⟩
    · obtain ⟨c, hc, hr⟩ := ih b hp.2 y hy
      exact ⟨b, hp.1, Reach.step hc hr⟩

theorem isPath_tail (h : Heap H) (a : Id) (t : List Id) (hp : isPath h (a :: t)) : isPath h t := by
  cases t with
  | nil => trivial
  | cons b t => exact hp.2

theorem path_nodup (h : Heap H) (nc : NoCycle h) : ∀ l, isPath h l → l.Nodup := by
  intro l
  induction l with
  | nil => intro _; exact List.nodup_nil
  | cons a t ih =>
    intro hp
    apply List.nodup_cons.mpr
    refine ⟨?_, ih (isPath_tail h a t hp)⟩
    intro ha
    obtain ⟨c, hc, hr⟩ := path_reach h t a hp a ha
    exact nc a c hc hr

theorem path_lt (h : Heap H) (hb : ∀ p c, c ∈ kids h p → c < h.size) :
    ∀ (t : List Id) (a : Id), isPath h (a :: t) → ∀ y ∈ t, y < h.size := by
  intro t
  induction t with
  | nil => intro a _ y hy; cases hy
  | cons b t ih =>
    intro a hp y hy
    rcases List.mem_cons.mp hy with rfl | hy
    · exact hb a y hp.1
    · exact ih b hp.2 y hy

theorem kids_lt (h : Heap H) (n c : Id) (hc : c ∈ kids h n) : n < h.size := by
  apply Nat.lt_of_not_le
  intro hge
  rw [kids, Heap.get_of_ge h n hge] at hc
  cases hc

/-- **Pigeonhole**: a heap without cycles (whose children are allocated nodes) has a strict rank
bounded by the number of nodes. -/
theorem acyclic_of_noCycle (h : Heap H) (hb : ∀ p c, c ∈ kids h p → c < h.size) (nc : NoCycle h) :
    Acyclic h := by
  refine ⟨ht h h.size, ?_, fun n => ht_le h h.size n⟩
  intro n c hc
  obtain ⟨p, hp, hl⟩ := ht_witness h h.size c
  have hpath : isPath h (n :: c :: p) := ⟨hc, hp⟩
  have hnd := path_nodup h nc _ hpath
  have hsub : (n :: c :: p) ⊆ List.range h.size := by
    intro y hy
    rcases List.mem_cons.mp hy with rfl | hy
    · exact List.mem_range.mpr (kids_lt h y c hc)
    · exact List.mem_range.mpr (path_lt h hb _ n hpath y hy)
  have hlen := List.Nodup.length_le_of_subset hnd hsub
  simp only [List.length_cons, List.length_range] at hlen
  have := ht_ge_path h h.size n (c :: p) hpath (by simp only [List.length_cons]; omega)
  simp only [List.length_cons] at this
  omega

theorem noCycle_of_acyclic (h : Heap H) (a : Acyclic h) : NoCycle h := by
  obtain ⟨rank, rk, _⟩ := a
  have mono : ∀ x y, Reach h x y → rank y ≤ rank x := by
    intro x y r
    induction r with
    | refl n => exact Nat.le_refl _
    | step hc _ ih => exact Nat.le_trans ih (Nat.le_of_lt (rk _ _ hc))
  intro n c hc hr
  have h1 := rk n c hc
  have h2 := mono c n hr
  omega

theorem acyclic_iff_noCycle (h : Heap H) (hb : ∀ p c, c ∈ kids h p → c < h.size) :
    Acyclic h ↔ NoCycle h := ⟨noCycle_of_acyclic h, acyclic_of_noCycle h hb⟩

/-- every heap along the history is free of cycles -/
def NoCycleHist (hashFn : Data → List (EntryV H) → H) : Heap H → List Op → Prop
  | h, [] => NoCycle h
  | h, op :: ops => NoCycle h ∧ NoCycleHist hashFn (step hashFn h op).1 ops

/-- along a history the invariant bounds the children, so "no cycles" gives `AcyclicHist` -/
theorem acyclicHist_of_noCycleHist {hashFn : Data → List (EntryV H) → H} :
    ∀ (ops : List Op) (h : Heap H), Inv hashFn h → NoCycleHist hashFn h ops →
      AcyclicHist hashFn h ops := by
  intro ops
  induction ops with
  | nil => intro h i nc; exact acyclic_of_noCycle h i.bound nc
  | cons op t ih =>
    intro h i nc
    have a := acyclic_of_noCycle h i.bound nc.1
    exact ⟨a, ih _ (step_post i a op).inv nc.2⟩

end Swh.Merkle
