import SwhVerif.Lemmas.FsWalk1
/-! `for path in reversed(filtered): del top_dir[path]` turns the tree the stack walk built
    into the structural pass 1. -/
namespace Swh.Fs
open Swh

theorem deleteAll_append (ps qs : List (List Bytes)) (t : RNode) :
    deleteAll (ps ++ qs) t =
      match deleteAll ps t with
      | .error e => .error e
      | .ok t' => deleteAll qs t' := by
  induction ps generalizing t with
  | nil => simp [deleteAll]
  | cons p ps ih =>
    simp only [List.cons_append, deleteAll]
    cases RNode.deleteAt p t with
    | error e => rfl
    | ok t' => exact ih t'

/-- deletions strictly below the first entry -/
theorem deleteAll_under_head (n : Bytes) (X : RNode) (R : List (Bytes × RNode)) :
    ∀ (ps : List (List Bytes)) (X : RNode), (∀ p ∈ ps, p ≠ []) →
      deleteAll (ps.map (n :: ·)) (.directory ((n, X) :: R)) =
        match deleteAll ps X with
        | .error e => .error e
        | .ok X' => .ok (.directory ((n, X') :: R)) := by
  intro ps
  induction ps with
  | nil => intro X _; simp [deleteAll]
  | cons p ps ih =>
    intro X hne
    have hp : p ≠ [] := hne p (by simp)
    obtain ⟨c2, r2, rfl⟩ := List.exists_cons_of_ne_nil hp
    simp only [List.map_cons, deleteAll, RNode.deleteAt, assoc, if_true]
    cases RNode.deleteAt (c2 :: r2) X with
    | error e => rfl
    | ok X' =>
      simp only [dictSet, if_true]
      exact ih X' (fun q hq => hne q (by simp [hq]))

theorem deleteAt_cons_ne (k : Bytes) (X : RNode) (R : List (Bytes × RNode)) (c : Bytes) (q : List Bytes)
    (h : c ≠ k) :
    RNode.deleteAt (c :: q) (.directory ((k, X) :: R)) =
      match RNode.deleteAt (c :: q) (.directory R) with
      | .error e => .error e
      | .ok (.directory R1) => .ok (.directory ((k, X) :: R1))
      | .ok (.content cc) => .ok (.content cc) := by
  cases q with
  | nil =>
    simp only [RNode.deleteAt, assoc, Ne.symm h, if_false]
    cases assoc c R <;> simp [dictDel, Ne.symm h]
  | cons c2 r2 =>
    simp only [RNode.deleteAt, assoc, Ne.symm h, if_false]
    cases assoc c R with
    | none => rfl
    | some ch =>
      simp only
      cases RNode.deleteAt (c2 :: r2) ch <;> simp [dictSet, Ne.symm h]

theorem deleteAt_directory (p : List Bytes) (R : List (Bytes × RNode)) (t : RNode)
    (h : RNode.deleteAt p (.directory R) = .ok t) : ∃ R', t = .directory R' := by
  cases p with
  | nil => simp [RNode.deleteAt] at h
  | cons c q =>
    cases q with
    | nil =>
      simp only [RNode.deleteAt] at h
      cases ha : assoc c R with
      | none => rw [ha] at h; cases h
      | some ch => rw [ha] at h; cases h; exact ⟨_, rfl⟩
    | cons c2 r2 =>
      simp only [RNode.deleteAt] at h
      cases ha : assoc c R with
      | none => rw [ha] at h; cases h
      | some ch =>
        rw [ha] at h
        simp only at h
        cases hd : RNode.deleteAt (c2 :: r2) ch with
        | error e => rw [hd] at h; cases h
        | ok ch' => rw [hd] at h; cases h; exact ⟨_, rfl⟩

/-- deletions that never go through the first entry -/
theorem deleteAll_skip_head (k : Bytes) (X : RNode) :
    ∀ (ps : List (List Bytes)) (R R' : List (Bytes × RNode)),
      (∀ p ∈ ps, ∃ c q, p = c :: q ∧ c ≠ k) →
      deleteAll ps (.directory R) = .ok (.directory R') →
      deleteAll ps (.directory ((k, X) :: R)) = .ok (.directory ((k, X) :: R')) := by
  intro ps
  induction ps with
  | nil => intro R R' _ h; simp only [deleteAll, Except.ok.injEq, RNode.directory.injEq] at h; simp [deleteAll, h]
  | cons p ps ih =>
    intro R R' hps h
    obtain ⟨c, q, rfl, hc⟩ := hps p (by simp)
    simp only [deleteAll] at h ⊢
    rw [deleteAt_cons_ne k X R c q hc]
    cases hd : RNode.deleteAt (c :: q) (.directory R) with
    | error e => simp [hd] at h
    | ok t =>
      obtain ⟨R1, rfl⟩ := deleteAt_directory _ R t hd
      simp only [hd] at h
      exact ih R1 R' (fun p hp => hps p (by simp [hp])) h

/-! ### the `filtered` paths -/

theorem rej_rel (f : PathFilter) :
    (∀ t rel, rej f rel t = (rej f [] t).map (rel ++ ·)) ∧
    (∀ es rel, rejL f rel es = (rejL f [] es).map (rel ++ ·)) := by
  apply FsNode.induct2
  · intro m d rel; simp [rej]
  · intro t rel; simp [rej]
  · intro m rel; simp [rej]
  · intro es ih rel; simp only [rej]; exact ih rel
  · intro rel; simp [rejL]
  · intro n c rest hc hr rel
    cases c with
    | dir ces =>
      simp only [rej] at hc
      rw [rejL_dir, rejL_dir, hr rel, List.map_append]
      congr 1
      by_cases h : f n (some (names ces)) = true
      · simp only [h, if_true, List.nil_append]
        rw [hc (rel ++ [n]), hc [n], List.map_map]
        apply List.map_congr_left
        intro q _; simp
      · simp [h]
    | file m d => simpa [rejL] using hr rel
    | symlink t => simpa [rejL] using hr rel
    | special m => simpa [rejL] using hr rel

theorem rejL_head (f : PathFilter) :
    (∀ t : FsNode, ∀ es, t = FsNode.dir es → ∀ p ∈ rejL f [] es, ∃ c q, p = c :: q ∧ c ∈ names es) ∧
    (∀ es, ∀ p ∈ rejL f [] es, ∃ c q, p = c :: q ∧ c ∈ names es) := by
  apply FsNode.induct2
  · intro m d es h; cases h
  · intro t es h; cases h
  · intro m es h; cases h
  · intro es ih es' h; cases h; exact ih
  · intro p hp; simp [rejL] at hp
  · intro n c rest hc hr p hp
    cases c with
    | dir ces =>
      rw [rejL_dir, List.mem_append] at hp
      rcases hp with hp | hp
      · obtain ⟨c, q, rfl, hm⟩ := hr p hp
        exact ⟨c, q, rfl, by simp [hm]⟩
      · by_cases h : f n (some (names ces)) = true
        · simp only [h, if_true, List.nil_append] at hp
          rw [(rej_rel f).2 ces [n]] at hp
          obtain ⟨q, _, rfl⟩ := List.mem_map.mp hp
          exact ⟨n, q, rfl, by simp⟩
        · simp only [h, Bool.false_eq_true, if_false, List.nil_append, List.mem_singleton] at hp
          exact ⟨n, [], hp, by simp⟩
    | file m d =>
      simp only [rejL] at hp
      obtain ⟨c, q, rfl, hm⟩ := hr p hp
      exact ⟨c, q, rfl, by simp [hm]⟩
    | symlink t =>
      simp only [rejL] at hp
      obtain ⟨c, q, rfl, hm⟩ := hr p hp
      exact ⟨c, q, rfl, by simp [hm]⟩
    | special m =>
      simp only [rejL] at hp
      obtain ⟨c, q, rfl, hm⟩ := hr p hp
      exact ⟨c, q, rfl, by simp [hm]⟩

theorem walkPL_dir (H : Bytes → Bytes) (f : PathFilter) (ml : Option Nat) (n : Bytes)
    (ces rest : List (Bytes × FsNode)) :
    walkPL H f ml ((n, .dir ces) :: rest) =
      if f n (some (names ces)) then (n, .directory (walkPL H f ml ces)) :: walkPL H f ml rest
      else walkPL H f ml rest := by rfl

/-- **the deletions**: from the tree with placeholders to the structural pass 1 -/
theorem deleteAll_rej (H : Bytes → Bytes) (f : PathFilter) (ml : Option Nat) :
    (∀ t, ∀ es, t = .dir es → WfFs t →
      deleteAll (rejL f [] es).reverse (.directory (walkKL H f ml es)) = .ok (.directory (walkPL H f ml es))) ∧
    (∀ es, WfFs (.dir es) →
      deleteAll (rejL f [] es).reverse (.directory (walkKL H f ml es)) = .ok (.directory (walkPL H f ml es))) := by
  apply FsNode.induct2
  · intro m d es h; cases h
  · intro t es h; cases h
  · intro m es h; cases h
  · intro es ih es' h hw; cases h; exact ih hw
  · intro _; simp [rejL, walkKL, walkPL, deleteAll]
  · intro n c rest hc hr hw
    obtain ⟨h1, h2, h4⟩ := WfFs_cons' hw
    have hrest := hr h2
    have hheads : ∀ p ∈ (rejL f [] rest).reverse, ∃ c q, p = c :: q ∧ c ≠ n := by
      intro p hp
      rw [List.mem_reverse] at hp
      obtain ⟨c, q, rfl, hm⟩ := (rejL_head f).2 rest p hp
      exact ⟨c, q, rfl, fun e => h4 (e ▸ hm)⟩
    cases c with
    | dir ces =>
      rw [rejL_dir, walkKL_dir, walkPL_dir]
      by_cases h : f n (some (names ces)) = true
      · simp only [h, if_true, List.nil_append, List.reverse_append]
        rw [(rej_rel f).2 ces [n]]
        have e : (List.map (fun x => [n] ++ x) (rejL f [] ces)).reverse
            = (rejL f [] ces).reverse.map (n :: ·) := by
          rw [← List.map_reverse]; rfl
        rw [e, deleteAll_append]
        have hne : ∀ p ∈ (rejL f [] ces).reverse, p ≠ [] := by
          intro p hp
          rw [List.mem_reverse] at hp
          obtain ⟨c, q, rfl, _⟩ := (rejL_head f).2 ces p hp
          simp
        rw [deleteAll_under_head n (.directory []) _ _ _ hne, hc ces rfl h1]
        exact deleteAll_skip_head n _ _ _ _ hheads hrest
      · simp only [h, Bool.false_eq_true, if_false, List.nil_append, List.reverse_append,
          List.reverse_cons, List.reverse_nil, List.cons_append]
        simp only [deleteAll, RNode.deleteAt, assoc, if_true, dictDel]
        exact hrest
    | file m d =>
      simp only [rejL, walkKL, walkPL, accepts]
      by_cases h : f n none = true
      · simp only [h, if_true]; exact deleteAll_skip_head n _ _ _ _ hheads hrest
      · simp only [h, Bool.false_eq_true, if_false]; exact hrest
    | symlink t =>
      simp only [rejL, walkKL, walkPL, accepts]
      by_cases h : f n none = true
      · simp only [h, if_true]; exact deleteAll_skip_head n _ _ _ _ hheads hrest
      · simp only [h, Bool.false_eq_true, if_false]; exact hrest
    | special m =>
      simp only [rejL, walkKL, walkPL, accepts]
      by_cases h : f n none = true
      · simp only [h, if_true]; exact deleteAll_skip_head n _ _ _ _ hheads hrest
      · simp only [h, Bool.false_eq_true, if_false]; exact hrest

/-- **pass 1 as coded = pass 1 structurally** -/
theorem pass1_eq (H : Bytes → Bytes) (f : PathFilter) (ml : Option Nat) (es : List (Bytes × FsNode))
    (hw : WfFs (.dir es)) :
    (match walkLoop H f ml (FsNode.size (.dir es)) [⟨[], es⟩] (.directory []) [] with
      | .error e => (Except.error e : Except Err RNode)
      | .ok (tree, filtered) => deleteAll filtered.reverse tree) =
    (if badL f ml es then .error .symlinkTooLarge else .ok (.directory (walkPL H f ml es))) := by
  rw [walkLoop_top H f ml es hw]
  by_cases hb : badL f ml es = true
  · simp [hb]
  · simp only [hb, Bool.false_eq_true, if_false]
    exact (deleteAll_rej H f ml).2 es hw

end Swh.Fs
