import SwhVerif.Lemmas.FsBasic
/-! The two filtering passes of `from_disk` against physical pruning of the tree (C13). -/
namespace Swh.Fs
open Swh

/-- The filter looks at a directory listing only through its emptiness, and never prefers an
    empty listing: whatever it accepts with listing `l` it accepts with any `l'` that is
    non-empty or as empty as `l`.  (No condition on what it does with files or names.) -/
def EmptinessOnly (f : PathFilter) : Prop :=
  ∀ n l l', (l' = [] → l = []) → f n (some l) = true → f n (some l') = true

theorem names_walkPL_acceptAll (H : Bytes → Bytes) (ml : Option Nat) (es : List (Bytes × FsNode)) :
    names (walkPL H acceptAllPaths ml es) = names es := by
  induction es with
  | nil => simp [walkPL]
  | cons p r ih =>
    obtain ⟨n, c⟩ := p
    have : accepts acceptAllPaths n c = true := by cases c <;> simp [accepts, acceptAllPaths]
    simp [walkPL, this, ih]

theorem names_eq_nil {α} (es : List (Bytes × α)) : names es = [] ↔ es = [] := by
  cases es <;> simp [names]

theorem refilter_acceptAll :
    (∀ t, refilter acceptAllPaths t = t) ∧ (∀ es, refilterL acceptAllPaths es = es) := by
  apply RNode.induct2
  · intro c; simp [refilter]
  · intro es ih; simp [refilter, ih]
  · simp [refilterL, refilter, RNode.entries]
  · intro n c rest hc hr
    cases c with
    | content cc => simp [refilterL, hr, refilter, RNode.entries]
    | directory ces =>
      simp only [refilter, RNode.directory.injEq] at hc
      simp [refilterL, hr, hc, acceptAllPaths, refilter, RNode.entries]

/-- pure part: re-filtering what pass 1 kept = reading the physically pruned tree -/
theorem refilter_walkP (H : Bytes → Bytes) (f : PathFilter) (ml : Option Nat) (hf : EmptinessOnly f) :
    (∀ t, refilter f (walkP H f ml t) = walkP H acceptAllPaths ml (pruneBy f t)) ∧
    (∀ es, refilterL f (walkPL H f ml es) = walkPL H acceptAllPaths ml (pruneByL f es)) := by
  apply FsNode.induct2
  · intro m d; simp [walkP, refilter, pruneBy]
  · intro t; simp [walkP, refilter, pruneBy]
  · intro m; simp [walkP, refilter, pruneBy]
  · intro es ih; simp [walkP, refilter, pruneBy, ih]
  · simp [walkPL, refilterL, pruneByL, refilter, RNode.entries, pruneBy, FsNode.entries]
  · intro n c rest hc hr
    cases c with
    | file m d =>
      by_cases h : f n none <;>
        simp [walkPL, accepts, h, refilterL, pruneByL, hr, walkP, acceptAllPaths, refilter, RNode.entries, pruneBy, FsNode.entries]
    | symlink t =>
      by_cases h : f n none <;>
        simp [walkPL, accepts, h, refilterL, pruneByL, hr, walkP, acceptAllPaths, refilter, RNode.entries, pruneBy, FsNode.entries]
    | special m =>
      by_cases h : f n none <;>
        simp [walkPL, accepts, h, refilterL, pruneByL, hr, walkP, acceptAllPaths, refilter, RNode.entries, pruneBy, FsNode.entries]
    | dir ces =>
      simp only [walkP, refilter, pruneBy, RNode.directory.injEq] at hc
      by_cases h : f n (some (names ces))
      · simp only [walkPL, accepts, h, if_true, walkP, refilterL, hc, pruneByL,
          names_walkPL_acceptAll, refilter, RNode.entries, pruneBy, FsNode.entries]
        by_cases h2 : f n (some (names (pruneByL f ces)))
        · simp [h2, hr, walkPL, accepts, acceptAllPaths, walkP]
        · simp [h2, hr]
      · have h2 : f n (some (names (pruneByL f ces))) = false := by
          cases h3 : f n (some (names (pruneByL f ces))) with
          | false => rfl
          | true =>
            exfalso; apply h
            apply hf n _ _ _ h3
            intro e; rw [names_eq_nil] at e; subst e; simp [pruneByL, pruneBy, FsNode.entries]
        simp [walkPL, accepts, h, pruneByL, h2, hr, pruneBy, FsNode.entries]

/-- error part: pass 1 trips over an oversized link iff reading the pruned tree does -/
theorem bad_prune (f : PathFilter) (ml : Option Nat) (hf : EmptinessOnly f) :
    (∀ t, bad f ml t = bad acceptAllPaths ml (pruneBy f t)) ∧
    (∀ es, badL f ml es = badL acceptAllPaths ml (pruneByL f es)) := by
  apply FsNode.induct2
  · intro m d; simp [bad, pruneBy]
  · intro t; simp [bad, pruneBy]
  · intro m; simp [bad, pruneBy]
  · intro es ih; simp [bad, pruneBy, ih]
  · simp [badL, pruneByL, pruneBy, FsNode.entries]
  · intro n c rest hc hr
    cases c with
    | file m d => by_cases h : f n none <;> simp [badL, accepts, h, pruneByL, hr, bad, acceptAllPaths, pruneBy, FsNode.entries]
    | symlink t =>
      by_cases h : f n none <;> simp [badL, accepts, h, pruneByL, hr, bad, acceptAllPaths, pruneBy, FsNode.entries]
    | special m => by_cases h : f n none <;> simp [badL, accepts, h, pruneByL, hr, bad, acceptAllPaths, pruneBy, FsNode.entries]
    | dir ces =>
      simp only [bad, pruneBy] at hc
      by_cases h : f n (some (names ces))
      · by_cases h2 : f n (some (names (pruneByL f ces)))
        · simp [badL, accepts, h, pruneByL, h2, hr, bad, acceptAllPaths, hc, pruneBy, FsNode.entries]
        · have he : pruneByL f ces = [] := by
            rw [← names_eq_nil]
            cases hl : names (pruneByL f ces) with
            | nil => rfl
            | cons a b =>
              exfalso; apply h2
              apply hf n _ _ _ h
              intro e; rw [hl] at e; simp at e
          have h2' : f n (some []) = false := by simpa [he] using h2
          simp [badL, accepts, h, pruneByL, h2', hr, bad, hc, he, pruneBy, FsNode.entries]
      · have h2 : f n (some (names (pruneByL f ces))) = false := by
          cases h3 : f n (some (names (pruneByL f ces))) with
          | false => rfl
          | true =>
            exfalso; apply h
            apply hf n _ _ _ h3
            intro e; rw [names_eq_nil] at e; subst e; simp [pruneByL, pruneBy, FsNode.entries]
        simp [badL, accepts, h, pruneByL, h2, hr, pruneBy, FsNode.entries]

/-- **Two passes = prune, then read**, error cases included, for every filter that looks at
    listings through their emptiness only. -/
theorem readTree_eq_prune (H : Bytes → Bytes) (f : PathFilter) (ml : Option Nat)
    (hf : EmptinessOnly f) (t : FsNode) :
    readTree H f ml t = readTree H acceptAllPaths ml (pruneBy f t) := by
  cases t with
  | dir es =>
    simp only [pruneBy, readTree_eq, (bad_prune f ml hf).2 es]
    by_cases hb : badL acceptAllPaths ml (pruneByL f es)
    · simp [hb]
    · simp only [hb]
      have h1 := (refilter_walkP H f ml hf).2 es
      simp [refilter, h1, refilter_acceptAll.2]
  | file m d => simp [readTree, pruneBy]
  | symlink t => simp [readTree, pruneBy]
  | special m => simp [readTree, pruneBy]

/-! ### the shipped filters -/

theorem emptinessOnly_fn (flt : Filter) : EmptinessOnly flt.fn := by
  intro n l l' hl
  cases flt with
  | acceptAll => simp [Filter.fn, acceptAllPaths]
  | ignoreEmpty =>
    simp only [Filter.fn, ignoreEmptyDirectories]
    cases l' <;> simp_all
  | ignoreNamed nms cs => simp [Filter.fn, ignoreNamedDirectories]
  | namedThenEmpty nms cs =>
    simp only [Filter.fn, ignoreNamedDirectories, ignoreEmptyDirectories]
    cases l' <;> simp_all

theorem pruneBy_acceptAll :
    (∀ t, pruneBy acceptAllPaths t = t) ∧ (∀ es, pruneByL acceptAllPaths es = es) := by
  apply FsNode.induct2 <;> try (intros; simp_all [pruneBy, pruneByL, FsNode.entries]; done)
  intro n c rest hc hr
  cases c <;> simp_all [pruneBy, pruneByL, acceptAllPaths, FsNode.entries]

theorem pruneBy_ignoreEmpty :
    (∀ t, pruneBy ignoreEmptyDirectories t = pruneEmpty t) ∧
    (∀ es, pruneByL ignoreEmptyDirectories es = pruneEmptyL es) := by
  apply FsNode.induct2 <;> try (intros; simp_all [pruneBy, pruneByL, pruneEmpty, pruneEmptyL, FsNode.entries]; done)
  intro n c rest hc hr
  cases c with
  | dir ces =>
    simp only [pruneBy, pruneEmpty, FsNode.dir.injEq] at hc
    simp only [pruneByL, pruneEmptyL, hc, hr, ignoreEmptyDirectories, pruneBy, FsNode.entries, pruneEmpty]
    have e : (names (pruneEmptyL ces)).isEmpty = (pruneEmptyL ces).isEmpty := by
      cases pruneEmptyL ces <;> rfl
    rw [e]; by_cases h : (pruneEmptyL ces).isEmpty <;> simp [h]
  | _ => simp_all [pruneByL, pruneEmptyL, ignoreEmptyDirectories, pruneBy, FsNode.entries, pruneEmpty]

theorem pruneBy_ignoreNamed (nms : List Bytes) (cs : Bool) :
    (∀ t, pruneBy (ignoreNamedDirectories nms cs) t = pruneNamed nms cs t) ∧
    (∀ es, pruneByL (ignoreNamedDirectories nms cs) es = pruneNamedL nms cs es) := by
  apply FsNode.induct2 <;> try (intros; simp_all [pruneBy, pruneByL, pruneNamed, pruneNamedL, FsNode.entries]; done)
  intro n c rest hc hr
  cases c with
  | dir ces =>
    simp only [pruneBy, pruneNamed, FsNode.dir.injEq] at hc
    simp only [pruneByL, pruneNamedL, hc, hr, ignoreNamedDirectories, pruneBy, FsNode.entries, pruneNamed]
    by_cases h : nameIgnored nms cs n <;> simp [h]
  | _ => simp_all [pruneByL, pruneNamedL, ignoreNamedDirectories, pruneBy, FsNode.entries, pruneNamed]

theorem pruneBy_both (nms : List Bytes) (cs : Bool) :
    (∀ t, pruneBy (Filter.fn (.namedThenEmpty nms cs)) t = pruneEmpty (pruneNamed nms cs t)) ∧
    (∀ es, pruneByL (Filter.fn (.namedThenEmpty nms cs)) es = pruneEmptyL (pruneNamedL nms cs es)) := by
  have e1 : ∀ n l, Filter.fn (.namedThenEmpty nms cs) n (some l)
      = (!nameIgnored nms cs n && !l.isEmpty) := by intros; rfl
  have e2 : ∀ n, Filter.fn (.namedThenEmpty nms cs) n none = true := by intros; rfl
  apply FsNode.induct2 <;>
    try (intros; simp_all [pruneBy, pruneByL, pruneNamed, pruneNamedL, pruneEmpty, pruneEmptyL, FsNode.entries]; done)
  intro n c rest hc hr
  cases c with
  | dir ces =>
    simp only [pruneBy, pruneNamed, pruneEmpty, FsNode.dir.injEq] at hc
    simp only [pruneByL, pruneNamedL, hc, hr, e1, pruneBy, FsNode.entries, pruneNamed]
    by_cases h : nameIgnored nms cs n
    · simp [h]
    · cases hpe : pruneEmptyL (pruneNamedL nms cs ces) <;> simp [names, h, pruneEmptyL, hpe, pruneEmpty, FsNode.entries]
  | _ => simp [pruneByL, pruneNamedL, pruneEmptyL, e2, hr, pruneBy, FsNode.entries, pruneNamed, pruneEmpty]

theorem pruneBy_fn (flt : Filter) (t : FsNode) : pruneBy flt.fn t = flt.prune t := by
  cases flt with
  | acceptAll => exact pruneBy_acceptAll.1 t
  | ignoreEmpty => exact pruneBy_ignoreEmpty.1 t
  | ignoreNamed nms cs => exact (pruneBy_ignoreNamed nms cs).1 t
  | namedThenEmpty nms cs => exact (pruneBy_both nms cs).1 t

end Swh.Fs
