import SwhVerif.Lemmas.SwhidWF
/-! The Boolean recogniser `inLangW` decides the declarative language `InLangW`. -/
namespace Swh

theorem coreShapeB_iff (T : List Str) (s : Str) : coreShapeB T s = true ↔ CoreShape T s := by
  unfold coreShapeB CoreShape
  rw [List.any_eq_true]
  constructor
  · rintro ⟨t, ht, h⟩
    simp only [Bool.and_eq_true, beq_iff_eq, List.all_eq_true, List.contains_iff_mem] at h
    obtain ⟨hp, hl, hh⟩ := h
    obtain ⟨r, hr⟩ := List.isPrefixOf_iff_prefix.mp hp
    subst hr
    rw [List.drop_left] at hl hh
    exact ⟨t, ht, r, hl, hh, by simp⟩
  · rintro ⟨t, ht, h, hl, hh, rfl⟩
    refine ⟨t, ht, ?_⟩
    have e : "swh:1:".toList ++ t ++ ':' :: h = ("swh:1:".toList ++ t ++ [':']) ++ h := by simp
    simp only [Bool.and_eq_true, beq_iff_eq, List.all_eq_true, List.contains_iff_mem]
    rw [e, List.drop_left]
    exact ⟨List.isPrefixOf_iff_prefix.mpr ⟨h, rfl⟩, hl, hh⟩

theorem isNumberB_iff (lim : Option Nat) (a : Str) : isNumberB lim a = true ↔ IsNumber lim a := by
  unfold isNumberB IsNumber
  simp only [Bool.and_eq_true, Bool.not_eq_true', List.all_eq_true, List.contains_iff_mem]
  constructor
  · rintro ⟨⟨h1, h2⟩, h3⟩
    exact ⟨by intro e; subst e; simp at h1, h2, h3⟩
  · rintro ⟨h1, h2, h3⟩
    refine ⟨⟨?_, h2⟩, h3⟩
    cases a with
    | nil => exact absurd rfl h1
    | cons _ _ => rfl

theorem linesShapeB_iff (lim : Option Nat) (v : Str) : linesShapeB lim v = true ↔ LinesShape lim v := by
  unfold linesShapeB LinesShape
  constructor
  · intro h
    have hj := joinSep_splitOnL '-' v
    split at h
    · rename_i a hs
      rw [hs] at hj
      exact ⟨a, (isNumberB_iff lim a).mp h, Or.inl (by simpa [joinSep] using hj.symm)⟩
    · rename_i a b hs
      rw [hs] at hj
      simp only [Bool.and_eq_true] at h
      exact ⟨a, (isNumberB_iff lim a).mp h.1,
        Or.inr ⟨b, (isNumberB_iff lim b).mp h.2, by simpa [joinSep] using hj.symm⟩⟩
    · simp at h
  · rintro ⟨a, ha, hv⟩
    rcases hv with rfl | ⟨b, hb, rfl⟩
    · rw [splitOnL_not_mem _ _ (isNumber_no_dash lim _ ha)]
      exact (isNumberB_iff lim _).mpr ha
    · rw [splitOnL_append _ _ _ (isNumber_no_dash lim a ha),
        splitOnL_not_mem _ _ (isNumber_no_dash lim b hb)]
      simp only [Bool.and_eq_true]
      exact ⟨(isNumberB_iff lim a).mpr ha, (isNumberB_iff lim b).mpr hb⟩

theorem find_eq_dictGet (d : List (Str × Str)) (k : Str) :
    (d.find? (fun kv => kv.1 == k)).map (fun kv => kv.2) = dictGet d k := by
  induction d with
  | nil => rfl
  | cons x xs ih =>
    obtain ⟨k', v'⟩ := x
    by_cases h : k' = k
    · simp [List.find?, dictGet, h]
    · have hb : (k' == k) = false := by simpa using h
      simp only [List.find?, dictGet, h, hb, if_false]
      exact ih

theorem lastValB_iff (qs : List (Str × Str)) (k v : Str) :
    lastValB qs k = some v ↔ LastVal qs k v := by
  unfold lastValB
  rw [find_eq_dictGet, lastVal_iff]

theorem optAll_iff {α} (p : α → Bool) (P : α → Prop) (hp : ∀ x, p x = true ↔ P x) (o : Option α) :
    optAll p o = true ↔ ∀ x, o = some x → P x := by
  cases o with
  | none => simp [optAll]
  | some y => simp [optAll, hp]

theorem chunks_of_isSome (chunks : List Str)
    (h : (chunks.map (splitFirstL '=')).all Option.isSome = true) :
    chunks = ((chunks.map (splitFirstL '=')).filterMap id).map chunkText ∧
      ∀ kv ∈ (chunks.map (splitFirstL '=')).filterMap id, '=' ∉ kv.1 := by
  induction chunks with
  | nil => simp
  | cons c cs ih =>
    simp only [List.map_cons, List.all_cons, Bool.and_eq_true] at h
    obtain ⟨h1, h2⟩ := h
    obtain ⟨ih1, ih2⟩ := ih h2
    cases hs : splitFirstL '=' c with
    | none => simp [hs] at h1
    | some kv =>
      obtain ⟨k, v⟩ := kv
      obtain ⟨e, hk⟩ := splitFirstL_eq_some _ _ _ _ hs
      simp only [List.map_cons, hs, List.filterMap_cons, id]
      refine ⟨?_, ?_⟩
      · rw [← ih1]; simp [chunkText, e]
      · intro kv hkv
        simp only [List.mem_cons] at hkv
        rcases hkv with rfl | hkv
        · exact hk
        · exact ih2 kv hkv

theorem map_split_chunkText (qs : List (Str × Str)) (h : ∀ kv ∈ qs, '=' ∉ kv.1) :
    (qs.map chunkText).map (splitFirstL '=') = qs.map some := by
  induction qs with
  | nil => rfl
  | cons kv rest ih =>
    simp only [List.map_cons]
    rw [ih (fun x hx => h x (by simp [hx]))]
    simp [chunkText, splitFirstL_append '=' kv.1 kv.2 (h kv (by simp))]

theorem flatMap_chunkText (qs : List (Str × Str)) :
    (qs.map chunkText).flatMap (fun q => ';' :: q) = qualText qs := by
  simp [qualText, chunkText, List.flatMap_map]

theorem coreShape_clean (s : Str) (h : CoreShape coreTags s) : ';' ∉ s := by
  obtain ⟨b, hb, _, rfl⟩ := (coreShape_iff _ _).mp h
  exact (printBase_clean b (coreTags_sub_reTags _ hb)).1

theorem knownKeys_contains (k : Str) : knownKeys.contains k = true ↔ k ∈ knownKeys :=
  List.contains_iff_mem

/-- **the recogniser is correct** -/
theorem inLangW_iff (lim : Option Nat) (cls : SwhidClass) (s : Str) :
    inLangW lim cls s = true ↔ InLangW lim cls s := by
  cases cls with
  | core => exact coreShapeB_iff _ _
  | extended => exact coreShapeB_iff _ _
  | qualified =>
    simp only [inLangW, InLangW]
    constructor
    · intro h
      have hj := joinSep_splitOnL ';' s
      have hp := splitOnL_pieces ';' s
      cases hs : splitOnL ';' s with
      | nil => exact absurd hs (splitOnL_ne_nil _ _)
      | cons c chunks =>
        rw [hs] at h hj hp
        simp only [Bool.and_eq_true] at h
        obtain ⟨hc, hsome, ⟨⟨⟨hall, hv⟩, ha⟩, hl⟩⟩ := h
        obtain ⟨e1, e2⟩ := chunks_of_isSome chunks hsome
        generalize hqs : (chunks.map (splitFirstL '=')).filterMap id = qs at *
        refine ⟨c, qs, (coreShapeB_iff _ _).mp hc, ?_, ?_⟩
        · rw [← hj, e1]; simp [joinSep, flatMap_chunkText]
        · rw [List.all_eq_true] at hall
          refine ⟨?_, ?_, ?_, ?_, ?_⟩
          · intro kv hkv
            have := hall kv hkv
            simp only [Bool.and_eq_true] at this
            exact (knownKeys_contains _).mp this.1
          · intro kv hkv
            have := hall kv hkv
            simp only [Bool.and_eq_true, List.all_eq_true, Bool.not_eq_true'] at this
            refine ⟨?_, this.2⟩
            have hm : chunkText kv ∈ c :: chunks := by
              rw [e1]; exact List.mem_cons_of_mem _ (List.mem_map.mpr ⟨kv, hkv, rfl⟩)
            have := hp _ hm
            simp only [chunkText, List.mem_append, List.mem_cons, not_or] at this
            exact this.2.2
          · intro x hx
            exact (optAll_iff _ _ (coreShapeB_iff _) _).mp hv x ((lastValB_iff qs _ x).mpr hx)
          · intro x hx
            exact (optAll_iff _ _ (coreShapeB_iff _) _).mp ha x ((lastValB_iff qs _ x).mpr hx)
          · intro x hx
            exact (optAll_iff _ _ (linesShapeB_iff lim) _).mp hl x ((lastValB_iff qs _ x).mpr hx)
    · rintro ⟨c, qs, hc, rfl, hok⟩
      have hkc : ∀ kv ∈ qs, '=' ∉ kv.1 ∧ ';' ∉ kv.1 := fun kv hkv =>
        ⟨(knownKeys_clean kv.1 (hok.keys kv hkv)).1, (knownKeys_clean kv.1 (hok.keys kv hkv)).2.1⟩
      have hsplit : splitOnL ';' (c ++ qualText qs) = c :: qs.map chunkText := by
        have := splitOnL_joinSep ';' c (qs.map chunkText) (coreShape_clean c hc) (by
          intro q hq
          obtain ⟨kv, hkv, rfl⟩ := List.mem_map.mp hq
          exact chunkText_no_semi kv (hkc kv hkv).2 (hok.vals kv hkv).1)
        simpa [joinSep, flatMap_chunkText] using this
      rw [hsplit]
      simp only
      rw [map_split_chunkText qs (fun kv hkv => (hkc kv hkv).1)]
      have hfm : (qs.map some).filterMap id = qs := by
        induction qs with
        | nil => rfl
        | cons x xs ih => simp
      rw [hfm]
      simp only [Bool.and_eq_true]
      refine ⟨(coreShapeB_iff _ _).mpr hc, by simp, ⟨⟨⟨?_, ?_⟩, ?_⟩, ?_⟩⟩
      · rw [List.all_eq_true]
        intro kv hkv
        simp only [Bool.and_eq_true, List.all_eq_true, Bool.not_eq_true']
        exact ⟨(knownKeys_contains _).mpr (hok.keys kv hkv), (hok.vals kv hkv).2⟩
      · exact (optAll_iff _ _ (coreShapeB_iff _) _).mpr
          (fun x hx => hok.visit x ((lastValB_iff qs _ x).mp hx))
      · exact (optAll_iff _ _ (coreShapeB_iff _) _).mpr
          (fun x hx => hok.anchor x ((lastValB_iff qs _ x).mp hx))
      · exact (optAll_iff _ _ (linesShapeB_iff lim) _).mpr
          (fun x hx => hok.lines x ((lastValB_iff qs _ x).mp hx))

end Swh
