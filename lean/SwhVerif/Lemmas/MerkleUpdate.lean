import SwhVerif.Lemmas.MerkleInv
/-!
# Merkle cache: `update_hash`, `compute_hash`, `entries`, `to_model` (C10/C14 helper lemmas, part 3)
-/
namespace Swh.Merkle
variable {H : Type} {hashFn : Data → List (EntryV H) → H}

/-- a node that is still marked collected kept its hash -/
def CollStable (h h' : Heap H) : Prop :=
  ∀ m, (h'.get m).collected = true → (h.get m).collected = true ∧ (h'.get m).cache = (h.get m).cache

theorem CollStable.refl (h : Heap H) : CollStable h h := fun _ hc => ⟨hc, rfl⟩

theorem CollStable.trans {a b c : Heap H} (h1 : CollStable a b) (h2 : CollStable b c) :
    CollStable a c := by
  intro m hc
  obtain ⟨hb, eb⟩ := h2 m hc
  obtain ⟨ha, ea⟩ := h1 m hb
  exact ⟨ha, eb.trans ea⟩

theorem CollStable.of_shrinks {a b : Heap H} (s : Shrinks a b) : CollStable a b := s.coll

theorem CollStable.of_grows {a b : Heap H} (k : KInv a) (g : Grows a b) : CollStable a b := by
  intro m hc
  rw [g.coll] at hc
  exact ⟨hc, g.cache_ne m (k m hc)⟩

theorem CollStable.kinv {a b : Heap H} (k : KInv a) (c : CollStable a b) : KInv b := by
  intro m hc
  obtain ⟨h1, h2⟩ := c m hc
  rw [h2]; exact k m h1

/-- a strict rank function on the edges: the structure is acyclic -/
def RankOK (h : Heap H) (rank : Id → Nat) : Prop := ∀ p c, c ∈ kids h p → rank c < rank p

theorem RankOK.of_same {h h' : Heap H} {rank : Id → Nat} (s : SameStruct h h')
    (r : RankOK h rank) : RankOK h' rank := by
  intro p c hc; rw [s.kids] at hc; exact r p c hc

/-- what `compute_hash` needs from `child.hash`: invariant kept, caches only grow, the child ends
cached with the returned value -/
def UpdOK (hashFn : Data → List (EntryV H) → H) (upd : Heap H → Id → Heap H × H) (h0 : Heap H)
    (c : Id) : Prop :=
  ∀ g, Inv hashFn g → SameStruct h0 g →
    Inv hashFn (upd g c).1 ∧ Grows g (upd g c).1 ∧ ((upd g c).1.get c).cache = some (upd g c).2

theorem entVals_cons_some (h : Heap H) (nm : Name) (c : Id) (t : List (Name × Id)) (v : H)
    (hv : (h.get c).cache = some v) :
    entVals h ((nm, c) :: t) = ⟨nm, (h.get c).isDir, (h.get c).data, v⟩ :: entVals h t := by
  simp [entVals, hv]

theorem childEntries_spec (upd : Heap H → Id → Heap H × H) (h0 : Heap H) :
    ∀ (l : List (Name × Id)) (g : Heap H), (∀ kc ∈ l, UpdOK hashFn upd h0 kc.2) →
      Inv hashFn g → SameStruct h0 g →
      Inv hashFn (childEntries upd g l).1 ∧ Grows g (childEntries upd g l).1 ∧
      (∀ kc ∈ l, ((childEntries upd g l).1.get kc.2).cache ≠ none) ∧
      (childEntries upd g l).2 = entVals (childEntries upd g l).1 l := by
  intro l
  induction l with
  | nil =>
    intro g _ ig _
    exact ⟨ig, Grows.refl g, fun _ hk => (by cases hk), rfl⟩
  | cons x t ih =>
    obtain ⟨nm, c⟩ := x
    intro g hu ig sg
    obtain ⟨i1, g1, c1⟩ := hu (nm, c) List.mem_cons_self g ig sg
    have s1 : SameStruct h0 (upd g c).1 := sg.trans g1.toSameStruct
    obtain ⟨i2, g2, k2, e2⟩ := ih (upd g c).1 (fun kc hk => hu kc (List.mem_cons_of_mem _ hk)) i1 s1
    simp only [childEntries]
    have hcc : ((childEntries upd (upd g c).1 t).1.get c).cache = some (upd g c).2 :=
      g2.cache c _ c1
    refine ⟨i2, g1.trans g2, ?_, ?_⟩
    · intro kc hk
      rcases List.mem_cons.mp hk with rfl | hk
      · rw [hcc]; exact Option.some_ne_none _
      · exact k2 kc hk
    · rw [entVals_cons_some _ nm c t _ hcc, ← e2, g2.toSameStruct.isDir, g2.toSameStruct.data]

theorem kidsCached_of_children {g : Heap H} {n : Id}
    (hk : ∀ kc ∈ (g.get n).children, (g.get kc.2).cache ≠ none) : kidsCached g n := by
  intro c hc
  obtain ⟨kc, hm, rfl⟩ := List.mem_map.mp hc
  exact hk kc hm

/-- `to_model()` -/
theorem toModel_spec (upd : Heap H → Id → Heap H × H) (h0 g : Heap H) (n : Id)
    (hu : ∀ kc ∈ (g.get n).children, UpdOK hashFn upd h0 kc.2)
    (ig : Inv hashFn g) (sg : SameStruct h0 g) (hn : n < g.size) (hd : (g.get n).isDir = true) :
    Inv hashFn (toModel upd g n).1 ∧ Grows g (toModel upd g n).1 ∧
    kidsCached (toModel upd g n).1 n ∧ (toModel upd g n).2 = dirEntries (toModel upd g n).1 n := by
  unfold toModel
  cases hm : (g.get n).modelCache with
  | some m =>
    exact ⟨ig, Grows.refl g, ig.kids_cached n (by simp [Node.hasAny, hm]), ig.modV n m hm⟩
  | none =>
    obtain ⟨i1, g1, k1, e1⟩ := childEntries_spec upd h0 (g.get n).children g hu ig sg
    simp only
    have s1 := g1.toSameStruct
    have hk1 : kidsCached (childEntries upd g (g.get n).children).1 n := by
      apply kidsCached_of_children
      rw [s1.children]; exact k1
    have hmm : sortE (childEntries upd g (g.get n).children).2 =
        dirEntries (childEntries upd g (g.get n).children).1 n := by
      unfold dirEntries; rw [e1, s1.children]
    obtain ⟨i2, g2, e2⟩ := fill_model i1 n (by rw [s1.size]; exact hn)
      (by rw [s1.isDir]; exact hd) hk1 _ hmm
    exact ⟨i2, g1.trans g2, g2.kids_cached n hk1, e2.symm⟩

/-- the `entries` property -/
theorem entriesProp_spec (upd : Heap H → Id → Heap H × H) (h0 g : Heap H) (n : Id)
    (hu : ∀ kc ∈ (g.get n).children, UpdOK hashFn upd h0 kc.2)
    (ig : Inv hashFn g) (sg : SameStruct h0 g) (hn : n < g.size) (hd : (g.get n).isDir = true) :
    Inv hashFn (entriesProp upd g n).1 ∧ Grows g (entriesProp upd g n).1 ∧
    kidsCached (entriesProp upd g n).1 n ∧
    (entriesProp upd g n).2 = dirEntries (entriesProp upd g n).1 n := by
  unfold entriesProp
  cases hm : (g.get n).entriesCache with
  | some m =>
    exact ⟨ig, Grows.refl g, ig.kids_cached n (by simp [Node.hasAny, hm]), ig.entV n m hm⟩
  | none =>
    obtain ⟨i1, g1, k1, e1⟩ := childEntries_spec upd h0 (g.get n).children g hu ig sg
    simp only
    have s1 := g1.toSameStruct
    have hk1 : kidsCached (childEntries upd g (g.get n).children).1 n := by
      apply kidsCached_of_children
      rw [s1.children]; exact k1
    have hmm : sortE (childEntries upd g (g.get n).children).2 =
        dirEntries (childEntries upd g (g.get n).children).1 n := by
      unfold dirEntries; rw [e1, s1.children]
    obtain ⟨i2, g2, e2⟩ := fill_entries i1 n (by rw [s1.size]; exact hn)
      (by rw [s1.isDir]; exact hd) hk1 _ hmm
    exact ⟨i2, g1.trans g2, g2.kids_cached n hk1, e2.symm⟩

/-- `compute_hash()` -/
theorem computeHash_spec (upd : Heap H → Id → Heap H × H) (h0 g : Heap H) (n : Id)
    (hu : ∀ kc ∈ (g.get n).children, UpdOK hashFn upd h0 kc.2)
    (ig : Inv hashFn g) (sg : SameStruct h0 g) (hn : n < g.size) :
    Inv hashFn (computeHash hashFn upd g n).1 ∧ Grows g (computeHash hashFn upd g n).1 ∧
    kidsCached (computeHash hashFn upd g n).1 n ∧
    (computeHash hashFn upd g n).2 =
      hashFn ((computeHash hashFn upd g n).1.get n).data
        (hashKids (computeHash hashFn upd g n).1 n) := by
  unfold computeHash
  cases hd : (g.get n).isDir with
  | true =>
    obtain ⟨i1, g1, k1, e1⟩ := toModel_spec upd h0 g n hu ig sg hn hd
    simp only [if_true]
    refine ⟨i1, g1, k1, ?_⟩
    rw [g1.toSameStruct.data, e1]
    unfold hashKids
    rw [g1.toSameStruct.isDir, hd]; rfl
  | false =>
    obtain ⟨i1, g1, k1, e1⟩ := childEntries_spec upd h0 (g.get n).children g hu ig sg
    simp only [Bool.false_eq_true, if_false]
    have s1 := g1.toSameStruct
    refine ⟨i1, g1, ?_, ?_⟩
    · apply kidsCached_of_children
      rw [s1.children]; exact k1
    · rw [s1.data, e1]
      unfold hashKids
      rw [s1.isDir, hd, s1.children]; rfl

/-- what every `update_hash` call guarantees -/
structure Good (hashFn : Data → List (EntryV H) → H) (force : Bool) (h g : Heap H) : Prop where
  inv : Inv hashFn g
  same : SameStruct h g
  coll : KInv h → CollStable h g
  grows : force = false → Grows h g

theorem Good.refl {force : Bool} {h : Heap H} (i : Inv hashFn h) : Good hashFn force h h :=
  ⟨i, SameStruct.refl h, fun _ => CollStable.refl h, fun _ => Grows.refl h⟩

theorem Good.trans {force : Bool} {a b c : Heap H} (h1 : Good hashFn force a b)
    (h2 : Good hashFn force b c) : Good hashFn force a c :=
  ⟨h2.inv, h1.same.trans h2.same, fun k => (h1.coll k).trans (h2.coll ((h1.coll k).kinv k)),
   fun e => (h1.grows e).trans (h2.grows e)⟩

theorem Good.of_grows {force : Bool} {a b : Heap H} (ib : Inv hashFn b)
    (g : Grows a b) : Good hashFn force a b :=
  ⟨ib, g.toSameStruct, fun k => CollStable.of_grows k g, fun _ => g⟩

/-- **`update_hash`**: on an acyclic heap satisfying the invariant, with fuel above the rank of
the node, the invariant is kept, the structure is unchanged, still-collected nodes keep their
hash, and the node ends cached with the returned value. Without `force`, caches only grow. -/
theorem updateHash_spec (rank : Id → Nat) : ∀ (fuel : Nat) (force : Bool) (h : Heap H) (n : Id),
    Inv hashFn h → RankOK h rank → rank n < fuel → n < h.size →
    Good hashFn force h (updateHash hashFn fuel force h n).1 ∧
    ((updateHash hashFn fuel force h n).1.get n).cache = some (updateHash hashFn fuel force h n).2 := by
  intro fuel
  induction fuel with
  | zero => intro force h n _ _ hr _; exact absurd hr (Nat.not_lt_zero _)
  | succ f ih =>
    intro force h n i rk hr hn
    -- non-forced calls on the children, as seen by compute_hash
    have hupd : ∀ (h0 : Heap H), SameStruct h h0 → ∀ c ∈ kids h n,
        UpdOK hashFn (fun g c => updateHash hashFn f false g c) h0 c := by
      intro h0 s0 c hc g ig sg
      have sg' : SameStruct h g := s0.trans sg
      have := ih false g c ig (rk.of_same sg') (by have := rk n c hc; omega)
        (by rw [sg'.size]; exact i.bound n c hc)
      exact ⟨this.1.inv, this.1.grows rfl, this.2⟩
    -- the tail of the function, from the (possibly invalidated) heap h1
    have tail : ∀ h1 : Heap H, Good hashFn force h h1 →
        let h2 := (h1.get n).children.foldl (fun g kc => (updateHash hashFn f force g kc.2).1) h1
        let r := computeHash hashFn (fun g c => updateHash hashFn f false g c) h2 n
        Good hashFn force h (r.1.modify n (fun x => { x with cache := some r.2 })) ∧
        ((r.1.modify n (fun x => { x with cache := some r.2 })).get n).cache = some r.2 := by
      intro h1 g1
      have hfold : ∀ (l : List (Name × Id)) (g : Heap H), (∀ kc ∈ l, kc.2 ∈ kids h n) →
          Good hashFn force h g →
          Good hashFn force h (l.foldl (fun g kc => (updateHash hashFn f force g kc.2).1) g) := by
        intro l
        induction l with
        | nil => intro g _ gg; exact gg
        | cons x t iht =>
          intro g hl gg
          simp only [List.foldl_cons]
          apply iht _ (fun kc hk => hl kc (List.mem_cons_of_mem _ hk))
          have hx := hl x List.mem_cons_self
          have := ih force g x.2 gg.inv (rk.of_same gg.same) (by have := rk n x.2 hx; omega)
            (by rw [gg.same.size]; exact i.bound n x.2 hx)
          exact gg.trans this.1
      intro h2 r
      have g2 : Good hashFn force h h2 := by
        apply hfold _ h1 _ g1
        intro kc hk
        rw [g1.same.children] at hk
        exact mem_kids_of_mem hk
      have hu2 : ∀ kc ∈ (h2.get n).children,
          UpdOK hashFn (fun g c => updateHash hashFn f false g c) h2 kc.2 := by
        intro kc hk
        rw [g2.same.children] at hk
        exact hupd h2 g2.same kc.2 (mem_kids_of_mem hk)
      obtain ⟨i3, g3, k3, e3⟩ := computeHash_spec _ h2 h2 n hu2 g2.inv (SameStruct.refl h2)
        (by rw [g2.same.size]; exact hn)
      obtain ⟨i4, g4, c4⟩ := fill_cache i3 n
        (by rw [g3.toSameStruct.size, g2.same.size]; exact hn) k3 r.2 e3
      exact ⟨g2.trans ((Good.of_grows i3 g3).trans (Good.of_grows i4 g4)), c4⟩
    simp only [updateHash]
    cases hc : (h.get n).cache with
    | none =>
      cases force with
      | false => exact tail h (Good.refl i)
      | true =>
        obtain ⟨i1, nv, _⟩ := invalidateTop_spec i n
        exact tail _ ⟨i1, nv.toSameStruct, fun _ => CollStable.of_shrinks nv.toShrinks, fun e => by cases e⟩
    | some v =>
      cases force with
      | false => exact ⟨Good.refl i, hc⟩
      | true =>
        obtain ⟨i1, nv, _⟩ := invalidateTop_spec i n
        exact tail _ ⟨i1, nv.toSameStruct, fun _ => CollStable.of_shrinks nv.toShrinks, fun e => by cases e⟩

end Swh.Merkle
