import SwhVerif.Base.Bytes
/-! Helper lemmas about `Base/Bytes`: radix round trips, hex, splitting, sorting. -/
namespace Swh

/-! ### digits -/

theorem toBaseRev_lt (k n : Nat) : ∀ d ∈ toBaseRev k n, d < k + 2 := by
  induction n using Nat.strongRecOn with
  | _ n ih =>
    intro d hd
    unfold toBaseRev at hd
    split at hd
    · simp at hd; omega
    · simp at hd
      rcases hd with h | h
      · subst h; exact Nat.mod_lt _ (by omega)
      · exact ih (n / (k+2)) (Nat.div_lt_self (by omega) (by omega)) d h

theorem toBaseRev_ne_nil (k n : Nat) : toBaseRev k n ≠ [] := by
  unfold toBaseRev; split <;> simp

/-- value of a least-significant-first digit list -/
def valRev (k : Nat) : List Nat → Nat
  | [] => 0
  | d :: ds => d + (k + 2) * valRev k ds

theorem valRev_toBaseRev (k n : Nat) : valRev k (toBaseRev k n) = n := by
  induction n using Nat.strongRecOn with
  | _ n ih =>
    unfold toBaseRev
    split
    · simp [valRev]
    · simp only [valRev]
      rw [ih (n / (k+2)) (Nat.div_lt_self (by omega) (by omega))]
      exact Nat.mod_add_div n (k+2)

/-- last (most significant) digit is non-zero unless the number is a single digit -/
theorem toBaseRev_getLast (k n : Nat) (h : k + 2 ≤ n) :
    ∀ d, (toBaseRev k n).getLast? = some d → d ≠ 0 := by
  induction n using Nat.strongRecOn with
  | _ n ih =>
    intro d hd
    unfold toBaseRev at hd
    split at hd
    · omega
    · rename_i hn
      have hne := toBaseRev_ne_nil k (n / (k+2))
      rw [List.getLast?_cons_of_ne_nil hne] at hd
      by_cases hq : k + 2 ≤ n / (k+2)
      · exact ih _ (Nat.div_lt_self (by omega) (by omega)) hq d hd
      · unfold toBaseRev at hd
        simp [show n / (k+2) < k + 2 by omega] at hd
        subst hd
        have : 0 < n / (k+2) := Nat.div_pos (by omega) (by omega)
        omega

theorem digitByte_toNat (d : Nat) (h : d < 10) : (digitByte d).toNat = 48 + d := by
  simp [digitByte, UInt8.toNat_ofNat]; omega

theorem foldl_digits (k : Nat) (ds : List Nat) (hd : ∀ d ∈ ds, d < 10) (a : Nat) :
    (ds.map digitByte).foldl (fun a b => a * (k + 2) + (b.toNat - 48)) a
      = ds.foldl (fun a d => a * (k+2) + d) a := by
  induction ds generalizing a with
  | nil => rfl
  | cons d ds ih =>
    simp only [List.map_cons, List.foldl_cons]
    rw [digitByte_toNat d (hd d (by simp))]
    rw [ih (fun x hx => hd x (by simp [hx]))]
    congr 1; omega

theorem foldl_reverse_valRev (k : Nat) (ds : List Nat) :
    ds.reverse.foldl (fun a d => a * (k+2) + d) 0 = valRev k ds := by
  induction ds with
  | nil => rfl
  | cons d ds ih =>
    simp only [List.reverse_cons, List.foldl_append, List.foldl_cons, List.foldl_nil, valRev]
    rw [ih]; rw [Nat.mul_comm]; omega

theorem digitsVal_natBase (k n : Nat) (hk : k ≤ 8) : digitsVal k (natBase k n) = n := by
  unfold digitsVal natBase
  rw [foldl_digits k _ (by
    intro d hd
    have := toBaseRev_lt k n d (by simpa using hd)
    omega)]
  rw [foldl_reverse_valRev, valRev_toBaseRev]

theorem natBase_ne_nil (k n : Nat) : natBase k n ≠ [] := by
  simp [natBase, toBaseRev_ne_nil]

theorem natBase_all_digits (k n : Nat) (hk : k ≤ 8) :
    ∀ b ∈ natBase k n, isDigitBase k b = true := by
  intro b hb
  simp only [natBase, List.mem_map, List.mem_reverse] at hb
  obtain ⟨d, hd, rfl⟩ := hb
  have hlt := toBaseRev_lt k n d hd
  simp [isDigitBase, digitByte_toNat d (by omega)]
  omega

theorem parseNatBase_natBase (k n : Nat) (hk : k ≤ 8) :
    parseNatBase k (natBase k n) = some n := by
  unfold parseNatBase
  have h1 : (natBase k n).isEmpty = false := by
    cases h : natBase k n with
    | nil => exact absurd h (natBase_ne_nil k n)
    | cons _ _ => rfl
  have h2 : (natBase k n).all (isDigitBase k) = true :=
    List.all_eq_true.mpr (natBase_all_digits k n hk)
  simp [h1, h2, digitsVal_natBase k n hk]

theorem parseDec_dec (n : Nat) : parseDec (dec n) = some n := parseNatBase_natBase 8 n (by omega)
theorem parseOct_oct (n : Nat) : parseOct (oct n) = some n := parseNatBase_natBase 6 n (by omega)

/-- every byte of a printed number is an ASCII digit -/
theorem natBase_bytes (k n : Nat) (hk : k ≤ 8) :
    ∀ b ∈ natBase k n, 48 ≤ b.toNat ∧ b.toNat ≤ 57 := by
  intro b hb
  have := natBase_all_digits k n hk b hb
  simp [isDigitBase] at this
  omega

theorem dec_bytes (n : Nat) : ∀ b ∈ dec n, 48 ≤ b.toNat ∧ b.toNat ≤ 57 := natBase_bytes 8 n (by omega)
theorem oct_bytes (n : Nat) : ∀ b ∈ oct n, 48 ≤ b.toNat ∧ b.toNat ≤ 57 := natBase_bytes 6 n (by omega)

theorem natBase_injective (k : Nat) (hk : k ≤ 8) (a b : Nat) (h : natBase k a = natBase k b) : a = b := by
  have ha := digitsVal_natBase k a hk
  have hb := digitsVal_natBase k b hk
  rw [h] at ha; omega

theorem dec_injective (a b : Nat) (h : dec a = dec b) : a = b := natBase_injective 8 (by omega) a b h

/-- no leading zero: the first byte of `natBase k n` is `'0'` only when `n < base` (then `n = 0`) -/
theorem natBase_head (k n : Nat) (hk : k ≤ 8) (h : k + 2 ≤ n) :
    (natBase k n).head? ≠ some bZero := by
  unfold natBase
  rw [List.head?_map, List.head?_reverse]
  intro hc
  cases hl : (toBaseRev k n).getLast? with
  | none => simp [hl] at hc
  | some d =>
    simp [hl] at hc
    have hne := toBaseRev_getLast k n h d hl
    have hlt := toBaseRev_lt k n d (List.mem_of_getLast? hl)
    have := digitByte_toNat d (by omega)
    rw [hc] at this
    simp [bZero] at this
    omega

/-! ### hex -/

theorem hexDigit_unhex (d : Nat) (h : d < 16) : unhexDigit (hexDigit d) = some d := by
  unfold hexDigit unhexDigit
  split
  · have : (UInt8.ofNat (48 + d)).toNat = 48 + d := by simp [UInt8.toNat_ofNat]; omega
    simp only [this]
    have h1 : (decide (48 ≤ 48 + d) && decide (48 + d ≤ 57)) = true := by simp; omega
    simp only [h1, if_true]; congr 1; omega
  · have : (UInt8.ofNat (87 + d)).toNat = 87 + d := by simp [UInt8.toNat_ofNat]; omega
    simp only [this]
    have h1 : (decide (48 ≤ 87 + d) && decide (87 + d ≤ 57)) = false := by simp; omega
    have h2 : (decide (97 ≤ 87 + d) && decide (87 + d ≤ 102)) = true := by simp; omega
    simp only [h1, h2, if_true]; simp

theorem unhexLower_hexLower (bs : Bytes) : unhexLower (hexLower bs) = some bs := by
  induction bs with
  | nil => rfl
  | cons b bs ih =>
    have hb : b.toNat < 256 := UInt8.toNat_lt b
    simp only [hexLower, unhexLower]
    rw [hexDigit_unhex _ (by omega), hexDigit_unhex _ (Nat.mod_lt _ (by omega)), ih]
    simp only [Option.some.injEq, List.cons.injEq, and_true]
    have : b.toNat / 16 * 16 + b.toNat % 16 = b.toNat := by omega
    rw [this]; exact UInt8.ofNat_toNat

theorem hexLower_length (bs : Bytes) : (hexLower bs).length = 2 * bs.length := by
  induction bs with
  | nil => rfl
  | cons b bs ih => simp [hexLower, ih]; omega

theorem hexLower_injective (a b : Bytes) (h : hexLower a = hexLower b) : a = b := by
  have := unhexLower_hexLower a
  rw [h, unhexLower_hexLower] at this
  exact (Option.some.inj this).symm

def isLowerHex (b : Byte) : Bool :=
  (48 ≤ b.toNat && b.toNat ≤ 57) || (97 ≤ b.toNat && b.toNat ≤ 102)

theorem hexDigit_isLowerHex (d : Nat) (h : d < 16) : isLowerHex (hexDigit d) = true := by
  unfold hexDigit isLowerHex
  split
  · have : (UInt8.ofNat (48 + d)).toNat = 48 + d := by simp [UInt8.toNat_ofNat]; omega
    simp [this]; omega
  · have : (UInt8.ofNat (87 + d)).toNat = 87 + d := by simp [UInt8.toNat_ofNat]; omega
    simp [this]; omega

theorem hexLower_all (bs : Bytes) : ∀ b ∈ hexLower bs, isLowerHex b = true := by
  induction bs with
  | nil => simp [hexLower]
  | cons x xs ih =>
    have hx : x.toNat < 256 := UInt8.toNat_lt x
    intro b hb
    simp only [hexLower, List.mem_cons] at hb
    rcases hb with rfl | rfl | hb
    · exact hexDigit_isLowerHex _ (by omega)
    · exact hexDigit_isLowerHex _ (Nat.mod_lt _ (by omega))
    · exact ih b hb

/-! ### splitting -/

theorem splitFirst_append (d : Byte) (p r : Bytes) (hp : d ∉ p) :
    splitFirst d (p ++ d :: r) = some (p, r) := by
  induction p with
  | nil => simp [splitFirst]
  | cons b p ih =>
    have hb : b ≠ d := fun h => hp (by simp [h])
    have := ih (fun h => hp (by simp [h]))
    simp [splitFirst, hb, this]

theorem splitFirst_length (d : Byte) (bs p r : Bytes) (h : splitFirst d bs = some (p, r)) :
    bs = p ++ d :: r := by
  induction bs generalizing p r with
  | nil => simp [splitFirst] at h
  | cons b bs ih =>
    simp only [splitFirst] at h
    split at h
    · rename_i hb; simp at h; obtain ⟨rfl, rfl⟩ := h; simp [hb]
    · split at h
      · rename_i p' r' hs
        simp at h; obtain ⟨rfl, rfl⟩ := h
        simp [← ih p' r' hs]
      · simp at h

/-! ### sorting -/

theorem bytesLe_trans (a b c : Bytes) : bytesLe a b = true → bytesLe b c = true → bytesLe a c = true := by
  simp only [bytesLe, decide_eq_true_eq]; exact List.le_trans

theorem bytesLe_total (a b : Bytes) : (bytesLe a b || bytesLe b a) = true := by
  simp only [bytesLe, Bool.or_eq_true, decide_eq_true_eq]; exact List.le_total a b

theorem bytesLe_antisymm (a b : Bytes) : bytesLe a b = true → bytesLe b a = true → a = b := by
  simp only [bytesLe, decide_eq_true_eq]; exact List.le_antisymm

theorem sortByKey_perm {α} (key : α → Bytes) (xs : List α) : (sortByKey key xs).Perm xs :=
  List.mergeSort_perm _ _

theorem sortByKey_sorted {α} (key : α → Bytes) (xs : List α) :
    (sortByKey key xs).Pairwise (fun a b => bytesLe (key a) (key b) = true) :=
  List.pairwise_mergeSort (le := fun a b => bytesLe (key a) (key b))
    (fun a b c => bytesLe_trans (key a) (key b) (key c)) (fun a b => bytesLe_total (key a) (key b)) xs

/-- Two permutations of a list whose keys are pairwise distinct sort to the same list. -/
theorem sortByKey_perm_unique {α} (key : α → Bytes) (xs ys : List α) (hp : xs.Perm ys)
    (hinj : ∀ a ∈ xs, ∀ b ∈ xs, key a = key b → a = b) :
    sortByKey key xs = sortByKey key ys := by
  apply List.Perm.eq_of_pairwise (le := fun a b => bytesLe (key a) (key b) = true)
  · intro a b ha hb hab hba
    have ha' : a ∈ xs := (sortByKey_perm key xs).mem_iff.mp ha
    have hb' : b ∈ xs := hp.mem_iff.mpr ((sortByKey_perm key ys).mem_iff.mp hb)
    exact hinj a ha' b hb' (bytesLe_antisymm _ _ hab hba)
  · exact sortByKey_sorted key xs
  · exact sortByKey_sorted key ys
  · exact (sortByKey_perm key xs).trans (hp.trans (sortByKey_perm key ys).symm)

end Swh
