import SwhVerif.Model.Fs
/-! A small on-disk tree used by the non-vacuity examples of C06 and C13. -/
namespace Swh.Fs
open Swh

def nmA : Bytes := asc ['a']
def nmADot : Bytes := asc ['a', '.']
def nmA0 : Bytes := asc ['a', '0']
def nmX : Bytes := asc ['x']
def nmEmpty : Bytes := asc ['e', 'm', 'p', 't', 'y']
def nmOnly : Bytes := asc ['o', 'n', 'l', 'y']
def nmMods : Bytes := asc ['n', 'o', 'd', 'e', '_', 'm', 'o', 'd', 'u', 'l', 'e', 's']
def nmModsUp : Bytes := asc ['N', 'o', 'd', 'e', '_', 'M', 'O', 'D', 'U', 'L', 'E', 'S']
def nmM : Bytes := asc ['m']
def nmLink : Bytes := asc ['l', 'i', 'n', 'k']
def nmFifo : Bytes := asc ['f', 'i', 'f', 'o']
def nmDup1 : Bytes := asc ['d', 'u', 'p', '1']
def nmDup2 : Bytes := asc ['d', 'u', 'p', '2']
def nmG : Bytes := asc ['g']

def bytesSame : Bytes := asc ['s', 'a', 'm', 'e']

/-- `a/` (dir), `a.` and `a0` (files: names that collide with `a/` in git order), an empty
    directory, a directory holding only a `node_modules` directory, a symbolic link (to a
    directory entry), a fifo with mode `prw-r--r--`, two files with equal bytes, a file that is
    executable by its group only -/
def exTree : FsNode :=
  .dir [
    (nmA0, .file 0o100755 (asc ['#', '!'])),
    (nmA, .dir [(nmX, .file 0o100644 (asc ['i', 'n']))]),
    (nmEmpty, .dir []),
    (nmADot, .file 0o100644 (asc ['d', 'o', 't'])),
    (nmOnly, .dir [(nmMods, .dir [(nmM, .file 0o100644 (asc ['j', 's']))])]),
    (nmLink, .symlink (asc ['a', '/', 'x'])),
    (nmFifo, .special 0o010644),
    (nmDup1, .file 0o100644 bytesSame),
    (nmDup2, .file 0o100600 bytesSame),
    (nmG, .file 0o100654 (asc ['g', 'r', 'p']))]

/-- the git-expressible part of `exTree`: no fifo, no group-only executable -/
def exTreeGit : FsNode :=
  .dir [
    (nmA0, .file 0o100755 (asc ['#', '!'])),
    (nmA, .dir [(nmX, .file 0o100644 (asc ['i', 'n']))]),
    (nmEmpty, .dir []),
    (nmADot, .file 0o100644 (asc ['d', 'o', 't'])),
    (nmOnly, .dir [(nmEmpty, .dir [(nmEmpty, .dir [])])]),
    (nmLink, .symlink (asc ['a', '/', 'x'])),
    (nmDup1, .file 0o100644 bytesSame),
    (nmDup2, .file 0o100600 bytesSame)]

end Swh.Fs
