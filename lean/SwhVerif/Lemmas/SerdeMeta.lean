import Lean
import SwhVerif.Gen.Tables
/-!
  `structFields% C` : the literal list of the field names of the structure `C`, in declaration
  order.  Used by `Props/C12` to tie each record of the serialisation model to the attrs field
  list regenerated from the live classes (`Gen.classFields`).
-/
open Lean Elab Term Meta

elab "structFields% " id:ident : term => do
  let n ← realizeGlobalConstNoOverloadWithInfo id
  let env ← getEnv
  unless isStructure env n do throwError "not a structure: {n}"
  let fs := getStructureFields env n
  mkListLit (mkConst ``String) (fs.toList.map (fun f => mkStrLit f.toString))

namespace Swh.Serde

/-- the attrs field names of a class, from the table regenerated from the live code -/
def genFieldsOf (cls : String) : Option (List String) :=
  (Swh.Gen.classFields.lookup cls).map (fun fs => fs.map Prod.fst)

end Swh.Serde
