import SwhVerif.Lemmas.FsLookup
/-! Pure path surgery on the in-memory tree (`getAt`, `setAt`, `delAt`) and its relation with
    the `Except`-valued operations of the as-coded walk (`updateAt`, `deleteAt`, `lookup`). -/
namespace Swh.Fs
open Swh

/-! ### insertion-ordered dictionaries -/

theorem assoc_dictSet_same {α} (k : Bytes) (v : α) (es : List (Bytes × α)) :
    assoc k (dictSet k v es) = some v := by
  induction es with
  | nil => simp [dictSet, assoc]
  | cons p r ih =>
    obtain ⟨k', v'⟩ := p
    by_cases h : k' = k <;> simp [dictSet, assoc, h, ih]

theorem assoc_dictSet_ne {α} (c k : Bytes) (v : α) (es : List (Bytes × α)) (h : c ≠ k) :
    assoc c (dictSet k v es) = assoc c es := by
  induction es with
  | nil => simp [dictSet, assoc, Ne.symm h]
  | cons p r ih =>
    obtain ⟨k', v'⟩ := p
    by_cases h1 : k' = k
    · subst h1; simp [dictSet, assoc, Ne.symm h]
    · by_cases h2 : k' = c
      · subst h2; simp [dictSet, assoc, h1]
      · simp [dictSet, assoc, h1, h2, ih]

theorem assoc_dictDel_ne {α} (c k : Bytes) (es : List (Bytes × α)) (h : c ≠ k) :
    assoc c (dictDel k es) = assoc c es := by
  induction es with
  | nil => simp [dictDel, assoc]
  | cons p r ih =>
    obtain ⟨k', v'⟩ := p
    by_cases h1 : k' = k
    · subst h1; simp [dictDel, assoc, Ne.symm h]
    · by_cases h2 : k' = c
      · subst h2; simp [dictDel, assoc, h1]
      · simp [dictDel, assoc, h1, h2, ih]

theorem names_dictSet {α} (k : Bytes) (v : α) (es : List (Bytes × α)) (h : k ∈ names es) :
    names (dictSet k v es) = names es := by
  induction es with
  | nil => simp at h
  | cons p r ih =>
    obtain ⟨k', v'⟩ := p
    by_cases h1 : k' = k
    · simp [dictSet, h1]
    · simp only [names_cons, List.mem_cons] at h
      rcases h with h | h
      · exact absurd h.symm h1
      · simp [dictSet, h1, ih h]

theorem dictSet_append_new {α} (k : Bytes) (v : α) (es : List (Bytes × α)) (h : k ∉ names es) :
    dictSet k v es = es ++ [(k, v)] := by
  induction es with
  | nil => simp [dictSet]
  | cons p r ih =>
    obtain ⟨k', v'⟩ := p
    simp only [names_cons, List.mem_cons, not_or] at h
    simp [dictSet, Ne.symm h.1, ih h.2]

theorem dictUpdate_append {α} (old new : List (Bytes × α)) (h : (names (old ++ new)).Nodup) :
    dictUpdate old new = old ++ new := by
  induction new generalizing old with
  | nil => simp [dictUpdate]
  | cons p r ih =>
    obtain ⟨k, v⟩ := p
    have hk : k ∉ names old := by
      simp only [names, List.map_append, List.map_cons, List.nodup_append, List.nodup_cons,
        List.mem_cons] at h
      intro hm
      exact h.2.2 k hm k (Or.inl rfl) rfl
    have e : dictUpdate old ((k, v) :: r) = dictUpdate (dictSet k v old) r := rfl
    rw [e, dictSet_append_new k v old hk, ih]
    · simp
    · simpa [names] using h

theorem dictUpdate_nil {α} (new : List (Bytes × α)) (h : (names new).Nodup) : dictUpdate [] new = new := by
  have := dictUpdate_append [] new (by simpa using h)
  simpa using this

theorem dictSet_idem {α} (k : Bytes) (v w : α) (es : List (Bytes × α)) :
    dictSet k v (dictSet k w es) = dictSet k v es := by
  induction es with
  | nil => simp [dictSet]
  | cons p r ih =>
    obtain ⟨k', v'⟩ := p
    by_cases h : k' = k <;> simp [dictSet, h, ih]

theorem dictSet_self {α} (k : Bytes) (v : α) (es : List (Bytes × α)) (h : assoc k es = some v) :
    dictSet k v es = es := by
  induction es with
  | nil => simp [assoc] at h
  | cons p r ih =>
    obtain ⟨k', v'⟩ := p
    by_cases h1 : k' = k
    · simp [assoc, h1] at h; simp [dictSet, h1, h]
    · simp [assoc, h1] at h; simp [dictSet, h1, ih h]

/-! ### pure path operations -/

/-- the node at a path (components are looked up as they are: no `b""` shortcut) -/
def getAt : RNode → List Bytes → Option RNode
  | t, [] => some t
  | .content _, _ :: _ => none
  | .directory es, c :: rest =>
    match assoc c es with
    | some ch => getAt ch rest
    | none => none

/-- replace the node at a path (nothing happens when the path does not exist) -/
def setAt : List Bytes → RNode → RNode → RNode
  | [], v, _ => v
  | _ :: _, _, .content c => .content c
  | c :: rest, v, .directory es =>
    match assoc c es with
    | some ch => .directory (dictSet c (setAt rest v ch) es)
    | none => .directory es

/-- remove the entry at a non-empty path (nothing happens when it does not exist) -/
def delAt : List Bytes → RNode → RNode
  | [], t => t
  | _ :: _, .content c => .content c
  | [c], .directory es => .directory (dictDel c es)
  | c :: c2 :: rest, .directory es =>
    match assoc c es with
    | some ch => .directory (dictSet c (delAt (c2 :: rest) ch) es)
    | none => .directory es

theorem lookup_eq_getAt (t : RNode) (p : List Bytes) (hp : ∀ c ∈ p, c ≠ []) : t.lookup p = getAt t p := by
  induction p generalizing t with
  | nil => cases t <;> simp [RNode.lookup, getAt]
  | cons c rest ih =>
    have hc : c ≠ [] := hp c (by simp)
    cases t with
    | content cc => simp [RNode.lookup, getAt]
    | directory es =>
      simp only [RNode.lookup, getAt, hc, if_false]
      cases assoc c es with
      | none => rfl
      | some ch => exact ih ch (fun x hx => hp x (by simp [hx]))

theorem getAt_append (t : RNode) (p q : List Bytes) :
    getAt t (p ++ q) = (getAt t p).bind (fun s => getAt s q) := by
  induction p generalizing t with
  | nil => cases t <;> simp [getAt]
  | cons c rest ih =>
    cases t with
    | content cc => simp [getAt]
    | directory es =>
      simp only [List.cons_append, getAt]
      cases assoc c es with
      | none => simp
      | some ch => exact ih ch

theorem updateAt_eq (p : List Bytes) (new old : List (Bytes × RNode)) (t : RNode)
    (h : getAt t p = some (.directory old)) :
    RNode.updateAt p new t = .ok (setAt p (.directory (dictUpdate old new)) t) := by
  induction p generalizing t with
  | nil =>
    simp only [getAt, Option.some.injEq] at h; subst h
    simp [RNode.updateAt, setAt]
  | cons c rest ih =>
    cases t with
    | content cc => simp [getAt] at h
    | directory es =>
      simp only [getAt] at h
      cases ha : assoc c es with
      | none => simp [ha] at h
      | some ch =>
        simp only [ha] at h
        simp [RNode.updateAt, setAt, ha, ih ch h]

theorem deleteAt_eq (p : List Bytes) (t : RNode) (hne : p ≠ []) (h : (getAt t p).isSome) :
    RNode.deleteAt p t = .ok (delAt p t) := by
  induction p generalizing t with
  | nil => exact absurd rfl hne
  | cons c rest ih =>
    cases t with
    | content cc => simp [getAt] at h
    | directory es =>
      simp only [getAt] at h
      cases ha : assoc c es with
      | none => simp [ha] at h
      | some ch =>
        simp only [ha] at h
        cases rest with
        | nil => simp [RNode.deleteAt, delAt, ha]
        | cons c2 r2 =>
          simp [RNode.deleteAt, delAt, ha, ih ch (by simp) h]

/-! ### `setAt` / `getAt` / `delAt` algebra -/

theorem getAt_setAt_same (p : List Bytes) (v t : RNode) (h : (getAt t p).isSome) :
    getAt (setAt p v t) p = some v := by
  induction p generalizing t with
  | nil => simp [setAt, getAt]
  | cons c rest ih =>
    cases t with
    | content cc => simp [getAt] at h
    | directory es =>
      simp only [getAt] at h
      cases ha : assoc c es with
      | none => simp [ha] at h
      | some ch =>
        simp only [ha] at h
        simp [setAt, ha, getAt, assoc_dictSet_same, ih ch h]

/-- writing below a node that was just written = writing the updated node -/
theorem setAt_setAt_child (p : List Bytes) (n : Bytes) (w : RNode) (E : List (Bytes × RNode)) (t : RNode)
    (h : (getAt t p).isSome) (hn : (assoc n E).isSome) :
    setAt (p ++ [n]) w (setAt p (.directory E) t) = setAt p (.directory (dictSet n w E)) t := by
  induction p generalizing t with
  | nil =>
    cases hE : assoc n E with
    | none => simp [hE] at hn
    | some x => simp [setAt, hE]
  | cons c rest ih =>
    cases t with
    | content cc => simp [getAt] at h
    | directory es =>
      simp only [getAt] at h
      cases ha : assoc c es with
      | none => simp [ha] at h
      | some ch =>
        simp only [ha] at h
        simp [setAt, ha, assoc_dictSet_same, dictSet_idem, ih ch h]

theorem setAt_same_twice (p : List Bytes) (v w t : RNode) :
    setAt p v (setAt p w t) = setAt p v t := by
  induction p generalizing t with
  | nil => simp [setAt]
  | cons c rest ih =>
    cases t with
    | content cc => simp [setAt]
    | directory es =>
      cases ha : assoc c es with
      | none => simp [setAt, ha]
      | some ch => simp [setAt, ha, assoc_dictSet_same, dictSet_idem, ih]

end Swh.Fs
