import SwhVerif.Model.Manifests
import SwhVerif.Lemmas.Headers
import SwhVerif.Lemmas.Time
namespace Swh

/-- the first header (if any) does not have key `k` -/
def headKeyNe (k : Bytes) : List Header → Prop
  | [] => True
  | (k', _) :: _ => k' ≠ k

theorem headKeyNe_nil (k : Bytes) : headKeyNe k [] := trivial

theorem headKeyNe_cons (k k' v : Bytes) (rest : List Header) (h : k' ≠ k) :
    headKeyNe k ((k', v) :: rest) := h

theorem headKeyNe_optHeader_append (k k' : Bytes) (o : Option Bytes) (rest : List Header)
    (hne : k' ≠ k) (h : headKeyNe k rest) : headKeyNe k (optHeader k' o ++ rest) := by
  cases o with
  | none => simpa [optHeader] using h
  | some v => simpa [optHeader, headKeyNe] using hne

theorem headKeyNe_of_all (k : Bytes) (hs : List Header) (h : ∀ kv ∈ hs, kv.1 ≠ k) : headKeyNe k hs := by
  cases hs with
  | nil => trivial
  | cons kv rest => obtain ⟨k', v⟩ := kv; exact h (k', v) (by simp)

theorem takeKey_hit (k v : Bytes) (rest : List Header) : takeKey k ((k, v) :: rest) = some (v, rest) := by
  simp [takeKey]

theorem takeKey_miss (k : Bytes) (hs : List Header) (h : headKeyNe k hs) : takeKey k hs = none := by
  cases hs with
  | nil => rfl
  | cons kv rest => obtain ⟨k', v⟩ := kv; simp [takeKey, show k' ≠ k from h]

theorem takeKeyOpt_hit (k v : Bytes) (rest : List Header) :
    takeKeyOpt k ((k, v) :: rest) = (some v, rest) := by simp [takeKeyOpt, takeKey]

theorem takeKeyOpt_miss (k : Bytes) (hs : List Header) (h : headKeyNe k hs) :
    takeKeyOpt k hs = (none, hs) := by simp [takeKeyOpt, takeKey_miss k hs h]

theorem takeKeyOpt_optHeader (k : Bytes) (o : Option Bytes) (rest : List Header)
    (h : headKeyNe k rest) : takeKeyOpt k (optHeader k o ++ rest) = (o, rest) := by
  cases o with
  | none => simpa [optHeader] using takeKeyOpt_miss k rest h
  | some v => simp [optHeader, takeKeyOpt_hit]

theorem takeKeyMany_map (k : Bytes) (vs : List Bytes) (rest : List Header) (h : headKeyNe k rest) :
    takeKeyMany k (vs.map (fun v => (k, v)) ++ rest) = (vs, rest) := by
  induction vs with
  | nil =>
    cases rest with
    | nil => rfl
    | cons kv r => obtain ⟨k', v⟩ := kv; simp [takeKeyMany, show k' ≠ k from h]
  | cons v vs ih => simp [takeKeyMany, ih]

theorem splitLast_append (d : Byte) (a b : Bytes) (h : d ∉ b) :
    splitLast d (a ++ d :: b) = some (a, b) := by
  unfold splitLast
  have : (a ++ d :: b).reverse = b.reverse ++ d :: a.reverse := by simp
  rw [this, splitFirst_append d b.reverse a.reverse (by simpa using h)]
  simp

theorem decInt_injective (a b : Int) (h : decInt a = decInt b) : a = b := by
  unfold decInt at h
  by_cases ha : a < 0 <;> by_cases hb : b < 0 <;> simp only [ha, hb, if_true, if_false] at h
  · have := dec_injective _ _ (List.cons.inj h).2; omega
  · exfalso
    have hne := natBase_ne_nil 8 b.natAbs
    cases hd : dec b.natAbs with
    | nil => exact hne hd
    | cons x xs =>
      rw [hd] at h
      have := dec_head_ne_minus b.natAbs x xs hd
      exact this (List.cons.inj h).1.symm
  · exfalso
    have hne := natBase_ne_nil 8 a.natAbs
    cases hd : dec a.natAbs with
    | nil => exact hne hd
    | cons x xs =>
      rw [hd] at h
      have := dec_head_ne_minus a.natAbs x xs hd
      exact this (List.cons.inj h).1
  · have := dec_injective _ _ h; omega

end Swh
