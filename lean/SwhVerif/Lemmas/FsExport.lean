import SwhVerif.Lemmas.FsLookup
import SwhVerif.Lemmas.Bytes
/-! `iter_tree(dedup=True)` / `iter_directory`: closure, uniqueness, checks (C13). -/
namespace Swh.Fs
open Swh

/-- `m` occurs in the tree `n` (the node itself included) -/
inductive SubNode : RNode → RNode → Prop
  | refl (n : RNode) : SubNode n n
  | child (m : RNode) (k : Bytes) (c : RNode) (es : List (Bytes × RNode)) :
      (k, c) ∈ es → SubNode m c → SubNode m (.directory es)

theorem id_directory (H : Bytes → Bytes) (es : List (Bytes × RNode)) :
    (RNode.directory es).id H = H (dirManifest (entriesOf H es)) := by simp [RNode.id]

/-- what one call of `_iter_tree` guarantees, whatever was seen before -/
structure IterInv (H : Bytes → Bytes) (seen s' : List Bytes) (out : List RNode) : Prop where
  mono : ∀ x ∈ seen, x ∈ s'
  fresh : ∀ x ∈ s', x ∈ seen ∨ ∃ m ∈ out, m.id H = x
  outIn : ∀ m ∈ out, m.id H ∈ s' ∧ m.id H ∉ seen
  nodup : (out.map (RNode.id H)).Nodup
  closed : ∀ m ∈ out, ∀ es, m = .directory es → ∀ p ∈ es, p.2.id H ∈ s'

theorem iter_inv (H : Bytes → Bytes) :
    (∀ n seen, IterInv H seen (iterNode H n seen).1 (iterNode H n seen).2 ∧
        n.id H ∈ (iterNode H n seen).1 ∧ ∀ m ∈ (iterNode H n seen).2, SubNode m n) ∧
    (∀ es seen, IterInv H seen (iterList H es seen).1 (iterList H es seen).2 ∧
        (∀ p ∈ es, p.2.id H ∈ (iterList H es seen).1) ∧
        ∀ m ∈ (iterList H es seen).2, ∃ p ∈ es, SubNode m p.2) := by
  apply RNode.induct2
  · intro c seen
    by_cases h : c.sha1git ∈ seen
    · simp only [iterNode, h, if_true]
      exact ⟨⟨fun _ hx => hx, fun _ hx => Or.inl hx, by simp, by simp, by simp⟩, by simpa [RNode.id] using h, by simp⟩
    · simp only [iterNode, h, if_false]
      refine ⟨⟨?_, ?_, ?_, by simp, ?_⟩, by simp [RNode.id], ?_⟩
      · intro x hx; simp [hx]
      · intro x hx; simp only [List.mem_cons] at hx
        rcases hx with rfl | hx
        · right; exact ⟨.content c, by simp, by simp [RNode.id]⟩
        · exact Or.inl hx
      · intro m hm; simp only [List.mem_singleton] at hm; subst hm
        simp [RNode.id, h]
      · intro m hm es he; simp only [List.mem_singleton] at hm; subst hm; cases he
      · intro m hm; simp only [List.mem_singleton] at hm; subst hm; exact SubNode.refl _
  · intro es ih seen
    by_cases h : H (dirManifest (entriesOf H es)) ∈ seen
    · simp only [iterNode, h, if_true]
      exact ⟨⟨fun _ hx => hx, fun _ hx => Or.inl hx, by simp, by simp, by simp⟩,
        by simpa [id_directory] using h, by simp⟩
    · simp only [iterNode, h, if_false]
      obtain ⟨inv, hch, hsub⟩ := ih (H (dirManifest (entriesOf H es)) :: seen)
      refine ⟨⟨?_, ?_, ?_, ?_, ?_⟩, ?_, ?_⟩
      · intro x hx; exact inv.mono x (by simp [hx])
      · intro x hx
        rcases inv.fresh x hx with h1 | ⟨m, hm, hmx⟩
        · simp only [List.mem_cons] at h1
          rcases h1 with rfl | h1
          · right; exact ⟨_, by simp, id_directory H es⟩
          · exact Or.inl h1
        · right; exact ⟨m, by simp [hm], hmx⟩
      · intro m hm; simp only [List.mem_cons] at hm
        rcases hm with rfl | hm
        · rw [id_directory]; exact ⟨inv.mono _ (by simp), h⟩
        · have := inv.outIn m hm
          exact ⟨this.1, fun hs => this.2 (by simp [hs])⟩
      · simp only [List.map_cons, List.nodup_cons]
        refine ⟨?_, inv.nodup⟩
        intro hmem
        obtain ⟨m, hm, hmid⟩ := List.mem_map.mp hmem
        rw [id_directory] at hmid
        exact (inv.outIn m hm).2 (by simp [hmid])
      · intro m hm es' he p hp; simp only [List.mem_cons] at hm
        rcases hm with rfl | hm
        · cases he; exact hch p hp
        · exact inv.closed m hm es' he p hp
      · rw [id_directory]; exact inv.mono _ (by simp)
      · intro m hm; simp only [List.mem_cons] at hm
        rcases hm with rfl | hm
        · exact SubNode.refl _
        · obtain ⟨p, hp, hs⟩ := hsub m hm
          exact SubNode.child m p.1 p.2 es hp hs
  · intro seen
    simp only [iterList]
    exact ⟨⟨fun _ hx => hx, fun _ hx => Or.inl hx, by simp, by simp, by simp⟩, by simp, by simp⟩
  · intro n c rest hc hr seen
    simp only [iterList]
    obtain ⟨i1, hid1, hs1⟩ := hc seen
    obtain ⟨i2, hid2, hs2⟩ := hr (iterNode H c seen).1
    refine ⟨⟨?_, ?_, ?_, ?_, ?_⟩, ?_, ?_⟩
    · intro x hx; exact i2.mono x (i1.mono x hx)
    · intro x hx
      rcases i2.fresh x hx with h1 | ⟨m, hm, hmx⟩
      · rcases i1.fresh x h1 with h0 | ⟨m, hm, hmx⟩
        · exact Or.inl h0
        · right; exact ⟨m, by simp [hm], hmx⟩
      · right; exact ⟨m, by simp [hm], hmx⟩
    · intro m hm; simp only [List.mem_append] at hm
      rcases hm with hm | hm
      · have := i1.outIn m hm; exact ⟨i2.mono _ this.1, this.2⟩
      · have := i2.outIn m hm; exact ⟨this.1, fun hs => this.2 (i1.mono _ hs)⟩
    · rw [List.map_append, List.nodup_append]
      refine ⟨i1.nodup, i2.nodup, ?_⟩
      intro a ha b hb hab
      obtain ⟨m1, hm1, rfl⟩ := List.mem_map.mp ha
      obtain ⟨m2, hm2, rfl⟩ := List.mem_map.mp hb
      exact (i2.outIn m2 hm2).2 (hab ▸ (i1.outIn m1 hm1).1)
    · intro m hm es' he p hp; simp only [List.mem_append] at hm
      rcases hm with hm | hm
      · exact i2.mono _ (i1.closed m hm es' he p hp)
      · exact i2.closed m hm es' he p hp
    · intro p hp; simp only [List.mem_cons] at hp
      rcases hp with rfl | hp
      · exact i2.mono _ hid1
      · exact hid2 p hp
    · intro m hm; simp only [List.mem_append] at hm
      rcases hm with hm | hm
      · exact ⟨(n, c), by simp, hs1 m hm⟩
      · obtain ⟨p, hp, hs⟩ := hs2 m hm
        exact ⟨p, by simp [hp], hs⟩

/-- `iter_tree()` from the root: the ids seen are exactly the ids yielded -/
theorem iterTree_inv (H : Bytes → Bytes) (r : RNode) :
    ((iterTree H r).map (RNode.id H)).Nodup ∧
    (∀ m ∈ iterTree H r, SubNode m r) ∧
    (∃ m ∈ iterTree H r, m.id H = r.id H) ∧
    (∀ es, RNode.directory es ∈ iterTree H r → ∀ p ∈ es, ∃ m ∈ iterTree H r, m.id H = p.2.id H) := by
  obtain ⟨inv, hid, hsub⟩ := (iter_inv H).1 r []
  have hf : ∀ x ∈ (iterNode H r []).1, ∃ m ∈ iterTree H r, m.id H = x := by
    intro x hx
    rcases inv.fresh x hx with h | h
    · simp at h
    · exact h
  exact ⟨inv.nodup, hsub, hf _ hid, fun es he p hp => hf _ (inv.closed _ he es rfl p hp)⟩

/-! ### the three exported lists -/

theorem mem_contentObjs (o : ContentObj) (l : List RNode) :
    o ∈ contentObjs l ↔ ∃ c, RNode.content c ∈ l ∧ c.skipped = false ∧ o = ⟨c.sha1git, c.length, c.data⟩ := by
  induction l with
  | nil => simp [contentObjs]
  | cons m r ih =>
    cases m with
    | content c =>
      by_cases hs : c.skipped
      · simp only [contentObjs, hs, if_true, ih, List.mem_cons, RNode.content.injEq]
        constructor
        · rintro ⟨c', h1, h2, h3⟩; exact ⟨c', Or.inr h1, h2, h3⟩
        · rintro ⟨c', h1 | h1, h2, h3⟩
          · subst h1; simp [hs] at h2
          · exact ⟨c', h1, h2, h3⟩
      · simp only [contentObjs, hs, Bool.false_eq_true, if_false, List.mem_cons, ih, RNode.content.injEq]
        constructor
        · rintro (h | ⟨c', h1, h2, h3⟩)
          · exact ⟨c, Or.inl rfl, by simpa using hs, h⟩
          · exact ⟨c', Or.inr h1, h2, h3⟩
        · rintro ⟨c', h1 | h1, h2, h3⟩
          · subst h1; exact Or.inl h3
          · exact Or.inr ⟨c', h1, h2, h3⟩
    | directory es => simp [contentObjs, ih]

theorem mem_skippedObjs (o : SkippedObj) (l : List RNode) :
    o ∈ skippedObjs l ↔ ∃ c, RNode.content c ∈ l ∧ c.skipped = true ∧ o = ⟨c.sha1git, c.length⟩ := by
  induction l with
  | nil => simp [skippedObjs]
  | cons m r ih =>
    cases m with
    | content c =>
      by_cases hs : c.skipped
      · simp only [skippedObjs, hs, if_true, List.mem_cons, ih, RNode.content.injEq]
        constructor
        · rintro (h | ⟨c', h1, h2, h3⟩)
          · exact ⟨c, Or.inl rfl, hs, h⟩
          · exact ⟨c', Or.inr h1, h2, h3⟩
        · rintro ⟨c', h1 | h1, h2, h3⟩
          · subst h1; exact Or.inl h3
          · exact Or.inr ⟨c', h1, h2, h3⟩
      · simp only [skippedObjs, hs, Bool.false_eq_true, if_false, ih, List.mem_cons, RNode.content.injEq]
        constructor
        · rintro ⟨c', h1, h2, h3⟩; exact ⟨c', Or.inr h1, h2, h3⟩
        · rintro ⟨c', h1 | h1, h2, h3⟩
          · subst h1; simp [hs] at h2
          · exact ⟨c', h1, h2, h3⟩
    | directory es => simp [skippedObjs, ih]

theorem mem_dirObjs (H : Bytes → Bytes) (o : DirObj) (l : List RNode) :
    o ∈ dirObjs H l ↔ ∃ es, RNode.directory es ∈ l ∧ o = toModelDir H es := by
  induction l with
  | nil => simp [dirObjs]
  | cons m r ih =>
    cases m with
    | content c => simp [dirObjs, ih]
    | directory es =>
      simp only [dirObjs, List.mem_cons, ih, RNode.directory.injEq]
      constructor
      · rintro (h | ⟨es', h1, h2⟩)
        · exact ⟨es, Or.inl rfl, h⟩
        · exact ⟨es', Or.inr h1, h2⟩
      · rintro ⟨es', h1 | h1, h2⟩
        · subst h1; exact Or.inl h2
        · exact Or.inr ⟨es', h1, h2⟩

/-- every yielded node lands in exactly one exported list, under its id -/
theorem exported_of_mem (H : Bytes → Bytes) (l : List RNode) (m : RNode) (hm : m ∈ l) :
    (∃ o ∈ contentObjs l, o.sha1git = m.id H) ∨ (∃ o ∈ skippedObjs l, o.sha1git = m.id H) ∨
      (∃ o ∈ dirObjs H l, o.id = m.id H) := by
  cases m with
  | content c =>
    by_cases hs : c.skipped
    · right; left
      exact ⟨⟨c.sha1git, c.length⟩, (mem_skippedObjs _ l).mpr ⟨c, hm, hs, rfl⟩, by simp [RNode.id]⟩
    · left
      exact ⟨⟨c.sha1git, c.length, c.data⟩, (mem_contentObjs _ l).mpr ⟨c, hm, by simpa using hs, rfl⟩,
        by simp [RNode.id]⟩
  | directory es =>
    right; right
    exact ⟨toModelDir H es, (mem_dirObjs H _ l).mpr ⟨es, hm, rfl⟩, by simp [toModelDir, id_directory]⟩

theorem mem_entriesOf (H : Bytes → Bytes) (e : Entry) (es : List (Bytes × RNode)) :
    e ∈ entriesOf H es ↔ ∃ p ∈ es, e = mkEntry p.1 p.2 (p.2.id H) := by
  rw [entriesOf_eq_map]; simp only [List.mem_map]
  constructor
  · rintro ⟨p, hp, rfl⟩; exact ⟨p, hp, rfl⟩
  · rintro ⟨p, hp, rfl⟩; exact ⟨p, hp, rfl⟩

theorem mkEntry_target (n : Bytes) (c : RNode) (t : Bytes) : (mkEntry n c t).target = t := by
  cases c <;> rfl

/-- the ids of the three lists together are the ids of the yielded nodes, as a multiset -/
theorem exported_ids_perm (H : Bytes → Bytes) (l : List RNode) :
    ((contentObjs l).map (·.sha1git) ++ (skippedObjs l).map (·.sha1git) ++ (dirObjs H l).map (·.id)).Perm
      (l.map (RNode.id H)) := by
  induction l with
  | nil => simp [contentObjs, skippedObjs, dirObjs]
  | cons m r ih =>
    cases m with
    | content c =>
      by_cases hs : c.skipped
      · simp only [contentObjs, skippedObjs, dirObjs, hs, if_true, List.map_cons, RNode.id]
        rw [List.append_assoc, List.cons_append]
        exact List.perm_middle.trans (List.Perm.cons _ (by rw [← List.append_assoc]; exact ih))
      · simp only [contentObjs, skippedObjs, dirObjs, hs, Bool.false_eq_true, if_false,
          List.map_cons, RNode.id, List.cons_append]
        exact List.Perm.cons _ ih
    | directory es =>
      simp only [contentObjs, skippedObjs, dirObjs, List.map_cons]
      have : (toModelDir H es).id = (RNode.directory es).id H := by simp [toModelDir, id_directory]
      rw [this]
      exact List.perm_middle.trans (List.Perm.cons _ ih)

/-! ### integrity of the exported objects -/

/-- `s` occurs in the on-disk tree `t` (the node itself included) -/
inductive FsSub : FsNode → FsNode → Prop
  | refl (t : FsNode) : FsSub t t
  | child (s : FsNode) (k : Bytes) (c : FsNode) (es : List (Bytes × FsNode)) :
      (k, c) ∈ es → FsSub s c → FsSub s (.dir es)

/-- the bytes a non-directory stands for: file bytes, link text, nothing for a special file -/
def FsNode.bytes : FsNode → Option Bytes
  | .file _ d => some d
  | .symlink t => some t
  | .special _ => some []
  | .dir _ => none

/-- every content of `r` is the reading (`Content.from_file`) of a non-directory of `t` -/
def FromDisk (H : Bytes → Bytes) (ml : Option Nat) (t : FsNode) (r : RNode) : Prop :=
  ∀ c, SubNode (.content c) r → ∃ s, FsSub s t ∧ s.isDirNode = false ∧ RNode.content c = readNode H ml s

theorem subNode_directory_inv {m : RNode} {es : List (Bytes × RNode)} (h : SubNode m (.directory es)) :
    m = .directory es ∨ ∃ k c, (k, c) ∈ es ∧ SubNode m c := by
  cases h
  · exact Or.inl rfl
  · rename_i k c hs hm; exact Or.inr ⟨k, c, hm, hs⟩

theorem fromDisk_walkP (H : Bytes → Bytes) (f : PathFilter) (ml : Option Nat) :
    (∀ t, FromDisk H ml t (walkP H f ml t)) ∧
    (∀ es, ∀ p ∈ walkPL H f ml es, ∀ c, SubNode (.content c) p.2 →
      ∃ s, (∃ q ∈ es, FsSub s q.2) ∧ s.isDirNode = false ∧ RNode.content c = readNode H ml s) := by
  have leaf : ∀ (t : FsNode) (c0 : Content), t.isDirNode = false → walkP H f ml t = .content c0 →
      readNode H ml t = .content c0 → FromDisk H ml t (walkP H f ml t) := by
    intro t c0 hd hw hr c hs
    rw [hw] at hs
    cases hs
    exact ⟨t, FsSub.refl t, hd, hr.symm⟩
  apply FsNode.induct2
  · intro m d; exact leaf _ _ rfl rfl rfl
  · intro t; exact leaf _ _ rfl rfl rfl
  · intro m; exact leaf _ _ rfl rfl rfl
  · intro es ih c hs
    simp only [walkP] at hs
    rcases subNode_directory_inv hs with h | ⟨k, c', hm, hs'⟩
    · cases h
    · obtain ⟨s, ⟨q, hq, hsq⟩, h2, h3⟩ := ih (k, c') hm c hs'
      exact ⟨s, FsSub.child s q.1 q.2 es hq hsq, h2, h3⟩
  · simp [walkPL]
  · intro n c rest hc hr p hp c0 hs
    have tail : p ∈ walkPL H f ml rest →
        ∃ s, (∃ q ∈ (n, c) :: rest, FsSub s q.2) ∧ s.isDirNode = false ∧
          RNode.content c0 = readNode H ml s := fun hp' => by
      obtain ⟨s, ⟨q, hq, hsq⟩, h2, h3⟩ := hr p hp' c0 hs
      exact ⟨s, ⟨q, by simp [hq], hsq⟩, h2, h3⟩
    simp only [walkPL] at hp
    split at hp
    · simp only [List.mem_cons] at hp
      rcases hp with rfl | hp
      · obtain ⟨s, h1, h2, h3⟩ := hc c0 hs
        exact ⟨s, ⟨(n, c), by simp, h1⟩, h2, h3⟩
      · exact tail hp
    · exact tail hp

theorem subNode_refilter (f : PathFilter) (m : Content) :
    (∀ r, SubNode (.content m) (refilter f r) → SubNode (.content m) r) ∧
    (∀ es, ∀ p ∈ refilterL f es, SubNode (.content m) p.2 → ∃ q ∈ es, SubNode (.content m) q.2) := by
  apply RNode.induct2
  · intro c h; simpa [refilter] using h
  · intro es ih h
    simp only [refilter] at h
    rcases subNode_directory_inv h with h | ⟨k, c', hm, hs'⟩
    · cases h
    · obtain ⟨q, hq, hs⟩ := ih (k, c') hm hs'
      exact SubNode.child _ q.1 q.2 es hq hs
  · simp [refilterL, refilter, RNode.entries]
  · intro n c rest hc hr p hp hs
    cases c with
    | content cc =>
      simp only [refilterL, List.mem_cons, refilter, RNode.entries] at hp
      rcases hp with rfl | hp
      · exact ⟨(n, .content cc), by simp, hs⟩
      · obtain ⟨q, hq, hs'⟩ := hr p hp hs
        exact ⟨q, by simp [hq], hs'⟩
    | directory ces =>
      rw [refilterL_dir] at hp
      have hdir : ∀ p', p' = (n, RNode.directory (refilterL f ces)) → SubNode (.content m) p'.2 →
          ∃ q ∈ (n, RNode.directory ces) :: rest, SubNode (.content m) q.2 := by
        intro p' hp' hs'
        subst hp'
        exact ⟨(n, .directory ces), by simp, hc (by simpa [refilter] using hs')⟩
      by_cases hcond : f n (some (names (refilterL f ces))) = true
      · rw [if_pos hcond] at hp
        simp only [List.mem_cons] at hp
        rcases hp with hp | hp
        · exact hdir p hp hs
        · obtain ⟨q, hq, hs'⟩ := hr p hp hs
          exact ⟨q, by simp [hq], hs'⟩
      · rw [if_neg hcond] at hp
        obtain ⟨q, hq, hs'⟩ := hr p hp hs
        exact ⟨q, by simp [hq], hs'⟩

/-- whatever the filter, the contents of a successful read are readings of on-disk nodes -/
theorem fromDisk_readTree (H : Bytes → Bytes) (f : PathFilter) (ml : Option Nat) (t : FsNode) (r : RNode)
    (h : readTree H f ml t = .ok r) : FromDisk H ml t r := by
  cases t with
  | dir es =>
    rw [readTree_eq] at h
    by_cases hb : badL f ml es
    · simp [hb] at h
    · simp only [hb, Bool.false_eq_true, if_false, Except.ok.injEq] at h
      subst h
      intro c hs
      have := (subNode_refilter f c).1 _ hs
      have hw := (fromDisk_walkP H f ml).1 (.dir es)
      simp only [walkP] at hw
      exact hw c this
  | file m d => simp [readTree] at h
  | symlink t => simp [readTree] at h
  | special m => simp [readTree] at h

/-- a content carries the git blob id and the length of its bytes; it is skipped exactly when it
    comes from a regular file (lazy data) longer than the limit -/
def Content.Good (H : Bytes → Bytes) (ml : Option Nat) (c : Content) : Prop :=
  c.sha1git = H (Hash.gitBlob c.data) ∧ c.length = c.data.length ∧
    c.skipped = (!c.eager && tooLarge ml c.data.length)

theorem good_of_readNode (H : Bytes → Bytes) (ml : Option Nat) (s : FsNode) (c : Content)
    (h : RNode.content c = readNode H ml s) : c.Good H ml ∧ s.bytes = some c.data := by
  cases s with
  | dir es => simp [readNode, walkP] at h
  | file m d => simp only [readNode, walkP, RNode.content.injEq] at h; subst h; exact ⟨⟨rfl, rfl, rfl⟩, rfl⟩
  | symlink t => simp only [readNode, walkP, RNode.content.injEq] at h; subst h; exact ⟨⟨rfl, rfl, rfl⟩, rfl⟩
  | special m => simp only [readNode, walkP, RNode.content.injEq] at h; subst h; exact ⟨⟨rfl, rfl, rfl⟩, rfl⟩

theorem subNode_trans {a b c : RNode} (h1 : SubNode a b) (h2 : SubNode b c) : SubNode a c := by
  induction h2 with
  | refl => exact h1
  | child k c' es hm _ ih => exact SubNode.child a k c' es hm ih

theorem dirManifest_sortEntries (es : List Entry) : dirManifest (sortEntries es) = dirManifest es := by
  unfold dirManifest dirBody
  have : sortEntries (sortEntries es) = sortEntries es := by
    unfold sortEntries sortByKey
    exact List.mergeSort_of_pairwise (sortByKey_sorted entryKey es)
  rw [this]

theorem toModelDir_check (H : Bytes → Bytes) (es : List (Bytes × RNode)) :
    (toModelDir H es).check H = true := by
  simp [DirObj.check, toModelDir, dirManifest_sortEntries]

end Swh.Fs
