import SwhVerif.Lemmas.SwhidBasic
/-! Decimal numbers and the `lines` qualifier. -/
namespace Swh

/-! ### digit characters -/

theorem isDigitC_of_mem : ∀ c ∈ decDigits, isDigitC c = true := by decide
theorem isLowerHexC_of_mem : ∀ c ∈ hexDigits, isLowerHexC c = true := by decide

theorem mem_decDigits_of_isDigitC (c : Char) (h : isDigitC c = true) : c ∈ decDigits := by
  simp only [isDigitC, Bool.and_eq_true, decide_eq_true_eq] at h
  have hc := Char.ofNat_toNat c
  have : c.toNat = 48 ∨ c.toNat = 49 ∨ c.toNat = 50 ∨ c.toNat = 51 ∨ c.toNat = 52 ∨ c.toNat = 53
      ∨ c.toNat = 54 ∨ c.toNat = 55 ∨ c.toNat = 56 ∨ c.toNat = 57 := by omega
  rcases this with e | e | e | e | e | e | e | e | e | e <;> (rw [e] at hc; rw [← hc]; decide)

theorem mem_hexDigits_of_isLowerHexC (c : Char) (h : isLowerHexC c = true) : c ∈ hexDigits := by
  simp only [isLowerHexC, Bool.or_eq_true, Bool.and_eq_true, decide_eq_true_eq] at h
  have hc := Char.ofNat_toNat c
  have : c.toNat = 48 ∨ c.toNat = 49 ∨ c.toNat = 50 ∨ c.toNat = 51 ∨ c.toNat = 52 ∨ c.toNat = 53
      ∨ c.toNat = 54 ∨ c.toNat = 55 ∨ c.toNat = 56 ∨ c.toNat = 57 ∨ c.toNat = 97 ∨ c.toNat = 98
      ∨ c.toNat = 99 ∨ c.toNat = 100 ∨ c.toNat = 101 ∨ c.toNat = 102 := by omega
  rcases this with e | e | e | e | e | e | e | e | e | e | e | e | e | e | e | e <;>
    (rw [e] at hc; rw [← hc]; decide)

theorem isDigitC_iff (c : Char) : isDigitC c = true ↔ c ∈ decDigits :=
  ⟨mem_decDigits_of_isDigitC c, isDigitC_of_mem c⟩

theorem isLowerHexC_iff (c : Char) : isLowerHexC c = true ↔ c ∈ hexDigits :=
  ⟨mem_hexDigits_of_isLowerHexC c, isLowerHexC_of_mem c⟩

/-! ### printing numbers -/

theorem decStr_digits (n : Nat) : ∀ c ∈ decStr n, isDigitC c = true := by
  intro c hc
  obtain ⟨b, hb, rfl⟩ := mem_bytesStr hc
  have := natBase_bytes 8 n (by omega) b hb
  simp [isDigitC, byteChar_toNat, this.1, this.2]

theorem decStr_ne_nil (n : Nat) : decStr n ≠ [] := by
  simp [decStr, bytesStr, dec, natBase_ne_nil]

theorem decStr_length (n : Nat) : (decStr n).length = (dec n).length := bytesStr_length _

theorem digit_props (c : Char) (h : isDigitC c = true) :
    c ≠ '-' ∧ c ≠ ';' ∧ c ≠ '=' ∧ c ≠ '%' ∧ isPySpace c = false := by
  have h1 : ∀ c ∈ decDigits,
      c ≠ '-' ∧ c ≠ ';' ∧ c ≠ '=' ∧ c ≠ '%' ∧ isPySpace c = false := by decide
  exact h1 c (mem_decDigits_of_isDigitC c h)

theorem dash_not_mem_decStr (n : Nat) : '-' ∉ decStr n :=
  fun h => (digit_props _ (decStr_digits n _ h)).1 rfl

theorem pyInt_decStr (lim : Option Nat) (n : Nat) (h : withinLimit lim (dec n).length = true) :
    pyInt lim (decStr n) = .ok n := by
  unfold pyInt
  have h1 : (decStr n).all isDigitC = true := List.all_eq_true.mpr (decStr_digits n)
  rw [decStr_length, h1, h]
  simp only [Bool.and_self, if_true, decStr, asciiBytes_bytesStr, parseDec_dec]

/-- number of decimal digits -/
theorem toBaseRev_length_le (k n : Nat) (h : n < 10 ^ (k + 1)) : (toBaseRev 8 n).length ≤ k + 1 := by
  induction k generalizing n with
  | zero =>
    unfold toBaseRev
    have : n < 8 + 2 := by simpa using h
    simp [this]
  | succ k ih =>
    unfold toBaseRev
    split
    · simp
    · have : n / (8 + 2) < 10 ^ (k + 1) := by
        apply Nat.div_lt_of_lt_mul
        rw [Nat.pow_succ] at h
        omega
      have := ih _ this
      simp only [List.length_cons]
      omega

theorem dec_length_le_pow (k n : Nat) (hk : 1 ≤ k) (h : n < 10 ^ k) : (dec n).length ≤ k := by
  obtain ⟨k', rfl⟩ : ∃ k', k = k' + 1 := ⟨k - 1, by omega⟩
  simpa [dec, natBase] using toBaseRev_length_le k' n h

theorem withinLimit_of_lt (n : Nat) (h : n < 10 ^ maxDigits) :
    withinLimit (some maxDigits) (dec n).length = true := by
  simp only [withinLimit, decide_eq_true_eq]
  exact dec_length_le_pow maxDigits n (by decide) h

/-! ### reading numbers -/

theorem foldl_digits_lt (bs : Bytes) (h : ∀ b ∈ bs, 48 ≤ b.toNat ∧ b.toNat ≤ 57) (acc : Nat) :
    bs.foldl (fun a b => a * (8 + 2) + (b.toNat - 48)) acc < (acc + 1) * 10 ^ bs.length := by
  induction bs generalizing acc with
  | nil => simp
  | cons b bs ih =>
    simp only [List.foldl_cons, List.length_cons]
    have hb := h b (by simp)
    have := ih (fun x hx => h x (by simp [hx])) (acc * (8 + 2) + (b.toNat - 48))
    refine Nat.lt_of_lt_of_le this ?_
    rw [Nat.pow_succ, Nat.mul_comm (10 ^ bs.length) 10, ← Nat.mul_assoc]
    apply Nat.mul_le_mul_right
    omega

theorem asciiBytes_digit (c : Char) (h : isDigitC c = true) :
    (UInt8.ofNat c.toNat).toNat = c.toNat := by
  simp only [isDigitC, Bool.and_eq_true, decide_eq_true_eq] at h
  rw [UInt8.toNat_ofNat']; exact Nat.mod_eq_of_lt (by omega)

theorem pyInt_ok (lim : Option Nat) (a : Str) (n : Nat) (h : pyInt lim a = .ok n) :
    a ≠ [] ∧ (∀ c ∈ a, isDigitC c = true) ∧ withinLimit lim a.length = true ∧ n < 10 ^ a.length := by
  unfold pyInt at h
  split at h
  · rename_i hc
    simp only [Bool.and_eq_true, List.all_eq_true] at hc
    split at h
    · rename_i m hp
      simp only [Except.ok.injEq] at h
      subst h
      simp only [parseDec, parseNatBase] at hp
      split at hp
      · simp at hp
      · rename_i hne
        split at hp
        · simp only [Option.some.injEq] at hp
          refine ⟨?_, hc.1, hc.2, ?_⟩
          · intro e; subst e; simp [asciiBytes] at hne
          · rw [← hp]
            have := foldl_digits_lt (asciiBytes a) (by
              intro b hb
              simp only [asciiBytes, List.mem_map] at hb
              obtain ⟨c, hca, rfl⟩ := hb
              have hd := hc.1 c hca
              rw [asciiBytes_digit c hd]
              simpa [isDigitC] using hd) 0
            simpa [digitsVal, asciiBytes] using this
        · simp at hp
    · simp at h
  · simp at h

theorem pyInt_of_digits (lim : Option Nat) (a : Str) (hne : a ≠ [])
    (hd : ∀ c ∈ a, isDigitC c = true) (hl : withinLimit lim a.length = true) :
    ∃ n, pyInt lim a = .ok n := by
  unfold pyInt
  have h1 : a.all isDigitC = true := List.all_eq_true.mpr hd
  simp only [h1, hl, Bool.and_self, if_true]
  have h2 : (asciiBytes a).isEmpty = false := by
    cases a with
    | nil => exact absurd rfl hne
    | cons _ _ => rfl
  have h3 : (asciiBytes a).all (isDigitBase 8) = true := by
    rw [List.all_eq_true]
    intro b hb
    simp only [asciiBytes, List.mem_map] at hb
    obtain ⟨c, hca, rfl⟩ := hb
    have := hd c hca
    simp only [isDigitBase, asciiBytes_digit c this]
    simp only [isDigitC, Bool.and_eq_true, decide_eq_true_eq] at this
    simp; omega
  simp [parseDec, parseNatBase, h2, h3]

theorem pyInt_within (lim : Option Nat) (a : Str) (n : Nat) (h : pyInt lim a = .ok n) :
    withinLimit lim (dec n).length = true := by
  obtain ⟨hne, _, hl, hlt⟩ := pyInt_ok lim a n h
  cases lim with
  | none => rfl
  | some m =>
    simp only [withinLimit, decide_eq_true_eq] at hl ⊢
    have h1 : 1 ≤ a.length := by
      cases a with
      | nil => exact absurd rfl hne
      | cons _ _ => simp
    exact Nat.le_trans (dec_length_le_pow a.length n h1 hlt) hl

/-! ### the `lines` qualifier -/

/-- line numbers that `int` can read back -/
def LinesWF (lim : Option Nat) : Nat × Option Nat → Prop
  | (a, none) => withinLimit lim (dec a).length = true
  | (a, some b) => withinLimit lim (dec a).length = true ∧ withinLimit lim (dec b).length = true

theorem parseLines_printLines (lim : Option Nat) (l : Nat × Option Nat) (h : LinesWF lim l) :
    parseLines lim (printLines l) = .ok l := by
  obtain ⟨a, b⟩ := l
  cases b with
  | none =>
    simp only [LinesWF] at h
    simp [parseLines, parseLinesRaw, printLines, dash_not_mem_decStr, pyInt_decStr lim a h,
      bind, Except.bind, wrapValueError]
  | some b =>
    simp only [LinesWF] at h
    have hs : splitOnL '-' (decStr a ++ '-' :: decStr b) = [decStr a, decStr b] := by
      rw [splitOnL_append _ _ _ (dash_not_mem_decStr a), splitOnL_not_mem _ _ (dash_not_mem_decStr b)]
    simp [parseLines, parseLinesRaw, printLines, hs, pyInt_decStr lim a h.1, pyInt_decStr lim b h.2,
      bind, Except.bind, wrapValueError]

theorem isNumber_iff (lim : Option Nat) (a : Str) : IsNumber lim a ↔ ∃ n, pyInt lim a = .ok n := by
  constructor
  · rintro ⟨hne, hd, hl⟩
    exact pyInt_of_digits lim a hne (fun c hc => isDigitC_of_mem c (hd c hc)) hl
  · rintro ⟨n, hn⟩
    obtain ⟨hne, hd, hl, _⟩ := pyInt_ok lim a n hn
    exact ⟨hne, fun c hc => mem_decDigits_of_isDigitC c (hd c hc), hl⟩

theorem isNumber_no_dash (lim : Option Nat) (a : Str) (h : IsNumber lim a) : '-' ∉ a :=
  fun hm => (digit_props _ (isDigitC_of_mem _ (h.2.1 _ hm))).1 rfl

/-- the parser of `lines` accepts exactly `digits` and `digits-digits` -/
theorem parseLines_ok_iff (lim : Option Nat) (v : Str) :
    (∃ l, parseLines lim v = .ok l) ↔ LinesShape lim v := by
  constructor
  · rintro ⟨l, hl⟩
    unfold parseLines parseLinesRaw at hl
    split at hl
    · -- a dash
      split at hl
      · rename_i a b hs
        cases ha : pyInt lim a with
        | error e => simp [ha, bind, Except.bind] at hl; cases e <;> simp [wrapValueError] at hl
        | ok x =>
          cases hb : pyInt lim b with
          | error e => simp [ha, hb, bind, Except.bind] at hl; cases e <;> simp [wrapValueError] at hl
          | ok y =>
            have hj := joinSep_splitOnL '-' v
            rw [hs] at hj
            refine ⟨a, (isNumber_iff lim a).mpr ⟨x, ha⟩, Or.inr ⟨b, (isNumber_iff lim b).mpr ⟨y, hb⟩, ?_⟩⟩
            simpa [joinSep] using hj.symm
      · simp [wrapValueError] at hl
    · cases ha : pyInt lim v with
      | error e => simp [ha, bind, Except.bind] at hl; cases e <;> simp [wrapValueError] at hl
      | ok x => exact ⟨v, (isNumber_iff lim v).mpr ⟨x, ha⟩, Or.inl rfl⟩
  · rintro ⟨a, ha, hv⟩
    obtain ⟨x, hx⟩ := (isNumber_iff lim a).mp ha
    rcases hv with rfl | ⟨b, hb, rfl⟩
    · refine ⟨(x, none), ?_⟩
      simp [parseLines, parseLinesRaw, isNumber_no_dash lim _ ha, hx, bind, Except.bind,
        wrapValueError]
    · obtain ⟨y, hy⟩ := (isNumber_iff lim b).mp hb
      have hs : splitOnL '-' (a ++ '-' :: b) = [a, b] := by
        rw [splitOnL_append _ _ _ (isNumber_no_dash lim a ha),
          splitOnL_not_mem _ _ (isNumber_no_dash lim b hb)]
      refine ⟨(x, some y), ?_⟩
      simp [parseLines, parseLinesRaw, hs, hx, hy, bind, Except.bind, wrapValueError]

/-- values produced by the parser can be read back after printing -/
theorem parseLines_wf (lim : Option Nat) (v : Str) (l : Nat × Option Nat)
    (h : parseLines lim v = .ok l) : LinesWF lim l := by
  unfold parseLines parseLinesRaw at h
  split at h
  · split at h
    · rename_i a b hs
      cases ha : pyInt lim a with
      | error e => simp [ha, bind, Except.bind] at h; cases e <;> simp [wrapValueError] at h
      | ok x =>
        cases hb : pyInt lim b with
        | error e => simp [ha, hb, bind, Except.bind] at h; cases e <;> simp [wrapValueError] at h
        | ok y =>
          simp [ha, hb, bind, Except.bind, wrapValueError] at h
          subst h
          exact ⟨pyInt_within lim a x ha, pyInt_within lim b y hb⟩
    · simp [wrapValueError] at h
  · cases ha : pyInt lim v with
    | error e => simp [ha, bind, Except.bind] at h; cases e <;> simp [wrapValueError] at h
    | ok x =>
      simp [ha, bind, Except.bind, wrapValueError] at h
      subst h
      exact pyInt_within lim v x ha

/-- the parser of `lines` never fails with anything but the validation error -/
theorem parseLines_clean (lim : Option Nat) (v : Str) :
    (∃ l, parseLines lim v = .ok l) ∨ parseLines lim v = .error .validation := by
  have pc : ∀ a, (∃ n, pyInt lim a = .ok n) ∨ pyInt lim a = .error .valueError := by
    intro a; unfold pyInt; split
    · split
      · exact Or.inl ⟨_, rfl⟩
      · exact Or.inr rfl
    · exact Or.inr rfl
  unfold parseLines parseLinesRaw
  split
  · split
    · rename_i a b _
      rcases pc a with ⟨x, hx⟩ | hx
      · rcases pc b with ⟨y, hy⟩ | hy
        · left; simp [hx, hy, bind, Except.bind, wrapValueError]
        · right; simp [hx, hy, bind, Except.bind, wrapValueError]
      · right; simp [hx, bind, Except.bind, wrapValueError]
    · right; rfl
  · rcases pc v with ⟨x, hx⟩ | hx
    · left; simp [hx, bind, Except.bind, wrapValueError]
    · right; simp [hx, bind, Except.bind, wrapValueError]

end Swh
