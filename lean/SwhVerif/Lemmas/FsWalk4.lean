import SwhVerif.Lemmas.FsWalk3
/-! Pass 2 of `from_disk` as coded: deleting, along any list of directory paths in which a path
    never comes before one of its extensions, every directory the filter rejects on its
    current children = the structural `refilter`. -/
namespace Swh.Fs
open Swh

/-! ### more dictionary algebra -/

theorem dictDel_cons_ne {α} (c k : Bytes) (v : α) (E : List (Bytes × α)) (h : c ≠ k) :
    dictDel c ((k, v) :: E) = (k, v) :: dictDel c E := by simp [dictDel, Ne.symm h]

theorem dictSet_cons_ne {α} (c k : Bytes) (v w : α) (E : List (Bytes × α)) (h : c ≠ k) :
    dictSet c w ((k, v) :: E) = (k, v) :: dictSet c w E := by simp [dictSet, Ne.symm h]

theorem dictDel_comm {α} (c k : Bytes) (E : List (Bytes × α)) :
    dictDel c (dictDel k E) = dictDel k (dictDel c E) := by
  induction E with
  | nil => rfl
  | cons x r ih =>
    obtain ⟨a, v⟩ := x
    by_cases h1 : a = k
    · by_cases h2 : a = c
      · subst h1; subst h2; rfl
      · subst h1; simp [dictDel, h2]
    · by_cases h2 : a = c
      · subst h2; simp [dictDel, h1]
      · simp [dictDel, h1, h2, ih]

theorem dictSet_dictDel_comm {α} (c k : Bytes) (v : α) (E : List (Bytes × α)) (h : c ≠ k)
    (hc : (assoc c E).isSome) : dictSet c v (dictDel k E) = dictDel k (dictSet c v E) := by
  induction E with
  | nil => simp [assoc] at hc
  | cons x r ih =>
    obtain ⟨a, w⟩ := x
    by_cases h1 : a = k
    · subst h1; simp [dictDel, dictSet, Ne.symm h]
    · by_cases h2 : a = c
      · subst h2; simp [dictDel, dictSet, h1]
      · simp only [assoc, h2, if_false] at hc
        simp [dictDel, dictSet, h1, h2, ih hc]

theorem dictSet_comm {α} (c k : Bytes) (v w : α) (E : List (Bytes × α)) (h : c ≠ k)
    (hc : (assoc c E).isSome) (hk : (assoc k E).isSome) :
    dictSet c v (dictSet k w E) = dictSet k w (dictSet c v E) := by
  induction E with
  | nil => simp [assoc] at hc
  | cons x r ih =>
    obtain ⟨a, u⟩ := x
    by_cases h1 : a = k
    · subst h1; simp [dictSet, Ne.symm h]
    · by_cases h2 : a = c
      · subst h2; simp [dictSet, h1]
      · simp only [assoc, h2, h1, if_false] at hc hk
        simp [dictSet, h1, h2, ih hc hk]

/-! ### one iteration, purely -/

/-- `dirpath and not path_filter(path, name, list(node.keys()))` -/
def rejects (f : PathFilter) (p : List Bytes) (es : List (Bytes × RNode)) : Bool :=
  match p with
  | [] => false
  | _ :: _ => !f (p.getLastD []) (some (names es))

/-- one iteration of `for dirpath in reversed(traversal)` -/
def stepAt (f : PathFilter) (p : List Bytes) (t : RNode) : RNode :=
  match getAt t p with
  | some (.directory es) => if rejects f p es then delAt p t else t
  | _ => t

theorem rejects_single (f : PathFilter) (c : Bytes) (es : List (Bytes × RNode)) :
    rejects f [c] es = !f c (some (names es)) := rfl

theorem rejects_cons_cons (f : PathFilter) (c c2 : Bytes) (r : List Bytes) (es : List (Bytes × RNode)) :
    rejects f (c :: c2 :: r) es = rejects f (c2 :: r) es := by
  simp only [rejects, List.getLastD_cons]

/-- what a step does to the entry it goes through -/
inductive Op where
  | keep
  | del
  | set (v : RNode)

def opOf (f : PathFilter) (c : Bytes) (q : List Bytes) : Option RNode → Op
  | none => .keep
  | some X =>
    match q with
    | [] =>
      match X with
      | .directory es => if !f c (some (names es)) then .del else .keep
      | .content _ => .keep
    | c2 :: r => .set (stepAt f (c2 :: r) X)

def opApply (c : Bytes) : Op → List (Bytes × RNode) → List (Bytes × RNode)
  | .keep, E => E
  | .del, E => dictDel c E
  | .set v, E => dictSet c v E

/-- the effect of a step on the entries of the directory the path starts from -/
def stepE (f : PathFilter) (c : Bytes) (q : List Bytes) (E : List (Bytes × RNode)) : List (Bytes × RNode) :=
  opApply c (opOf f c q (assoc c E)) E

def stepP (f : PathFilter) (E : List (Bytes × RNode)) (p : List Bytes) : List (Bytes × RNode) :=
  match p with
  | [] => E
  | c :: q => stepE f c q E

def foldSteps (f : PathFilter) (L : List (List Bytes)) (t : RNode) : RNode :=
  L.foldl (fun t p => stepAt f p t) t

theorem stepAt_nil (f : PathFilter) (t : RNode) : stepAt f [] t = t := by
  unfold stepAt
  cases t <;> simp [getAt, rejects]

theorem stepAt_content (f : PathFilter) (p : List Bytes) (c : Content) : stepAt f p (.content c) = .content c := by
  unfold stepAt
  cases p <;> simp [getAt]

theorem stepAt_cons (f : PathFilter) (c : Bytes) (q : List Bytes) (E : List (Bytes × RNode)) :
    stepAt f (c :: q) (.directory E) = .directory (stepE f c q E) := by
  unfold stepE
  cases q with
  | nil =>
    unfold stepAt
    simp only [getAt]
    cases ha : assoc c E with
    | none => rfl
    | some X =>
      cases X with
      | content cc => rfl
      | directory es =>
        simp only [getAt, rejects_single, opOf]
        by_cases h : f c (some (names es)) = true <;> simp [h, delAt, opApply]
  | cons c2 r =>
    cases ha : assoc c E with
    | none => simp [stepAt, getAt, ha, opOf, opApply]
    | some X =>
      simp only [opOf, opApply]
      unfold stepAt
      simp only [getAt, ha]
      cases hg : getAt X (c2 :: r) with
      | none => simp [dictSet_self c X E ha]
      | some Y =>
        cases Y with
        | content cc => simp [dictSet_self c X E ha]
        | directory es =>
          simp only [rejects_cons_cons]
          by_cases h : rejects f (c2 :: r) es = true
          · simp [h, delAt, ha]
          · simp [h, dictSet_self c X E ha]

theorem foldSteps_directory (f : PathFilter) (L : List (List Bytes)) (E : List (Bytes × RNode)) :
    foldSteps f L (.directory E) = .directory (L.foldl (stepP f) E) := by
  unfold foldSteps
  induction L generalizing E with
  | nil => rfl
  | cons p L ih =>
    cases p with
    | nil => simp only [List.foldl_cons, stepAt_nil, stepP]; exact ih E
    | cons c q => simp only [List.foldl_cons, stepAt_cons, stepP]; exact ih _

theorem foldSteps_content (f : PathFilter) (L : List (List Bytes)) (c : Content) :
    foldSteps f L (.content c) = .content c := by
  unfold foldSteps
  induction L with
  | nil => rfl
  | cons p L ih => simp only [List.foldl_cons, stepAt_content]; exact ih

/-! ### steps below different entries commute -/

theorem assoc_opApply_ne (c k : Bytes) (o : Op) (E : List (Bytes × RNode)) (h : k ≠ c) :
    assoc k (opApply c o E) = assoc k E := by
  cases o with
  | keep => rfl
  | del => exact assoc_dictDel_ne k c E h
  | set v => exact assoc_dictSet_ne k c v E h

theorem opOf_set_isSome (f : PathFilter) (c : Bytes) (q : List Bytes) (a : Option RNode) (v : RNode)
    (h : opOf f c q a = .set v) : a.isSome := by
  cases a with
  | none => simp [opOf] at h
  | some X => rfl

theorem opApply_comm (c k : Bytes) (o o' : Op) (E : List (Bytes × RNode)) (h : c ≠ k)
    (hc : ∀ v, o = .set v → (assoc c E).isSome) (hk : ∀ v, o' = .set v → (assoc k E).isSome) :
    opApply c o (opApply k o' E) = opApply k o' (opApply c o E) := by
  cases o with
  | keep => rfl
  | del =>
    cases o' with
    | keep => rfl
    | del => exact dictDel_comm c k E
    | set w => exact (dictSet_dictDel_comm k c w E (Ne.symm h) (hk w rfl)).symm
  | set v =>
    cases o' with
    | keep => rfl
    | del => exact dictSet_dictDel_comm c k v E h (hc v rfl)
    | set w => exact dictSet_comm c k v w E h (hc v rfl) (hk w rfl)

theorem stepE_comm (f : PathFilter) (c k : Bytes) (q q' : List Bytes) (E : List (Bytes × RNode))
    (h : c ≠ k) : stepE f c q (stepE f k q' E) = stepE f k q' (stepE f c q E) := by
  unfold stepE
  rw [assoc_opApply_ne k c _ E h, assoc_opApply_ne c k _ E (Ne.symm h)]
  exact opApply_comm c k _ _ E h (fun v hv => opOf_set_isSome f c q _ v hv)
    (fun v hv => opOf_set_isSome f k q' _ v hv)

end Swh.Fs
