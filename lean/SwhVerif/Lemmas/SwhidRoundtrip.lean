import SwhVerif.Lemmas.SwhidClasses
/-! `QualifiedSWHID.from_string(str(v)) == v`. -/
namespace Swh

/-! ### what printed qualifier values are made of -/

/-- neither `;` nor whitespace -/
def CleanStr (s : Str) : Prop := ';' ∉ s ∧ ∀ c ∈ s, isPySpace c = false

theorem CleanStr.append {a b : Str} (ha : CleanStr a) (hb : CleanStr b) : CleanStr (a ++ b) := by
  refine ⟨by simp [ha.1, hb.1], ?_⟩
  intro c hc
  rcases List.mem_append.mp hc with h | h
  · exact ha.2 c h
  · exact hb.2 c h

theorem CleanStr.of_forall {s : Str} (h : ∀ c ∈ s, c ≠ ';' ∧ isPySpace c = false) : CleanStr s :=
  ⟨fun hm => (h _ hm).1 rfl, fun c hc => (h c hc).2⟩

theorem CleanStr.flatMap {α} {l : List α} {f : α → Str} (h : ∀ a ∈ l, CleanStr (f a)) :
    CleanStr (l.flatMap f) := by
  induction l with
  | nil => exact ⟨by simp, by simp⟩
  | cons x xs ih =>
    rw [List.flatMap_cons]
    exact (h x (by simp)).append (ih (fun a ha => h a (by simp [ha])))

theorem safeChar_clean (b : Byte) (h : isSafeByte b = true) :
    byteChar b ≠ ';' ∧ isPySpace (byteChar b) = false := by
  have e := byteChar_toNat b
  simp only [isSafeByte, Bool.or_eq_true, Bool.and_eq_true, decide_eq_true_eq, beq_iff_eq] at h
  constructor
  · intro hc
    have : (byteChar b).toNat = 59 := by rw [hc]; rfl
    omega
  · simp only [isPySpace, e, Bool.or_eq_false_iff, Bool.and_eq_false_iff, decide_eq_false_iff_not,
      beq_eq_false_iff_ne]
    omega

theorem quoteByte_clean (b : Byte) : CleanStr (quoteByte b) := by
  apply CleanStr.of_forall
  intro c hc
  unfold quoteByte at hc
  have hb := UInt8.toNat_lt b
  split at hc
  · rename_i hs
    simp only [List.mem_singleton] at hc
    subst hc
    exact safeChar_clean b hs
  · simp only [List.mem_cons, List.not_mem_nil, or_false] at hc
    rcases hc with rfl | rfl | rfl
    · decide
    · exact hexUpper_props ⟨b.toNat / 16, by omega⟩
    · exact hexUpper_props ⟨b.toNat % 16, by omega⟩

theorem quoteFromBytes_clean (b : Bytes) : CleanStr (quoteFromBytes b) :=
  CleanStr.flatMap (fun x _ => quoteByte_clean x)

theorem escChar_clean (c : Char) : CleanStr (escChar c) := by
  unfold escChar
  split
  · exact ⟨by decide, by decide⟩
  · split
    · exact ⟨by decide, by decide⟩
    · split
      · exact quoteFromBytes_clean _
      · rename_i h1 h2 h3
        refine ⟨by simpa using fun e => h2 e.symm, ?_⟩
        intro x hx
        simp only [List.mem_singleton] at hx
        subst hx
        simpa using h3

theorem escapeOrigin_clean (o : Str) : CleanStr (escapeOrigin o) := by
  rw [escapeOrigin_eq]
  exact CleanStr.flatMap (fun c _ => escChar_clean c)

theorem hexChar_clean (c : Char) (h : isLowerHexC c = true) : c ≠ ';' ∧ isPySpace c = false := by
  have h1 : ∀ c ∈ hexDigits, c ≠ ';' ∧ isPySpace c = false := by decide
  exact h1 c (mem_hexDigits_of_isLowerHexC c h)

theorem tags_clean : ∀ t ∈ reTags, CleanStr t := by
  have : ∀ t ∈ reTags, ';' ∉ t ∧ ∀ c ∈ t, isPySpace c = false := by decide
  exact this

theorem corePrefix_clean : CleanStr corePrefix := by
  rw [corePrefix_eq]; exact ⟨by decide, by decide⟩

theorem printBase_clean (b : BaseSwhid) (ht : b.objectType ∈ reTags) : CleanStr (printBase b) := by
  unfold printBase
  refine (corePrefix_clean.append (tags_clean _ ht)).append ?_
  have : CleanStr (hexStrOf b.objectId) :=
    CleanStr.of_forall (fun c hc => hexChar_clean c (hexStrOf_hex _ c hc))
  refine ⟨?_, ?_⟩
  · simp only [List.mem_cons, not_or]; exact ⟨by decide, this.1⟩
  · intro c hc
    simp only [List.mem_cons] at hc
    rcases hc with rfl | hc
    · decide
    · exact this.2 c hc

theorem decStr_clean (n : Nat) : CleanStr (decStr n) :=
  CleanStr.of_forall (fun c hc =>
    ⟨(digit_props c (decStr_digits n c hc)).2.1, (digit_props c (decStr_digits n c hc)).2.2.2.2⟩)

theorem printLines_clean (l : Nat × Option Nat) : CleanStr (printLines l) := by
  obtain ⟨a, b⟩ := l
  cases b with
  | none => exact decStr_clean a
  | some b =>
    refine (decStr_clean a).append ⟨?_, ?_⟩
    · simp only [List.mem_cons, not_or]; exact ⟨by decide, (decStr_clean b).1⟩
    · intro c hc
      simp only [List.mem_cons] at hc
      rcases hc with rfl | hc
      · decide
      · exact (decStr_clean b).2 c hc

theorem escapeOrigin_nil : escapeOrigin [] = [] := rfl

theorem origin_text (o : Str) : (if o.isEmpty then o else escapeOrigin o) = escapeOrigin o := by
  cases o with
  | nil => rfl
  | cons _ _ => rfl

/-! ### well-formed values (what the constructors guarantee) -/

structure BaseWF (tags : List Str) (b : BaseSwhid) : Prop where
  ty : b.objectType ∈ tags
  id : b.objectId.length = 20

structure QualWF (lim : Option Nat) (v : QualSwhid) : Prop where
  ty : v.objectType ∈ coreTags
  id : v.objectId.length = 20
  visit : ∀ b, v.visit = some b → BaseWF visitTags b
  anchor : ∀ b, v.anchor = some b → BaseWF anchorTags b
  lines : ∀ l, v.lines = some l → LinesWF lim l

/-! ### the qualifier list as a dictionary -/

theorem keys_ne :
    qkOrigin ≠ qkVisit ∧ qkOrigin ≠ qkAnchor ∧ qkOrigin ≠ qkPath ∧ qkOrigin ≠ qkLines ∧ qkVisit ≠ qkOrigin ∧
    qkVisit ≠ qkAnchor ∧ qkVisit ≠ qkPath ∧ qkVisit ≠ qkLines ∧ qkAnchor ≠ qkOrigin ∧ qkAnchor ≠ qkVisit ∧
    qkAnchor ≠ qkPath ∧ qkAnchor ≠ qkLines ∧ qkPath ≠ qkOrigin ∧ qkPath ≠ qkVisit ∧ qkPath ≠ qkAnchor ∧
    qkPath ≠ qkLines ∧ qkLines ≠ qkOrigin ∧ qkLines ≠ qkVisit ∧ qkLines ≠ qkAnchor ∧ qkLines ≠ qkPath := by
  decide

/-- the five optional texts as a qualifier list, in printing order -/
def qualsOf (o vi an pa li : Option Str) : List (Str × Str) :=
  optQual qkOrigin id o ++ optQual qkVisit id vi ++ optQual qkAnchor id an ++ optQual qkPath id pa ++
    optQual qkLines id li

theorem optQual_map {α} (k : Str) (f : α → Str) (x : Option α) :
    optQual k f x = optQual k id (x.map f) := by cases x <;> rfl

theorem qualifierList_eq (v : QualSwhid) :
    qualifierList v = qualsOf (v.origin.map escapeOrigin) (v.visit.map printBase)
      (v.anchor.map printBase) (v.path.map quoteFromBytes) (v.lines.map printLines) := by
  unfold qualifierList qualsOf
  rw [optQual_map qkOrigin, optQual_map qkVisit, optQual_map qkAnchor, optQual_map qkPath,
    optQual_map qkLines]
  congr 5
  cases v.origin with
  | none => rfl
  | some o => simp only [Option.map_some, optQual, origin_text, id]

theorem dictGet_qualsOf (o vi an pa li : Option Str) :
    dictGet (qualsOf o vi an pa li).reverse qkOrigin = o ∧
    dictGet (qualsOf o vi an pa li).reverse qkVisit = vi ∧
    dictGet (qualsOf o vi an pa li).reverse qkAnchor = an ∧
    dictGet (qualsOf o vi an pa li).reverse qkPath = pa ∧
    dictGet (qualsOf o vi an pa li).reverse qkLines = li := by
  obtain ⟨h1, h2, h3, h4, h5, h6, h7, h8, h9, h10, h11, h12, h13, h14, h15, h16, h17, h18, h19,
    h20⟩ := keys_ne
  cases o <;> cases vi <;> cases an <;> cases pa <;> cases li <;>
    simp [qualsOf, optQual, dictGet, h1, h2, h3, h4, h5, h6, h7, h8, h9, h10, h11, h12, h13, h14,
      h15, h16, h17, h18, h19, h20]

theorem qualsOf_keys (o vi an pa li : Option Str) :
    ∀ kv ∈ qualsOf o vi an pa li, kv.1 ∈ fieldNames := by
  intro kv hkv
  cases o <;> cases vi <;> cases an <;> cases pa <;> cases li <;>
    simp [qualsOf, optQual] at hkv <;>
    (first
      | (rcases hkv with rfl | rfl | rfl | rfl | rfl <;> simp [fieldNames])
      | (rcases hkv with rfl | rfl | rfl | rfl <;> simp [fieldNames])
      | (rcases hkv with rfl | rfl | rfl <;> simp [fieldNames])
      | (rcases hkv with rfl | rfl <;> simp [fieldNames])
      | (subst hkv; simp [fieldNames]))

theorem fieldNames_clean :
    ∀ k ∈ fieldNames, '=' ∉ k ∧ ';' ∉ k ∧ (∀ c ∈ k, isPySpace c = false) ∧ k ∈ qualKeys := by
  decide

theorem qualsOf_vals (o vi an pa li : Option Str) (P : Str → Prop)
    (ho : ∀ x, o = some x → P x) (hvi : ∀ x, vi = some x → P x) (han : ∀ x, an = some x → P x)
    (hpa : ∀ x, pa = some x → P x) (hli : ∀ x, li = some x → P x) :
    ∀ kv ∈ qualsOf o vi an pa li, P kv.2 := by
  intro kv hkv
  simp only [qualsOf, List.mem_append] at hkv
  have aux : ∀ (k : Str) (x : Option Str), kv ∈ optQual k id x → x = some kv.2 := by
    intro k x hx
    cases x with
    | none => simp [optQual] at hx
    | some y => simp [optQual] at hx; subst hx; rfl
  rcases hkv with (((h | h) | h) | h) | h
  · exact ho _ (aux _ _ h)
  · exact hvi _ (aux _ _ h)
  · exact han _ (aux _ _ h)
  · exact hpa _ (aux _ _ h)
  · exact hli _ (aux _ _ h)

theorem printQualified_eq (v : QualSwhid) :
    printQualified v = printBase v.base ++ qualText (qualifierList v) := rfl

theorem qualifierList_clean (lim : Option Nat) (v : QualSwhid) (h : QualWF lim v) :
    ChunksClean (qualifierList v) := by
  rw [qualifierList_eq]
  intro kv hkv
  obtain ⟨k1, k2, k3, _⟩ := fieldNames_clean kv.1 (qualsOf_keys _ _ _ _ _ kv hkv)
  have hv : CleanStr kv.2 := by
    apply qualsOf_vals _ _ _ _ _ CleanStr _ _ _ _ _ kv hkv
    · intro x hx
      cases ho : v.origin with
      | none => simp [ho] at hx
      | some o => simp [ho] at hx; subst hx; exact escapeOrigin_clean o
    · intro x hx
      cases hvv : v.visit with
      | none => simp [hvv] at hx
      | some b =>
        simp [hvv] at hx; subst hx
        exact printBase_clean b (coreTags_sub_reTags _ (visitTags_sub _ (h.visit b hvv).ty))
    · intro x hx
      cases hvv : v.anchor with
      | none => simp [hvv] at hx
      | some b =>
        simp [hvv] at hx; subst hx
        exact printBase_clean b (coreTags_sub_reTags _ (anchorTags_sub _ (h.anchor b hvv).ty))
    · intro x hx
      cases hp : v.path with
      | none => simp [hp] at hx
      | some p => simp [hp] at hx; subst hx; exact quoteFromBytes_clean p
    · intro x hx
      cases hl : v.lines with
      | none => simp [hl] at hx
      | some l => simp [hl] at hx; subst hx; exact printLines_clean l
  exact ⟨k1, k2, hv.1, k3, hv.2⟩

theorem optConv_print (tags : List Str) (hsub : ∀ t ∈ tags, t ∈ coreTags) (x : Option BaseSwhid)
    (h : ∀ b, x = some b → BaseWF tags b) :
    optConv coreFromString (x.map printBase) = .ok x := by
  cases x with
  | none => rfl
  | some b =>
    have hb := h b rfl
    have : coreFromString (printBase b) = .ok b :=
      (coreFromString_iff _ b).mpr ⟨hsub _ hb.ty, hb.id, rfl⟩
    simp [optConv, this, bind, Except.bind]

/-- **`QualifiedSWHID.from_string(str(v)) == v`** for every well-formed value -/
theorem qualFromStringW_print (lim : Option Nat) (v : QualSwhid) (h : QualWF lim v) :
    qualFromStringW lim (printQualified v) = .ok v := by
  rw [qualFromStringW_ok]
  have hc := qualifierList_clean lim v h
  refine ⟨⟨v.objectType, v.objectId, (qualifierList v).reverse⟩, ?_, ?_, ?_⟩
  · exact parseParts_render v.objectType v.objectId _ (coreTags_sub_reTags _ h.ty) h.id hc
  · intro kv hkv
    simp only [List.mem_reverse] at hkv
    rw [qualifierList_eq] at hkv
    exact (fieldNames_clean kv.1 (qualsOf_keys _ _ _ _ _ kv hkv)).2.2.2
  · simp only [mkFromDict]
    rw [qualifierList_eq]
    obtain ⟨d1, d2, d3, d4, d5⟩ := dictGet_qualsOf (v.origin.map escapeOrigin) (v.visit.map printBase)
      (v.anchor.map printBase) (v.path.map quoteFromBytes) (v.lines.map printLines)
    rw [d1, d2, d3, d4, d5, mkQualified_ok]
    refine ⟨h.ty, h.id, optConv_print visitTags visitTags_sub _ h.visit,
      optConv_print anchorTags anchorTags_sub _ h.anchor, ?_, ?_, ?_, ?_⟩
    · cases hl : v.lines with
      | none => rfl
      | some l =>
        simp [optConv, parseLines_printLines lim l (h.lines l hl), bind, Except.bind]
    · rw [checkRefType_ok]; intro b hb; exact (h.visit b hb).ty
    · rw [checkRefType_ok]; intro b hb; exact (h.anchor b hb).ty
    · obtain ⟨t, id, o, vi, an, pa, li⟩ := v
      simp only [QualSwhid.mk.injEq, true_and]
      constructor
      · cases o with
        | none => simp
        | some o => simp [pyUnquote_escapeOrigin]
      · cases pa with
        | none => simp
        | some p => simp [unquoteToBytes_quoteFromBytes]

end Swh
