import SwhVerif.Model.Merkle
/-!
# Merkle cache: heap API, relations between heaps, `invalidate` (C10/C14 helper lemmas, part 1)
-/
namespace Swh.Merkle
variable {H : Type}

/-! ### heap API -/
namespace Heap

@[simp] theorem size_modify (h : Heap H) (i : Id) (f : Node H → Node H) :
    (h.modify i f).size = h.size := by simp [modify, size]

theorem get_of_ge (h : Heap H) (i : Id) (hi : h.size ≤ i) : h.get i = Node.blank := by
  unfold get size at *
  rw [Array.getD_eq_getD_getElem?, Array.getElem?_eq_none hi]; rfl

theorem get_modify (h : Heap H) (i : Id) (f : Node H → Node H) (j : Id) (hi : i < h.size) :
    (h.modify i f).get j = if j = i then f (h.get i) else h.get j := by
  unfold get modify size at *
  simp only [Array.getD_eq_getD_getElem?, Array.getElem?_modify]
  by_cases hji : j = i
  · subst hji; simp [hi]
  · have : ¬ i = j := fun e => hji e.symm
    simp [hji, this]

/-- for modifications that fix the blank node no bound on `i` is needed -/
theorem get_modify_blank (h : Heap H) (i : Id) (f : Node H → Node H) (j : Id)
    (hf : f Node.blank = Node.blank) :
    (h.modify i f).get j = if j = i then f (h.get i) else h.get j := by
  by_cases hi : i < h.size
  · exact get_modify h i f j hi
  · have hge : h.size ≤ i := Nat.le_of_not_lt hi
    have hm : h.modify i f = h := by
      unfold modify size at *
      congr 1
      apply Array.ext_getElem?
      intro k
      rw [Array.getElem?_modify]
      by_cases hik : i = k
      · subst hik; simp [Array.getElem?_eq_none hge]
      · simp [hik]
    rw [hm]
    by_cases hji : j = i
    · subst hji; simp [get_of_ge h j hge, hf]
    · simp [hji]

theorem get_modify_ne (h : Heap H) (i : Id) (f : Node H → Node H) (j : Id) (hji : j ≠ i) :
    (h.modify i f).get j = h.get j := by
  unfold get modify
  simp only [Array.getD_eq_getD_getElem?, Array.getElem?_modify]
  have : ¬ i = j := fun e => hji e.symm
  simp [this]

@[simp] theorem size_push (h : Heap H) (nd : Node H) : (h.push nd).size = h.size + 1 := by
  simp [push, size]

theorem get_push (h : Heap H) (nd : Node H) (j : Id) :
    (h.push nd).get j = if j = h.size then nd else h.get j := by
  unfold get push size
  simp only [Array.getD_eq_getD_getElem?, Array.getElem?_push]
  by_cases hj : j = h.nodes.size <;> simp [hj]

@[simp] theorem size_empty : (Heap.empty : Heap H).size = 0 := rfl
theorem get_empty (j : Id) : (Heap.empty : Heap H).get j = Node.blank := get_of_ge _ _ (Nat.zero_le _)

end Heap

/-! ### views and relations -/

/-- ids of the children of `p`, in dict order, with multiplicity -/
def kids (h : Heap H) (p : Id) : List Id := (h.get p).children.map (·.2)

def Node.hasAny (nd : Node H) : Bool :=
  nd.cache.isSome || nd.entriesCache.isSome || nd.modelCache.isSome

/-- same nodes, same kinds, same links -/
structure SameStruct (h h' : Heap H) : Prop where
  size : h'.size = h.size
  data : ∀ n, (h'.get n).data = (h.get n).data
  isDir : ∀ n, (h'.get n).isDir = (h.get n).isDir
  isLeaf : ∀ n, (h'.get n).isLeaf = (h.get n).isLeaf
  children : ∀ n, (h'.get n).children = (h.get n).children
  parents : ∀ n, (h'.get n).parents = (h.get n).parents

theorem SameStruct.refl (h : Heap H) : SameStruct h h :=
  ⟨rfl, fun _ => rfl, fun _ => rfl, fun _ => rfl, fun _ => rfl, fun _ => rfl⟩

theorem SameStruct.trans {a b c : Heap H} (h1 : SameStruct a b) (h2 : SameStruct b c) :
    SameStruct a c :=
  ⟨h2.size.trans h1.size, fun n => (h2.data n).trans (h1.data n),
   fun n => (h2.isDir n).trans (h1.isDir n), fun n => (h2.isLeaf n).trans (h1.isLeaf n),
   fun n => (h2.children n).trans (h1.children n), fun n => (h2.parents n).trans (h1.parents n)⟩

theorem SameStruct.symm {a b : Heap H} (h1 : SameStruct a b) : SameStruct b a :=
  ⟨h1.size.symm, fun n => (h1.data n).symm, fun n => (h1.isDir n).symm,
   fun n => (h1.isLeaf n).symm, fun n => (h1.children n).symm, fun n => (h1.parents n).symm⟩

theorem SameStruct.kids {a b : Heap H} (h1 : SameStruct a b) (p : Id) : kids b p = kids a p := by
  unfold Merkle.kids; rw [h1.children]

/-- a modification of one node that keeps its structural fields -/
theorem SameStruct.modify (h : Heap H) (i : Id) (f : Node H → Node H)
    (hf : ∀ x, (f x).data = x.data ∧ (f x).isDir = x.isDir ∧ (f x).isLeaf = x.isLeaf ∧
      (f x).children = x.children ∧ (f x).parents = x.parents) :
    SameStruct h (h.modify i f) := by
  have key : ∀ n, (h.modify i f).get n = h.get n ∨ (h.modify i f).get n = f (h.get n) := by
    intro n
    by_cases hn : n = i
    · by_cases hi : i < h.size
      · right; rw [Heap.get_modify h i f n hi, if_pos hn, hn]
      · left
        have hge : h.size ≤ i := Nat.le_of_not_lt hi
        subst hn
        rw [Heap.get_of_ge h n hge, Heap.get_of_ge _ n (by simpa using hge)]
    · left; exact Heap.get_modify_ne h i f n hn
  refine ⟨Heap.size_modify h i f, ?_, ?_, ?_, ?_, ?_⟩ <;> intro n <;>
    rcases key n with e | e <;> rw [e] <;> simp [hf]

/-- caches are only cleared, never set or changed; `collected` is cleared with the hash -/
structure Shrinks (h h' : Heap H) : Prop extends SameStruct h h' where
  cache : ∀ n, (h'.get n).cache = (h.get n).cache ∨ (h'.get n).cache = none
  ent : ∀ n, (h'.get n).entriesCache = (h.get n).entriesCache ∨ (h'.get n).entriesCache = none
  mod : ∀ n, (h'.get n).modelCache = (h.get n).modelCache ∨ (h'.get n).modelCache = none
  coll : ∀ n, (h'.get n).collected = true →
    (h.get n).collected = true ∧ (h'.get n).cache = (h.get n).cache

theorem Shrinks.refl (h : Heap H) : Shrinks h h :=
  { SameStruct.refl h with
    cache := fun _ => .inl rfl, ent := fun _ => .inl rfl, mod := fun _ => .inl rfl,
    coll := fun _ hc => ⟨hc, rfl⟩ }

theorem Shrinks.trans {a b c : Heap H} (h1 : Shrinks a b) (h2 : Shrinks b c) : Shrinks a c :=
  { h1.toSameStruct.trans h2.toSameStruct with
    cache := fun n => by
      rcases h2.cache n with e | e
      · rw [e]; exact h1.cache n
      · exact .inr e
    ent := fun n => by
      rcases h2.ent n with e | e
      · rw [e]; exact h1.ent n
      · exact .inr e
    mod := fun n => by
      rcases h2.mod n with e | e
      · rw [e]; exact h1.mod n
      · exact .inr e
    coll := fun n hc => by
      obtain ⟨hb, eb⟩ := h2.coll n hc
      obtain ⟨ha, ea⟩ := h1.coll n hb
      exact ⟨ha, eb.trans ea⟩ }

theorem Shrinks.hasAny {a b : Heap H} (h1 : Shrinks a b) (n : Id)
    (hb : (b.get n).hasAny = true) : (a.get n).hasAny = true := by
  have key : ∀ {α} (x' x : Option α), (x' = x ∨ x' = none) → x'.isSome = true → x.isSome = true := by
    intro α x' x hx hs
    rcases hx with e | e
    · rw [← e]; exact hs
    · rw [e] at hs; cases hs
  simp only [Node.hasAny, Bool.or_eq_true] at *
  rcases hb with (hb | hb) | hb
  · exact .inl (.inl (key _ _ (h1.cache n) hb))
  · exact .inl (.inr (key _ _ (h1.ent n) hb))
  · exact .inr (key _ _ (h1.mod n) hb)

theorem Shrinks.hasAny_false {a b : Heap H} (h1 : Shrinks a b) (n : Id)
    (ha : (a.get n).hasAny = false) : (b.get n).hasAny = false := by
  cases hb : (b.get n).hasAny
  · rfl
  · rw [h1.hasAny n hb] at ha; exact absurd ha (by decide)

/-- `NoNewViolation`: caches only shrink and no edge `p → c` with `p` still holding a cache has
its child's hash cleared. -/
structure NNV (h h' : Heap H) : Prop extends Shrinks h h' where
  edge : ∀ p c, c ∈ kids h p → (h'.get p).hasAny = true → (h'.get c).cache = none →
    (h.get c).cache = none

theorem NNV.refl (h : Heap H) : NNV h h := { Shrinks.refl h with edge := fun _ _ _ _ e => e }

theorem NNV.trans {a b c : Heap H} (h1 : NNV a b) (h2 : NNV b c) : NNV a c :=
  { h1.toShrinks.trans h2.toShrinks with
    edge := fun p d hk hp hd => by
      have hk' : d ∈ kids b p := by rw [h1.toSameStruct.kids]; exact hk
      have := h2.edge p d hk' hp hd
      exact h1.edge p d hk (h2.toShrinks.hasAny p hp) this }

/-! ### counting cached nodes -/

def cachedCount (h : Heap H) : Nat :=
  (List.range h.size).countP (fun i => (h.get i).cache.isSome)

theorem cached_lt (h : Heap H) (n : Id) (hc : (h.get n).cache ≠ none) : n < h.size := by
  apply Nat.lt_of_not_le
  intro hge
  rw [Heap.get_of_ge h n hge] at hc
  exact hc rfl

theorem countP_lt_of {α} (p q : α → Bool) (l : List α) (hpq : ∀ x ∈ l, p x = true → q x = true)
    (a : α) (ha : a ∈ l) (hq : q a = true) (hp : p a = false) :
    l.countP p < l.countP q := by
  induction l with
  | nil => cases ha
  | cons x t ih =>
    have hmono : t.countP p ≤ t.countP q :=
      List.countP_mono_left (fun y hy => hpq y (List.mem_cons_of_mem _ hy))
    rcases List.mem_cons.mp ha with rfl | hat
    · simp [hq, hp]; omega
    · have := ih (fun y hy => hpq y (List.mem_cons_of_mem _ hy)) hat
      have hx := hpq x (List.mem_cons_self)
      simp only [List.countP_cons]
      cases hpx : p x
      · cases hqx : q x <;> simp <;> omega
      · simp [hx hpx]; omega

theorem cachedCount_le {h h' : Heap H} (s : Shrinks h h') : cachedCount h' ≤ cachedCount h := by
  unfold cachedCount
  rw [s.size]
  apply List.countP_mono_left
  intro x _ hx
  rcases s.cache x with e | e
  · rw [← e]; exact hx
  · rw [e] at hx; cases hx

theorem cachedCount_lt {h h' : Heap H} (s : Shrinks h h') (n : Id)
    (hc : (h.get n).cache ≠ none) (hc' : (h'.get n).cache = none) :
    cachedCount h' < cachedCount h := by
  unfold cachedCount
  rw [s.size]
  apply countP_lt_of _ _ _ _ n
  · exact List.mem_range.mpr (cached_lt h n hc)
  · cases hh : (h.get n).cache
    · exact absurd hh hc
    · rfl
  · rw [hc']; rfl
  · intro x _ hx
    rcases s.cache x with e | e
    · rw [← e]; exact hx
    · rw [e] at hx; cases hx

theorem cache_none_of_count_zero (h : Heap H) (n : Id) (h0 : cachedCount h = 0) :
    (h.get n).cache = none := by
  cases hc : (h.get n).cache with
  | none => rfl
  | some v =>
    exfalso
    have hlt := cached_lt h n (by rw [hc]; exact Option.some_ne_none v)
    unfold cachedCount at h0
    have : 0 < (List.range h.size).countP (fun i => (h.get i).cache.isSome) :=
      List.countP_pos_iff.mpr ⟨n, List.mem_range.mpr hlt, by simp [hc]⟩
    omega

/-! ### the two elementary clearing steps -/

theorem clearDerived_blank : (Node.blank : Node H).clearDerived = Node.blank := rfl
theorem clearHash_blank : (Node.blank : Node H).clearHash = Node.blank := rfl

theorem get_clearDerived (h : Heap H) (n j : Id) :
    (h.modify n Node.clearDerived).get j = if j = n then (h.get n).clearDerived else h.get j :=
  Heap.get_modify_blank h n _ j clearDerived_blank

theorem get_clearHash (h : Heap H) (n j : Id) :
    (h.modify n Node.clearHash).get j = if j = n then (h.get n).clearHash else h.get j :=
  Heap.get_modify_blank h n _ j clearHash_blank

theorem nnv_clearDerived (h : Heap H) (n : Id) : NNV h (h.modify n Node.clearDerived) := by
  have hg := get_clearDerived h n
  refine { SameStruct.modify h n _ (fun x => by simp [Node.clearDerived]) with
    cache := ?_, ent := ?_, mod := ?_, coll := ?_, edge := ?_ }
  · intro j; rw [hg]; by_cases e : j = n <;> simp [e, Node.clearDerived]
  · intro j; rw [hg]; by_cases e : j = n <;> simp [e, Node.clearDerived]
  · intro j; rw [hg]; by_cases e : j = n <;> simp [e, Node.clearDerived]
  · intro j; rw [hg]; by_cases e : j = n <;> simp [e, Node.clearDerived]
  · intro p c _ _ hc
    rw [hg] at hc
    by_cases e : c = n
    · subst e; simpa [Node.clearDerived] using hc
    · simpa [e] using hc

theorem shrinks_clearHash (h : Heap H) (n : Id) : Shrinks h (h.modify n Node.clearHash) := by
  have hg := get_clearHash h n
  refine { SameStruct.modify h n _ (fun x => by simp [Node.clearHash]) with
    cache := ?_, ent := ?_, mod := ?_, coll := ?_ }
  · intro j; rw [hg]; by_cases e : j = n <;> simp [e, Node.clearHash]
  · intro j; rw [hg]; by_cases e : j = n <;> simp [e, Node.clearHash]
  · intro j; rw [hg]; by_cases e : j = n <;> simp [e, Node.clearHash]
  · intro j; rw [hg]; by_cases e : j = n <;> simp [e, Node.clearHash]

/-! ### `invalidate` -/

/-- back-links, membership form: every edge `p → c` has `p ∈ parents c` -/
def BackLinks (h : Heap H) : Prop := ∀ p c, c ∈ kids h p → p ∈ (h.get c).parents

theorem BackLinks.of_same {h h' : Heap H} (s : SameStruct h h') (b : BackLinks h) :
    BackLinks h' := by
  intro p c hc
  rw [s.kids] at hc
  rw [s.parents]
  exact b p c hc

/-- the loop `for parent in self.parents: parent.invalidate_hash()` -/
theorem invalidate_fold (f : Nat)
    (ih : ∀ (g : Heap H) (p : Id), BackLinks g → cachedCount g ≤ f →
      NNV g (invalidate f g p) ∧ ((invalidate f g p).get p).hasAny = false) :
    ∀ (ps : List Id) (g : Heap H), BackLinks g → cachedCount g ≤ f →
      NNV g (ps.foldl (fun g p => invalidate f g p) g) ∧
      ∀ p ∈ ps, ((ps.foldl (fun g p => invalidate f g p) g).get p).hasAny = false := by
  intro ps
  induction ps with
  | nil => intro g _ _; exact ⟨NNV.refl g, fun p hp => by cases hp⟩
  | cons q t iht =>
    intro g bl hc
    obtain ⟨n1, a1⟩ := ih g q bl hc
    have bl1 := bl.of_same n1.toSameStruct
    have hc1 : cachedCount (invalidate f g q) ≤ f := Nat.le_trans (cachedCount_le n1.toShrinks) hc
    obtain ⟨n2, a2⟩ := iht (invalidate f g q) bl1 hc1
    simp only [List.foldl_cons]
    refine ⟨n1.trans n2, ?_⟩
    intro p hp
    rcases List.mem_cons.mp hp with rfl | hpt
    · exact n2.toShrinks.hasAny_false _ a1
    · exact a2 p hpt

/-- **Propagation lemma.** With back-links and enough fuel, `invalidate` creates no new
violation and leaves `n` without any cache. -/
theorem invalidate_nnv : ∀ (fuel : Nat) (h : Heap H) (n : Id), BackLinks h → cachedCount h ≤ fuel →
    NNV h (invalidate fuel h n) ∧ ((invalidate fuel h n).get n).hasAny = false := by
  intro fuel
  induction fuel with
  | zero =>
    intro h n _ hc
    have h0 : (h.get n).cache = none := cache_none_of_count_zero h n (Nat.le_zero.mp hc)
    refine ⟨nnv_clearDerived h n, ?_⟩
    simp [invalidate, get_clearDerived, Node.hasAny, Node.clearDerived, h0]
  | succ f ih =>
    intro h n bl hc
    have n1 := nnv_clearDerived h n
    simp only [invalidate]
    have hg1 := get_clearDerived h n
    by_cases hnone : ((h.modify n Node.clearDerived).get n).cache.isNone = true
    · rw [if_pos hnone]
      refine ⟨n1, ?_⟩
      rw [hg1] at hnone ⊢
      simp [Node.clearDerived] at hnone
      simp [Node.hasAny, Node.clearDerived, hnone]
    · rw [if_neg hnone]
      -- h1 : derived caches of n cleared; h2 : hash of n cleared
      let h1 := h.modify n Node.clearDerived
      let h2 := h1.modify n Node.clearHash
      have hcached1 : (h1.get n).cache ≠ none := by
        intro e; apply hnone; show (h1.get n).cache.isNone = true; rw [e]; rfl
      have s2 : Shrinks h1 h2 := shrinks_clearHash h1 n
      have hg2 := get_clearHash h1 n
      have hnone2 : (h2.get n).hasAny = false := by
        show ((h1.modify n Node.clearHash).get n).hasAny = false
        rw [hg2, if_pos rfl]
        show ((h.modify n Node.clearDerived).get n).clearHash.hasAny = false
        rw [hg1, if_pos rfl]
        simp [Node.hasAny, Node.clearDerived, Node.clearHash]
      have bl1 : BackLinks h1 := bl.of_same n1.toSameStruct
      have bl2 : BackLinks h2 := bl1.of_same s2.toSameStruct
      have hc1 : cachedCount h1 ≤ f + 1 := Nat.le_trans (cachedCount_le n1.toShrinks) hc
      have hc2 : cachedCount h2 ≤ f := by
        have := cachedCount_lt s2 n hcached1 (by
          show ((h1.modify n Node.clearHash).get n).cache = none
          rw [hg2, if_pos rfl]; rfl)
        omega
      obtain ⟨nf, af⟩ := invalidate_fold f ih (h1.get n).parents h2 bl2 hc2
      show NNV h ((h1.get n).parents.foldl (fun g p => invalidate f g p) h2) ∧ _
      generalize hg' : (h1.get n).parents.foldl (fun g p => invalidate f g p) h2 = g' at nf af
      have s02 : Shrinks h h2 := n1.toShrinks.trans s2
      refine ⟨{ s02.trans nf.toShrinks with edge := ?_ }, nf.toShrinks.hasAny_false n hnone2⟩
      intro p c hk hp hcn
      -- in h2 the only cleared hash is the one of n
      have hk1 : c ∈ kids h1 p := by rw [n1.toSameStruct.kids]; exact hk
      have hk2 : c ∈ kids h2 p := by rw [s2.toSameStruct.kids]; exact hk1
      have hc2n := nf.edge p c hk2 hp hcn
      by_cases hcn' : c = n
      · subst hcn'
        exfalso
        have hpar : p ∈ (h1.get c).parents := bl1 p c hk1
        have := af p hpar
        rw [this] at hp; cases hp
      · have e2 : (h2.get c).cache = (h1.get c).cache := by
          show ((h1.modify n Node.clearHash).get c).cache = _
          rw [hg2, if_neg hcn']
        have e1 : (h1.get c).cache = (h.get c).cache := by
          show ((h.modify n Node.clearDerived).get c).cache = _
          rw [hg1, if_neg hcn']
        rw [← e1, ← e2]; exact hc2n

end Swh.Merkle
