import SwhVerif.Lemmas.SwhidLines
/-! `_parse_swhid`: the regular expression, the qualifier loop, `hash_to_bytes`. -/
namespace Swh

/-! ### hex ids -/

theorem unhexDigit_hexDigit (a : Byte) (x : Nat) (h : unhexDigit a = some x) :
    hexDigit x = a ∧ x < 16 := by
  unfold unhexDigit at h
  have ha := UInt8.toNat_lt a
  split at h
  · rename_i h1
    simp only [Bool.and_eq_true, decide_eq_true_eq] at h1
    simp only [Option.some.injEq] at h; subst h
    refine ⟨?_, by omega⟩
    have : a.toNat - 48 < 10 := by omega
    simp only [hexDigit, this, if_true]
    have : 48 + (a.toNat - 48) = a.toNat := by omega
    rw [this]; exact UInt8.ofNat_toNat
  · split at h
    · rename_i h1 h2
      simp only [Bool.and_eq_true, decide_eq_true_eq] at h2
      simp only [Option.some.injEq] at h; subst h
      refine ⟨?_, by omega⟩
      have : ¬ (a.toNat - 87 < 10) := by omega
      simp only [hexDigit, this, if_false]
      have : 87 + (a.toNat - 87) = a.toNat := by omega
      rw [this]; exact UInt8.ofNat_toNat
    · simp at h

theorem hexLower_unhexLower : ∀ (bs id : Bytes), unhexLower bs = some id → hexLower id = bs
  | [], id, h => by simp [unhexLower] at h; subst h; rfl
  | [_], id, h => by simp [unhexLower] at h
  | a :: b :: rest, id, h => by
    simp only [unhexLower] at h
    split at h
    · rename_i x y r hx hy hr
      simp only [Option.some.injEq] at h
      subst h
      obtain ⟨e1, l1⟩ := unhexDigit_hexDigit a x hx
      obtain ⟨e2, l2⟩ := unhexDigit_hexDigit b y hy
      have hn : (UInt8.ofNat (x * 16 + y)).toNat = x * 16 + y := by
        rw [UInt8.toNat_ofNat']; exact Nat.mod_eq_of_lt (by omega)
      simp only [hexLower, hn]
      have d1 : (x * 16 + y) / 16 = x := by omega
      have d2 : (x * 16 + y) % 16 = y := by omega
      rw [d1, d2, e1, e2, hexLower_unhexLower rest r hr]
    · simp at h

theorem unhexDigit_total (a : Byte) (h : isLowerHex a = true) : ∃ x, unhexDigit a = some x := by
  unfold unhexDigit
  split
  · exact ⟨_, rfl⟩
  · split
    · exact ⟨_, rfl⟩
    · rename_i h1 h2
      simp only [isLowerHex, Bool.or_eq_true] at h
      rcases h with h | h
      · exact absurd h h1
      · exact absurd h h2

theorem unhexLower_total (n : Nat) (bs : Bytes) (hl : bs.length = 2 * n)
    (h : ∀ b ∈ bs, isLowerHex b = true) : ∃ id, unhexLower bs = some id ∧ id.length = n := by
  induction n generalizing bs with
  | zero =>
    have : bs = [] := List.eq_nil_of_length_eq_zero (by omega)
    subst this; exact ⟨[], rfl, rfl⟩
  | succ n ih =>
    match bs, hl, h with
    | a :: b :: rest, hl, h =>
      obtain ⟨x, hx⟩ := unhexDigit_total a (h a (by simp))
      obtain ⟨y, hy⟩ := unhexDigit_total b (h b (by simp))
      obtain ⟨r, hr, hrl⟩ := ih rest (by simp at hl; omega) (fun c hc => h c (by simp [hc]))
      exact ⟨UInt8.ofNat (x * 16 + y) :: r, by simp [unhexLower, hx, hy, hr], by simp [hrl]⟩
    | [], hl, _ => simp at hl
    | [_], hl, _ => simp at hl; omega

theorem isLowerHexC_byte (c : Char) (h : isLowerHexC c = true) :
    isLowerHex (UInt8.ofNat c.toNat) = true := by
  simp only [isLowerHexC, Bool.or_eq_true, Bool.and_eq_true, decide_eq_true_eq] at h
  have : (UInt8.ofNat c.toNat).toNat = c.toNat := by
    rw [UInt8.toNat_ofNat']; exact Nat.mod_eq_of_lt (by omega)
  simp only [isLowerHex, this, Bool.or_eq_true, Bool.and_eq_true, decide_eq_true_eq]
  exact h

theorem hexStrOf_hex (id : Bytes) : ∀ c ∈ hexStrOf id, isLowerHexC c = true := by
  intro c hc
  obtain ⟨b, hb, rfl⟩ := mem_bytesStr hc
  have := hexLower_all id b hb
  simpa [isLowerHexC, isLowerHex, byteChar_toNat] using this

theorem hexStrOf_length (id : Bytes) : (hexStrOf id).length = 2 * id.length := by
  simp [hexStrOf, bytesStr_length, hexLower_length]

theorem hashToBytes_hexStrOf (id : Bytes) : hashToBytes (hexStrOf id) = .ok id := by
  simp [hashToBytes, hexStrOf, asciiBytes_bytesStr, unhexLower_hexLower]

/-- a text of `2n` lower-case hex digits is the hex form of exactly one `n`-byte id -/
theorem hashToBytes_total (n : Nat) (h : Str) (hl : h.length = 2 * n)
    (hh : ∀ c ∈ h, isLowerHexC c = true) :
    ∃ id, hashToBytes h = .ok id ∧ id.length = n ∧ h = hexStrOf id := by
  have h1 : ∀ b ∈ asciiBytes h, isLowerHex b = true := by
    intro b hb
    simp only [asciiBytes, List.mem_map] at hb
    obtain ⟨c, hc, rfl⟩ := hb
    exact isLowerHexC_byte c (hh c hc)
  obtain ⟨id, hid, hlen⟩ := unhexLower_total n (asciiBytes h) (by simpa [asciiBytes] using hl) h1
  refine ⟨id, by simp [hashToBytes, hid], hlen, ?_⟩
  have := hexLower_unhexLower _ _ hid
  unfold hexStrOf
  rw [this, bytesStr_asciiBytes]
  intro c hc
  have := hh c hc
  simp only [isLowerHexC, Bool.or_eq_true, Bool.and_eq_true, decide_eq_true_eq] at this
  omega

theorem hashToBytes_ok (h : Str) (id : Bytes) (hh : ∀ c ∈ h, isLowerHexC c = true)
    (hl : h.length = 40) (hok : hashToBytes h = .ok id) : id.length = 20 ∧ h = hexStrOf id := by
  obtain ⟨id', h1, h2, h3⟩ := hashToBytes_total 20 h (by omega) hh
  rw [h1] at hok
  simp only [Except.ok.injEq] at hok
  subst hok
  exact ⟨h2, h3⟩

/-! ### the regular expression -/

def tailText : Option Str → Str
  | none => []
  | some q => ';' :: q

/-- side conditions on the `qualifiers` group: `\S+` -/
def TailOK : Option Str → Prop
  | none => True
  | some q => q ≠ [] ∧ ∀ c ∈ q, isPySpace c = false

theorem matchTail_render (t h : Str) (q : Option Str) (hl : h.length = 40)
    (hh : ∀ c ∈ h, isLowerHexC c = true) (hq : TailOK q) :
    matchTail t (h ++ tailText q) = some (t, h, q) := by
  unfold matchTail
  have h1 : (h ++ tailText q).take 40 = h := by rw [← hl]; simp
  have h2 : (h ++ tailText q).drop 40 = tailText q := by rw [← hl]; simp
  have h3 : h.all isLowerHexC = true := List.all_eq_true.mpr hh
  simp only [h1, h2, hl, h3]
  cases q with
  | none => simp [tailText]
  | some q =>
    obtain ⟨hne, hs⟩ := hq
    have h4 : q.isEmpty = false := by cases q <;> simp_all
    have h5 : q.all (fun x => !isPySpace x) = true := by
      rw [List.all_eq_true]; intro c hc; simp [hs c hc]
    simp [tailText, h4, h5]

theorem matchTail_ok (t r t' h : Str) (q : Option Str) (hm : matchTail t r = some (t', h, q)) :
    t' = t ∧ h.length = 40 ∧ (∀ c ∈ h, isLowerHexC c = true) ∧ r = h ++ tailText q ∧ TailOK q := by
  unfold matchTail at hm
  have hr : r = r.take 40 ++ r.drop 40 := (List.take_append_drop 40 r).symm
  by_cases hc : ((r.take 40).length = 40 && (r.take 40).all isLowerHexC) = true
  · rw [if_pos hc] at hm
    simp only [Bool.and_eq_true, decide_eq_true_eq, List.all_eq_true] at hc
    cases hd : r.drop 40 with
    | nil =>
      rw [hd] at hm hr
      simp only [Option.some.injEq, Prod.mk.injEq] at hm
      obtain ⟨rfl, rfl, rfl⟩ := hm
      exact ⟨rfl, hc.1, hc.2, by simpa [tailText] using hr, trivial⟩
    | cons c q' =>
      rw [hd] at hm hr
      simp only at hm
      by_cases hcond : (c = ';' && !q'.isEmpty && q'.all (fun x => !isPySpace x)) = true
      · rw [if_pos hcond] at hm
        simp only [Bool.and_eq_true, decide_eq_true_eq, List.all_eq_true, Bool.not_eq_true',
          ] at hcond
        simp only [Option.some.injEq, Prod.mk.injEq] at hm
        obtain ⟨rfl, rfl, rfl⟩ := hm
        obtain ⟨⟨rfl, hne⟩, hsp⟩ := hcond
        refine ⟨rfl, hc.1, hc.2, by simpa [tailText] using hr, ?_, ?_⟩
        · intro e; subst e; simp at hne
        · intro x hx; simpa using hsp x hx
      · rw [if_neg hcond] at hm; simp at hm
  · rw [if_neg hc] at hm; simp at hm

theorem findSome?_unique {α β} (f : α → Option β) (l : List α) (b : β)
    (h1 : ∃ a ∈ l, f a = some b) (h2 : ∀ a ∈ l, ∀ b', f a = some b' → b' = b) :
    l.findSome? f = some b := by
  induction l with
  | nil => simp at h1
  | cons x xs ih =>
    rw [List.findSome?_cons]
    cases hx : f x with
    | some b' => simp [h2 x (by simp) b' hx]
    | none =>
      simp only
      apply ih
      · obtain ⟨a, ha, hfa⟩ := h1
        simp only [List.mem_cons] at ha
        rcases ha with rfl | ha
        · rw [hx] at hfa; simp at hfa
        · exact ⟨a, ha, hfa⟩
      · exact fun a ha => h2 a (by simp [ha])

theorem matchRe_render (t h : Str) (q : Option Str) (ht : t ∈ reTags) (hl : h.length = 40)
    (hh : ∀ c ∈ h, isLowerHexC c = true) (hq : TailOK q) :
    matchRe (corePrefix ++ t ++ ':' :: h ++ tailText q) = some (t, h, q) := by
  unfold matchRe
  have : corePrefix ++ t ++ ':' :: h ++ tailText q = corePrefix ++ (t ++ ':' :: (h ++ tailText q)) := by
    simp
  rw [this, stripPrefix_append]
  simp only
  apply findSome?_unique
  · refine ⟨t, ht, ?_⟩
    have : t ++ ':' :: (h ++ tailText q) = (t ++ [':']) ++ (h ++ tailText q) := by simp
    rw [this, stripPrefix_append]
    exact matchTail_render t h q hl hh hq
  · intro t' ht' b' hb'
    split at hb'
    · simp at hb'
    · rename_i r2 hs
      have e := stripPrefix_eq_some _ _ _ hs
      have e' : t ++ ':' :: (h ++ tailText q) = t' ++ ':' :: r2 := by simpa using e
      obtain ⟨rfl, rfl⟩ := sep_unique ':' t t' _ _ (reTags_clean t ht).1 (reTags_clean t' ht').1 e'
      rw [matchTail_render t h q hl hh hq] at hb'
      exact (Option.some.inj hb').symm

theorem matchRe_ok (s t h : Str) (q : Option Str) (hm : matchRe s = some (t, h, q)) :
    t ∈ reTags ∧ h.length = 40 ∧ (∀ c ∈ h, isLowerHexC c = true) ∧
      s = corePrefix ++ t ++ ':' :: h ++ tailText q ∧ TailOK q := by
  unfold matchRe at hm
  split at hm
  · simp at hm
  · rename_i r hs
    have e := stripPrefix_eq_some _ _ _ hs
    obtain ⟨l₁, a, l₂, hl, hfa, _⟩ := List.findSome?_eq_some_iff.mp hm
    split at hfa
    · simp at hfa
    · rename_i r2 hs2
      have e2 := stripPrefix_eq_some _ _ _ hs2
      obtain ⟨rfl, h1, h2, h3, h4⟩ := matchTail_ok a r2 t h q hfa
      refine ⟨by rw [reTags] at *; rw [hl]; simp, h1, h2, ?_, h4⟩
      rw [e, e2, h3]; simp

/-! ### the qualifier loop -/

def chunkText (kv : Str × Str) : Str := kv.1 ++ '=' :: kv.2

theorem parseChunks_render (qs d : List (Str × Str)) (h : ∀ kv ∈ qs, '=' ∉ kv.1) :
    parseChunks (qs.map chunkText) d = .ok (qs.reverse ++ d) := by
  induction qs generalizing d with
  | nil => rfl
  | cons kv rest ih =>
    simp only [List.map_cons, parseChunks, chunkText]
    rw [splitFirstL_append '=' kv.1 kv.2 (h kv (by simp))]
    simp only
    rw [ih _ (fun x hx => h x (by simp [hx]))]
    simp

theorem parseChunks_ok (cs : List Str) (d d' : List (Str × Str)) (h : parseChunks cs d = .ok d') :
    ∃ qs : List (Str × Str),
      cs = qs.map chunkText ∧ (∀ kv ∈ qs, '=' ∉ kv.1) ∧ d' = qs.reverse ++ d := by
  induction cs generalizing d with
  | nil =>
    simp only [parseChunks, Except.ok.injEq] at h
    exact ⟨[], rfl, by simp, by simp [h]⟩
  | cons c cs ih =>
    simp only [parseChunks] at h
    split at h
    · simp at h
    · rename_i k v hs
      obtain ⟨e, hk⟩ := splitFirstL_eq_some _ _ _ _ hs
      obtain ⟨qs, h1, h2, h3⟩ := ih _ h
      refine ⟨(k, v) :: qs, by simp [chunkText, h1, e], ?_, by simp [h3]⟩
      intro kv hkv
      simp only [List.mem_cons] at hkv
      rcases hkv with rfl | hkv
      · exact hk
      · exact h2 kv hkv

theorem qualText_cons (kv : Str × Str) (rest : List (Str × Str)) :
    qualText (kv :: rest) = ';' :: joinSep ';' ((kv :: rest).map chunkText) := by
  simp [qualText, joinSep, chunkText, List.flatMap_map]

/-- no `;`, no `=` in keys, no `;` in values, no whitespace anywhere -/
def ChunksClean (qs : List (Str × Str)) : Prop :=
  ∀ kv ∈ qs, '=' ∉ kv.1 ∧ ';' ∉ kv.1 ∧ ';' ∉ kv.2 ∧
    (∀ c ∈ kv.1, isPySpace c = false) ∧ (∀ c ∈ kv.2, isPySpace c = false)

theorem eq_semi_space : isPySpace '=' = false ∧ isPySpace ';' = false := by decide

theorem qualText_no_space (qs : List (Str × Str)) (h : ChunksClean qs) :
    ∀ c ∈ qualText qs, isPySpace c = false := by
  intro c hc
  simp only [qualText, List.mem_flatMap] at hc
  obtain ⟨kv, hkv, hc⟩ := hc
  obtain ⟨_, _, _, h1, h2⟩ := h kv hkv
  simp only [List.mem_cons, List.mem_append] at hc
  rcases hc with (rfl | hc) | rfl | hc
  · exact eq_semi_space.2
  · exact h1 c hc
  · exact eq_semi_space.1
  · exact h2 c hc

theorem chunkText_no_semi (kv : Str × Str) (h1 : ';' ∉ kv.1) (h2 : ';' ∉ kv.2) :
    ';' ∉ chunkText kv := by
  simp only [chunkText, List.mem_append, List.mem_cons, not_or]
  exact ⟨h1, by decide, h2⟩

/-- the qualifier text of a non-empty clean list is `;raw`, and `raw` splits back into it -/
theorem qualText_tail (qs : List (Str × Str)) (hne : qs ≠ []) (h : ChunksClean qs) :
    ∃ raw, qualText qs = tailText (some raw) ∧ TailOK (some raw) ∧
      splitOnL ';' raw = qs.map chunkText := by
  cases qs with
  | nil => exact absurd rfl hne
  | cons kv rest =>
    refine ⟨joinSep ';' ((kv :: rest).map chunkText), qualText_cons kv rest, ⟨?_, ?_⟩, ?_⟩
    · simp [joinSep, chunkText]
    · intro c hc
      have := qualText_no_space (kv :: rest) h c
      rw [qualText_cons] at this
      exact this (List.mem_cons_of_mem _ hc)
    · rw [List.map_cons]
      apply splitOnL_joinSep
      · exact chunkText_no_semi kv (h kv (by simp)).2.1 (h kv (by simp)).2.2.1
      · intro q hq
        simp only [List.mem_map] at hq
        obtain ⟨kv', hkv', rfl⟩ := hq
        exact chunkText_no_semi kv' (h kv' (by simp [hkv'])).2.1 (h kv' (by simp [hkv'])).2.2.1

/-! ### dictionary lookups -/

theorem dictGet_first (d : List (Str × Str)) (k v : Str) (pre post : List (Str × Str))
    (hd : d = pre ++ (k, v) :: post) (hpre : ∀ kv ∈ pre, kv.1 ≠ k) : dictGet d k = some v := by
  subst hd
  induction pre with
  | nil => simp [dictGet]
  | cons x xs ih =>
    obtain ⟨k', v'⟩ := x
    have : k' ≠ k := hpre (k', v') (by simp)
    simp only [List.cons_append, dictGet, this, if_false]
    exact ih (fun kv hkv => hpre kv (by simp [hkv]))

theorem dictGet_some (d : List (Str × Str)) (k v : Str) (h : dictGet d k = some v) :
    ∃ pre post, d = pre ++ (k, v) :: post ∧ ∀ kv ∈ pre, kv.1 ≠ k := by
  induction d with
  | nil => simp [dictGet] at h
  | cons x xs ih =>
    obtain ⟨k', v'⟩ := x
    simp only [dictGet] at h
    split at h
    · rename_i hk
      simp only [Option.some.injEq] at h
      subst hk; subst h
      exact ⟨[], xs, rfl, by simp⟩
    · rename_i hk
      obtain ⟨pre, post, e, hp⟩ := ih h
      refine ⟨(k', v') :: pre, post, by simp [e], ?_⟩
      intro kv hkv
      simp only [List.mem_cons] at hkv
      rcases hkv with rfl | hkv
      · exact hk
      · exact hp kv hkv

theorem dictGet_none (d : List (Str × Str)) (k : Str) (h : dictGet d k = none) :
    ∀ kv ∈ d, kv.1 ≠ k := by
  induction d with
  | nil => simp
  | cons x xs ih =>
    obtain ⟨k', v'⟩ := x
    simp only [dictGet] at h
    split at h
    · simp at h
    · rename_i hk
      intro kv hkv
      simp only [List.mem_cons] at hkv
      rcases hkv with rfl | hkv
      · exact hk
      · exact ih h kv hkv

theorem lastVal_iff (qs : List (Str × Str)) (k v : Str) :
    LastVal qs k v ↔ dictGet qs.reverse k = some v := by
  constructor
  · rintro ⟨pre, post, rfl, hp⟩
    apply dictGet_first _ k v post.reverse pre.reverse (by simp)
    intro kv hkv; exact hp kv (by simpa using hkv)
  · intro h
    obtain ⟨pre, post, e, hp⟩ := dictGet_some _ _ _ h
    refine ⟨post.reverse, pre.reverse, ?_, fun kv hkv => hp kv (by simpa using hkv)⟩
    have := congrArg List.reverse e
    simpa using this

/-! ### `_parse_swhid` -/

def chunksOf (q : Option Str) : Except ErrKind (List (Str × Str)) :=
  match q with
  | none => .ok []
  | some raw => parseChunks (splitOnL ';' raw) []

theorem parseParts_unfold (s : Str) :
    parseParts s = match matchRe s with
      | none => .error .validation
      | some (t, h, q) => chunksOf q >>= fun d => hashToBytes h >>= fun id => .ok ⟨t, id, d⟩ := by
  unfold parseParts chunksOf; rfl

theorem printBase_assoc (t : Str) (id : Bytes) (rest : Str) :
    printBase ⟨t, id⟩ ++ rest = corePrefix ++ t ++ ':' :: hexStrOf id ++ rest := by
  simp [printBase]

theorem parseParts_render (t : Str) (id : Bytes) (qs : List (Str × Str)) (ht : t ∈ reTags)
    (hid : id.length = 20) (hqs : ChunksClean qs) :
    parseParts (printBase ⟨t, id⟩ ++ qualText qs) = .ok ⟨t, id, qs.reverse⟩ := by
  have hl : (hexStrOf id).length = 40 := by rw [hexStrOf_length, hid]
  rw [parseParts_unfold, printBase_assoc]
  by_cases hne : qs = []
  · subst hne
    have := matchRe_render t (hexStrOf id) none ht hl (hexStrOf_hex id) trivial
    simp only [tailText] at this
    simp only [qualText, List.flatMap_nil, this]
    simp [chunksOf, hashToBytes_hexStrOf, bind, Except.bind]
  · obtain ⟨raw, e1, e2, e3⟩ := qualText_tail qs hne hqs
    rw [e1, matchRe_render t (hexStrOf id) (some raw) ht hl (hexStrOf_hex id) e2]
    simp only [chunksOf, e3]
    rw [parseChunks_render qs [] (fun kv hkv => (hqs kv hkv).1)]
    simp [hashToBytes_hexStrOf, bind, Except.bind]

theorem parseParts_ok (s : Str) (p : Parts) (h : parseParts s = .ok p) :
    p.objectType ∈ reTags ∧ p.objectId.length = 20 ∧
    ∃ qs, s = printBase ⟨p.objectType, p.objectId⟩ ++ qualText qs ∧ p.qualifiers = qs.reverse ∧
      ChunksClean qs := by
  rw [parseParts_unfold] at h
  split at h
  · simp at h
  · rename_i t hx q hm
    obtain ⟨ht, hl, hh, hs, hq⟩ := matchRe_ok s t hx q hm
    cases hc : chunksOf q with
    | error e => simp [hc, bind, Except.bind] at h
    | ok d =>
      cases hb : hashToBytes hx with
      | error e => simp [hc, hb, bind, Except.bind] at h
      | ok id =>
        simp only [hc, hb, bind, Except.bind, Except.ok.injEq] at h
        subst h
        obtain ⟨hid, rfl⟩ := hashToBytes_ok hx id hh hl hb
        refine ⟨ht, hid, ?_⟩
        cases q with
        | none =>
          simp only [chunksOf, Except.ok.injEq] at hc
          subst hc
          exact ⟨[], by simp [hs, printBase, qualText, tailText], rfl, by simp [ChunksClean]⟩
        | some raw =>
          simp only [chunksOf] at hc
          obtain ⟨qs, e1, e2, e3⟩ := parseChunks_ok _ _ _ hc
          have hj := joinSep_splitOnL ';' raw
          have hp := splitOnL_pieces ';' raw
          rw [e1] at hj hp
          have hne : qs ≠ [] := by
            intro e; subst e
            exact splitOnL_ne_nil ';' raw (by simpa using e1)
          refine ⟨qs, ?_, by simpa using e3, ?_⟩
          · cases qs with
            | nil => exact absurd rfl hne
            | cons kv rest =>
              rw [qualText_cons, hj, hs]; simp [printBase, tailText]
          · intro kv hkv
            have hns := hp (chunkText kv) (List.mem_map.mpr ⟨kv, hkv, rfl⟩)
            simp only [chunkText, List.mem_append, List.mem_cons, not_or] at hns
            have hsp : ∀ c ∈ chunkText kv, isPySpace c = false := by
              intro c hc'
              apply hq.2 c
              rw [← hj]
              cases qs with
              | nil => exact absurd rfl hne
              | cons kv0 rest =>
                simp only [List.map_cons, joinSep, List.mem_append, List.mem_flatMap, List.mem_map]
                simp only [List.mem_cons] at hkv
                rcases hkv with rfl | hkv
                · exact Or.inl hc'
                · exact Or.inr ⟨_, ⟨kv, hkv, rfl⟩, by simp [hc']⟩
            refine ⟨e2 kv hkv, hns.1, hns.2.2, ?_, ?_⟩
            · intro c hc'; exact hsp c (by simp [chunkText, hc'])
            · intro c hc'; exact hsp c (by simp [chunkText, hc'])

/-- `_parse_swhid` fails only with the validation error -/
theorem parseParts_clean (s : Str) :
    (∃ p, parseParts s = .ok p) ∨ parseParts s = .error .validation := by
  rw [parseParts_unfold]
  split
  · right; rfl
  · rename_i t hx q hm
    obtain ⟨_, hl, hh, _, _⟩ := matchRe_ok s t hx q hm
    obtain ⟨id, hid, _, _⟩ := hashToBytes_total 20 hx (by omega) hh
    have hcc : ∀ cs d, (∃ d', parseChunks cs d = .ok d') ∨ parseChunks cs d = .error .validation := by
      intro cs
      induction cs with
      | nil => intro d; exact Or.inl ⟨d, rfl⟩
      | cons c cs ih =>
        intro d
        simp only [parseChunks]
        split
        · right; rfl
        · exact ih _
    have hc : (∃ d, chunksOf q = .ok d) ∨ chunksOf q = .error .validation := by
      cases q with
      | none => exact Or.inl ⟨[], rfl⟩
      | some raw => exact hcc _ _
    rcases hc with ⟨d, hd⟩ | hd
    · left; exact ⟨⟨t, id, d⟩, by simp [hd, hid, bind, Except.bind]⟩
    · right; simp [hd, bind, Except.bind]

end Swh
