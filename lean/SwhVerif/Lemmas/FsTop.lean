import SwhVerif.Model.Fs
/-! `normalizeTop` (trailing slashes of the top path) and `modeToPerms`. -/
namespace Swh.Fs
open Swh

theorem dropWhile_replicate_append (k : Nat) (l : Bytes) :
    (List.replicate k bSlash ++ l).dropWhile (· == bSlash) = l.dropWhile (· == bSlash) := by
  induction k with
  | zero => simp
  | succ k ih => simp [List.replicate_succ, List.dropWhile_cons, ih]

theorem rstripSlash_append_slashes (q : Bytes) (k : Nat) :
    rstripSlash (q ++ List.replicate k bSlash) = rstripSlash q := by
  unfold rstripSlash
  rw [List.reverse_append, List.reverse_replicate, dropWhile_replicate_append]

theorem rstripSlash_nil : rstripSlash [] = [] := rfl

theorem rstripSlash_of_last (q : Bytes) (x : Byte) (hx : x ≠ bSlash) : rstripSlash (q ++ [x]) = q ++ [x] := by
  unfold rstripSlash
  simp [List.dropWhile_cons, hx]

theorem getLast?_append_replicate (p : Bytes) (k : Nat) :
    (p ++ List.replicate (k + 1) bSlash).getLast? = some bSlash := by
  rw [List.replicate_succ', ← List.append_assoc]; simp

/-- a path that does not end in `'/'` is left alone -/
theorem normalizeTop_id (p : Bytes) (h : p.getLast? ≠ some bSlash) : normalizeTop p = p := by
  unfold normalizeTop; simp [h]

/-- trailing slashes after a non-empty path that does not end in `'/'` are removed -/
theorem normalizeTop_append_slashes (p : Bytes) (hne : p ≠ []) (h : p.getLast? ≠ some bSlash) (k : Nat) :
    normalizeTop (p ++ List.replicate k bSlash) = p := by
  cases k with
  | zero => simpa using normalizeTop_id p h
  | succ k =>
    cases p with
    | nil => exact absurd rfl hne
    | cons a q =>
      have hcond : (decide (1 < ((a :: q) ++ List.replicate (k + 1) bSlash).length) &&
          (((a :: q) ++ List.replicate (k + 1) bSlash).getLast? == some bSlash)) = true := by
        rw [getLast?_append_replicate]; simp; omega
      unfold normalizeTop
      rw [if_pos hcond]
      show [a] ++ rstripSlash (q ++ List.replicate (k + 1) bSlash) = a :: q
      rw [rstripSlash_append_slashes]
      have hq : rstripSlash q = q := by
        rcases List.eq_nil_or_concat q with rfl | ⟨q', x, rfl⟩
        · rfl
        · rw [List.concat_eq_append] at h ⊢
          have hx : x ≠ bSlash := by
            intro e; apply h; subst e
            rw [← List.cons_append, List.getLast?_append]; simp
          exact rstripSlash_of_last q' x hx
      rw [hq]; rfl

/-- `"/"` followed by any number of slashes is `"/"` (`"/"` itself is not touched) -/
theorem normalizeTop_root (k : Nat) : normalizeTop (bSlash :: List.replicate k bSlash) = [bSlash] := by
  cases k with
  | zero => rfl
  | succ k =>
    have h1 : (bSlash :: List.replicate (k + 1) bSlash).getLast? = some bSlash := by
      have := getLast?_append_replicate [bSlash] k
      simpa using this
    have hcond : (decide (1 < (bSlash :: List.replicate (k + 1) bSlash).length) &&
        ((bSlash :: List.replicate (k + 1) bSlash).getLast? == some bSlash)) = true := by
      rw [h1]; simp
    unfold normalizeTop
    rw [if_pos hcond]
    show [bSlash] ++ rstripSlash (List.replicate (k + 1) bSlash) = [bSlash]
    have := rstripSlash_append_slashes [] (k + 1)
    simp only [List.nil_append, rstripSlash_nil] at this
    rw [this]; rfl

/-! ### modes -/

theorem isLnk_symlinkMode : isLnk symlinkMode = true := by decide

theorem modeToPerms_symlinkMode : modeToPerms symlinkMode = Gen.perms_symlink := by decide

theorem modeToPerms_other (m : Nat) (hl : isLnk m = false) (hd : isDir m = false) :
    modeToPerms m = if m &&& 0o111 ≠ 0 then Gen.perms_executable_content else Gen.perms_content := by
  simp [modeToPerms, hl, hd]

theorem isReg_not (m : Nat) (h : isReg m = true) : isLnk m = false ∧ isDir m = false := by
  unfold isReg at h
  have e : m &&& S_IFMT = S_IFREG := by simpa using h
  simp [isLnk, isDir, e, S_IFREG, S_IFLNK, S_IFDIR]

end Swh.Fs
